"""sensitivity check: hand the model a different option than the CLI got; mismatches must appear"""
import json, os, random, sys
sys.path.insert(0, os.path.join(os.path.dirname(os.path.abspath(__file__)), "..", "..", "harness"))
import common, whole
which = sys.argv[1]
orig = whole.q_whole_case
def mutated(c, obs):
    c = dict(c)
    if which == "recursive": c["recursive"] = not c["recursive"]
    if which == "hidden": c["hidden"] = not c["hidden"]
    if which == "sort": c["sort"] = not c["sort"]
    if which == "order":
        obs = dict(obs); obs["order"] = list(reversed(obs["order"]))
    return orig(c, obs)
whole.q_whole_case = mutated
chk = common.Check("C17", "quick", 5)
stats = {}
print(which, whole.whole_stream(chk, random.Random(5), 40, stats), stats.get("whole_mismatches"))
