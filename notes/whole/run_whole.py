"""usage: VERIF_JOBS=6 /venv/bin/python scratch/run_whole.py [n] [seed]"""
import json, os, random, sys
sys.path.insert(0, os.path.join(os.path.dirname(os.path.abspath(__file__)), "..", "..", "harness"))
import common, whole

n = int(sys.argv[1]) if len(sys.argv) > 1 else 200
seed = int(sys.argv[2]) if len(sys.argv) > 2 else 0
chk = common.Check("C17", "quick", seed)
stats = {}
mism, errs = whole.whole_stream(chk, random.Random(seed), n, stats)
print(json.dumps(stats, sort_keys=True))
for f in chk.corr_failures[:5]:
    print("MISMATCH", json.dumps(f, default=str)[:3000])
for f in chk.proof_failures[:3]:
    print("COQ ERROR", f["log"][-2000:])
print("cases=%d mismatches=%d coq_errors=%d" % (n, mism, errs))
sys.exit(1 if (mism or errs) else 0)
