import json, os, random, sys
sys.path.insert(0, os.path.join(os.path.dirname(os.path.abspath(__file__)), "..", "..", "harness"))
import common, whole
base_tree = [("out", "d", None), ("out/keep.txt", "f", "k"), ("in", "d", None), ("in/a.txt", "f", "1"), ("in/B.dat", "f", "2"),
             ("in/.hid", "f", "3"), ("in/sub", "d", None), ("in/sub/c.txt", "f", "4"), ("in/ldir", "l", "sub"), ("in/lfile", "l", "a.txt"),
             ("lin", "l", "in"), ("in2", "d", None), ("in2/z.txt", "f", "5")]
def case(**kw):
    c = {"tree": base_tree, "inputs": ["in"], "mode": "name", "template": "%Upper(){%Base()}%Ext()", "strategy": "stop", "dry": False,
         "recursive": False, "hidden": False, "sort": True, "answers": []}
    c.update(kw); return c
cases = [case(inputs=["nope"]), case(inputs=["in", "nope"]), case(template=""), case(mode="directory", sort=True),
         case(mode="directory", sort=True, template="%Nme()"), case(inputs=["lin"]), case(inputs=["lin", "in2"], template="%Count(width=2)%Ext()"),
         case(), case(hidden=True), case(mode="directory", sort=False, template="%Upper(){%Name()}"),
         case(mode="directory", sort=False, recursive=True, template="%Upper(){%Name()}"),
         case(mode="directory", sort=False, inputs=["in", "in2"], template="%Name()_%Count()"),
         case(mode="path", template="%Dir()/moved/%Name()"), case(mode="path", template="%Dir()/%Name()"),
         case(template="%Name()"), case(template="%Base()%Ext()", recursive=True, sort=False),
         case(inputs=["in", "in"], template="x%Name()"), case(template="%Count(start=1,step=-1)"), case(dry=True),
         case(strategy="ignore", template="same"), case(template="same")]
terms, obss = [], []
for c in cases:
    o = whole.run_real(c); obss.append(o); terms.append(whole.q_whole_case(c, o))
mism, errs = common.run_model_cases(whole.IMPORTS, "whole_case", "whole_case_ok", terms, shard_size=60)
for i, (c, o) in enumerate(zip(cases, obss)):
    print(i, "MISMATCH" if i in mism else "ok", whole.argv_of(c), "status", o["status"], "renames", len(o["report"]))
for e in errs: print(e["output"][-1500:])
for m in mism:
    rc, out = common.coq_eval_term(whole.IMPORTS, "(whole_check %s)" % terms[m]); print(m, out[-400:], obss[m]["report"], obss[m]["stderr"][-300:])
