"""Prints the prompt given to an independent sub-agent that seeds a property-breaking change.
The agent gets only the property text and its own scratch worktree; nothing from /verif."""
import json, sys
pid = sys.argv[1]
tag = sys.argv[2] if len(sys.argv) > 2 else "a"
p = {json.loads(l)["id"]: json.loads(l) for l in open("/verif/properties.jsonl")}[pid]
wt = "/tmp/seed-%s-%s" % (pid, tag)
print(f"""You are testing how well a verification suite detects regressions in the open-source Python CLI batch renamer `tempren` (idle-code/tempren). Do NOT look at anything under /verif (it must stay unknown to you so your change is independent of it) and do NOT modify /repo itself.

Set up your own scratch git worktree of the repository and work only there:
    git -C /repo worktree add --detach {wt} HEAD
Python is /venv/bin/python (tempren's dependencies are installed; run things with PYTHONPATH={wt} so the worktree's code is imported, e.g. `cd {wt} && PYTHONPATH={wt} /venv/bin/python -m tempren.cli --help`). The existing test suite runs with
    cd {wt} && /venv/bin/python -m pytest -q -p no:cacheprovider --timeout=900
(822 tests, about 45 s; all pass on the unchanged tree). No network.

The semantic property under study ("{p['title']}"):

    {p['statement']}

    Quantified over: {p['quantifier']['text']}

Your task: produce TWO different, realistic changes to tempren's source (each the kind of edit a developer could plausibly make: a refactoring slip, an "optimisation", a wrong boundary, a changed default, two cooperating sites that each look fine alone …) such that each change, applied alone to the unchanged tree,
  1. still imports/compiles and the COMPLETE existing test suite still passes (run it and confirm: same number of passed tests, no failures or errors),
  2. breaks the property above in a way that needs something specific to manifest — a particular multi-step sequence, an unusual but legitimate input, a particular size/boundary, a particular order or interleaving, a fault at a particular point — NOT something every ordinary invocation would expose at once,
  3. comes with a small demonstration (a standalone Python script `demo.py` taking the repository path as argv[1], exiting 0 when the property holds on its scenario and 1 with a short explanation when it is violated) that FAILS (exit 1) with your change applied and PASSES (exit 0) on the unchanged tree. The demonstration must exercise tempren the way a user would (through `tempren.cli.main()` / `python -m tempren.cli` or the public template compiler), not poke at private helpers only.
Do not touch the tests directory. Keep each change small (a few lines). The two changes should differ in mechanism and in the code they touch, if the property's anchor code allows.

Deliver, for change 1 and change 2 respectively, the directories {wt}-out/1 and {wt}-out/2 (outside the worktree) each containing:
  - patch.diff   (`git -C {wt} diff` of that change alone, applicable with `git apply` to the unchanged tree)
  - demo.py
  - README.txt   (what the change is, why the suite does not notice, what exactly is needed for the violation to manifest, the commands you ran and their results)
After saving a patch, revert the worktree (`git -C {wt} checkout -- .`) before starting the next one. When finished, remove the worktree: `git -C /repo worktree remove --force {wt}` (keep the -out directory). In your final message list the two changes in two or three sentences each and confirm the suite result and the demo results (with and without the change).""")
