#!/bin/bash
# notes/try_seed.sh <patch.diff> <Cxx> [tier]
# Runs ./check <Cxx> against a scratch worktree of /repo's HEAD with the seeded change applied
# (TEMPREN_REPO), so that /repo itself stays untouched while helper agents are using it.
set -u
P=$1; ID=$2; TIER=${3:-quick}
W=/tmp/seedrun-$ID-$$
git -C /repo worktree add --detach $W HEAD >/dev/null 2>&1 || { echo "worktree failed"; exit 2; }
git -C $W apply "$P" || { echo "patch does not apply"; git -C /repo worktree remove --force $W; exit 2; }
cd /verif && TEMPREN_REPO=$W ./check $ID --tier $TIER > /tmp/try_seed_$ID.log 2>&1; rc=$?
git -C /repo worktree remove --force $W
grep -E "^(VIOLATION|OK|KNOWN)" /tmp/try_seed_$ID.log | cut -c1-300
echo "rc=$rc"
