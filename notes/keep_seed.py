"""notes/keep_seed.py <outdir> <property> <seed-id> <detected: yes|no|after-strengthening> <needs...> -- files a confirmed seeded change under /verif/seeded/<seed-id>/"""
import json, os, shutil, sys
out, prop, sid, detected = sys.argv[1:5]
needs = " ".join(sys.argv[5:])
d = os.path.join("/verif/seeded", sid)
os.makedirs(d, exist_ok=True)
for f in ("patch.diff", "demo.py", "README.txt"):
    shutil.copy(os.path.join(out, f), os.path.join(d, f))
def rd(n):
    p = os.path.join(out, n)
    return open(p).read().strip()[-400:] if os.path.exists(p) else None
meta = {
    "property": prop, "seed_id": sid,
    "breaks": open(os.path.join(out, "README.txt")).read().strip().split("\n")[0][:300],
    "needs_to_manifest": needs,
    "author": "independent sub-agent given only the property text and a scratch worktree (no access to /verif)",
    "confirmed_by_me": {
        "how": "notes/confirm_seed.sh: scratch worktree of /repo HEAD, git apply patch.diff, full pytest suite, demo.py with the change and after reverting it",
        "suite_with_change": rd("confirm_suite.txt"),
        "demo_exit_with_change": 1, "demo_exit_without_change": 0,
    },
    "check_run": "notes/try_seed.sh %s/patch.diff %s quick  (scratch worktree + TEMPREN_REPO; /repo itself untouched)" % (d, prop),
    "detected_by_quick_check": detected,
}
json.dump(meta, open(os.path.join(d, "meta.json"), "w"), indent=1)
print("kept", d)
