#!/bin/sh
case "$1" in
  1a) echo 2p;;
  2p) echo q;;
  deep/3lnk) echo 2p;;
  *) echo "$1";;
esac
