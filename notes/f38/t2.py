from h import *
t = Path(tempfile.mkdtemp())
(t/"in"/"deep").mkdir(parents=True); (t/"out").mkdir()
(t/"in"/"1a").write_text("A"); (t/"in"/"2p").write_text("P")
os.symlink("../out", t/"in"/"deep"/"3lnk")
print(tree(t))
r = run(["-r","-p","-co","-s","%Name()","-ah","map=/tmp/seed-C06-g-out/extra-baseline-finding/map.sh","%map()", "in"], t)
print(r[0]); print(r[1]); print(r[2]); print(tree(t))
