import os, subprocess, sys, tempfile, shutil
from pathlib import Path
REPO = sys.argv[1] if len(sys.argv) > 1 else "/tmp/seed-C06-g"
def run(args, cwd, stdin=""):
    env = dict(os.environ, PYTHONPATH=REPO)
    p = subprocess.run(["/venv/bin/python", "-m", "tempren.cli", *args], cwd=cwd, env=env, input=stdin, capture_output=True, text=True)
    return p.returncode, p.stdout, p.stderr
def tree(root):
    out = []
    for d, ds, fs in os.walk(root):
        for n in sorted(ds + fs):
            p = Path(d, n)
            out.append(str(p.relative_to(root)) + (" -> " + os.readlink(p) if p.is_symlink() else ("/" if p.is_dir() else "")))
    return sorted(out)
