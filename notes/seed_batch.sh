#!/bin/bash
# notes/seed_batch.sh <Cxx> [tag]  — confirm both seeded changes of /tmp/seed-<Cxx>-<tag>-out and run the check against each
ID=$1; TAG=${2:-a}
for i in 1 2; do
  D=/tmp/seed-$ID-$TAG-out/$i
  [ -f $D/patch.diff ] || continue
  /verif/notes/confirm_seed.sh $D
  echo "check: $(/verif/notes/try_seed.sh $D/patch.diff $ID | tr '\n' ' ' | cut -c1-200)"
done
