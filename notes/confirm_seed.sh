#!/bin/bash
# notes/confirm_seed.sh <dir with patch.diff + demo.py>  — confirms: applies, suite green, demo fails with / passes without
D=$1
W=/tmp/seedconf-$$-$RANDOM
git -C /repo worktree add --detach $W HEAD >/dev/null 2>&1 || { echo "worktree failed"; exit 2; }
git -C $W apply $D/patch.diff || { echo "APPLY-FAIL"; git -C /repo worktree remove --force $W; exit 2; }
( cd $W && /venv/bin/python -m pytest -q -p no:cacheprovider --timeout=900 -x 2>&1 | tail -1 ) > $D/confirm_suite.txt
PYTHONPATH=$W /venv/bin/python $D/demo.py $W > $D/confirm_demo_with.txt 2>&1; with=$?
git -C $W checkout -- . 
PYTHONPATH=$W /venv/bin/python $D/demo.py $W > $D/confirm_demo_without.txt 2>&1; without=$?
git -C /repo worktree remove --force $W
echo "$D suite: $(cat $D/confirm_suite.txt) | demo with change: exit $with | without: exit $without"
