(* Strings as lists of code points; decidable equalities; decimal printing.   *)
(* Model conventions: a Python [str] is [list N] (code points), [bytes] is     *)
(* [list N] with every element < 256, a Python [int] is [Z].                   *)
From Coq Require Export List NArith ZArith Bool Lia.
From Coq Require Import DecimalN DecimalZ DecimalFacts.
Export ListNotations.
Open Scope N_scope.

Notation str := (list N) (only parsing).

(* ---------- generic decidable equality on lists / options / pairs ---------- *)

Fixpoint list_eqb {A} (eqb : A -> A -> bool) (a b : list A) : bool :=
  match a, b with
  | [], [] => true
  | x :: a', y :: b' => eqb x y && list_eqb eqb a' b'
  | _, _ => false
  end.

Lemma list_eqb_spec {A} (eqb : A -> A -> bool) :
  (forall x y, eqb x y = true <-> x = y) ->
  forall a b, list_eqb eqb a b = true <-> a = b.
Proof.
  intros H a; induction a as [|x a IH]; intros [|y b]; simpl; split; intro E;
    try reflexivity; try discriminate.
  - apply andb_true_iff in E as [E1 E2]. apply H in E1. apply IH in E2. congruence.
  - inversion E; subst. apply andb_true_iff; split; [apply H | apply IH]; reflexivity.
Qed.

Definition option_eqb {A} (eqb : A -> A -> bool) (a b : option A) : bool :=
  match a, b with
  | None, None => true
  | Some x, Some y => eqb x y
  | _, _ => false
  end.

Lemma option_eqb_spec {A} (eqb : A -> A -> bool) :
  (forall x y, eqb x y = true <-> x = y) ->
  forall a b, option_eqb eqb a b = true <-> a = b.
Proof.
  intros H [x|] [y|]; simpl; split; intro E; try reflexivity; try discriminate.
  - apply H in E; congruence.
  - inversion E; subst; apply H; reflexivity.
Qed.

Definition pair_eqb {A B} (ea : A -> A -> bool) (eb : B -> B -> bool) (a b : A * B) : bool :=
  ea (fst a) (fst b) && eb (snd a) (snd b).

Lemma pair_eqb_spec {A B} (ea : A -> A -> bool) (eb : B -> B -> bool) :
  (forall x y, ea x y = true <-> x = y) ->
  (forall x y, eb x y = true <-> x = y) ->
  forall a b, pair_eqb ea eb a b = true <-> a = b.
Proof.
  intros Ha Hb [a1 a2] [b1 b2]; unfold pair_eqb; simpl; split; intro E.
  - apply andb_true_iff in E as [E1 E2]. apply Ha in E1; apply Hb in E2; congruence.
  - inversion E; subst. apply andb_true_iff; split; [apply Ha | apply Hb]; reflexivity.
Qed.

Definition str_eqb : str -> str -> bool := list_eqb N.eqb.

Lemma str_eqb_spec a b : str_eqb a b = true <-> a = b.
Proof. apply list_eqb_spec. intros; apply N.eqb_eq. Qed.

Lemma str_eqb_refl a : str_eqb a a = true.
Proof. apply str_eqb_spec; reflexivity. Qed.

Lemma str_eqb_neq a b : str_eqb a b = false <-> a <> b.
Proof.
  split; intro H.
  - intro E. apply str_eqb_spec in E. congruence.
  - destruct (str_eqb a b) eqn:E; [apply str_eqb_spec in E; contradiction | reflexivity].
Qed.

Definition Z_eqb_spec := Z.eqb_eq.

(* ---------- prefixes, suffixes -------------------------------------------- *)

Fixpoint is_prefix (p s : str) : bool :=
  match p, s with
  | [], _ => true
  | x :: p', y :: s' => N.eqb x y && is_prefix p' s'
  | _ :: _, [] => false
  end.

Lemma is_prefix_spec p s : is_prefix p s = true <-> exists r, s = p ++ r.
Proof.
  revert s; induction p as [|x p IH]; intros s; simpl.
  - split; [intros _; exists s; reflexivity | reflexivity].
  - destruct s as [|y s].
    + split; [discriminate | intros [r E]; discriminate].
    + split.
      * intro E. apply andb_true_iff in E as [E1 E2]. apply N.eqb_eq in E1; subst.
        apply IH in E2 as [r ->]. exists r; reflexivity.
      * intros [r E]. inversion E; subst. apply andb_true_iff; split.
        -- apply N.eqb_refl.
        -- apply IH. exists r; reflexivity.
Qed.

(* ---------- ASCII classes -------------------------------------------------- *)

Definition is_digit (c : N) : bool := (48 <=? c) && (c <=? 57).
Definition is_ascii_upper (c : N) : bool := (65 <=? c) && (c <=? 90).
Definition is_ascii_lower (c : N) : bool := (97 <=? c) && (c <=? 122).
Definition is_letter (c : N) : bool := is_ascii_upper c || is_ascii_lower c.
Definition ascii_lower_char (c : N) : N := if is_ascii_upper c then c + 32 else c.
Definition ascii_lower (s : str) : str := map ascii_lower_char s.

(* ---------- decimal printing, via the standard library's [Decimal] --------- *)

Fixpoint uint_to_str (d : Decimal.uint) : str :=
  match d with
  | Decimal.Nil => []
  | Decimal.D0 d => 48 :: uint_to_str d
  | Decimal.D1 d => 49 :: uint_to_str d
  | Decimal.D2 d => 50 :: uint_to_str d
  | Decimal.D3 d => 51 :: uint_to_str d
  | Decimal.D4 d => 52 :: uint_to_str d
  | Decimal.D5 d => 53 :: uint_to_str d
  | Decimal.D6 d => 54 :: uint_to_str d
  | Decimal.D7 d => 55 :: uint_to_str d
  | Decimal.D8 d => 56 :: uint_to_str d
  | Decimal.D9 d => 57 :: uint_to_str d
  end.

Fixpoint str_to_uint (s : str) : option Decimal.uint :=
  match s with
  | [] => Some Decimal.Nil
  | c :: s' =>
    match str_to_uint s' with
    | None => None
    | Some d =>
      match c with
      | 48 => Some (Decimal.D0 d) | 49 => Some (Decimal.D1 d)
      | 50 => Some (Decimal.D2 d) | 51 => Some (Decimal.D3 d)
      | 52 => Some (Decimal.D4 d) | 53 => Some (Decimal.D5 d)
      | 54 => Some (Decimal.D6 d) | 55 => Some (Decimal.D7 d)
      | 56 => Some (Decimal.D8 d) | 57 => Some (Decimal.D9 d)
      | _ => None
      end
    end
  end.

Lemma str_to_uint_to_str d : str_to_uint (uint_to_str d) = Some d.
Proof. induction d; simpl; try rewrite IHd; reflexivity. Qed.

Lemma uint_to_str_digits d : forallb is_digit (uint_to_str d) = true.
Proof. induction d; simpl; auto. Qed.

(* str(n) for a natural number: Python prints "0" for zero. *)
Definition decimal_N (n : N) : str := uint_to_str (N.to_uint n).

(* int(s) for s matching [0-9]+ (leading zeros allowed); None on anything else
   (the empty string included, as Python's int('') raises). *)
Definition N_of_decimal (s : str) : option N :=
  match s with
  | [] => None
  | _ => option_map N.of_uint (str_to_uint s)
  end.

Lemma decimal_N_nonempty n : decimal_N n <> [].
Proof.
  unfold decimal_N, N.to_uint. destruct n as [|p]; simpl; [discriminate|].
  intro H.
  assert (E : Pos.to_uint p = Decimal.Nil) by (destruct (Pos.to_uint p); simpl in H; congruence).
  pose proof (DecimalPos.Unsigned.to_uint_nonnil p). contradiction.
Qed.

Lemma N_of_decimal_print n : N_of_decimal (decimal_N n) = Some n.
Proof.
  unfold N_of_decimal. pose proof (decimal_N_nonempty n) as H.
  destruct (decimal_N n) eqn:E; [contradiction|]. rewrite <- E.
  unfold decimal_N. rewrite str_to_uint_to_str. simpl. f_equal.
  apply DecimalN.Unsigned.of_to.
Qed.

(* str(z) / int(s) for Python ints: optional '-' then digits. *)
Definition decimal_Z (z : Z) : str :=
  match z with
  | Zneg p => 45 :: decimal_N (Npos p)
  | _ => decimal_N (Z.to_N z)
  end.

Definition Z_of_decimal (s : str) : option Z :=
  match s with
  | [] => None
  | c :: s' =>
    if c =? 45 then option_map (fun n => Z.opp (Z.of_N n)) (N_of_decimal s')
    else option_map Z.of_N (N_of_decimal s)
  end.

Lemma decimal_N_head_digit n : forall c r, decimal_N n = c :: r -> is_digit c = true.
Proof.
  intros c r E. pose proof (uint_to_str_digits (N.to_uint n)) as H.
  unfold decimal_N in E. rewrite E in H. simpl in H. apply andb_true_iff in H. tauto.
Qed.

Lemma Z_of_decimal_nonneg n : Z_of_decimal (decimal_N n) = Some (Z.of_N n).
Proof.
  unfold Z_of_decimal.
  destruct (decimal_N n) as [|c r] eqn:E.
  - exfalso; eapply decimal_N_nonempty; eauto.
  - pose proof (decimal_N_head_digit _ _ _ E) as Hd.
    destruct (c =? 45) eqn:Ec.
    + apply N.eqb_eq in Ec; subst; discriminate.
    + rewrite <- E. rewrite N_of_decimal_print. reflexivity.
Qed.

Lemma Z_of_decimal_print z : Z_of_decimal (decimal_Z z) = Some z.
Proof.
  destruct z as [|p|p]; unfold decimal_Z.
  - reflexivity.
  - rewrite Z_of_decimal_nonneg. reflexivity.
  - unfold Z_of_decimal. rewrite N.eqb_refl. rewrite N_of_decimal_print. reflexivity.
Qed.

(* ---------- misc list helpers ---------------------------------------------- *)

Fixpoint repeat_n {A} (x : A) (n : nat) : list A :=
  match n with O => [] | S k => x :: repeat_n x k end.

Lemma repeat_n_length {A} (x : A) n : length (repeat_n x n) = n.
Proof. induction n; simpl; congruence. Qed.

Lemma repeat_n_all {A} (x : A) n : forall y, In y (repeat_n x n) -> y = x.
Proof. induction n; simpl; intros y H; [contradiction|]. destruct H; auto. Qed.
