(* C13 — built-in help tells the truth about every tag's context and arguments.      *)
(* Statements only; every proof is [exact <lemma>].                                  *)
(*                                                                                   *)
(* Model (Tpl/Signature.v): [render_line] is what `--help Cat.Tag` prints first      *)
(* (factories.py), [parse_line] what a reader learns from it, [bind] CPython's       *)
(* binding of the template's arguments to configure, [ctx_check] the require_context  *)
(* test of compiler.py, [bind_call] both in the compiler's order, [cli_status] the   *)
(* except chain of cli.main.  Annotation and default texts are opaque; the bodies of *)
(* configure are abstract (a boolean [cfg_ok]).                                      *)
From Tempren Require Import Base.Str Tpl.Signature Tpl.SignatureProofs.
Open Scope N_scope.

(* ---- the printed line determines what the compiler will check -------------------- *)

(* The whole first line of the help page reads back to the tag's name, its parameter
   list (names, kinds, which have defaults, annotation and default texts) and its
   context requirement — including the rule that a context-only tag without
   parameters is printed without parentheses. *)
Theorem C13_line_roundtrip : forall name s r,
  ident_str name -> wf_sig s ->
  parse_line (render_line name s r) = Some (name, s, r).
Proof. exact parse_render_line. Qed.
Print Assumptions C13_line_roundtrip.

Theorem C13_sig_roundtrip : forall s, wf_sig s -> parse_sig (render_sig s) = Some s.
Proof. exact parse_render_sig. Qed.
Print Assumptions C13_sig_roundtrip.

(* the suffix "[{...}]" / "{...}" / none determines require_context *)
Theorem C13_marker_roundtrip : forall name s r,
  ident_str name -> wf_sig s ->
  exists name' s', parse_line (render_line name s r) = Some (name', s', r).
Proof. exact marker_roundtrip. Qed.
Print Assumptions C13_marker_roundtrip.

(* two tags whose lines coincide have the same signature and context requirement:
   nothing the binder looks at is hidden from the reader *)
Theorem C13_line_injective : forall n1 s1 r1 n2 s2 r2,
  ident_str n1 -> wf_sig s1 -> ident_str n2 -> wf_sig s2 ->
  render_line n1 s1 r1 = render_line n2 s2 r2 -> n1 = n2 /\ s1 = s2 /\ r1 = r2.
Proof. exact render_line_injective. Qed.
Print Assumptions C13_line_injective.

(* ---- arguments -------------------------------------------------------------------- *)

(* binding succeeds exactly on the calls the signature documents *)
Theorem C13_bind_spec : forall s npos kws,
  bind s npos kws = BindOk <-> documented s npos kws.
Proof. exact bind_spec. Qed.
Print Assumptions C13_bind_spec.

(* each failure is classified: the class names the clause of [documented] that fails *)
Theorem C13_bind_errors_classified : forall s npos kws e,
  bind s npos kws = BindErr e -> explains s npos kws e /\ ~ documented s npos kws.
Proof.
  exact (fun s npos kws e H =>
    conj (bind_error_explained s npos kws e H) (bind_error_not_documented s npos kws e H)).
Qed.
Print Assumptions C13_bind_errors_classified.

(* the clauses of the statement, one by one *)
Theorem C13_documented_name_accepted : forall s k,
  In k (kw_names s) -> k <> receiver ->
  (forall p, In p (s_pos s ++ s_kwonly s) -> p_dflt p = None -> p_name p = k) ->
  bind s 0 [k] = BindOk.
Proof. exact documented_name_accepted. Qed.
Print Assumptions C13_documented_name_accepted.

Theorem C13_undeclared_name_rejected : forall s npos kws k,
  In k kws -> ~ In k (kw_names s) -> s_varkw s = None -> bind s npos kws <> BindOk.
Proof. exact undeclared_name_rejected. Qed.
Print Assumptions C13_undeclared_name_rejected.

Theorem C13_too_many_positionals_rejected : forall s npos kws,
  (length (s_pos s) < npos)%nat -> s_varpos s = None -> bind s npos kws <> BindOk.
Proof. exact too_many_rejected. Qed.
Print Assumptions C13_too_many_positionals_rejected.

Theorem C13_missing_required_rejected : forall s npos kws p,
  In p (s_pos s ++ s_kwonly s) -> p_dflt p = None ->
  ~ In (p_name p) (firstn npos (pos_names s)) -> ~ In (p_name p) kws ->
  bind s npos kws <> BindOk.
Proof. exact missing_required_rejected. Qed.
Print Assumptions C13_missing_required_rejected.

(* ---- context ---------------------------------------------------------------------- *)

Theorem C13_context_rule : forall r c,
  ctx_check r c = CtxOk <->
  r = None \/ (r = Some true /\ c = true) \/ (r = Some false /\ c = false).
Proof. exact ctx_check_spec. Qed.
Print Assumptions C13_context_rule.

Theorem C13_context_missing : forall r c, ctx_check r c = CtxMissing <-> r = Some true /\ c = false.
Proof. exact ctx_check_missing. Qed.
Print Assumptions C13_context_missing.

Theorem C13_context_forbidden : forall r c, ctx_check r c = CtxForbidden <-> r = Some false /\ c = true.
Proof. exact ctx_check_forbidden. Qed.
Print Assumptions C13_context_forbidden.

(* ---- the whole call ---------------------------------------------------------------- *)

(* a tag call compiles iff it is documented, configure's body takes the values, and the
   context marker allows the context *)
Theorem C13_accept_iff : forall s r cfg_ok npos kws c,
  bind_call s r cfg_ok npos kws c = Accept <->
  documented s npos kws /\ cfg_ok = true /\ context_allowed r c.
Proof. exact bind_call_accept. Qed.
Print Assumptions C13_accept_iff.

(* every rejection of the binder is a template error, hence exit status 3 *)
Theorem C13_all_rejections_are_template_errors : forall s r cfg_ok npos kws c cl,
  bind_call s r cfg_ok npos kws c = Reject cl ->
  is_template_error (exc_of_reject cl) = true /\ cli_status (exc_of_reject cl) = 3%Z.
Proof. exact rejections_are_template_errors. Qed.
Print Assumptions C13_all_rejections_are_template_errors.

(* end to end: reading the printed line and binding against what was read decides the
   call exactly as binding against the tag's own signature does *)
Theorem C13_help_decides_calls : forall name s r cfg_ok npos kws c,
  ident_str name -> wf_sig s ->
  exists s' r', parse_line (render_line name s r) = Some (name, s', r') /\
    bind_call s' r' cfg_ok npos kws c = bind_call s r cfg_ok npos kws c.
Proof. exact help_decides_calls. Qed.
Print Assumptions C13_help_decides_calls.

(* ---- non-vacuity ------------------------------------------------------------------- *)

(* "%Pad(width: int, character: str = ' ', left: bool = False, right: bool = False){...}" *)
Definition ex_pad : sig :=
  {| s_pos := [ {| p_name := [119;105;100;116;104]; p_ann := [105;110;116]; p_dflt := None |};
                {| p_name := [99;104;97;114;97;99;116;101;114]; p_ann := [115;116;114];
                   p_dflt := Some [39;32;39] |};
                {| p_name := [108;101;102;116]; p_ann := [98;111;111;108];
                   p_dflt := Some [70;97;108;115;101] |};
                {| p_name := [114;105;103;104;116]; p_ann := [98;111;111;108];
                   p_dflt := Some [70;97;108;115;101] |} ];
     s_varpos := None; s_kwonly := []; s_varkw := None |}.

Example C13_example_pad :
  let line := render_line [80;97;100] ex_pad (Some true) in
  parse_line line = Some ([80;97;100], ex_pad, Some true) /\
  bind_call ex_pad (Some true) true 1 [[108;101;102;116]] true = Accept /\
  bind_call ex_pad (Some true) true 1 [[108;101;102;116]] false = Reject RContextMissing /\
  bind_call ex_pad (Some true) true 0 [] true = Reject (RBind (Missing [119;105;100;116;104])) /\
  bind_call ex_pad (Some true) true 5 [] true = Reject (RBind TooMany) /\
  bind_call ex_pad (Some true) true 1 [[119;105;100;116;104]] true
    = Reject (RBind (Multiple [119;105;100;116;104])) /\
  bind_call ex_pad (Some true) true 1 [[122]] true = Reject (RBind (Unexpected [122])).
Proof. vm_compute. repeat split; reflexivity. Qed.

(* "%Ech( *positional_args: str, timeout_ms: int = 3000)[{...}]" and "%Upper{...}" *)
Example C13_example_adhoc_and_bare :
  let adhoc := {| s_pos := [];
                  s_varpos := Some {| v_name := [97;114;103;115]; v_ann := [115;116;114] |};
                  s_kwonly := [ {| p_name := [116]; p_ann := [105;110;116];
                                   p_dflt := Some [51;48;48;48] |} ];
                  s_varkw := None |} in
  parse_line (render_line [69] adhoc None) = Some ([69], adhoc, None) /\
  bind_call adhoc None true 7 [[116]] true = Accept /\
  bind_call adhoc None true 7 [[116]] false = Accept /\
  bind_call adhoc None true 0 [[97;114;103;115]] false = Reject (RBind (Unexpected [97;114;103;115])) /\
  render_line [85] empty_sig (Some true) = [37;85;123;46;46;46;125] /\
  parse_line [37;85;123;46;46;46;125] = Some ([85], empty_sig, Some true) /\
  bind_call empty_sig (Some false) true 0 [] true = Reject RContextForbidden /\
  wf_sig adhoc /\ wf_sig ex_pad.
Proof.
  vm_compute. repeat split; try reflexivity; repeat constructor;
    try discriminate; intuition discriminate.
Qed.
