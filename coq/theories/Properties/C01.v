(* C01 — nothing is lost or overwritten unless the user chose override.            *)
(* Statements only; every proof is [exact <lemma>] (examples: vm_compute).          *)
From Tempren Require Import Base.Str Py.PathLib FS.Model FS.Lemmas FS.WfCheck
  Pipe.Pipeline Pipe.Safety Pipe.SafetyFacts.
Open Scope N_scope.

(* [run c plan cwd s]: c = mode, strategy, dry-run, scripted answers, index of an injected
   OSError (or none); plan = ANY list of (file, what the template rendered or raised) in ANY
   order; s = ANY well-formed tree (directories, files, symlinks incl. dangling ones).
   [r_states] holds the filesystem after EVERY successful mutating system call, so the
   statement covers every prefix of the operation sequence (kill points), every outcome
   (success, stop at a conflict, any error) and every single injected failure.
   [leaves s] is the list of all non-directory entries (inode+content identity / link target)
   without their paths: equal lists = every file and symlink exists exactly once, none replaced. *)
Theorem C01_no_loss : forall c plan cwd s,
  WF s -> safe_cfg c ->
  Forall (fun s' => WF s' /\ leaves s' = leaves s) (s :: r_states (run c plan cwd s)) /\
  (WF (r_final (run c plan cwd s)) /\ leaves (r_final (run c plan cwd s)) = leaves s).
Proof. exact no_loss. Qed.
Print Assumptions C01_no_loss.

Theorem C01_every_entry_survives : forall c plan cwd s s' p n,
  WF s -> safe_cfg c -> In s' (s :: r_states (run c plan cwd s)) ->
  lookup s p = Some n -> is_dir_node n = false ->
  exists p', lookup s' p' = Some n.
Proof. exact every_entry_survives. Qed.
Print Assumptions C01_every_entry_survives.

Theorem C01_nothing_replaced : forall c plan cwd s s' p n,
  WF s -> safe_cfg c -> In s' (s :: r_states (run c plan cwd s)) ->
  lookup s' p = Some n -> is_dir_node n = false ->
  exists p0, lookup s p0 = Some n.
Proof. exact nothing_replaced. Qed.
Print Assumptions C01_nothing_replaced.

(* safe_cfg = the current code (all guards of the fix: commits) under stop, ignore, or manual
   with no answer that is a non-empty prefix of "override" *)
Theorem C01_stop_is_safe : forall m d a f,
  safe_cfg {| c_mode := m; c_strategy := Stop; c_dry := d; c_answers := a; c_fault := f; c_var := fixed |}.
Proof. exact stop_is_safe. Qed.
Print Assumptions C01_stop_is_safe.

Theorem C01_ignore_is_safe : forall m d a f,
  safe_cfg {| c_mode := m; c_strategy := Ignore; c_dry := d; c_answers := a; c_fault := f; c_var := fixed |}.
Proof. exact ignore_is_safe. Qed.
Print Assumptions C01_ignore_is_safe.

Theorem C01_manual_is_safe : forall m d a f,
  Forall (fun l => parse_answer l <> AOverride) a ->
  safe_cfg {| c_mode := m; c_strategy := Manual; c_dry := d; c_answers := a; c_fault := f; c_var := fixed |}.
Proof. exact manual_is_safe. Qed.
Print Assumptions C01_manual_is_safe.

(* the building blocks, for every filesystem state and every path spelling *)
Theorem C01_rename_onto_free_name_keeps_everything : forall s cwd src dst s',
  WF s -> lexists s cwd dst = false -> os_rename s cwd src dst = SOk s' ->
  WF s' /\ leaves s' = leaves s.
Proof. exact os_rename_free_preserves. Qed.
Print Assumptions C01_rename_onto_free_name_keeps_everything.

Theorem C01_mkdir_keeps_everything : forall s cwd p s',
  WF s -> os_mkdir s cwd p = SOk s' -> WF s' /\ leaves s' = leaves s.
Proof. exact mkdir_preserves. Qed.
Print Assumptions C01_mkdir_keeps_everything.

Theorem C01_wf_checker_sound : forall s, wf_b s = true -> WF s.
Proof. exact wf_b_sound. Qed.
Print Assumptions C01_wf_checker_sound.

(* The code before the fix: commits violates the statement (these scenarios are the replays
   of findings F1 and F1b on the implementation). *)
Example C01_exists_guard_refuted :
  wf_b fs_dangling = true /\
  node_list_eqb (leaves (r_final (run (cfg_of MName Stop prefix_guard None) plan_dangling [] fs_dangling)))
                (leaves fs_dangling) = false /\
  r_status (run (cfg_of MName Stop prefix_guard None) plan_dangling [] fs_dangling) = 0%Z.
Proof. vm_compute. repeat split. Qed.

Example C01_mkdir_gap_refuted :
  wf_b fs_mkdir_gap = true /\
  node_list_eqb (leaves (r_final (run (cfg_of MPath Stop no_recheck None) plan_mkdir_gap [] fs_mkdir_gap)))
                (leaves fs_mkdir_gap) = false /\
  r_status (run (cfg_of MPath Stop no_recheck None) plan_mkdir_gap [] fs_mkdir_gap) = 0%Z.
Proof. vm_compute. repeat split. Qed.

(* Non-vacuity: the same scenarios on the current code end with status 1 and the tree intact;
   a fault at the first system call of the path-mode scenario leaves the tree intact too. *)
Example C01_example_fixed :
  r_status (run (cfg_of MName Stop fixed None) plan_dangling [] fs_dangling) = 1%Z /\
  fs_eqb (r_final (run (cfg_of MName Stop fixed None) plan_dangling [] fs_dangling)) fs_dangling = true /\
  r_status (run (cfg_of MPath Stop fixed None) plan_mkdir_gap [] fs_mkdir_gap) = 1%Z /\
  node_list_eqb (leaves (r_final (run (cfg_of MPath Stop fixed None) plan_mkdir_gap [] fs_mkdir_gap)))
                (leaves fs_mkdir_gap) = true /\
  length (r_states (run (cfg_of MPath Stop fixed None) plan_mkdir_gap [] fs_mkdir_gap)) = 1%nat /\
  r_status (run (cfg_of MPath Stop fixed (Some 0%nat)) plan_mkdir_gap [] fs_mkdir_gap) = 126%Z.
Proof. vm_compute. repeat split. Qed.

(* ---- the whole program (added once the component models were composed: Whole/Main.v [tempren_main]) ---- *)
From Tempren Require Import Pipe.FrontCompile Whole.Library Whole.Render Whole.Gather Whole.Main Whole.Theorems Whole.Examples.

(* For EVERY registry, template text, options without override (stop, ignore, manual without an answer selecting
   override; any mode, -r, -ih, sort, dry-run, fault index, listing order), input paths and well-formed tree:
   every state the run goes through, and the final one, has exactly the initial non-directory entries - whatever
   the gatherers select, the sorter orders and the template renders.  (Immediate from C01_no_loss, which holds for
   every plan; stated because it is the form of C01 about the program rather than about an abstract plan.) *)
Theorem C01_whole_no_loss : forall upper lower R o text dirs s,
  WF s -> no_override o ->
  let r := tempren_main upper lower R o text dirs s in
  Forall (fun s' => WF s' /\ leaves s' = leaves s) (s :: r_states r) /\
  (WF (r_final r) /\ leaves (r_final r) = leaves s).
Proof. exact whole_no_loss. Qed.
Print Assumptions C01_whole_no_loss.

Theorem C01_whole_no_override : forall o,
  no_override o <->
  match o_strategy o with
  | Stop | Ignore => True
  | Manual => Forall (fun l => parse_answer l <> AOverride) (o_answers o)
  | Override => False
  end.
Proof. exact no_override_spec. Qed.
Print Assumptions C01_whole_no_override.

(* the template "x" gives every file the same name: two renames succeed, the run stops at the conflict
   (status 1), nothing is lost *)
Example C01_whole_example :
  wf_b ex_tree = true /\
  r_status (ex_main (ex_options MName true true) t_x ex_dirs ex_tree) = 1%Z /\
  length (r_states (ex_main (ex_options MName true true) t_x ex_dirs ex_tree)) = 2%nat /\
  node_list_eqb (leaves (r_final (ex_main (ex_options MName true true) t_x ex_dirs ex_tree))) (leaves ex_tree) = true /\
  fs_eqb (r_final (ex_main (ex_options MName true true) t_x ex_dirs ex_tree)) ex_tree = false.
Proof. vm_compute. repeat split; reflexivity. Qed.
