(* C17 — Name, Base, Ext and Dir decompose every path losslessly.                   *)
From Tempren Require Import Base.Str Py.PathLib Py.PathLibProofs.
Open Scope N_scope.

(* stem ++ suffix = name, for every name (no dot, leading, trailing, several, only dots) *)
Theorem C17_stem_suffix : forall n, name_stem n ++ name_suffix n = n.
Proof. exact stem_suffix. Qed.
Print Assumptions C17_stem_suffix.

(* %Base()%Ext() = %Name(), without a context and for every context string read as a path *)
Theorem C17_base_ext_is_name : forall rel ctx,
  tag_base rel ctx ++ tag_ext rel ctx = tag_name rel ctx.
Proof. exact base_ext_is_name. Qed.
Print Assumptions C17_base_ext_is_name.

(* str(parent)/name parses back to the path (top level gives "./name") *)
Theorem C17_dir_name : forall p, normal_rel p ->
  parse_path (pp_str (pp_parent p) ++ slash :: pp_name p) = p.
Proof. exact dir_slash_name. Qed.
Print Assumptions C17_dir_name.

Theorem C17_dir_name_tags : forall rel, normal_rel rel ->
  parse_path (tag_dir rel None ++ slash :: tag_name rel None) = rel.
Proof. exact dir_name_is_path. Qed.
Print Assumptions C17_dir_name_tags.

(* with_name(own name) gives back an equal path: the name-mode generator returns the
   relative path itself for %Name() and %Base()%Ext(), which the pipeline skips *)
Theorem C17_with_own_name : forall p, normal_rel p -> pp_with_name p (pp_name p) = Some p.
Proof. exact with_own_name. Qed.
Print Assumptions C17_with_own_name.

Theorem C17_parse_str_roundtrip : forall p, normal_rel p -> parse_path (pp_str p) = p.
Proof. exact parse_str_roundtrip. Qed.
Print Assumptions C17_parse_str_roundtrip.

Example C17_examples :
  let p := parse_path [97;47;46;98;46;116;97;114;46;103;122] in   (* "a/.b.tar.gz" *)
  pp_name p = [46;98;46;116;97;114;46;103;122] /\
  pp_stem p = [46;98;46;116;97;114] /\ pp_suffix p = [46;103;122] /\
  name_suffix [46;46;46] = [] /\ name_stem [46;98] = [46;98] /\ name_suffix [97;46] = [] /\
  pp_str (pp_parent p) = [97] /\
  normal_rel p.
Proof.
  cbv zeta. do 7 (split; [vm_compute; reflexivity|]).
  split; [vm_compute; reflexivity|]. split; [vm_compute; discriminate|].
  intros y Hy. vm_compute in Hy. destruct Hy as [<-|[<-|[]]]; split; reflexivity.
Qed.

(* ---- the pipeline half: the three templates are no-ops on every tree (added once the pipeline model existed) ---- *)
From Tempren Require Import FS.Model Pipe.Pipeline Pipe.Noop.

(* a plan in which every file's generated path equals its own relative path: exit status 0, no system call,
   no report line, no intermediate state, the tree unchanged — every mode, strategy, dry or real, any order *)
Theorem C17_identity_plan_is_noop : forall c plan cwd s,
  Forall (identity_entry (c_mode c) s) plan ->
  let r := run c plan cwd s in
  r_status r = 0%Z /\ r_calls r = [] /\ r_report r = [] /\ r_states r = [] /\ r_final r = s.
Proof. exact identity_plan_is_noop. Qed.
Print Assumptions C17_identity_plan_is_noop.

(* '%Name()' and '%Base()%Ext()' (= name, by C17_stem_suffix) in name and directory mode *)
Theorem C17_own_name_is_identity : forall m f s,
  m <> MPath -> normal_rel (pf_rel f) -> (exists cwd1, chdir s (pf_dir f) = Some cwd1) ->
  identity_entry m s (f, RText (pp_name (pf_rel f))).
Proof. exact own_name_is_identity. Qed.
Print Assumptions C17_own_name_is_identity.

(* '%Dir()/%Name()' in path mode *)
Theorem C17_dir_slash_name_is_identity : forall f s,
  normal_rel (pf_rel f) -> (exists cwd1, chdir s (pf_dir f) = Some cwd1) ->
  identity_entry MPath s (f, RText (tag_dir (pf_rel f) None ++ slash :: tag_name (pf_rel f) None)).
Proof. exact dir_slash_name_is_identity. Qed.
Print Assumptions C17_dir_slash_name_is_identity.

(* ---- the whole program (added once the component models were composed: Whole/Main.v [tempren_main]) ---- *)
From Coq Require Import Permutation.
From Tempren Require Import Pipe.FrontCompile Whole.Library Whole.Render Whole.Gather Whole.Main Whole.Facts Whole.Theorems Whole.Examples.

(* `tempren -n '%Name()' dirs`, `tempren -n '%Base()%Ext()' dirs` (also with -d), `tempren -p '%Dir()/%Name()' dirs`
   - the TEXTS, compiled against the core library - on EVERY tree with ordinary names (well formed; no '/', "",
   "." or ".." as an entry name; keys shorter than the path-walk bound of the model), for every non-empty list of
   input paths that name directories (any spelling, through symbolic links too), every listing order of the
   operating system, with or without -r, -ih, --sort %Name() (not available in directory mode), any strategy, real
   or dry: no system call, nothing reported, no intermediate state, exit status 0, the final tree IS the initial
   one.  Directory mode without -r renames the input directories themselves (File(parent, name)): there the
   input paths are the keys of directories of the tree. *)
Theorem C17_whole_identity_templates : forall upper lower o text dirs s,
  tree_ok s ->
  dirs <> [] -> Forall (fun d => is_dir s [] (abs_path d) = true) dirs ->
  (explicit_mode o = true -> Forall (fun d => d <> [] /\ lookup s d = Some NDir) dirs) ->
  (forall l, Permutation l (o_listing o l)) ->
  (o_mode o = MDirectory -> o_sort_name o = false) ->
  ((o_mode o <> MPath /\ (text = t_name \/ text = t_base_ext)) \/ (o_mode o = MPath /\ text = t_dir_name)) ->
  let r := tempren_main upper lower core_reg o text dirs s in
  r_status r = 0%Z /\ r_calls r = [] /\ r_report r = [] /\ r_states r = [] /\ r_final r = s.
Proof. exact whole_identity_templates. Qed.
Print Assumptions C17_whole_identity_templates.

(* the texts are what they are said to be; the hypothesis on the tree has a checker *)
Theorem C17_whole_texts :
  t_name = [37; 78; 97; 109; 101; 40; 41] /\                                              (* %Name()        *)
  t_base_ext = [37; 66; 97; 115; 101; 40; 41; 37; 69; 120; 116; 40; 41] /\                (* %Base()%Ext()  *)
  t_dir_name = [37; 68; 105; 114; 40; 41; 47; 37; 78; 97; 109; 101; 40; 41] /\            (* %Dir()/%Name() *)
  (forall o, explicit_mode o = match o_mode o with MDirectory => negb (o_recursive o) | _ => false end).
Proof. exact identity_texts. Qed.
Print Assumptions C17_whole_texts.

Theorem C17_whole_tree_checker_sound : forall s, tree_ok_b s = true -> tree_ok s.
Proof. exact tree_ok_b_sound. Qed.
Print Assumptions C17_whole_tree_checker_sound.

(* a concrete tree (files, a hidden file, a subdirectory), the listing reversed, every mode: nothing happens;
   a template that is not an identity does rename *)
Example C17_whole_example :
  tree_ok_b ex_tree = true /\
  (forall m r t, In (m, r, t) [(MName, true, t_name); (MName, false, t_base_ext); (MDirectory, true, t_name);
                               (MDirectory, false, t_base_ext); (MPath, true, t_dir_name); (MPath, false, t_dir_name)] ->
     let res := ex_main (ex_options_rev m r false) t ex_dirs ex_tree in
     r_status res = 0%Z /\ r_calls res = [] /\ r_report res = [] /\ r_final res = ex_tree) /\
  length (whole_plan ascii_upper_str ascii_lower_str b_name (ex_options_rev MName true false) ex_dirs ex_tree) = 5%nat /\
  length (r_calls (ex_main (ex_options MName true true) t_upper_count ex_dirs ex_tree)) = 4%nat.
Proof.
  split; [vm_compute; reflexivity|]. split.
  - intros m r t H. cbn [In] in H.
    repeat (destruct H as [H|H]; [inversion H; subst; vm_compute; repeat split; reflexivity|]). destruct H.
  - vm_compute. split; reflexivity.
Qed.
