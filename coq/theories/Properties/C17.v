(* C17 — Name, Base, Ext and Dir decompose every path losslessly.                   *)
From Tempren Require Import Base.Str Py.PathLib Py.PathLibProofs.
Open Scope N_scope.

(* stem ++ suffix = name, for every name (no dot, leading, trailing, several, only dots) *)
Theorem C17_stem_suffix : forall n, name_stem n ++ name_suffix n = n.
Proof. exact stem_suffix. Qed.
Print Assumptions C17_stem_suffix.

(* %Base()%Ext() = %Name(), without a context and for every context string read as a path *)
Theorem C17_base_ext_is_name : forall rel ctx,
  tag_base rel ctx ++ tag_ext rel ctx = tag_name rel ctx.
Proof. exact base_ext_is_name. Qed.
Print Assumptions C17_base_ext_is_name.

(* str(parent)/name parses back to the path (top level gives "./name") *)
Theorem C17_dir_name : forall p, normal_rel p ->
  parse_path (pp_str (pp_parent p) ++ slash :: pp_name p) = p.
Proof. exact dir_slash_name. Qed.
Print Assumptions C17_dir_name.

Theorem C17_dir_name_tags : forall rel, normal_rel rel ->
  parse_path (tag_dir rel None ++ slash :: tag_name rel None) = rel.
Proof. exact dir_name_is_path. Qed.
Print Assumptions C17_dir_name_tags.

(* with_name(own name) gives back an equal path: the name-mode generator returns the
   relative path itself for %Name() and %Base()%Ext(), which the pipeline skips *)
Theorem C17_with_own_name : forall p, normal_rel p -> pp_with_name p (pp_name p) = Some p.
Proof. exact with_own_name. Qed.
Print Assumptions C17_with_own_name.

Theorem C17_parse_str_roundtrip : forall p, normal_rel p -> parse_path (pp_str p) = p.
Proof. exact parse_str_roundtrip. Qed.
Print Assumptions C17_parse_str_roundtrip.

Example C17_examples :
  let p := parse_path [97;47;46;98;46;116;97;114;46;103;122] in   (* "a/.b.tar.gz" *)
  pp_name p = [46;98;46;116;97;114;46;103;122] /\
  pp_stem p = [46;98;46;116;97;114] /\ pp_suffix p = [46;103;122] /\
  name_suffix [46;46;46] = [] /\ name_stem [46;98] = [46;98] /\ name_suffix [97;46] = [] /\
  pp_str (pp_parent p) = [97] /\
  normal_rel p.
Proof.
  cbv zeta. do 7 (split; [vm_compute; reflexivity|]).
  split; [vm_compute; reflexivity|]. split; [vm_compute; discriminate|].
  intros y Hy. vm_compute in Hy. destruct Hy as [<-|[<-|[]]]; split; reflexivity.
Qed.

(* ---- the pipeline half: the three templates are no-ops on every tree (added once the pipeline model existed) ---- *)
From Tempren Require Import FS.Model Pipe.Pipeline Pipe.Noop.

(* a plan in which every file's generated path equals its own relative path: exit status 0, no system call,
   no report line, no intermediate state, the tree unchanged — every mode, strategy, dry or real, any order *)
Theorem C17_identity_plan_is_noop : forall c plan cwd s,
  Forall (identity_entry (c_mode c) s) plan ->
  let r := run c plan cwd s in
  r_status r = 0%Z /\ r_calls r = [] /\ r_report r = [] /\ r_states r = [] /\ r_final r = s.
Proof. exact identity_plan_is_noop. Qed.
Print Assumptions C17_identity_plan_is_noop.

(* '%Name()' and '%Base()%Ext()' (= name, by C17_stem_suffix) in name and directory mode *)
Theorem C17_own_name_is_identity : forall m f s,
  m <> MPath -> normal_rel (pf_rel f) -> (exists cwd1, chdir s (pf_dir f) = Some cwd1) ->
  identity_entry m s (f, RText (pp_name (pf_rel f))).
Proof. exact own_name_is_identity. Qed.
Print Assumptions C17_own_name_is_identity.

(* '%Dir()/%Name()' in path mode *)
Theorem C17_dir_slash_name_is_identity : forall f s,
  normal_rel (pf_rel f) -> (exists cwd1, chdir s (pf_dir f) = Some cwd1) ->
  identity_entry MPath s (f, RText (tag_dir (pf_rel f) None ++ slash :: tag_name (pf_rel f) None)).
Proof. exact dir_slash_name_is_identity. Qed.
Print Assumptions C17_dir_slash_name_is_identity.
