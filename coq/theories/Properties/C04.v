(* C04 — a dry run never changes the filesystem.  Statements only. *)
From Tempren Require Import Base.Str Py.PathLib FS.Model Pipe.Pipeline Pipe.DryRun Pipe.SafetyFacts.
Open Scope N_scope.

(* For EVERY configuration with dry-run set (every mode, every strategy incl. override, every
   scripted answer sequence, every variant of the guards), EVERY plan (any files, order, rendered
   texts, raising templates) and EVERY tree: no rename/mkdir/move is issued, no intermediate
   state exists, the final filesystem is the initial one — whatever the exit status. *)
Theorem C04_dry_no_syscall : forall c plan cwd s,
  c_dry c = true ->
  r_final (run c plan cwd s) = s /\ r_states (run c plan cwd s) = [] /\ r_calls (run c plan cwd s) = [].
Proof. exact dry_run_touches_nothing. Qed.
Print Assumptions C04_dry_no_syscall.

(* the dry renamer itself never touches the filesystem component of the world *)
Theorem C04_dry_renamer_pure : forall v sd s w cwd src dst o w' e,
  untouched s w -> dry_renamer v sd w cwd src dst o = (w', e) -> untouched s w'.
Proof. exact dry_renamer_untouched. Qed.
Print Assumptions C04_dry_renamer_pure.

(* Non-vacuity: a dry run under OVERRIDE on a colliding plan reports renames (so the run did
   something) and still issues no call; the same plan run for real issues calls. *)
Definition dry_cfg : cfg :=
  {| c_mode := MName; c_strategy := Override; c_dry := true; c_answers := []; c_fault := None; c_var := fixed |}.
Definition real_cfg : cfg :=
  {| c_mode := MName; c_strategy := Override; c_dry := false; c_answers := []; c_fault := None; c_var := fixed |}.

Example C04_example :
  let r := run dry_cfg plan_dangling [] fs_dangling in
  r_status r = 0%Z /\ length (r_report r) = 1%nat /\ r_calls r = [] /\ fs_eqb (r_final r) fs_dangling = true /\
  length (r_calls (run real_cfg plan_dangling [] fs_dangling)) = 1%nat.
Proof. vm_compute. repeat split. Qed.
