(* C04 — a dry run never changes the filesystem.  Statements only. *)
From Tempren Require Import Base.Str Py.PathLib FS.Model Pipe.Pipeline Pipe.DryRun Pipe.SafetyFacts.
Open Scope N_scope.

(* For EVERY configuration with dry-run set (every mode, every strategy incl. override, every
   scripted answer sequence, every variant of the guards), EVERY plan (any files, order, rendered
   texts, raising templates) and EVERY tree: no rename/mkdir/move is issued, no intermediate
   state exists, the final filesystem is the initial one — whatever the exit status. *)
Theorem C04_dry_no_syscall : forall c plan cwd s,
  c_dry c = true ->
  r_final (run c plan cwd s) = s /\ r_states (run c plan cwd s) = [] /\ r_calls (run c plan cwd s) = [].
Proof. exact dry_run_touches_nothing. Qed.
Print Assumptions C04_dry_no_syscall.

(* the dry renamer itself never touches the filesystem component of the world *)
Theorem C04_dry_renamer_pure : forall v sd s w cwd src dst o w' e,
  untouched s w -> dry_renamer v sd w cwd src dst o = (w', e) -> untouched s w'.
Proof. exact dry_renamer_untouched. Qed.
Print Assumptions C04_dry_renamer_pure.

(* Non-vacuity: a dry run under OVERRIDE on a colliding plan reports renames (so the run did
   something) and still issues no call; the same plan run for real issues calls. *)
Definition dry_cfg : cfg :=
  {| c_mode := MName; c_strategy := Override; c_dry := true; c_answers := []; c_fault := None; c_var := fixed |}.
Definition real_cfg : cfg :=
  {| c_mode := MName; c_strategy := Override; c_dry := false; c_answers := []; c_fault := None; c_var := fixed |}.

Example C04_example :
  let r := run dry_cfg plan_dangling [] fs_dangling in
  r_status r = 0%Z /\ length (r_report r) = 1%nat /\ r_calls r = [] /\ fs_eqb (r_final r) fs_dangling = true /\
  length (r_calls (run real_cfg plan_dangling [] fs_dangling)) = 1%nat.
Proof. vm_compute. repeat split. Qed.

(* ---- the whole program (Whole/Main.v [tempren_main]; proofs: Whole/PipelineProps.v) ---- *)
From Tempren Require Import Pipe.FrontCompile Whole.Library Whole.Render Whole.Gather Whole.Main Whole.PipelineProps Whole.Examples.

(* For EVERY template text (compiling or not), registry, options with --dry-run (every mode, strategy, -r, -ih, sort,
   answers, fault index, listing order, working directory), input paths and tree: tempren issues no system call, no
   intermediate state exists, the final tree is the initial one - whatever is gathered, rendered and reported, and
   whatever the exit status. *)
Theorem C04_whole_dry_run_touches_nothing : forall upper lower R o text dirs s,
  o_dry o = true ->
  let r := tempren_main upper lower R o text dirs s in
  r_calls r = [] /\ r_states r = [] /\ r_final r = s.
Proof. exact whole_dry_run_touches_nothing. Qed.
Print Assumptions C04_whole_dry_run_touches_nothing.

(* the template "x" on the example tree, -r, sorted: the dry run reports two renames and stops at the conflict
   (status 1) without a call; the real run issues two calls *)
Example C04_whole_example :
  let d := ex_main (set_dry (ex_options MName true true) true) t_x ex_dirs ex_tree in
  let r := ex_main (ex_options MName true true) t_x ex_dirs ex_tree in
  o_dry (set_dry (ex_options MName true true) true) = true /\
  r_status d = 1%Z /\ length (r_report d) = 2%nat /\ r_calls d = [] /\ r_states d = [] /\ r_final d = ex_tree /\
  length (r_calls r) = 2%nat /\ fs_eqb (r_final r) ex_tree = false.
Proof. vm_compute. repeat split; reflexivity. Qed.
