(* C16 — Count yields a gap-free arithmetic sequence per directory (or globally). *)
(* Statements only; every proof is [exact <lemma>].                               *)
From Tempren Require Import Base.Str Tags.Count Tags.CountProofs.
Open Scope Z_scope.

(* The k-th call (0-based, k = number of earlier calls for the same directory) for
   directory d returns start + k*step: no gaps, independently per directory, for
   every interleaving [calls] of directories. *)
Theorem C16_per_directory : forall c calls i d,
  cc_common c = false ->
  nth_error calls i = Some d ->
  nth_error (count_values c calls) i =
    Some (cc_start c + Z.of_nat (occ d (firstn i calls)) * cc_step c).
Proof. exact count_per_directory. Qed.
Print Assumptions C16_per_directory.

Theorem C16_common : forall c calls i,
  cc_common c = true -> (i < length calls)%nat ->
  nth_error (count_values c calls) i = Some (cc_start c + Z.of_nat i * cc_step c).
Proof. exact count_common. Qed.
Print Assumptions C16_common.

(* No repeats: two different calls for one directory never get the same value. *)
Theorem C16_injective_per_directory : forall c calls i j d vi vj,
  cc_common c = false -> cc_step c <> 0 -> i <> j ->
  nth_error calls i = Some d -> nth_error calls j = Some d ->
  nth_error (count_values c calls) i = Some vi ->
  nth_error (count_values c calls) j = Some vj ->
  vi <> vj.
Proof. exact count_injective_per_directory. Qed.
Print Assumptions C16_injective_per_directory.

Theorem C16_injective_common : forall c calls i j vi vj,
  cc_common c = true -> cc_step c <> 0 -> i <> j ->
  nth_error (count_values c calls) i = Some vi ->
  nth_error (count_values c calls) j = Some vj ->
  vi <> vj.
Proof. exact count_injective_common. Qed.
Print Assumptions C16_injective_common.

(* A value is refused (ValueError) exactly when it is negative. *)
Theorem C16_raise_iff_negative : forall w v, render_count w v = CRaise <-> v < 0.
Proof. exact render_count_raise. Qed.
Print Assumptions C16_raise_iff_negative.

(* Zero padded to at least the width, never truncated, reads back as the value. *)
Theorem C16_zfill : forall w v, 0 <= v ->
  let t := zfill w (decimal_Z v) in
  length t = Nat.max w (length (decimal_Z v)) /\
  Z_of_decimal t = Some v /\
  exists z, t = z ++ decimal_Z v /\ forall c, In c z -> c = 48%N.
Proof. exact zfill_spec. Qed.
Print Assumptions C16_zfill.

(* Names built from distinct counter values are distinct, whatever surrounds them. *)
Theorem C16_names_distinct : forall w v v' t t' (pre post : str),
  0 <= v -> 0 <= v' -> v <> v' ->
  count_text (render_count w v) = Some t ->
  count_text (render_count w v') = Some t' ->
  pre ++ t ++ post <> pre ++ t' ++ post.
Proof. exact count_names_distinct. Qed.
Print Assumptions C16_names_distinct.

(* Non-vacuity: a concrete interleaving over two directories, negative step. *)
Example C16_example :
  let c := {| cc_start := 5; cc_step := -2; cc_width := 3; cc_common := false |} in
  let a := [[97%N]] in let b := [[98%N]] in
  count_configure_ok c = true /\
  count_run c [a; b; a; a; b; a] =
    [CStr [48;48;53]%N; CStr [48;48;53]%N; CStr [48;48;51]%N; CStr [48;48;49]%N;
     CStr [48;48;51]%N; CRaise].
Proof. vm_compute. split; reflexivity. Qed.

(* ---- the whole program (added once the component models were composed: Whole/Main.v [tempren_main]) ---- *)
From Tempren Require Import Py.PathLib FS.Model Pipe.Pipeline Pipe.FrontCompile Tpl.Alias.
From Tempren Require Import Whole.Library Whole.Render Whole.Gather Whole.Main Whole.CountWhole Whole.Examples.

(* When the command line is accepted (argparse, a gatherer, the template and the sort option), the program is the
   pipeline run on [whole_plan]: the files gathered from the tree, in processing order, each with what the
   compiled template rendered for it. *)
Theorem C16_whole_program_runs_its_plan : forall upper lower R o text b dirs s,
  args_ok s text dirs = true -> no_gatherers o s dirs = false ->
  compile R text = inl b ->
  wants_dirs (o_mode o) && o_sort_name o = false ->
  (o_sort_name o = true -> compiles R t_sort_name = true) ->
  tempren_main upper lower R o text dirs s =
  run (cfg_of_options o) (whole_plan upper lower b o dirs s) (o_cwd o) s.
Proof. exact tempren_main_is_run. Qed.
Print Assumptions C16_whole_program_runs_its_plan.

(* A name template that is one Count tag with ANY accepted arguments a (keyword or positional spelling; c = the
   configuration they denote), per-directory counters: in the plan of EVERY tree, input path list, mode, -r, -ih,
   sort option and listing order, the i-th processed file f is rendered start + k*step - printed in decimal, or
   zero-filled to the width, or the ValueError of a negative value - where k is the number of files OF THE SAME
   DIRECTORY (file.absolute_path.parent) processed before it. *)
Theorem C16_whole_count_numbers : forall upper lower o a c dirs s i f r,
  count_cfg_of a = Some c -> cc_common c = false ->
  nth_error (whole_plan upper lower [BTag fid_Count a tt false []] o dirs s) i = Some (f, r) ->
  let files := processing_order o s dirs in
  let k := occ (file_dirkey f) (firstn i (map file_dirkey files)) in
  nth_error files i = Some f /\
  r = rendered_of_count (render_count (cc_width c) (cc_start c + Z.of_nat k * cc_step c)).
Proof. exact count_plan_per_directory. Qed.
Print Assumptions C16_whole_count_numbers.

(* common=True: one counter for the whole run *)
Theorem C16_whole_count_numbers_common : forall upper lower o a c dirs s i f r,
  count_cfg_of a = Some c -> cc_common c = true ->
  nth_error (whole_plan upper lower [BTag fid_Count a tt false []] o dirs s) i = Some (f, r) ->
  nth_error (processing_order o s dirs) i = Some f /\
  r = rendered_of_count (render_count (cc_width c) (cc_start c + Z.of_nat i * cc_step c)).
Proof. exact count_plan_common. Qed.
Print Assumptions C16_whole_count_numbers_common.

(* the text %Count() compiles to that tag, and numbers the files of each directory 0, 1, 2, ... *)
Theorem C16_whole_count_text :
  compile core_reg t_count_plain = inl [BTag fid_Count CountWhole.no_targs tt false []] /\
  t_count_plain = [37; 67; 111; 117; 110; 116; 40; 41].
Proof. exact count_plain_text. Qed.
Print Assumptions C16_whole_count_text.

Theorem C16_whole_count_plain : forall upper lower o dirs s i f r,
  nth_error (whole_plan upper lower [BTag fid_Count CountWhole.no_targs tt false []] o dirs s) i = Some (f, r) ->
  let files := processing_order o s dirs in
  let k := occ (file_dirkey f) (firstn i (map file_dirkey files)) in
  nth_error files i = Some f /\ r = RText (decimal_Z (Z.of_nat k)).
Proof. exact count_plain_numbers. Qed.
Print Assumptions C16_whole_count_plain.

(* what the pipeline receives for a counter outcome *)
Theorem C16_whole_rendered_of_count : forall o,
  rendered_of_count o = match o with CInt v => RText (decimal_Z v) | CStr t => RText t | CRaise => RRaise ExOther end.
Proof. exact rendered_of_count_spec. Qed.
Print Assumptions C16_whole_rendered_of_count.

(* %Count(start=5,step=-2,width=3) on the example tree, -r, sorted by name: in/a.t 005, in/b.t 003, in/s/c 005,
   in/s/d.t 003; the same with the listing reversed, hidden files included and no sorter: the numbers follow the
   processing order (in/ has three files: 005, 003, 001); with start=1 the second file of a directory gets -1: the
   ValueError ends the run with status 126 *)
Example C16_whole_example :
  map snd (match compile core_reg t_count_down with
           | inl b => whole_plan ascii_upper_str ascii_lower_str b (ex_options MName true true) ex_dirs ex_tree
           | inr _ => [] end)
  = [RText [48; 48; 53]; RText [48; 48; 51]; RText [48; 48; 53]; RText [48; 48; 51]]%N /\
  map (fun e => (pp_parts (pf_rel (fst e)), snd e))
      (match compile core_reg t_count_down with
       | inl b => whole_plan ascii_upper_str ascii_lower_str b (ex_options_rev MName true false) ex_dirs ex_tree
       | inr _ => [] end)
  = [([[115]; [100; 46; 116]], RText [48; 48; 53]); ([[115]; [99]], RText [48; 48; 51]);
     ([[46; 104]], RText [48; 48; 53]); ([[97; 46; 116]], RText [48; 48; 51]); ([[98; 46; 116]], RText [48; 48; 49])]%N /\
  r_status (ex_main (ex_options MName true true) t_count_down ex_dirs ex_tree) = 0%Z /\
  r_status (ex_main (ex_options_rev MName true false) t_count_down ex_dirs ex_tree) = 0%Z /\
  (* %Count(start=1,step=-2) *)
  r_status (ex_main (ex_options MName true true)
              [37; 67; 111; 117; 110; 116; 40; 115; 116; 97; 114; 116; 61; 49; 44; 115; 116; 101; 112; 61; 45; 50; 41]%N
              ex_dirs ex_tree) = 126%Z.
Proof. vm_compute. repeat split; reflexivity. Qed.
