(* C16 — Count yields a gap-free arithmetic sequence per directory (or globally). *)
(* Statements only; every proof is [exact <lemma>].                               *)
From Tempren Require Import Base.Str Tags.Count Tags.CountProofs.
Open Scope Z_scope.

(* The k-th call (0-based, k = number of earlier calls for the same directory) for
   directory d returns start + k*step: no gaps, independently per directory, for
   every interleaving [calls] of directories. *)
Theorem C16_per_directory : forall c calls i d,
  cc_common c = false ->
  nth_error calls i = Some d ->
  nth_error (count_values c calls) i =
    Some (cc_start c + Z.of_nat (occ d (firstn i calls)) * cc_step c).
Proof. exact count_per_directory. Qed.
Print Assumptions C16_per_directory.

Theorem C16_common : forall c calls i,
  cc_common c = true -> (i < length calls)%nat ->
  nth_error (count_values c calls) i = Some (cc_start c + Z.of_nat i * cc_step c).
Proof. exact count_common. Qed.
Print Assumptions C16_common.

(* No repeats: two different calls for one directory never get the same value. *)
Theorem C16_injective_per_directory : forall c calls i j d vi vj,
  cc_common c = false -> cc_step c <> 0 -> i <> j ->
  nth_error calls i = Some d -> nth_error calls j = Some d ->
  nth_error (count_values c calls) i = Some vi ->
  nth_error (count_values c calls) j = Some vj ->
  vi <> vj.
Proof. exact count_injective_per_directory. Qed.
Print Assumptions C16_injective_per_directory.

Theorem C16_injective_common : forall c calls i j vi vj,
  cc_common c = true -> cc_step c <> 0 -> i <> j ->
  nth_error (count_values c calls) i = Some vi ->
  nth_error (count_values c calls) j = Some vj ->
  vi <> vj.
Proof. exact count_injective_common. Qed.
Print Assumptions C16_injective_common.

(* A value is refused (ValueError) exactly when it is negative. *)
Theorem C16_raise_iff_negative : forall w v, render_count w v = CRaise <-> v < 0.
Proof. exact render_count_raise. Qed.
Print Assumptions C16_raise_iff_negative.

(* Zero padded to at least the width, never truncated, reads back as the value. *)
Theorem C16_zfill : forall w v, 0 <= v ->
  let t := zfill w (decimal_Z v) in
  length t = Nat.max w (length (decimal_Z v)) /\
  Z_of_decimal t = Some v /\
  exists z, t = z ++ decimal_Z v /\ forall c, In c z -> c = 48%N.
Proof. exact zfill_spec. Qed.
Print Assumptions C16_zfill.

(* Names built from distinct counter values are distinct, whatever surrounds them. *)
Theorem C16_names_distinct : forall w v v' t t' (pre post : str),
  0 <= v -> 0 <= v' -> v <> v' ->
  count_text (render_count w v) = Some t ->
  count_text (render_count w v') = Some t' ->
  pre ++ t ++ post <> pre ++ t' ++ post.
Proof. exact count_names_distinct. Qed.
Print Assumptions C16_names_distinct.

(* Non-vacuity: a concrete interleaving over two directories, negative step. *)
Example C16_example :
  let c := {| cc_start := 5; cc_step := -2; cc_width := 3; cc_common := false |} in
  let a := [[97%N]] in let b := [[98%N]] in
  count_configure_ok c = true /\
  count_run c [a; b; a; a; b; a] =
    [CStr [48;48;53]%N; CStr [48;48;53]%N; CStr [48;48;51]%N; CStr [48;48;49]%N;
     CStr [48;48;51]%N; CRaise].
Proof. vm_compute. split; reflexivity. Qed.
