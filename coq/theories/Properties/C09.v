(* C09 — every template mistake is reported as such before any file is touched.  Statements only. *)
From Tempren Require Import Base.Str Py.PathLib FS.Model Pipe.Pipeline Pipe.Front.
Open Scope N_scope.

(* [main_run fr c gathered order render cwd s] is cli.main + build_pipeline + Pipeline.execute: the three templates are compiled
   first (name, then filter, then sort), then every gathered file passes the filter expression, then every selected file gets its
   sort key, and only then the rename pipeline [run] starts.  [fr] says which templates compile and which evaluations fail;
   [gathered], [order], [render], [c], [s] are arbitrary. *)
Theorem C09_untouched_on_template_error : forall fr c gathered order render cwd s,
  template_mistake fr = true ->
  let r := main_run fr c gathered order render cwd s in
  r_calls r = [] /\ r_states r = [] /\ r_final r = s /\ r_report r = [] /\ (r_status r = 3%Z \/ r_status r = 2%Z).
Proof. exact untouched_on_template_error. Qed.
Print Assumptions C09_untouched_on_template_error.

Theorem C09_untouched_on_filter_evaluation_error : forall fr c gathered order render cwd s,
  template_mistake fr = false -> f_filter fr = Some true ->
  (c_mode c = MDirectory -> f_sort fr = None) ->
  filter_all (f_filter_eval fr) gathered = None ->
  let r := main_run fr c gathered order render cwd s in
  r_calls r = [] /\ r_final r = s /\ r_report r = [] /\ r_status r = 4%Z.
Proof. exact untouched_on_filter_evaluation_error. Qed.
Print Assumptions C09_untouched_on_filter_evaluation_error.

Theorem C09_untouched_on_sort_evaluation_error : forall fr c gathered order render cwd s selected,
  template_mistake fr = false -> f_sort fr = Some true -> c_mode c <> MDirectory ->
  (match f_filter fr with Some _ => filter_all (f_filter_eval fr) gathered | None => Some gathered end) = Some selected ->
  forallb (f_sort_eval fr) selected = false ->
  let r := main_run fr c gathered order render cwd s in
  r_calls r = [] /\ r_final r = s /\ r_report r = [] /\ r_status r = 4%Z.
Proof. exact untouched_on_sort_evaluation_error. Qed.
Print Assumptions C09_untouched_on_sort_evaluation_error.

Theorem C09_filter_verdict_for_every_file : forall ev l k,
  filter_all ev l = Some k -> forall f, In f l -> ev f <> None.
Proof. exact filter_all_spec. Qed.
Print Assumptions C09_filter_verdict_for_every_file.

Theorem C09_status_classes :
  status_of ExTemplate = 3%Z /\ status_of ExTemplateEval = 4%Z /\ status_of ExConfiguration = 2%Z /\
  status_of ExTemplate <> 126%Z /\ status_of ExTemplateEval <> 126%Z.
Proof. exact status_classes. Qed.
Print Assumptions C09_status_classes.

(* Non-vacuity: a front end where only the sort template is broken; one where the filter fails for the second file *)
Example C09_example :
  let c := {| c_mode := MName; c_strategy := Stop; c_dry := false; c_answers := []; c_fault := None; c_var := fixed |} in
  let f1 := {| pf_dir := [[105; 110]]; pf_rel := parse_path [97] |} in
  let f2 := {| pf_dir := [[105; 110]]; pf_rel := parse_path [98] |} in
  let s := [([[105; 110]], NDir); ([[105; 110]; [97]], NFile 1); ([[105; 110]; [98]], NFile 2)] in
  let render := map (fun f => (f, RText [120])) in
  let bad_sort := {| f_name_ok := true; f_filter := None; f_sort := Some false; f_filter_eval := fun _ => Some true; f_sort_eval := fun _ => true |} in
  let bad_eval := {| f_name_ok := true; f_filter := Some true; f_sort := None;
                     f_filter_eval := fun f => if ppath_eqb (pf_rel f) (parse_path [98]) then None else Some true; f_sort_eval := fun _ => true |} in
  let fine := {| f_name_ok := true; f_filter := None; f_sort := None; f_filter_eval := fun _ => Some true; f_sort_eval := fun _ => true |} in
  r_status (main_run bad_sort c [f1; f2] (fun l => l) render [] s) = 3%Z /\
  r_status (main_run bad_eval c [f1; f2] (fun l => l) render [] s) = 4%Z /\
  r_calls (main_run bad_eval c [f1; f2] (fun l => l) render [] s) = [] /\
  r_status (main_run fine c [f1] (fun l => l) render [] s) = 0%Z /\
  length (r_calls (main_run fine c [f1] (fun l => l) render [] s)) = 1%nat.
Proof. vm_compute. repeat split. Qed.

(* ====================================================================================================== *)
(* The front end computed from the template TEXTS (Pipe/FrontCompile.v).  [compile R text] is              *)
(* TemplateCompiler.compile: the parser of C10 ([parse]), then the binder of C15 ([Alias.bind_list]) over  *)
(* the registry of C12 ([Registry.get]) with the factory call and context rule of C13                      *)
(* ([Signature.bind_call]); [R : tagreg] carries the name table, what each factory is (class tag with the  *)
(* signature and require_context of its --help line, or alias with its pattern text) and the nesting depth *)
(* allowed for aliases.  [front_of R name filter sort fe se] is the record [front] with                     *)
(* f_name_ok / f_filter / f_sort COMPUTED by [compile]; the evaluators fe, se stay arbitrary.               *)
(* ====================================================================================================== *)
From Tempren Require Import Tpl.Ast Tpl.Lexer Tpl.Visitor Pipe.FrontCompile Pipe.FrontCompileExamples.
From Tempren Require Tpl.Registry Tpl.Signature.

(* A template text the user typed does not compile (the name template, or the filter / sort template if one
   is given): no system call, no intermediate state, the filesystem and the report untouched; status 3
   (2 only when --sort is combined with directory mode, which cli.main refuses before compiling it). *)
Theorem C09_untouched_on_bad_template_text :
  forall R name_tpl filter_tpl sort_tpl fe se c gathered order render cwd s,
  (is_error (compile R name_tpl) \/
   (exists t, filter_tpl = Some t /\ is_error (compile R t)) \/
   (exists t, sort_tpl = Some t /\ is_error (compile R t))) ->
  let r := main_run (front_of R name_tpl filter_tpl sort_tpl fe se) c gathered order render cwd s in
  r_calls r = [] /\ r_states r = [] /\ r_final r = s /\ r_report r = [] /\ (r_status r = 3%Z \/ r_status r = 2%Z).
Proof. exact untouched_on_bad_template_text. Qed.
Print Assumptions C09_untouched_on_bad_template_text.

(* the status is exactly 3 for the name and the filter template, and for the sort template outside directory mode *)
Theorem C09_bad_template_text_status_3 :
  forall R name_tpl filter_tpl sort_tpl fe se c gathered order render cwd s,
  (is_error (compile R name_tpl) \/
   (exists t, filter_tpl = Some t /\ is_error (compile R t)) \/
   (exists t, sort_tpl = Some t /\ is_error (compile R t) /\ c_mode c <> MDirectory)) ->
  let r := main_run (front_of R name_tpl filter_tpl sort_tpl fe se) c gathered order render cwd s in
  r_calls r = [] /\ r_states r = [] /\ r_final r = s /\ r_report r = [] /\ r_status r = 3%Z.
Proof. exact bad_template_text_status_3. Qed.
Print Assumptions C09_bad_template_text_status_3.

(* and conversely the front end finds no template mistake exactly when every given text compiles *)
Theorem C09_no_mistake_iff_all_compile : forall R name_tpl filter_tpl sort_tpl fe se,
  template_mistake (front_of R name_tpl filter_tpl sort_tpl fe se) = false <->
  compiles R name_tpl = true /\
  (forall t, filter_tpl = Some t -> compiles R t = true) /\
  (forall t, sort_tpl = Some t -> compiles R t = true).
Proof. exact no_mistake_iff. Qed.
Print Assumptions C09_no_mistake_iff_all_compile.

(* When does a text fail to compile: it does not parse, or some tag of the parsed tree does not bind.
   [all_tags_bind R p = pat_binds R (text_binds R (tr_depth R)) p] is the recursion
       pat_binds (e1 ... ek)              = ast_binds e1 && ... && ast_binds ek
       ast_binds (raw text)               = true
       ast_binds (%c.n(ar, kw) [{x}])     = tag_ok c n ar kw has_ctx && (if has_ctx then pat_binds x else true)
       tag_ok c n ar kw h                 = Registry.get names (c, n) is ROk f (unique factory) and
            f is a class tag (s, r, accepts): Signature.bind_call s r (accepts args) |ar| (keys kw) h = Accept
                                              (arguments bind, configure accepts, context rule met)
            f is an alias with text t:        t compiles one level further down, no argument, no context
   (a piped tag  x|%T()  is the tree %T(){x}: the parser has already put x into the context). *)
Theorem C09_compile_error_iff : forall R text,
  is_error (compile R text) <->
  (exists e, parse text = Err e) \/ (exists p, parse text = Ok p /\ all_tags_bind R p = false).
Proof. exact compile_error_iff. Qed.
Print Assumptions C09_compile_error_iff.

Theorem C09_compiles_spec : forall R text,
  compiles R text = match parse text with Ok p => all_tags_bind R p | Err _ => false end.
Proof. exact compiles_spec. Qed.
Print Assumptions C09_compiles_spec.

(* the same predicate read flat: every tag occurrence the binder can reach passes its own test *)
Theorem C09_all_tags_bind_flat : forall R p,
  all_tags_bind R p = forallb (occ_ok R (text_binds R (tr_depth R))) (tag_occs p).
Proof. exact all_tags_bind_flat. Qed.
Print Assumptions C09_all_tags_bind_flat.

(* every rejection is a TemplateError class: cli.main exits with 3 *)
Theorem C09_compile_error_status : forall R text e,
  compile R text = inr e ->
  Signature.is_template_error (exc_of_error e) = true /\ Signature.cli_status (exc_of_error e) = 3%Z.
Proof. exact compile_error_status. Qed.
Print Assumptions C09_compile_error_status.

(* A tag name that does not resolve to exactly one factory (unknown name, unknown category, ambiguous bare
   name), written ANYWHERE in the name template - top level, inside a context at any depth, in a pipe list:
   [leaves_pat p] are the leaves of the tree the parser returns, which by C10_nothing_dropped are the leaves
   of the parse tree of the text. *)
Theorem C09_untouched_on_unresolved_tag_name :
  forall R name_tpl filter_tpl sort_tpl fe se c gathered order render cwd s p cat name,
  parse name_tpl = Ok p -> In (LName cat name) (leaves_pat p) ->
  (forall f, Registry.get (tr_names R) (cat, name) <> Registry.ROk f) ->
  let r := main_run (front_of R name_tpl filter_tpl sort_tpl fe se) c gathered order render cwd s in
  r_calls r = [] /\ r_states r = [] /\ r_final r = s /\ r_report r = [] /\ r_status r = 3%Z.
Proof. exact untouched_on_unresolved_written_name. Qed.
Print Assumptions C09_untouched_on_unresolved_tag_name.

(* for any of the three texts (combine with C09_bad_template_text_status_3 for the filter / sort template) *)
Theorem C09_unresolved_tag_name_fails : forall R text p cat name,
  parse text = Ok p -> In (LName cat name) (leaves_pat p) ->
  (forall f, Registry.get (tr_names R) (cat, name) <> Registry.ROk f) ->
  is_error (compile R text).
Proof. exact unresolved_written_name_fails. Qed.
Print Assumptions C09_unresolved_tag_name_fails.

(* "does not resolve" read off the registrations the registry value was built from: no row carries the tag
   name written (tag names compare verbatim), in the category written if one is written (category names
   compare after lower-casing) *)
Theorem C09_untouched_on_unregistered_tag_name :
  forall depth rows R name_tpl filter_tpl sort_tpl fe se c gathered order render cwd s p cat name,
  tagreg_of_rows depth rows = Some R ->
  parse name_tpl = Ok p -> In (LName cat name) (leaves_pat p) ->
  (forall c2 f, match cat with Some c' => Registry.lower c2 = Registry.lower c' | None => True end ->
                ~ In (c2, name, f) (map fst rows)) ->
  let r := main_run (front_of R name_tpl filter_tpl sort_tpl fe se) c gathered order render cwd s in
  r_calls r = [] /\ r_states r = [] /\ r_final r = s /\ r_report r = [] /\ r_status r = 3%Z.
Proof. exact untouched_on_unregistered_name. Qed.
Print Assumptions C09_untouched_on_unregistered_tag_name.

(* the same for a tag occurrence given as a node of the tree *)
Theorem C09_untouched_on_unresolved_tag_occurrence :
  forall R name_tpl filter_tpl sort_tpl fe se c gathered order render cwd s p cat name ar kw h x,
  parse name_tpl = Ok p -> In (Tag cat name ar kw h x) (tag_occs p) ->
  (forall f, Registry.get (tr_names R) (cat, name) <> Registry.ROk f) ->
  let r := main_run (front_of R name_tpl filter_tpl sort_tpl fe se) c gathered order render cwd s in
  r_calls r = [] /\ r_states r = [] /\ r_final r = s /\ r_report r = [] /\ r_status r = 3%Z.
Proof. exact untouched_on_unresolved_tag. Qed.
Print Assumptions C09_untouched_on_unresolved_tag_occurrence.

(* any failing occurrence (bad arguments, missing / forbidden context, alias misuse ...) fails the text *)
Theorem C09_bad_occurrence_fails : forall R text p e,
  parse text = Ok p -> In e (tag_occs p) -> occ_ok R (text_binds R (tr_depth R)) e = false ->
  is_error (compile R text).
Proof. exact bad_occurrence_fails. Qed.
Print Assumptions C09_bad_occurrence_fails.

(* Unbalanced braces.  [braces_balanced text]: the lexer accepts the text and emits as many '{' tokens as '}'
   tokens (braces escaped by a backslash in raw text, or inside a quoted argument, are not brace tokens). *)
Theorem C09_unbalanced_braces_rejected : forall text,
  braces_balanced text = false -> exists e, parse text = Err e.
Proof. exact unbalanced_braces_rejected. Qed.
Print Assumptions C09_unbalanced_braces_rejected.

Theorem C09_untouched_on_unbalanced_braces :
  forall R name_tpl filter_tpl sort_tpl fe se c gathered order render cwd s,
  braces_balanced name_tpl = false ->
  let r := main_run (front_of R name_tpl filter_tpl sort_tpl fe se) c gathered order render cwd s in
  r_calls r = [] /\ r_states r = [] /\ r_final r = s /\ r_report r = [] /\ r_status r = 3%Z.
Proof. exact untouched_on_unbalanced_braces. Qed.
Print Assumptions C09_untouched_on_unbalanced_braces.

(* Stronger: [braces_nested text] - reading the brace tokens left to right, no '}' arrives at depth 0 and the
   depth is 0 at the end. *)
Theorem C09_ill_nested_braces_rejected : forall text,
  braces_nested text = false -> exists e, parse text = Err e.
Proof. exact ill_nested_braces_rejected. Qed.
Print Assumptions C09_ill_nested_braces_rejected.

Theorem C09_untouched_on_ill_nested_braces :
  forall R name_tpl filter_tpl sort_tpl fe se c gathered order render cwd s,
  braces_nested name_tpl = false ->
  let r := main_run (front_of R name_tpl filter_tpl sort_tpl fe se) c gathered order render cwd s in
  r_calls r = [] /\ r_states r = [] /\ r_final r = s /\ r_report r = [] /\ r_status r = 3%Z.
Proof. exact untouched_on_ill_nested_braces. Qed.
Print Assumptions C09_untouched_on_ill_nested_braces.

(* ---------- non-vacuity: the registry of Pipe/FrontCompileExamples.v ------------------------------------
   Core.Name %Name() (a context is refused), Text.Upper %Upper{...} (a context is required),
   Alias.Shout = %Upper{%Name()}, Alias.Loop = %Loop(); one file in/a, every name rendered to "x". *)
Example C09_example_registry :
  length ex_rows = 4%nat /\ tagreg_of_rows 20 ex_rows <> None /\
  Registry.get (tr_names ex_tagreg) (None, [78; 97; 109; 101]) = Registry.ROk 0 /\
  kind_of ex_tagreg 3 = Some (KAlias t_loop).
Proof. vm_compute. repeat split. discriminate. Qed.

(* %Nme()  %Upper{%Nme()}  %Name()|%Uper()  %Upper()  %Name(){x}  %Name(  %Upper{%Name()  %Name()}  %Name(x=1)
   %Shout(1)  %Loop(): status 3, no call, filesystem as before *)
Example C09_example_bad_texts :
  forall t, In t [t_unknown; t_unknown_nested; t_unknown_piped; t_ctx_missing; t_ctx_forbidden; t_open_paren;
                  t_open_brace; t_close_brace; t_bad_arg; t_alias_arg; t_loop] ->
  compiles ex_tagreg t = false /\
  r_status (ex_run MName t None None) = 3%Z /\ r_calls (ex_run MName t None None) = [] /\
  r_final (ex_run MName t None None) = ex_fs /\
  r_status (ex_run MName t_good (Some t) None) = 3%Z /\ r_calls (ex_run MName t_good (Some t) None) = [] /\
  r_status (ex_run MName t_good None (Some t)) = 3%Z /\ r_calls (ex_run MName t_good None (Some t)) = [] /\
  r_status (ex_run MDirectory t_good None (Some t)) = 2%Z /\ r_calls (ex_run MDirectory t_good None (Some t)) = [].
Proof.
  intros t H. cbn [In] in H.
  repeat (destruct H as [<-|H]; [vm_compute; repeat split; reflexivity|]). destruct H.
Qed.

(* the class of each error *)
Example C09_example_error_classes :
  map (fun t => match compile ex_tagreg t with inl _ => None | inr e => Some e end)
      [t_unknown; t_unknown_nested; t_unknown_piped; t_ctx_missing; t_ctx_forbidden; t_open_paren;
       t_open_brace; t_close_brace; t_bad_arg; t_alias_arg; t_loop] =
  [Some (TEBind Signature.ExUnknownName); Some (TEBind Signature.ExUnknownName); Some (TEBind Signature.ExUnknownName);
   Some (TEBind Signature.ExContextMissing); Some (TEBind Signature.ExContextForbidden); Some (TESyntax ESyntax);
   Some (TESyntax ESyntax); Some (TESyntax ESyntax); Some (TEBind Signature.ExTagConfiguration);
   Some (TEBind Signature.ExTagConfiguration); Some (TEBind Signature.ExTemplateSyntax)].
Proof. vm_compute. reflexivity. Qed.

(* %Upper{%Name()}  %Name()|%Upper()  a%Shout()  compile, and the run goes on to rename *)
Example C09_example_good_texts :
  forall t, In t [t_good; t_piped; t_alias] ->
  compiles ex_tagreg t = true /\
  r_status (ex_run MName t None None) = 0%Z /\ length (r_calls (ex_run MName t None None)) = 1%nat /\
  r_status (ex_run MName t (Some t) (Some t)) = 0%Z.
Proof.
  intros t H. cbn [In] in H.
  repeat (destruct H as [<-|H]; [vm_compute; repeat split; reflexivity|]). destruct H.
Qed.

(* the hypotheses of the corollaries are met by these texts *)
Example C09_example_hypotheses :
  (exists p, parse t_unknown_piped = Ok p /\ In (LName None [85; 112; 101; 114]) (leaves_pat p) /\
             Registry.get (tr_names ex_tagreg) (None, [85; 112; 101; 114]) = Registry.RUnknownName) /\
  braces_balanced t_open_brace = false /\ braces_balanced t_close_brace = false /\
  braces_balanced t_good = true /\ braces_nested t_good = true /\
  (* }%Upper{ : as many '{' as '}', but ill nested *)
  braces_balanced [125; 37; 85; 112; 112; 101; 114; 123] = true /\
  braces_nested [125; 37; 85; 112; 112; 101; 114; 123] = false /\
  compiles ex_tagreg [125; 37; 85; 112; 112; 101; 114; 123] = false.
Proof. vm_compute. split; [eexists; split; [reflexivity|split; [|reflexivity]]|repeat split]. left. reflexivity. Qed.

(* ---- the whole program: tempren <options> <template text> <input directories> on a tree (added once the
   component models were composed: Whole/Main.v [tempren_main]) ---- *)
From Tempren Require Import Whole.Library Whole.Render Whole.Gather Whole.Main Whole.Theorems Whole.Examples.

(* [tempren_main upper lower R o text dirs s]: R = ANY registry value (names, signatures, context rules, alias
   texts), o = mode, strategy, dry-run, -r, -ih, --sort %Name(), answers, fault index, listing order of the
   operating system, text = the name/path template as typed, dirs = the input paths, s = ANY tree; upper/lower =
   the case maps.  A text that does not compile: no system call, no intermediate state, the tree unchanged, no
   report line; the exit status is 3 whenever argparse accepts the command line (non-empty text, at least one
   input path, all of them exist) and a gatherer exists (always, except recursive directory mode without any
   input directory); the two earlier exits are status 2 (argparse) and 126 (CombinedFileGatherer([])). *)
Theorem C09_whole_bad_template_untouched : forall upper lower R o text dirs s,
  is_error (compile R text) ->
  let r := tempren_main upper lower R o text dirs s in
  r_calls r = [] /\ r_states r = [] /\ r_final r = s /\ r_report r = [] /\
  (args_ok s text dirs = true -> no_gatherers o s dirs = false -> r_status r = 3%Z) /\
  (r_status r = 3%Z \/ r_status r = 2%Z \/ r_status r = 126%Z).
Proof. exact whole_bad_template_untouched. Qed.
Print Assumptions C09_whole_bad_template_untouched.

(* %Nme()  %Upper()  %Name(  against the core library, on a concrete tree: status 3, nothing touched;
   a text that compiles goes on to rename four files *)
Example C09_whole_example :
  (forall t, In t [t_unknown_tag; t_no_context; Examples.t_open_paren] ->
     compiles core_reg t = false /\
     r_status (ex_main (ex_options MName true true) t ex_dirs ex_tree) = 3%Z /\
     r_calls (ex_main (ex_options MName true true) t ex_dirs ex_tree) = [] /\
     r_final (ex_main (ex_options MName true true) t ex_dirs ex_tree) = ex_tree) /\
  compiles core_reg t_upper_count = true /\
  r_status (ex_main (ex_options MName true true) t_upper_count ex_dirs ex_tree) = 0%Z /\
  length (r_calls (ex_main (ex_options MName true true) t_upper_count ex_dirs ex_tree)) = 4%nat /\
  (* argparse goes first: a missing input path is status 2 even with a bad template *)
  r_status (ex_main (ex_options MName true true) t_unknown_tag [[[110; 111]]] ex_tree) = 2%Z.
Proof.
  split.
  - intros t H. cbn [In] in H.
    repeat (destruct H as [<-|H]; [vm_compute; repeat split; reflexivity|]). destruct H.
  - vm_compute. repeat split; reflexivity.
Qed.
