(* C09 — every template mistake is reported as such before any file is touched.  Statements only. *)
From Tempren Require Import Base.Str Py.PathLib FS.Model Pipe.Pipeline Pipe.Front.
Open Scope N_scope.

(* [main_run fr c gathered order render cwd s] is cli.main + build_pipeline + Pipeline.execute: the three templates are compiled
   first (name, then filter, then sort), then every gathered file passes the filter expression, then every selected file gets its
   sort key, and only then the rename pipeline [run] starts.  [fr] says which templates compile and which evaluations fail;
   [gathered], [order], [render], [c], [s] are arbitrary. *)
Theorem C09_untouched_on_template_error : forall fr c gathered order render cwd s,
  template_mistake fr = true ->
  let r := main_run fr c gathered order render cwd s in
  r_calls r = [] /\ r_states r = [] /\ r_final r = s /\ r_report r = [] /\ (r_status r = 3%Z \/ r_status r = 2%Z).
Proof. exact untouched_on_template_error. Qed.
Print Assumptions C09_untouched_on_template_error.

Theorem C09_untouched_on_filter_evaluation_error : forall fr c gathered order render cwd s,
  template_mistake fr = false -> f_filter fr = Some true ->
  (c_mode c = MDirectory -> f_sort fr = None) ->
  filter_all (f_filter_eval fr) gathered = None ->
  let r := main_run fr c gathered order render cwd s in
  r_calls r = [] /\ r_final r = s /\ r_report r = [] /\ r_status r = 4%Z.
Proof. exact untouched_on_filter_evaluation_error. Qed.
Print Assumptions C09_untouched_on_filter_evaluation_error.

Theorem C09_untouched_on_sort_evaluation_error : forall fr c gathered order render cwd s selected,
  template_mistake fr = false -> f_sort fr = Some true -> c_mode c <> MDirectory ->
  (match f_filter fr with Some _ => filter_all (f_filter_eval fr) gathered | None => Some gathered end) = Some selected ->
  forallb (f_sort_eval fr) selected = false ->
  let r := main_run fr c gathered order render cwd s in
  r_calls r = [] /\ r_final r = s /\ r_report r = [] /\ r_status r = 4%Z.
Proof. exact untouched_on_sort_evaluation_error. Qed.
Print Assumptions C09_untouched_on_sort_evaluation_error.

Theorem C09_filter_verdict_for_every_file : forall ev l k,
  filter_all ev l = Some k -> forall f, In f l -> ev f <> None.
Proof. exact filter_all_spec. Qed.
Print Assumptions C09_filter_verdict_for_every_file.

Theorem C09_status_classes :
  status_of ExTemplate = 3%Z /\ status_of ExTemplateEval = 4%Z /\ status_of ExConfiguration = 2%Z /\
  status_of ExTemplate <> 126%Z /\ status_of ExTemplateEval <> 126%Z.
Proof. exact status_classes. Qed.
Print Assumptions C09_status_classes.

(* Non-vacuity: a front end where only the sort template is broken; one where the filter fails for the second file *)
Example C09_example :
  let c := {| c_mode := MName; c_strategy := Stop; c_dry := false; c_answers := []; c_fault := None; c_var := fixed |} in
  let f1 := {| pf_dir := [[105; 110]]; pf_rel := parse_path [97] |} in
  let f2 := {| pf_dir := [[105; 110]]; pf_rel := parse_path [98] |} in
  let s := [([[105; 110]], NDir); ([[105; 110]; [97]], NFile 1); ([[105; 110]; [98]], NFile 2)] in
  let render := map (fun f => (f, RText [120])) in
  let bad_sort := {| f_name_ok := true; f_filter := None; f_sort := Some false; f_filter_eval := fun _ => Some true; f_sort_eval := fun _ => true |} in
  let bad_eval := {| f_name_ok := true; f_filter := Some true; f_sort := None;
                     f_filter_eval := fun f => if ppath_eqb (pf_rel f) (parse_path [98]) then None else Some true; f_sort_eval := fun _ => true |} in
  let fine := {| f_name_ok := true; f_filter := None; f_sort := None; f_filter_eval := fun _ => Some true; f_sort_eval := fun _ => true |} in
  r_status (main_run bad_sort c [f1; f2] (fun l => l) render [] s) = 3%Z /\
  r_status (main_run bad_eval c [f1; f2] (fun l => l) render [] s) = 4%Z /\
  r_calls (main_run bad_eval c [f1; f2] (fun l => l) render [] s) = [] /\
  r_status (main_run fine c [f1] (fun l => l) render [] s) = 0%Z /\
  length (r_calls (main_run fine c [f1] (fun l => l) render [] s)) = 1%nat.
Proof. vm_compute. repeat split. Qed.
