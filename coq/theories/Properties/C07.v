(* C07 - Exactly the designated files are considered, everything else is left alone.       *)
(* Statements only; every proof is [exact <lemma>].                                        *)
(* Model: Pipe/GatherTree.v (gatherers, gatherer/filter choice per mode, inverter);        *)
(* declarative reading of the property: Pipe/GatherSpec.v; proofs: Pipe/GatherTreeProofs.v *)
From Coq Require Import Permutation.
From Tempren Require Import Base.Str Pipe.GatherTree Pipe.GatherSpec Pipe.GatherTreeProofs
  Corr.GatherCorr Corr.GatherCorrProofs.
Open Scope N_scope.

(* The gathered set is exactly the designated set: non-directory children of each input    *)
(* directory (all non-directory descendants with --recursive; directories instead in       *)
(* directory mode; the input directories themselves in directory mode without --recursive),*)
(* explicitly named files (no hidden rule), and unless --include-hidden no component of    *)
(* the relative path starts with '.'.  Trees, inputs and configurations are unbounded.     *)
Theorem C07_gather_sound_complete : forall c inputs f,
  In f (gather c inputs) <-> designated c inputs f.
Proof. exact gather_sound_complete. Qed.
Print Assumptions C07_gather_sound_complete.

(* Each entry is gathered once per designation on the command line: its multiplicity is    *)
(* the number of inputs (repetitions counted) that designate it.  Hypothesis: names inside *)
(* one directory are pairwise distinct (true of every real directory listing).             *)
Theorem C07_once_per_designation : forall c inputs f,
  Forall wf_input inputs ->
  n_designating c f inputs (count_occ gfile_eq_dec (gather c inputs) f).
Proof. exact gather_once_per_designation. Qed.
Print Assumptions C07_once_per_designation.

Theorem C07_designation_count_unique : forall c f l k1 k2,
  n_designating c f l k1 -> n_designating c f l k2 -> k1 = k2.
Proof. exact n_designating_unique. Qed.
Print Assumptions C07_designation_count_unique.

(* --filter-invert selects precisely the complement within the gathered list (as a         *)
(* partition of the multiset), and is exactly "filter by the negated predicate".           *)
Theorem C07_invert_complement : forall m fs l,
  fs <> FNone ->
  Permutation (select m fs false l ++ select m fs true l) l /\
  (forall f, In f (select m fs true l) <-> In f l /\ ~ In f (select m fs false l)) /\
  (forall f, (count_occ gfile_eq_dec (select m fs false l) f +
              count_occ gfile_eq_dec (select m fs true l) f)%nat = count_occ gfile_eq_dec l f).
Proof. exact invert_complement. Qed.
Print Assumptions C07_invert_complement.

Theorem C07_invert_is_negated_filter : forall m fs l,
  fs <> FNone ->
  select m fs true l = filter (fun f => negb (base_pred m fs f)) l /\
  select m fs false l = filter (base_pred m fs) l.
Proof. exact select_invert. Qed.
Print Assumptions C07_invert_is_negated_filter.

Theorem C07_partition_generic : forall (A : Type) (p : A -> bool) l,
  Permutation (filter p l ++ filter (fun x => negb (p x)) l) l.
Proof. exact @filter_partition_perm. Qed.
Print Assumptions C07_partition_generic.

(* --filter-invert without a filter changes nothing: everything gathered is selected *)
Theorem C07_invert_without_filter : forall m inv l, select m FNone inv l = l.
Proof. exact select_no_filter. Qed.
Print Assumptions C07_invert_without_filter.

(* What a glob / regex filter is asked about: the last component in name and directory     *)
(* mode, the '/'-joined relative path in path mode.                                        *)
Theorem C07_filter_subject : forall c tbl f,
  base_pred (c_mode c) (FStr tbl) f =
  mem_str (match c_mode c with MPath => join_slash (snd f) | _ => last (snd f) [] end) tbl.
Proof. exact filter_subject. Qed.
Print Assumptions C07_filter_subject.

Theorem C07_filter_subject_name_only : forall m tbl d1 r1 d2 r2,
  m <> MPath -> last r1 [] = last r2 [] ->
  base_pred m (FStr tbl) (d1, r1) = base_pred m (FStr tbl) (d2, r2).
Proof. exact filter_subject_name_dir. Qed.
Print Assumptions C07_filter_subject_name_only.

(* All of it together: an entry is considered iff it is designated and accepted by the     *)
(* (possibly inverted) filter, and then once per designation; a rejected entry never is.   *)
Theorem C07_considered_exactly : forall c fs inv inputs f,
  In f (considered c fs inv inputs) <->
  designated c inputs f /\ effective_pred (c_mode c) fs inv f = true.
Proof. exact considered_exactly. Qed.
Print Assumptions C07_considered_exactly.

Theorem C07_considered_once_per_designation : forall c fs inv inputs f,
  Forall wf_input inputs ->
  effective_pred (c_mode c) fs inv f = true ->
  n_designating c f inputs (count_occ gfile_eq_dec (considered c fs inv inputs) f).
Proof. exact considered_once_per_designation. Qed.
Print Assumptions C07_considered_once_per_designation.

Theorem C07_rejected_never_considered : forall c fs inv inputs f,
  effective_pred (c_mode c) fs inv f = false -> ~ In f (considered c fs inv inputs).
Proof. exact rejected_never_considered. Qed.
Print Assumptions C07_rejected_never_considered.

(* Corollaries of the declarative reading: --include-hidden and --recursive only add entries, *)
(* name and path mode gather the same entries, and no entry is designated by one input both   *)
(* as a file (name/path mode) and as a directory (directory mode, --recursive).               *)
Theorem C07_include_hidden_only_adds : forall m rc inputs f,
  In f (gather {| c_mode := m; c_recursive := rc; c_include_hidden := false |} inputs) ->
  In f (gather {| c_mode := m; c_recursive := rc; c_include_hidden := true |} inputs).
Proof. exact gather_include_hidden_monotone. Qed.
Print Assumptions C07_include_hidden_only_adds.

Theorem C07_recursive_only_adds : forall m ih inputs f,
  m <> MDir ->
  In f (gather {| c_mode := m; c_recursive := false; c_include_hidden := ih |} inputs) ->
  In f (gather {| c_mode := m; c_recursive := true; c_include_hidden := ih |} inputs).
Proof. exact gather_recursive_extends. Qed.
Print Assumptions C07_recursive_only_adds.

Theorem C07_name_and_path_mode_gather_alike : forall rc ih inputs,
  gather {| c_mode := MName; c_recursive := rc; c_include_hidden := ih |} inputs =
  gather {| c_mode := MPath; c_recursive := rc; c_include_hidden := ih |} inputs.
Proof. exact gather_name_path_same. Qed.
Print Assumptions C07_name_and_path_mode_gather_alike.

Theorem C07_files_and_directories_disjoint : forall c1 c2 i f,
  wf_input i ->
  c_mode c1 = MDir -> c_recursive c1 = true -> c_mode c2 <> MDir ->
  designates c1 i f -> designates c2 i f -> False.
Proof. exact files_and_directories_disjoint. Qed.
Print Assumptions C07_files_and_directories_disjoint.

(* The boolean well-formedness test that the correspondence check runs on every generated  *)
(* input implies the hypothesis of the multiplicity theorems; the multiset comparator of   *)
(* the correspondence accepts only permutations.                                           *)
Theorem C07_wf_checker_sound : forall i, wf_inputb i = true -> wf_input i.
Proof. exact wf_inputb_wf. Qed.
Print Assumptions C07_wf_checker_sound.

Theorem C07_comparator_sound : forall a b, perm_eqb a b = true -> Permutation a b.
Proof. exact perm_eqb_sound. Qed.
Print Assumptions C07_comparator_sound.

(* C07_unselected_untouched (every entry outside the selection keeps its path and          *)
(* content) is NOT a theorem here: it needs the rename pipeline model (C01/C02), which    *)
(* does not exist yet.  It is covered by the oracle of harness/c07.py only: inode-keyed    *)
(* snapshot before/after a real run with a never-conflicting marker template.              *)

(* ---------- non-vacuity ------------------------------------------------------------------- *)
(* in/  a  .h  sub/{b, .hd/{c}, lnk->dir{d}}  .top/{e}  dang(dangling link)                  *)
Definition ex_a := [97]. Definition ex_h := [46;104]. Definition ex_sub := [115;117;98].
Definition ex_b := [98]. Definition ex_hd := [46;104;100]. Definition ex_c := [99].
Definition ex_lnk := [108]. Definition ex_d := [100]. Definition ex_top := [46;116].
Definition ex_e := [101]. Definition ex_dang := [120].
Definition ex_ch : list (name * tree) :=
  [(ex_a, TFile); (ex_h, TFile);
   (ex_sub, TDir false [(ex_b, TFile); (ex_hd, TDir false [(ex_c, TFile)]);
                        (ex_lnk, TDir true [(ex_d, TFile)])]);
   (ex_top, TDir false [(ex_e, TFile)]); (ex_dang, TOther)].
Definition ex_root : dkey := [[114]; [105;110]].          (* /r/in *)
Definition ex_in := IDir ex_root [[114]] [105;110] ex_ch.
Definition ex_file := IFile ex_root ex_h.                  (* /r/in/.h named explicitly *)

Example C07_example_flat :
  gather {| c_mode := MName; c_recursive := false; c_include_hidden := false |} [ex_in]
  = [(ex_root, [ex_a]); (ex_root, [ex_dang])].
Proof. vm_compute. reflexivity. Qed.

Example C07_example_recursive_hidden_below_visible :
  gather {| c_mode := MPath; c_recursive := true; c_include_hidden := false |} [ex_in; ex_file]
  = [(ex_root, [ex_a]); (ex_root, [ex_sub; ex_b]); (ex_root, [ex_sub; ex_lnk; ex_d]);
     (ex_root, [ex_dang]); (ex_root, [ex_h])]
  /\ designated {| c_mode := MPath; c_recursive := true; c_include_hidden := false |}
                [ex_in; ex_file] (ex_root, [ex_h])
  /\ ~ designates {| c_mode := MPath; c_recursive := true; c_include_hidden := false |}
                  ex_in (ex_root, [ex_sub; ex_hd; ex_c]).
Proof.
  split; [vm_compute; reflexivity |]. split.
  - exists ex_file. split; [right; left; reflexivity |]. split; [discriminate | reflexivity].
  - intro H. apply gather1_spec in H. vm_compute in H. intuition discriminate.
Qed.

Example C07_example_directory_mode :
  gather {| c_mode := MDir; c_recursive := true; c_include_hidden := true |} [ex_in; ex_file]
  = [(ex_root, [ex_sub]); (ex_root, [ex_sub; ex_hd]); (ex_root, [ex_sub; ex_lnk]); (ex_root, [ex_top])]
  /\ gather {| c_mode := MDir; c_recursive := false; c_include_hidden := false |} [ex_in; ex_file]
  = [([[114]], [[105;110]])].
Proof. vm_compute. split; reflexivity. Qed.

Example C07_example_repeated_input_counts_twice :
  let c := {| c_mode := MName; c_recursive := false; c_include_hidden := true |} in
  count_occ gfile_eq_dec (gather c [ex_in; ex_file; ex_in]) (ex_root, [ex_h]) = 3%nat /\
  n_designating c (ex_root, [ex_h]) [ex_in; ex_file; ex_in] 3 /\
  Forall wf_input [ex_in; ex_file; ex_in].
Proof.
  split; [vm_compute; reflexivity |].
  assert (W : Forall wf_input [ex_in; ex_file; ex_in]).
  { apply Forall_forall. intros i Hi. apply wf_inputb_wf.
    destruct Hi as [<- | [<- | [<- | []]]]; vm_compute; reflexivity. }
  split; [| exact W].
  exact (gather_once_per_designation _ _ (ex_root, [ex_h]) W).
Qed.

Example C07_example_filter_and_invert :
  let c := {| c_mode := MPath; c_recursive := true; c_include_hidden := false |} in
  let tbl := [[115;117;98;47;98]; ex_a; ex_d] in     (* true on "sub/b", "a", "d" *)
  considered c (FStr tbl) false [ex_in] = [(ex_root, [ex_a]); (ex_root, [ex_sub; ex_b])] /\
  considered c (FStr tbl) true [ex_in] = [(ex_root, [ex_sub; ex_lnk; ex_d]); (ex_root, [ex_dang])] /\
  considered {| c_mode := MName; c_recursive := true; c_include_hidden := false |} (FStr tbl) false [ex_in]
    = [(ex_root, [ex_a]); (ex_root, [ex_sub; ex_lnk; ex_d])].
Proof. vm_compute. repeat split; reflexivity. Qed.

(* ---------- the RENAME step: every entry outside the selection keeps its path and content ------ *)
(* Model: Pipe/Pipeline.v over FS/Model.v; proofs: Pipe/Unselected.v.  The plan designates existing *)
(* non-directories reached without symbolic links ([selected_ok_any]: the source-side conditions of *)
(* Pipe/PlanExact.v; nothing is asked of the rendered values -- invalid names, raising templates,   *)
(* paths leaving the input directory --, a file may be designated several times).  Then for every   *)
(* strategy that cannot override (stop, ignore, manual without an "override" answer; custom paths   *)
(* typed at the prompt are allowed), dry or real, any fault index and EVERY outcome of the run,     *)
(* every entry of the initial tree whose path is not the path of a designated file (directories     *)
(* included) is found at the same path with the same node in every filesystem state of the run.     *)
From Tempren Require Import Py.PathLib FS.Model FS.Lemmas FS.WfCheck Pipe.Pipeline Pipe.PlanExact Pipe.Unselected.

Theorem C07_unselected_untouched : forall c plan cwd s,
  c_var c = fixed -> WF s -> selected_ok_any s plan -> no_override c -> c_mode c <> MDirectory ->
  forall k n, In (k, n) s -> (forall f r, In (f, r) plan -> src_key f <> k) ->
  forall s', In s' (s :: r_states (run c plan cwd s)) -> lookup s' k = Some n.
Proof. exact unselected_untouched. Qed.
Print Assumptions C07_unselected_untouched.

(* the same without the hypothesis on the mode (name, path and directory mode; in path mode new     *)
(* directories may appear, the entries of the initial tree still keep key and node), and for the     *)
(* final tree as well                                                                                *)
Theorem C07_unselected_untouched_any_mode : forall c plan cwd s,
  c_var c = fixed -> WF s -> selected_ok_any s plan -> no_override c ->
  forall k n, In (k, n) s -> (forall f r, In (f, r) plan -> src_key f <> k) ->
  forall s', In s' (r_final (run c plan cwd s) :: s :: r_states (run c plan cwd s)) -> lookup s' k = Some n.
Proof. exact unselected_untouched_any_mode. Qed.
Print Assumptions C07_unselected_untouched_any_mode.

(* With override (the flag, or whatever is typed at the prompt) the statement above is false for an  *)
(* unselected entry sitting at a destination: that is what override means.  In name and directory    *)
(* mode every unselected entry that is a directory, or that is not at the destination key of a plan  *)
(* entry, keeps its key and node in every state, for every strategy and every outcome.               *)
Theorem C07_unselected_untouched_override : forall c plan cwd s,
  c_var c = fixed -> WF s -> selected_ok_any s plan -> c_mode c <> MPath ->
  forall k n, In (k, n) s -> (forall f r, In (f, r) plan -> src_key f <> k) ->
  (is_dir_node n = true \/ forall f t, In (f, RText t) plan -> dst_key f t <> k) ->
  forall s', In s' (r_final (run c plan cwd s) :: s :: r_states (run c plan cwd s)) -> lookup s' k = Some n.
Proof. exact unselected_untouched_override. Qed.
Print Assumptions C07_unselected_untouched_override.

(* non-vacuity: two roots, in/ {a b c d} and out/ {a b x}; the plan renames in/a -> x, in/b -> x     *)
(* (collides with the renamed in/a) and in/d -> c (collides with the unselected in/c).  Under ignore *)
(* both conflicts are skipped; in/c and the look-alikes out/a, out/b, out/x are not selected.         *)
Example C07_example_unselected_ignore :
  let r := run (un_cfg Ignore) un_plan [] un_fs in
  r_status r = 0%Z /\ r_calls r = [(CRename, COk)] /\ length (r_states r) = 1%nat /\
  lookup (r_final r) [un_in; [97]] = None /\
  lookup (r_final r) [un_in; [120]] = Some (NFile 1) /\
  lookup (r_final r) [un_in; [98]] = Some (NFile 2) /\        (* conflict ignored *)
  lookup (r_final r) [un_in; [100]] = Some (NFile 6) /\       (* conflict ignored *)
  lookup (r_final r) [un_in; [99]] = Some (NFile 3) /\        (* not selected *)
  lookup (r_final r) [un_out; [97]] = Some (NFile 4) /\
  lookup (r_final r) [un_out; [98]] = Some (NFile 5) /\
  lookup (r_final r) [un_out; [120]] = Some (NFile 7).
Proof. vm_compute. repeat split. Qed.

(* the hypotheses of the theorem hold of the example, so it yields, for every state of that run: *)
Example C07_example_unselected_by_theorem :
  forall s', In s' (un_fs :: r_states (run (un_cfg Ignore) un_plan [] un_fs)) ->
    lookup s' [un_in; [99]] = Some (NFile 3) /\ lookup s' [un_out; [97]] = Some (NFile 4) /\
    lookup s' [un_out; [120]] = Some (NFile 7) /\ lookup s' [un_out] = Some NDir.
Proof.
  intros s' Hs'.
  assert (T : forall k n, In (k, n) un_fs -> unselectedb un_plan k = true -> lookup s' k = Some n).
  { intros k n Hk Hu.
    apply (C07_unselected_untouched (un_cfg Ignore) un_plan [] un_fs);
      [reflexivity | apply wf_b_sound; vm_compute; reflexivity
       | apply selected_ok_anyb_sound; vm_compute; reflexivity | exact I | discriminate
       | exact Hk | apply unselectedb_sound; exact Hu | exact Hs']. }
  repeat split; apply T; try (vm_compute; reflexivity); simpl; tauto.
Qed.

(* any outcome: in/a designated a second time is gone by then, the run ends with an OSError (126)    *)
(* after one rename; the theorem covers that run too                                                 *)
Example C07_example_unselected_failed_run :
  let r := run (un_cfg Ignore) un_plan_twice [] un_fs in
  r_status r = 126%Z /\ r_calls r = [(CRename, COk); (CRename, CErr)] /\
  selected_ok_anyb un_fs un_plan_twice = true /\ unselectedb un_plan_twice [un_out; [97]] = true /\
  lookup (r_final r) [un_in; [99]] = Some (NFile 3) /\ lookup (r_final r) [un_out; [97]] = Some (NFile 4).
Proof. vm_compute. repeat split. Qed.

(* under override the unselected in/c, which sits at the destination of in/d -> c, IS replaced; the  *)
(* entries of the second root are not at a destination key and are kept, by the override theorem     *)
Example C07_example_unselected_override :
  let r := run (un_cfg Override) un_plan [] un_fs in
  r_status r = 0%Z /\ length (r_states r) = 3%nat /\
  lookup (r_final r) [un_in; [99]] = Some (NFile 6) /\        (* replaced: at a destination *)
  not_destinationb un_plan [un_in; [99]] = false /\
  lookup (r_final r) [un_in; [120]] = Some (NFile 2) /\       (* in/b replaced the renamed in/a *)
  not_destinationb un_plan [un_out; [120]] = true /\
  lookup (r_final r) [un_out; [120]] = Some (NFile 7).
Proof. vm_compute. repeat split. Qed.

Example C07_example_unselected_override_by_theorem :
  forall s', In s' (un_fs :: r_states (run (un_cfg Override) un_plan [] un_fs)) ->
    lookup s' [un_out; [97]] = Some (NFile 4) /\ lookup s' [un_out; [120]] = Some (NFile 7) /\
    lookup s' [un_in] = Some NDir.
Proof.
  intros s' Hs'.
  assert (T : forall k n, In (k, n) un_fs -> unselectedb un_plan k = true ->
              (is_dir_node n = true \/ not_destinationb un_plan k = true) -> lookup s' k = Some n).
  { intros k n Hk Hu Hd.
    apply (C07_unselected_untouched_override (un_cfg Override) un_plan [] un_fs);
      [reflexivity | apply wf_b_sound; vm_compute; reflexivity
       | apply selected_ok_anyb_sound; vm_compute; reflexivity | discriminate
       | exact Hk | apply unselectedb_sound; exact Hu
       | destruct Hd as [Hd|Hd]; [left; exact Hd | right; apply not_destinationb_sound; exact Hd]
       | right; exact Hs']. }
  repeat split; apply T; try (vm_compute; reflexivity); try (simpl; tauto);
    try (right; vm_compute; reflexivity); left; reflexivity.
Qed.

(* ---- the whole program (Whole/Main.v [tempren_main]; proofs: Whole/PipelineProps.v) ---- *)
From Tempren Require Import Pipe.FrontCompile Whole.Library Whole.Render Whole.Gather Whole.Main Whole.Facts Whole.Theorems
  Whole.PipelineProps Whole.Examples.

(* For EVERY template text (compiling or not, any rendered values), registry, name or path mode, strategy without
   override (stop, ignore, manual without an answer selecting override; custom paths allowed), -r, -ih, sort, dry or
   real, fault index, listing order, input paths and tree with ordinary names ([tree_ok]; symbolic links allowed):
   every entry of the initial tree whose key is not the key of a gathered file (directories, hidden files without -ih,
   files below a subdirectory without -r, everything outside the input directories) is found under the same key with
   the same node in EVERY state of the run and in the final tree.  The selection is what the program gathers itself:
   [gather_all o s dirs] (Whole/Gather.v).
   Directory mode is excluded because the statement is false there: the entries below a renamed directory move with it
   (and [selected_ok_any] of the run-level theorem asks for non-directories). *)
Theorem C07_whole_unselected_untouched : forall upper lower R o text dirs s,
  tree_ok s -> o_mode o <> MDirectory -> no_override o -> (forall l, Permutation l (o_listing o l)) ->
  forall k n, In (k, n) s -> (forall f, In f (gather_all o s dirs) -> src_key f <> k) ->
  let r := tempren_main upper lower R o text dirs s in
  forall s', In s' (r_final r :: s :: r_states r) -> lookup s' k = Some n.
Proof. exact whole_unselected_untouched. Qed.
Print Assumptions C07_whole_unselected_untouched.

(* with override (the flag, or any answer at the prompt), name mode: every such entry that is a directory, or that does
   not sit at the destination key of a rendered entry of the program's own plan *)
Theorem C07_whole_unselected_untouched_override : forall upper lower R o text dirs s,
  tree_ok s -> o_mode o = MName -> (forall l, Permutation l (o_listing o l)) ->
  forall k n, In (k, n) s -> (forall f, In f (gather_all o s dirs) -> src_key f <> k) ->
  (is_dir_node n = true \/
   forall b f t, compile R text = inl b -> In (f, RText t) (whole_plan upper lower b o dirs s) -> dst_key f t <> k) ->
  let r := tempren_main upper lower R o text dirs s in
  forall s', In s' (r_final r :: s :: r_states r) -> lookup s' k = Some n.
Proof. exact whole_unselected_untouched_override. Qed.
Print Assumptions C07_whole_unselected_untouched_override.

Theorem C07_whole_unselected_checker_sound : forall o s dirs k,
  unselected_b o s dirs k = true -> forall f, In f (gather_all o s dirs) -> src_key f <> k.
Proof. exact unselected_b_sound. Qed.
Print Assumptions C07_whole_unselected_checker_sound.

(* the template "x" on the example tree, without -r: in/b.t is renamed to x, in/a.t conflicts and the run stops; the
   hidden file, the subdirectory and its files, and the other root are not gathered *)
Example C07_whole_example :
  let r := ex_main (ex_options MName false false) t_x ex_dirs ex_tree in
  r_status r = 1%Z /\ length (r_states r) = 1%nat /\
  map src_key (gather_all (ex_options MName false false) ex_tree ex_dirs) = [[Examples.ex_in; [98; 46; 116]]; [Examples.ex_in; [97; 46; 116]]] /\
  lookup (r_final r) [Examples.ex_in; [120]] = Some (NFile 1) /\
  lookup (r_final r) [Examples.ex_in; [46; 104]] = Some (NFile 3) /\
  lookup (r_final r) [Examples.ex_in; [115]; [99]] = Some (NFile 4) /\
  lookup (r_final r) [[111; 116; 104; 101; 114]; [122]] = Some (NFile 6).
Proof. vm_compute. repeat split; reflexivity. Qed.

(* the hypotheses of the theorem hold of the example, so it yields, for every state of that run: *)
Example C07_whole_example_by_theorem :
  let r := ex_main (ex_options MName false false) t_x ex_dirs ex_tree in
  forall s', In s' (r_final r :: ex_tree :: r_states r) ->
    lookup s' [Examples.ex_in; [46; 104]] = Some (NFile 3) /\ lookup s' [Examples.ex_in; [115]; [99]] = Some (NFile 4) /\
    lookup s' [[111; 116; 104; 101; 114]; [122]] = Some (NFile 6) /\ lookup s' [Examples.ex_in; [115]] = Some NDir.
Proof.
  intros r s' Hs'.
  assert (T : forall k n, In (k, n) ex_tree -> unselected_b (ex_options MName false false) ex_tree ex_dirs k = true ->
              lookup s' k = Some n).
  { intros k n Hk Hu.
    apply (C07_whole_unselected_untouched ascii_upper_str ascii_lower_str core_reg (ex_options MName false false) t_x
             ex_dirs ex_tree);
      [apply tree_ok_b_sound; vm_compute; reflexivity | discriminate | exact I | exact permutes_id
       | exact Hk | apply unselected_b_sound; exact Hu | exact Hs']. }
  repeat split; apply T; try (vm_compute; reflexivity); simpl; tauto.
Qed.
