(* C14 — file-derived values enter filter/sort expressions as data, never as code.        *)
(* Statements only; every proof is [exact <lemma>] (lemmas: Py/LiteralProofs.v,           *)
(* Tpl/RenderExprProofs.v).  Models: Py/Repr.v (CPython repr), Py/Literal.v (the          *)
(* tokenizer's end-of-string rule, the escape decoder, int/bool/None/PosixPath literals),  *)
(* Tpl/RenderExpr.v (tempren/template/ast.py: process / process_as_expression).           *)
(*                                                                                         *)
(* Two facts about CPython enter as explicit premises, never as axioms:                    *)
(*   - [printable] is CPython's str.isprintable above 0x7f, an ARBITRARY function here,    *)
(*     except that no surrogate code point is printable (the harness checks this for all   *)
(*     2048 surrogates; a raw surrogate cannot occur in a source text);                    *)
(*   - a Python str consists of code points <= 0x10FFFF ([valid_str]).                     *)
From Tempren Require Import Base.Str Py.PathLib Py.PathLibProofs Py.Repr Py.Literal Py.LiteralProofs
  Tpl.RenderExpr Tpl.RenderExprProofs.
Open Scope N_scope.

Definition no_printable_surrogate (printable : N -> bool) : Prop :=
  forall c, is_surrogate c = true -> printable c = false.

(* repr of a string evaluates back to that string: all code points, including quotes,
   backslashes, newlines, NUL, DEL, non-printables of every plane and lone surrogates. *)
Theorem C14_str_roundtrip : forall printable, no_printable_surrogate printable ->
  forall s, valid_str s = true ->
  eval_literal (py_repr_str printable s) = Some (VStr s).
Proof. exact str_roundtrip. Qed.
Print Assumptions C14_str_roundtrip.

(* The non-injection statement: whatever text follows, the literal that repr wrote ends
   exactly where repr ended it and denotes s; no character of s can close it early or
   extend it.
   Full statement of the plan:  forall s rest, scan (repr s ++ rest) = Some (s, rest).
   That is FALSE in CPython for exactly one shape (see C14_str_self_delimiting_unrestricted_refuted):
   s empty and rest starting with a single quote, where the tokenizer sees the opening of a
   triple-quoted string.  The theorem therefore carries the premise "s is not empty or rest does
   not start with a single quote"; nothing else is excluded. *)
Theorem C14_str_self_delimiting : forall printable, no_printable_surrogate printable ->
  forall s rest, valid_str s = true ->
  (s <> [] \/ hd_error rest <> Some c_squote) ->
  scan_string_literal (py_repr_str printable s ++ rest) = Some (s, rest).
Proof. exact str_self_delimiting. Qed.
Print Assumptions C14_str_self_delimiting.

Theorem C14_str_self_delimiting_unrestricted_refuted :
  exists s rest, valid_str s = true /\
    scan_string_literal (py_repr_str (fun _ => false) s ++ rest) <> Some (s, rest).
Proof. exists [], [39; 120; 39]. vm_compute. split; [reflexivity | discriminate]. Qed.
Print Assumptions C14_str_self_delimiting_unrestricted_refuted.

(* int (any size, either sign), bool, None and PosixPath values evaluate back to themselves;
   PosixPath('...') goes through the fixed locals table and uses the string theorem.
   [py_value]: strings are valid_str; a path is in pathlib's normal form, i.e. str() of it
   parses back to it - which pathlib guarantees, see C14_path_roundtrip_normal. *)
Theorem C14_int_bool_path_roundtrip : forall printable, no_printable_surrogate printable ->
  forall v, py_value v -> eval_literal (py_repr printable v) = Some v.
Proof. exact value_roundtrip. Qed.
Print Assumptions C14_int_bool_path_roundtrip.

Theorem C14_int_roundtrip : forall z, eval_literal (decimal_Z z) = Some (VInt z).
Proof. exact int_roundtrip. Qed.
Print Assumptions C14_int_roundtrip.

(* what File.relative_path and its parents are: relative, every part a real component *)
Theorem C14_path_roundtrip_normal : forall printable, no_printable_surrogate printable ->
  forall p, normal_rel p -> valid_str (pp_str p) = true ->
  eval_literal (py_repr printable (VPath p)) = Some (VPath p).
Proof. exact path_roundtrip_normal. Qed.
Print Assumptions C14_path_roundtrip_normal.

(* process_as_expression is the concatenation of the pieces: repr of the value for every
   top-level tag instance - also when the tag has a context, whose own tags are rendered with
   str (C14_context_uses_str) - and the text itself for raw text. *)
Theorem C14_render_expr_shape : forall printable env p,
  render_expr printable env p = concat (map (piece printable env) (pat_list p)).
Proof. exact render_expr_shape. Qed.
Print Assumptions C14_render_expr_shape.

Theorem C14_piece_tag : forall printable env tag has_ctx ctx,
  piece printable env (PTag tag has_ctx ctx) =
  py_repr printable (pel_value env (PTag tag has_ctx ctx)).
Proof. exact piece_tag. Qed.
Print Assumptions C14_piece_tag.

Theorem C14_piece_raw : forall printable env t, piece printable env (PRaw t) = t.
Proof. exact piece_raw. Qed.
Print Assumptions C14_piece_raw.

Theorem C14_context_uses_str : forall env tag ctx,
  pel_value env (PTag tag true ctx) =
  match env tag (Some (render_str env ctx)) with Some v => v | None => missing_value end.
Proof. exact context_uses_str. Qed.
Print Assumptions C14_context_uses_str.

(* A reader that knows the user's raw texts and only the KIND of each tag value recovers
   exactly the values of the top-level tags, with their kinds, from the rendered expression:
   the contents of the values never move a literal boundary.
   [well_separated]: every tag value is a Python value and every tag is followed by the end of
   the pattern or by raw text that starts with neither a quote nor a digit (two literals
   written back to back are the user's text gluing them, e.g. 1 and 23 giving 123).
   Raw text is matched verbatim: it is the user's own code, as the property says. *)
Theorem C14_values_recovered : forall printable, no_printable_surrogate printable ->
  forall env p, well_separated env p ->
  recover (skeleton env p) (render_expr printable env p) = Some (tag_values env p).
Proof. exact values_recovered. Qed.
Print Assumptions C14_values_recovered.

(* ---------- non-vacuity ----------------------------------------------------------------- *)

(* ' + __import__('os').system("x") + '\ <newline> <NUL> e-acute RLO <lone surrogate> emoji *)
Definition hostile : str :=
  [39; 32; 43; 32; 95; 95; 105; 109; 112; 111; 114; 116; 95; 95; 40; 39; 111; 115; 39; 41; 46; 115; 121;
   115; 116; 101; 109; 40; 34; 120; 34; 41; 32; 43; 32; 39; 92; 10; 0; 233; 8238; 55296; 128512].

Definition ex_printable (c : N) : bool := negb (is_surrogate c) && negb (c =? 8238).

Example C14_example_hostile :
  no_printable_surrogate ex_printable /\ valid_str hostile = true /\
  eval_literal (py_repr_str ex_printable hostile) = Some (VStr hostile) /\
  eval_literal (py_repr_str (fun _ => false) hostile) = Some (VStr hostile) /\
  scan_string_literal (py_repr_str ex_printable hostile ++ hostile) = Some (hostile, hostile) /\
  py_repr_str ex_printable [39] = [34; 39; 34] /\
  py_repr_str ex_printable [39; 34; 92; 10] = [39; 92; 39; 34; 92; 92; 92; 110; 39] /\
  py_repr_str ex_printable [55296; 8238; 917505] =
    [39; 92; 117; 100; 56; 48; 48; 92; 117; 50; 48; 50; 101; 917505; 39].
Proof.
  split.
  - intros c H. unfold ex_printable. rewrite H. reflexivity.
  - vm_compute. repeat split; reflexivity.
Qed.

(* the decoder is not just an inverse of repr: escapes repr never writes *)
Example C14_example_decoder :
  eval_literal [39; 92; 97; 92; 49; 48; 49; 92; 120; 52; 49; 92; 113; 39] = Some (VStr [7; 65; 65; 92; 113]) /\
  eval_literal [39; 97; 10; 39] = None /\
  eval_literal [48; 48; 55] = None /\
  eval_literal [45; 52; 50] = Some (VInt (-42)) /\
  eval_literal (py_repr ex_printable (VPath (parse_path [46]))) = Some (VPath (parse_path [46])).
Proof. vm_compute. repeat split; reflexivity. Qed.

(* tag 0: the hostile name; tag 1: its context as a string (an Upper-like tag); tag 2: an int;
   pattern  %0 == %1{a%0} and %2 > 5  *)
Definition ex_env : tag_env := fun tag ctx =>
  match tag with
  | 0%nat => Some (VStr hostile)
  | 1%nat => option_map VStr ctx
  | 2%nat => Some (VInt (-17))
  | _ => None
  end.

Definition ex_pat : pat :=
  PCons (PTag 0 false PNil)
  (PCons (PRaw [32; 61; 61; 32])
  (PCons (PTag 1 true (PCons (PRaw [97]) (PCons (PTag 0 false PNil) PNil)))
  (PCons (PRaw [32; 97; 110; 100; 32])
  (PCons (PTag 2 false PNil)
  (PCons (PRaw [32; 62; 32; 53]) PNil))))).

Example C14_example_pattern :
  well_separated ex_env ex_pat /\
  tag_values ex_env ex_pat = [VStr hostile; VStr (97 :: hostile); VInt (-17)] /\
  recover (skeleton ex_env ex_pat) (render_expr ex_printable ex_env ex_pat) =
    Some [VStr hostile; VStr (97 :: hostile); VInt (-17)] /\
  render_str ex_env ex_pat =
    hostile ++ [32; 61; 61; 32] ++ 97 :: hostile ++ [32; 97; 110; 100; 32; 45; 49; 55; 32; 62; 32; 53].
Proof. vm_compute. repeat split; try reflexivity; discriminate. Qed.
