(* C11 - pipe lists are exactly nested contexts.                                              *)
(* Statements only; every proof is [exact <lemma>].                                           *)
From Tempren Require Import Base.Str Tpl.Ast Tpl.Lexer Tpl.Cst Tpl.Parser Tpl.Visitor Tpl.Printer
  Tpl.LexSpec Tpl.ParseProofs Tpl.PipeSugar Tpl.PipeLaw Tpl.RenderName.
Open Scope N_scope.

(* Parse-tree level: the visitor's pipe fold IS the nesting.  cp_pipe x tags = the pattern x
   with the pipe list |g1|..|gn appended (x may itself end in a pipe list or contain pipe lists
   inside contexts); cp_nest x tags = gn{..g1{x}..}.  plain_tag: a tag with an argument list
   and no context of its own.  Equality is up to WHICH error is reported (ok_part). *)
Theorem C11_visit_pipe_is_nesting : forall x tags,
  forallb plain_tag tags = true ->
  ok_part (visit (cp_pipe x tags)) = ok_part (visit (cp_nest x tags)).
Proof. exact visit_pipe_nest. Qed.
Print Assumptions C11_visit_pipe_is_nesting.

(* Token level, for every token list X the parser accepts as a pattern, any number of piped
   tags and any argument lists. *)
Theorem C11_pipe_is_nesting_tokens : forall xt x tags,
  parse_tokens xt = Some x -> forallb plain_tag tags = true -> forallb wfs_elem tags = true ->
  ok_part (parse_toks (xt ++ concat (map (fun g => TPipe :: flatten_elem g) tags))) =
  ok_part (parse_toks (fold_left (fun acc g => flatten_elem g ++ TCtxStart :: acc ++ [TCtxEnd]) tags xt)).
Proof. exact pipe_is_nesting_token_lists. Qed.
Print Assumptions C11_pipe_is_nesting_tokens.

(* Text level.  FULL statement (kept visible, false as it stands - see C11_unstable_string_refuted):
     forall X Gs, X accepted as a pattern, every G the text of a tag with an argument list ->
       parse (X|G1|..|Gn) = parse (Gn{..G1{X}..})  up to the error reported.
   Proved under the two hypotheses the lexer forces: X does not end in a backslash (it would
   escape the pipe) and no string literal of X or of a piped tag has its closing quote
   preceded by a backslash (stable_strs; known finding F31).
   pipe_text X Gs = X ++ "|" ++ G1 ++ .. ++ "|" ++ Gn ;  nest_text X Gs = Gn ++ "{" ++ .. ++ "}". *)
Theorem C11_pipe_is_nesting_partial : forall X tx x Gs gs,
  lex_all X = LexOk tx -> stable_strs tx = true -> last_is_backslash X = false ->
  parse_tokens (no_ws tx) = Some x ->
  Forall2 tag_text Gs gs ->
  ok_part (parse (pipe_text X Gs)) = ok_part (parse (nest_text X Gs)).
Proof. exact pipe_is_nesting_text. Qed.
Print Assumptions C11_pipe_is_nesting_partial.

(* the excluded shape is a genuine exception (F31): X = %T('a\') is accepted, %U('c'){X} is
   accepted, X|%U('c') is rejected: the string swallows the text up to the next quote *)
Theorem C11_unstable_string_refuted :
  let X := [37;84;40;39;97;92;39;41] in let G := [37;85;40;39;99;39;41] in
  (exists p, parse X = Ok p) /\ (exists p, parse (nest_text X [G]) = Ok p) /\
  (exists e, parse (pipe_text X [G]) = Err e).
Proof. exact pipe_is_nesting_text_unstable_refuted. Qed.
Print Assumptions C11_unstable_string_refuted.

(* Inside any enclosing context: replacing a context by one with the same meaning does not
   change the meaning of the enclosing pattern (any siblings before and after, any outer tag);
   the conclusion has the shape of the premise, so it applies at every depth. *)
Theorem C11_context_congruence : forall a b, ok_part (visit a) = ok_part (visit b) ->
  forall c n args pre post,
  ok_part (visit (cp_elems pre (CPCons (CTag c n args true a) post))) =
  ok_part (visit (cp_elems pre (CPCons (CTag c n args true b) post))).
Proof. exact visit_ctx_congr. Qed.
Print Assumptions C11_context_congruence.

Theorem C11_in_context : forall x tags c n args pre post,
  forallb plain_tag tags = true ->
  ok_part (visit (cp_elems pre (CPCons (CTag c n args true (cp_pipe x tags)) post))) =
  ok_part (visit (cp_elems pre (CPCons (CTag c n args true (cp_nest x tags)) post))).
Proof. exact pipe_is_nesting_in_context. Qed.
Print Assumptions C11_in_context.

(* A non-tag after a pipe (text, another pipe, a bracket, the end of the template) is always
   rejected, whatever surrounds it. *)
Theorem C11_non_tag_after_pipe_rejected : forall s a b,
  lex s = LexOk (a ++ TPipe :: b) -> (match b with TTagStart :: _ => False | _ => True end) ->
  exists e, parse s = Err e.
Proof. exact non_tag_after_pipe_rejected_text. Qed.
Print Assumptions C11_non_tag_after_pipe_rejected.

(* Equal trees render equally for every file and every tag semantics (trivial). *)
Theorem C11_render_equal : forall a b, ok_part (parse a) = ok_part (parse b) ->
  forall sem, option_map (render_pat sem) (ok_part (parse a)) = option_map (render_pat sem) (ok_part (parse b)).
Proof. exact render_equal. Qed.
Print Assumptions C11_render_equal.

(* ---------- non-vacuity ------------------------------------------------------------------- *)
(* a\|b|%A(1)|%c.B(k)   =   %c.B(k){%A(1){a\|b}} *)
Example C11_example :
  let X := [97; 92; 124; 98] in
  let A := [37; 65; 40; 49; 41] in
  let B := [37; 99; 46; 66; 40; 107; 41] in
  parse (pipe_text X [A; B]) = parse (nest_text X [A; B]) /\
  parse (pipe_text X [A; B]) =
    Ok (PCons (Tag (Some [99]) [66] [] [([107], VBool true)] true
          (PCons (Tag None [65] [VInt 1] [] true (PCons (RawText [97; 124; 98]) PNil)) PNil)) PNil).
Proof. vm_compute. split; reflexivity. Qed.

(* X ending in a pipe list, and a pipe list inside a context of X:  x|%P()|%Q()  ,  %O(){x|%I()}|%P() *)
Example C11_example_inner_pipes :
  parse (pipe_text [120; 124; 37; 80; 40; 41] [[37; 81; 40; 41]]) =
  parse (nest_text [120; 124; 37; 80; 40; 41] [[37; 81; 40; 41]]) /\
  parse (pipe_text [37; 79; 40; 41; 123; 120; 124; 37; 73; 40; 41; 125] [[37; 80; 40; 41]]) =
  parse (nest_text [37; 79; 40; 41; 123; 120; 124; 37; 73; 40; 41; 125] [[37; 80; 40; 41]]) /\
  exists p, parse (pipe_text [120; 124; 37; 80; 40; 41] [[37; 81; 40; 41]]) = Ok p.
Proof. vm_compute. split; [reflexivity|]. split; [reflexivity|]. eexists; reflexivity. Qed.

(* the hypotheses of the text-level theorem are met by a concrete X and tag *)
Example C11_example_hypotheses :
  let X := [97; 92; 124; 98] in
  exists tx x, lex_all X = LexOk tx /\ stable_strs tx = true /\ last_is_backslash X = false /\
               parse_tokens (no_ws tx) = Some x /\
               tag_text [37; 65; 40; 49; 41] (CTag None [65] (Some [CArgPos (TNum [49])]) false CPNil).
Proof.
  eexists; eexists. split; [vm_compute; reflexivity|]. split; [reflexivity|]. split; [reflexivity|].
  split; [vm_compute; reflexivity|].
  eexists. split; [vm_compute; reflexivity|]. repeat split; reflexivity.
Qed.

(* a non-tag after a pipe:  x|y  and  x|  *)
Example C11_example_non_tag : parse [120; 124; 121] = Err ESyntax /\ parse [120; 124] = Err ESyntax.
Proof. vm_compute. split; reflexivity. Qed.
