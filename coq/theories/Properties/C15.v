(* C15 — an alias is indistinguishable from its pattern written in place.                      *)
(* Statements only; every proof is [exact <lemma>].  Model: Tpl/Alias.v (binder with alias      *)
(* factories that compile their pattern anew per occurrence, renderer with one state cell per   *)
(* bound tag instance, name resolution by Tpl/Registry.v); tag libraries are arbitrary:         *)
(* [tag_check] (does the factory accept the arguments / context), [tag_init] (state of a fresh  *)
(* instance) and [sem] (process) are universally quantified.                                     *)
From Tempren Require Import Base.Str Py.PathLib Py.Repr Tpl.Registry Tpl.Signature
  Tpl.Alias Tpl.AliasProofs Tpl.AliasExamples Tpl.AliasExampleProofs Tags.Count.
Open Scope N_scope.

(* Name / path templates.  [inline_list fuel al host = Some h]: h is the host with every alias
   occurrence replaced by the elements of its pattern (recursively; a pattern with a top-level
   pipe list is its folded tree); it is defined exactly when the aliases reachable from the host
   are used without arguments and context, parse, and are nested less than [fuel] deep (in
   particular: not cyclic) - see C15_inline_defined.  Then the alias-bound template and the
   inlined text compiled WITHOUT any alias are rejected alike (same exception class), or both are
   accepted and render the same name for every file of every sequence of files - sequences,
   because tags such as Count are stateful: each alias occurrence owns its instances, exactly
   like text written twice. *)
Theorem C15_inline_equiv :
  forall (state file : Type) (reg : registry)
         (tag_check : fid -> targs -> bool -> outcome) (tag_init : fid -> targs -> state)
         (sem : fid -> targs -> state -> file -> option str -> tout * state)
         (fuel : nat) (al : atable) (host h : upat),
    inline_list reg fuel al host = Some h ->
    match bind_list state reg tag_check tag_init fuel al host with
    | inl e => bind_list state reg tag_check tag_init 0 [] h = inl e
    | inr b => exists b', bind_list state reg tag_check tag_init 0 [] h = inr b' /\
                          forall files : list file,
                            run_names state file sem files b' = run_names state file sem files b
    end.
Proof. exact inline_equiv. Qed.
Print Assumptions C15_inline_equiv.

(* acyclic aliases, used plainly, can always be written in place: [rank] is a height of the
   reference graph (every alias used by the pattern of f has a smaller rank) *)
Theorem C15_inline_defined :
  forall (reg : registry) (al : atable) (rank : fid -> nat) (host : upat) (n : nat),
    plain_uses reg al host ->
    (forall f, alias_find f al <> None -> exists p, alias_find f al = Some (Some p) /\ plain_uses reg al p) ->
    (forall f p g, alias_find f al = Some (Some p) -> uses reg al g p -> (rank g < rank f)%nat) ->
    (forall g, uses reg al g host -> (rank g < n)%nat) ->
    exists h, inline_list reg n al host = Some h.
Proof. exact inline_defined. Qed.
Print Assumptions C15_inline_defined.

(* Filter and sort expressions (process_as_expression): a top-level alias occurrence contributes
   py_repr_str of the text its pattern - written in place - renders to: ONE str value; and aliases
   below the top level (inside contexts, inside alias patterns) can be written in place. *)
Theorem C15_expression_mode :
  forall (state file : Type) (sem : fid -> targs -> state -> file -> option str -> tout * state)
         (printable : N -> bool),
    (forall fl body rest,
        render_expr state file sem printable fl (BAlias body :: rest) =
        match render_list state file sem fl (flatten state body) with
        | (inl e, _) => (inl e, BAlias (snd (render_list state file sem fl body)) :: rest)
        | (inr s, _) =>
          match render_expr state file sem printable fl rest with
          | (inl e, rest') => (inl e, BAlias (snd (render_list state file sem fl body)) :: rest')
          | (inr r, rest') =>
            (inr (py_repr_str printable s ++ r),
             BAlias (snd (render_list state file sem fl body)) :: rest')
          end
        end) /\
    (forall files b,
        run_exprs state file sem printable files (map (flatten_below state) b) =
        run_exprs state file sem printable files b).
Proof. exact expression_mode. Qed.
Print Assumptions C15_expression_mode.

(* An alias given any argument or a context (this includes the pipe position), anywhere in the
   template: rejected for every fuel, with an exception that is a TemplateError (exit status 3). *)
Theorem C15_no_args_no_context :
  forall (state : Type) (reg : registry)
         (tag_check : fid -> targs -> bool -> outcome) (tag_init : fid -> targs -> state)
         (al : atable) q a hc ctx f (host : upat),
    get reg q = ROk f -> alias_find f al <> None ->
    no_args a = false \/ hc = true ->
    occurs (UTag q a hc ctx) host ->
    forall fuel, exists e,
      bind_list state reg tag_check tag_init fuel al host = inl e /\ is_template_error e = true.
Proof. exact no_args_no_context. Qed.
Print Assumptions C15_no_args_no_context.

(* the class of the error when the pattern itself is fine *)
Theorem C15_args_class :
  forall (state : Type) (reg : registry)
         (tag_check : fid -> targs -> bool -> outcome) (tag_init : fid -> targs -> state)
         fuel al q a hc ctx f body bp,
    get reg q = ROk f -> alias_find f al = Some body ->
    expander state reg tag_check tag_init fuel al body = inr bp ->
    bind_el state reg tag_check tag_init fuel al (UTag q a hc ctx) =
    if no_args a then (if hc then inl ExContextForbidden else inr (BAlias bp))
    else inl ExTagConfiguration.
Proof. exact alias_args_class. Qed.
Print Assumptions C15_args_class.

(* An alias whose pattern does not parse, cannot be bound (for any fuel), uses such an alias, or
   belongs to a set of aliases closed under "uses a member again" (= lies on, or reaches, a
   cycle of references; a self-reference is the set {f}): every template using it is rejected,
   for EVERY fuel, with a TemplateError - never accepted. *)
Theorem C15_invalid_or_cyclic :
  forall (state : Type) (reg : registry)
         (tag_check : fid -> targs -> bool -> outcome) (tag_init : fid -> targs -> state)
         (al : atable) (f : fid),
    (alias_find f al = Some None \/
     (exists p, alias_find f al = Some (Some p) /\
                forall fuel, exists e, bind_list state reg tag_check tag_init fuel al p = inl e) \/
     (exists p g, alias_find f al = Some (Some p) /\ uses reg al g p /\
                  bad state reg tag_check tag_init al g) \/
     (exists C, closed_under_use reg al C /\ C f)) ->
    forall host, uses reg al f host ->
    forall fuel, exists e,
      bind_list state reg tag_check tag_init fuel al host = inl e /\ is_template_error e = true.
Proof. exact invalid_or_cyclic. Qed.
Print Assumptions C15_invalid_or_cyclic.

(* whatever the binder rejects, it rejects with a TemplateError class (cli.main: status 3) *)
Theorem C15_errors_are_template_errors :
  forall (state : Type) (reg : registry)
         (tag_check : fid -> targs -> bool -> outcome) (tag_init : fid -> targs -> state)
         fuel al p e,
    bind_list state reg tag_check tag_init fuel al p = inl e ->
    is_template_error e = true /\ cli_status e = 3%Z.
Proof. exact bind_list_status. Qed.
Print Assumptions C15_errors_are_template_errors.


(* Not proved (tie-level only): the real parser hands over maximal text runs, so the tree parsed from
   the inlined TEXT has adjacent raw texts merged where [inline_list] keeps them apart; the
   correspondence check compares the two modulo [norm] (Tpl/Alias.v), and the name-mode renderer
   concatenates str values, so merging is invisible:
     forall p, bind (norm p) and bind p are rejected alike or render alike.                    *)

(* ---------- non-vacuity: a registry with Count (Tags/Count.v), Name, Lower and the aliases
   N = %Count(1)-%Lower{%Name()}   M = <%N()+%Alias.N()>   Loop = x%Loop()
   Ping = %Pong()  Pong = p%Ping()  Bad = %Nope()          files d/A, d/B, e/C ------------------ *)

(* %N()_%N(): two independent counters (a shared one would give 1-a_2-a) *)
Example ex_count_twice :
  match ex_bind 9 ex_aliases [tag0 s_N; URaw [95]; tag0 s_N] with
  | inr b => ok_strings (ex_names ex_files b)
  | inl _ => None
  end = Some [[49; 45; 97; 95; 49; 45; 97]; [50; 45; 98; 95; 50; 45; 98]; [49; 45; 99; 95; 49; 45; 99]].
Proof. vm_compute. reflexivity. Qed.

(* the hypothesis of C15_inline_equiv is met by a chain of aliases; the inlined text binds
   without aliases and renders the same names *)
Example ex_inline_chain :
  exists h b b',
    inline_list ex_reg 9 ex_aliases [tag0 s_M] = Some h /\ length h = 9%nat /\
    ex_bind 9 ex_aliases [tag0 s_M] = inr b /\ ex_bind 0 [] h = inr b' /\
    ok_strings (ex_names ex_files b) =
      Some [[60; 49; 45; 97; 43; 49; 45; 97; 62]; [60; 50; 45; 98; 43; 50; 45; 98; 62];
            [60; 49; 45; 99; 43; 49; 45; 99; 62]] /\
    ex_names ex_files b' = ex_names ex_files b.
Proof. vm_compute. do 3 eexists. repeat split; reflexivity. Qed.

(* %N()==%Count() as an expression: '1-a'==0 - the alias is one quoted str, Count an int *)
Example ex_expression :
  match ex_bind 9 ex_aliases [tag0 s_N; URaw [61; 61]; tag0 s_Count] with
  | inr b => ok_strings (ex_exprs ex_files b)
  | inl _ => None
  end = Some [[39; 49; 45; 97; 39; 61; 61; 48]; [39; 50; 45; 98; 39; 61; 61; 49]; [39; 49; 45; 99; 39; 61; 61; 48]].
Proof. vm_compute. reflexivity. Qed.

Example ex_rejections :
  ex_bind 9 ex_aliases [UTag (None, s_N) (mkArgs [AInt 1] []) false []] = inl ExTagConfiguration /\
  ex_bind 9 ex_aliases [UTag (None, s_N) no_a true []] = inl ExContextForbidden /\
  ex_bind 9 ex_aliases [UTag (None, s_Lower) no_a true [URaw [97]; UTag (Some s_Alias, s_N) no_a true [URaw [98]]]]
    = inl ExContextForbidden /\
  ex_bind 30 ex_aliases [tag0 s_Loop] = inl ExTemplateSyntax /\
  ex_bind 30 ex_aliases [URaw [97]; tag0 s_Ping] = inl ExTemplateSyntax /\
  ex_bind 30 ex_aliases [tag0 s_Bad] = inl ExUnknownName /\
  inline_list ex_reg 30 ex_aliases [tag0 s_Loop] = None.
Proof. vm_compute. repeat split; reflexivity. Qed.

(* the cycle hypothesis of C15_invalid_or_cyclic is met by Ping <-> Pong *)
Example ex_cycle_closed : closed_under_use ex_reg ex_aliases (fun g => g = 7 \/ g = 8) /\
                          uses ex_reg ex_aliases 7 [URaw [97]; tag0 s_Ping].
Proof. exact ex_cycle_closed_proof. Qed.


(* ---- the whole program (Whole/Main.v [tempren_main]; proofs in Whole/AliasWhole.v) ---- *)
From Tempren Require Import Tpl.Ast Tpl.Parser Tpl.Visitor FS.Model Pipe.Pipeline Pipe.FrontCompile.
From Tempren Require Import Whole.Library Whole.Render Whole.Gather Whole.Main Whole.AliasWhole Whole.Examples.

(* The statement C15.v left to the correspondence check ("Not proved" above), now proved: merging adjacent raw texts
   ([norm]: what the parser does with the inlined TEXT) commutes with the binder - same error, or the bound tree with
   its raw texts merged ([bnorm], Whole/AliasWhole.v; alias instances keep the tree compiled from their own text) -
   and the name renderer does not see it: same text for the file, same tree (merged) afterwards. *)
Theorem C15_bind_norm :
  forall (state : Type) (reg : registry)
         (tag_check : fid -> targs -> bool -> outcome) (tag_init : fid -> targs -> state)
         (fuel : nat) (al : atable) (p : upat),
    bind_list state reg tag_check tag_init fuel al (norm p) =
    res_map bnorm (bind_list state reg tag_check tag_init fuel al p).
Proof. exact bind_norm. Qed.
Print Assumptions C15_bind_norm.

Theorem C15_render_norm :
  forall (state file : Type) (sem : fid -> targs -> state -> file -> option str -> tout * state)
         (fl : file) (l : bpat state),
    render_list state file sem fl (bnorm l) =
    (fst (render_list state file sem fl l), bnorm (snd (render_list state file sem fl l))).
Proof. exact render_bnorm. Qed.
Print Assumptions C15_render_norm.

(* the inlined tree contains no alias occurrence: it binds alike against the alias table (with any fuel) and
   against none - so the inlined TEXT may be compiled by the same registry that knows the aliases *)
Theorem C15_inlined_binds_without_aliases :
  forall (state : Type) (reg : registry)
         (tag_check : fid -> targs -> bool -> outcome) (tag_init : fid -> targs -> state)
         (fuel : nat) (al : atable) (host h : upat),
    inline_list reg fuel al host = Some h ->
    forall fuel1, bind_list state reg tag_check tag_init fuel1 al h = bind_list state reg tag_check tag_init 0 [] h.
Proof. exact inline_binds_without_aliases. Qed.
Print Assumptions C15_inlined_binds_without_aliases.

(* The compiler on the two texts.  R is any registry value of the compiler (tagreg_of_rows: rows KClass / KAlias
   text); host parses to h, and hu is h with every alias occurrence - %N() or %Alias.N(), without arguments and
   context, nested through other aliases up to the registry's depth - replaced by the parsed pattern of its alias
   ([inline_list], defined exactly under the conditions of C15_inline_defined); host' is ANY text whose parse tree is
   hu up to the merging of adjacent raw texts - the text with the patterns written in place.  Then both are rejected
   with the same exception class, or both compile, to trees that differ by flattening the alias instances and
   merging raw texts. *)
Theorem C15_whole_compile_inlined : forall R host host' h h' hu,
  parse host = Ok h -> parse host' = Ok h' ->
  inline_list (tr_names R) (tr_depth R) (aliases_of R) (upat_of h) = Some hu ->
  norm (upat_of h') = norm hu ->
  match compile R host with
  | inl b => exists b', compile R host' = inl b' /\ bnorm b' = bnorm (flatten unit b)
  | inr e => exists e', compile R host' = inr e' /\ exc_of_error e' = exc_of_error e
  end.
Proof. exact compile_inlined. Qed.
Print Assumptions C15_whole_compile_inlined.

(* ... and the program cannot tell them apart: the SAME result - exit status, system calls, intermediate states,
   final tree, report - for every tree, every input list, every option (mode, strategy, dry run, -r, -ih, sort,
   answers, fault) and every listing order, and for str.upper / str.lower whatever they are.  Each alias occurrence
   owns its tag instances (Count state), exactly like the text written twice.  The last hypothesis is needed: the
   command line refuses an EMPTY template text (status 2) before anything is compiled, so an alias whose pattern is
   the empty text, used alone, is not the same as its pattern written in place (C15_whole_example). *)
Theorem C15_whole_alias_inline : forall upper lower R o host host' h h' hu dirs s,
  parse host = Ok h -> parse host' = Ok h' ->
  inline_list (tr_names R) (tr_depth R) (aliases_of R) (upat_of h) = Some hu ->
  norm (upat_of h') = norm hu ->
  (host = [] <-> host' = []) ->
  tempren_main upper lower R o host dirs s = tempren_main upper lower R o host' dirs s.
Proof. exact whole_alias_inline. Qed.
Print Assumptions C15_whole_alias_inline.

(* the core library with Alias.N = a%Count()b and Alias.E = "" on the example tree, -r --sort: the hypotheses hold for
   x%N()y%Alias.N() and xa%Count()bya%Count()b (the parse tree of the latter is NOT the inlined tree: 5 elements
   against 8, equal after merging); the runs are equal and rename a.t, b.t, s/c, s/d.t to xa0bya0b, xa1bya1b,
   xa0bya0b, xa1bya1b (two counters, each per directory).  %E() against the empty text: status 1 against 2. *)
Example C15_whole_example :
  tagreg_of_rows core_depth ex_alias_rows = Some ex_alias_reg /\
  let R := ex_alias_reg in
  let inl_ p := inline_list (tr_names R) (tr_depth R) (aliases_of R) (upat_of p) in
  match parse t_alias_host, parse t_alias_inlined, parse t_alias_empty, parse [] with
  | Ok h, Ok h', Ok he, Ok h0 =>
    match inl_ h with
    | Some hu => norm (upat_of h') = norm hu /\ length (upat_of h') = 5%nat /\ length hu = 8%nat
    | None => False
    end /\
    inl_ he = Some [] /\ upat_of h0 = []
  | _, _, _, _ => False
  end /\
  let run t := tempren_main ascii_upper_str ascii_lower_str R (ex_options MName true true) t ex_dirs ex_tree in
  run t_alias_host = run t_alias_inlined /\
  r_status (run t_alias_host) = 0%Z /\
  map fst (r_final (run t_alias_host)) =
    [ [ex_in]; [ex_in; [120; 97; 49; 98; 121; 97; 49; 98]]; [ex_in; [120; 97; 48; 98; 121; 97; 48; 98]];
      [ex_in; [46; 104]]; [ex_in; [115]]; [ex_in; [115]; [120; 97; 48; 98; 121; 97; 48; 98]];
      [ex_in; [115]; [120; 97; 49; 98; 121; 97; 49; 98]]; [[111; 116; 104; 101; 114]]; [[111; 116; 104; 101; 114]; [122]] ] /\
  r_status (run t_alias_empty) = 1%Z /\ r_status (run []) = 2%Z.
Proof. vm_compute. repeat split; reflexivity. Qed.
