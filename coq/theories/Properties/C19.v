(* C19 — hash tags equal the standard digests of the whole file.                   *)
From Tempren Require Import Base.Str Tags.Hash Tags.HashProofs.
Open Scope N_scope.

(* The read loop hands the whole content, in order, to the digest — for every content
   and every positive read size. *)
Theorem C19_read_loop_concat : forall n content, (0 < n)%nat ->
  concat (read_loop n content) = content.
Proof. exact read_loop_concat. Qed.
Print Assumptions C19_read_loop_concat.

(* ... and so does every schedule of short reads that does not end early. *)
Theorem C19_short_reads : forall sizes content,
  (forall k, In k sizes -> (0 < k)%nat) -> (length content <= sum sizes)%nat ->
  concat (read_sched sizes content) = content.
Proof. exact read_sched_concat. Qed.
Print Assumptions C19_short_reads.

(* Streaming: for any digest object obeying hashlib's documented update law
   (update(a); update(b) == update(a+b)), feeding the chunks equals one update with the
   whole file.  The law itself is a hypothesis of this statement (trusted base). *)
Theorem C19_streaming : forall (st : Type) (update : st -> list N -> st),
  (forall s a b, update (update s a) b = update s (a ++ b)) ->
  (forall s, update s [] = s) ->
  forall n content s0, (0 < n)%nat ->
  digest_chunked st update s0 (read_loop n content) = update s0 content.
Proof. exact digest_streaming. Qed.
Print Assumptions C19_streaming.

(* CRC-32, bit-level model of zlib.crc32: chaining over a split equals the one-shot value *)
Theorem C19_crc32_chain : forall a b v, crc32 (a ++ b) v = crc32 b (crc32 a v).
Proof. exact crc32_chain. Qed.
Print Assumptions C19_crc32_chain.

Theorem C19_crc32_chunked : forall n content, (0 < n)%nat ->
  crc32_chunked (read_loop n content) = crc32 content 0.
Proof. exact crc32_chunked_whole. Qed.
Print Assumptions C19_crc32_chunked.

Theorem C19_crc32_range : forall data v,
  v < 2 ^ 32 -> (forall b, In b data -> b < 256) -> crc32 data v < 2 ^ 32.
Proof. exact crc32_range. Qed.
Print Assumptions C19_crc32_range.

(* "%08x": exactly eight lower-case hex digits, leading zeros kept, value preserved *)
Theorem C19_hex8 : forall v, v < 2 ^ 32 ->
  length (hex8 v) = 8%nat /\ (forall c, In c (hex8 v) -> is_lower_hex c = true) /\
  N_of_hex (hex8 v) = Some v.
Proof. exact hex8_spec. Qed.
Print Assumptions C19_hex8.

(* Non-vacuity / sanity: the standard check value CRC-32("123456789") = cbf43926, computed
   through 4-byte chunks, and a leading-zero digest stays eight digits wide. *)
Example C19_check_value :
  crc32_tag 4 [49;50;51;52;53;54;55;56;57] = [99;98;102;52;51;57;50;54].
Proof. vm_compute. reflexivity. Qed.

Example C19_leading_zero : hex8 255 = [48;48;48;48;48;48;102;102].
Proof. vm_compute. reflexivity. Qed.
