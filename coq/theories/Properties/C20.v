(* C20 — ad-hoc tags pass arguments, context and file path to the program verbatim.          *)
(* Statements only; every proof is [exact <lemma>].  Model: Tags/AdHoc.v (AdHocTag.process    *)
(* after the repair of F24), Py/Utf8.v, str.strip() via Tags/TextTags.v lstrip/rstrip.        *)
(* Not expressible here (observed by the probe and a canary in harness/c20.py only): that     *)
(* subprocess.run / execve start the program with exactly [inv_argv] and no shell.            *)
(* The composition with the template parser (DESIGN §4 "C20_args_from_template") belongs to   *)
(* C10's model and is not stated here; the harness drives the real parser instead.            *)
From Tempren Require Import Base.Str Py.Utf8 Py.Utf8Proofs Tags.TextTags Tags.AdHoc Tags.AdHocProofs.
Open Scope N_scope.

(* ---- C20_invocation: the shape of what is started ---------------------------------------- *)
(* no context: the arguments, then the path relative to the input directory; stdin untouched  *)
Theorem C20_invocation_no_context : forall exe args rel dir,
  adhoc_invocation exe args rel dir None =
    Some {| inv_argv := exe :: args ++ [rel]; inv_stdin := None; inv_cwd := dir |}.
Proof. exact invocation_no_context. Qed.
Print Assumptions C20_invocation_no_context.

(* a context (any well-formed text, multi-line and non-ASCII included): the arguments and NO
   path; stdin carries the UTF-8 bytes of the context; cwd is the input directory *)
Theorem C20_invocation_context : forall exe args rel dir c,
  forallb is_scalar c = true ->
  adhoc_invocation exe args rel dir (Some c) =
    Some {| inv_argv := exe :: args; inv_stdin := Some (utf8_encode c); inv_cwd := dir |}.
Proof. exact invocation_context. Qed.
Print Assumptions C20_invocation_context.

(* the EMPTY context is a context: zero bytes on a pipe, not tempren's own stdin (F24) *)
Theorem C20_invocation_empty_context : forall exe args rel dir,
  adhoc_invocation exe args rel dir (Some []) =
    Some {| inv_argv := exe :: args; inv_stdin := Some []; inv_cwd := dir |}.
Proof. exact invocation_empty_context. Qed.
Print Assumptions C20_invocation_empty_context.

(* "iff": path last exactly when there is no context, stdin given exactly when there is one,
   cwd always the input directory; nothing else can be started *)
Theorem C20_invocation : forall exe args rel dir ctx i,
  adhoc_invocation exe args rel dir ctx = Some i ->
  inv_cwd i = dir /\
  ((ctx = None /\ inv_argv i = exe :: args ++ [rel] /\ inv_stdin i = None) \/
   (exists c, ctx = Some c /\ forallb is_scalar c = true /\
              inv_argv i = exe :: args /\ inv_stdin i = Some (utf8_encode c))).
Proof. exact invocation_shape. Qed.
Print Assumptions C20_invocation.

Theorem C20_path_iff_no_context : forall exe args rel dir ctx i,
  adhoc_invocation exe args rel dir ctx = Some i ->
  (inv_argv i = exe :: args ++ [rel] <-> ctx = None) /\
  (inv_argv i = exe :: args <-> ctx <> None) /\
  (inv_stdin i = None <-> ctx = None).
Proof. exact path_iff_no_context. Qed.
Print Assumptions C20_path_iff_no_context.

(* the program is not started at all only for a context that is not text (lone surrogate:
   str.encode raises) *)
Theorem C20_started_unless_surrogate : forall exe args rel dir ctx,
  adhoc_invocation exe args rel dir ctx = None <->
  exists c, ctx = Some c /\ forallb is_scalar c = false.
Proof. exact invocation_none_iff. Qed.
Print Assumptions C20_started_unless_surrogate.

(* ---- C20_args_verbatim: arbitrary strings, in order, never split, joined or quoted --------- *)
Theorem C20_args_verbatim : forall exe args rel dir ctx i,
  adhoc_invocation exe args rel dir ctx = Some i ->
  exists tail, inv_argv i = exe :: args ++ tail /\ (tail = [] \/ tail = [rel]) /\
               length (inv_argv i) = S (length args + length tail) /\
               forall k, (k < length args)%nat -> nth_error (inv_argv i) (S k) = nth_error args k.
Proof. exact args_verbatim. Qed.
Print Assumptions C20_args_verbatim.

(* PROVED AT THE END OF THIS FILE (C20_args_from_template, over the lexer/parser model of C10, Tpl/*.v);
   the original plan statement, kept for reference:
     C20_args_from_template : forall (args : list str) ctx,
       (forall a, In a args -> a does not end in a backslash) ->
       the tree parsed from  print (%T(args){ctx})  binds to an AdHocTag instance whose
       invocation i satisfies  exists tail, inv_argv i = exe :: args ++ tail
   i.e. no splitting, joining or re-quoting happens between the template TEXT and argv.
   C20_args_verbatim above is the part from the configured arguments on; the step from the
   template text to the configured arguments is exercised on every run by driving the real
   parser (harness/c20.py, quoting = backslash and quote mark escaped, nothing else). *)

(* ---- C20_utf8_roundtrip: the program receives exactly the context --------------------------- *)
Theorem C20_utf8_roundtrip : forall s,
  forallb is_scalar s = true -> utf8_decode (utf8_encode s) = Some s.
Proof. exact utf8_roundtrip. Qed.
Print Assumptions C20_utf8_roundtrip.

Theorem C20_stdin_is_context : forall exe args rel dir c i,
  adhoc_invocation exe args rel dir (Some c) = Some i ->
  exists b, inv_stdin i = Some b /\ utf8_decode b = Some c /\ (forall x, In x b -> x < 256).
Proof. exact stdin_is_context. Qed.
Print Assumptions C20_stdin_is_context.

Theorem C20_contexts_distinguishable : forall exe args rel dir c1 c2 i1 i2,
  adhoc_invocation exe args rel dir (Some c1) = Some i1 ->
  adhoc_invocation exe args rel dir (Some c2) = Some i2 ->
  inv_stdin i1 = inv_stdin i2 -> c1 = c2.
Proof. exact stdin_distinguishes. Qed.
Print Assumptions C20_contexts_distinguishable.

(* the decoder used for the program's output is a strict one: it accepts exactly the canonical
   encodings of well-formed text (no overlong forms, surrogates, values above 10FFFF), so the
   round trip above is not an artefact of a permissive decoder *)
Theorem C20_utf8_decode_canonical : forall b s,
  utf8_decode b = Some s -> utf8_encode s = b /\ forallb is_scalar s = true.
Proof. exact utf8_decode_canonical. Qed.
Print Assumptions C20_utf8_decode_canonical.

Theorem C20_utf8_decode_injective : forall b1 b2 s,
  utf8_decode b1 = Some s -> utf8_decode b2 = Some s -> b1 = b2.
Proof. exact utf8_decode_injective. Qed.
Print Assumptions C20_utf8_decode_injective.

Theorem C20_ascii_context_unchanged : forall s,
  (forall c, In c s -> c < 128) -> utf8_encode s = s.
Proof. exact utf8_encode_ascii. Qed.
Print Assumptions C20_ascii_context_unchanged.

(* ---- C20_strip_spec: surrounding whitespace, and only that, is removed ----------------------- *)
(* the result is a contiguous part of the input; what is cut off on either side is whitespace
   (str.isspace) only; a non-empty result neither starts nor ends with whitespace *)
Theorem C20_strip_spec : forall s,
  exists a b, s = a ++ py_strip s ++ b /\
              (forall c, In c a -> py_isspace c = true) /\
              (forall c, In c b -> py_isspace c = true) /\
              head_not_space (py_strip s) /\ head_not_space (rev (py_strip s)).
Proof. exact py_strip_spec. Qed.
Print Assumptions C20_strip_spec.

(* … and this specification has exactly one solution *)
Theorem C20_strip_unique : forall s a m b,
  s = a ++ m ++ b ->
  (forall c, In c a -> py_isspace c = true) ->
  (forall c, In c b -> py_isspace c = true) ->
  head_not_space m -> head_not_space (rev m) ->
  py_strip s = m.
Proof. exact py_strip_unique. Qed.
Print Assumptions C20_strip_unique.

Theorem C20_strip_keeps_clean_text : forall s,
  (forall c, In c s -> py_isspace c = false) -> py_strip s = s.
Proof. exact py_strip_no_space. Qed.
Print Assumptions C20_strip_keeps_clean_text.

Theorem C20_isspace_table : forall c, py_isspace c = true <-> In c ws_table.
Proof. exact py_isspace_In. Qed.
Print Assumptions C20_isspace_table.

(* ---- C20_value: the tag's value ---------------------------------------------------------------- *)
Theorem C20_value_on_success : forall stdout stderr t,
  utf8_decode stdout = Some t ->
  adhoc_outcome_of 0%Z stdout stderr = OValue (py_strip t).
Proof. exact value_on_success. Qed.
Print Assumptions C20_value_on_success.

(* a failed program contributes the empty string (or the run aborts) — never its output *)
Theorem C20_no_value_on_failure : forall exit stdout stderr,
  exit <> 0%Z ->
  rendered (adhoc_outcome_of exit stdout stderr) = Some [] \/
  rendered (adhoc_outcome_of exit stdout stderr) = None.
Proof. exact no_value_on_failure. Qed.
Print Assumptions C20_no_value_on_failure.

Theorem C20_rendered_from_stdout : forall exit stdout stderr v,
  rendered (adhoc_outcome_of exit stdout stderr) = Some v ->
  v = [] \/ (exit = 0%Z /\ exists t, utf8_decode stdout = Some t /\ v = py_strip t).
Proof. exact rendered_from_stdout. Qed.
Print Assumptions C20_rendered_from_stdout.

(* ---- C20_stderr_independent: standard error never leaks into names ------------------------------ *)
(* (the model reads stderr — the code decodes it for the log message of a failed run — so this
   is a theorem, not a consequence of a type) *)
Theorem C20_stderr_independent : forall exit stdout e1 e2 v1 v2,
  rendered (adhoc_outcome_of exit stdout e1) = Some v1 ->
  rendered (adhoc_outcome_of exit stdout e2) = Some v2 ->
  v1 = v2.
Proof. exact stderr_independent. Qed.
Print Assumptions C20_stderr_independent.

Theorem C20_stderr_ignored_on_success : forall stdout e1 e2,
  adhoc_outcome_of 0%Z stdout e1 = adhoc_outcome_of 0%Z stdout e2.
Proof. exact stderr_ignored_on_success. Qed.
Print Assumptions C20_stderr_ignored_on_success.

(* ---- end to end on the model: `cat` as the program gives back the stripped context -------------- *)
Theorem C20_cat_returns_context : forall exe args rel dir c junk,
  forallb is_scalar c = true ->
  adhoc_process exe args rel dir (Some c) (prog_cat junk) = OValue (py_strip c).
Proof. exact cat_returns_stripped_context. Qed.
Print Assumptions C20_cat_returns_context.

(* ---- F24: the code before the repair --------------------------------------------------------------- *)
(* C20_invocation_empty_context fails for [input=... if context else None]: with an empty
   context the program gets no stdin of its own (it inherits tempren's) *)
Theorem C20_invocation_unfixed_refuted :
  exists exe args rel dir i,
    adhoc_invocation_unfixed exe args rel dir (Some []) = Some i /\
    inv_stdin i <> Some (utf8_encode []).
Proof.
  exists [47; 98; 105; 110; 47; 99; 97; 116], [], [110; 111; 101; 120; 116], [47; 105; 110],
         (mkInv [[47; 98; 105; 110; 47; 99; 97; 116]] None [47; 105; 110]).
  vm_compute. split; [reflexivity | discriminate].
Qed.
Print Assumptions C20_invocation_unfixed_refuted.

Theorem C20_unfixed_differs_only_on_empty : forall exe args rel dir ctx,
  ctx <> Some [] ->
  adhoc_invocation_unfixed exe args rel dir ctx = adhoc_invocation exe args rel dir ctx.
Proof. exact unfixed_differs_only_on_empty. Qed.
Print Assumptions C20_unfixed_differs_only_on_empty.

(* ---- non-vacuity ------------------------------------------------------------------------------------ *)
(* %P('a b', '$(x)', '') on "sub/-f" without context *)
Example C20_example_no_context :
  adhoc_invocation [47; 112] [[97; 32; 98]; [36; 40; 120; 41]; []] [115; 117; 98; 47; 45; 102] [47; 105; 110] None =
  Some (mkInv [[47; 112]; [97; 32; 98]; [36; 40; 120; 41]; []; [115; 117; 98; 47; 45; 102]] None [47; 105; 110]).
Proof. vm_compute. reflexivity. Qed.

(* context "é\n€😀" : 2-, 1-, 3- and 4-byte forms *)
Example C20_example_context :
  adhoc_invocation [47; 112] [[45; 110]] [102] [47; 105; 110] (Some [233; 10; 8364; 128512]) =
  Some (mkInv [[47; 112]; [45; 110]] (Some [195; 169; 10; 226; 130; 172; 240; 159; 152; 128]) [47; 105; 110]).
Proof. vm_compute. reflexivity. Qed.

(* the decoder is a real one: overlong, surrogate, too large, truncated, stray continuation *)
Example C20_example_decoder_rejects :
  utf8_decode [192; 128] = None /\ utf8_decode [224; 159; 191] = None /\
  utf8_decode [237; 160; 128] = None /\ utf8_decode [244; 144; 128; 128] = None /\
  utf8_decode [226; 130] = None /\ utf8_decode [128] = None /\ utf8_decode [255] = None /\
  utf8_decode [244; 143; 191; 191] = Some [1114111] /\ utf8_decode [237; 159; 191] = Some [55295].
Proof. vm_compute. repeat split; reflexivity. Qed.

(* stdout " \t é x\n", exit 0, noise on stderr -> "é x"; exit 3 -> "" ; undecodable stderr of a
   failed run aborts instead of leaking *)
Example C20_example_value :
  adhoc_outcome_of 0%Z [32; 9; 195; 169; 32; 120; 10] [69; 82; 82] = OValue [233; 32; 120] /\
  rendered (adhoc_outcome_of 3%Z [118] [69; 82; 82]) = Some [] /\
  rendered (adhoc_outcome_of 3%Z [118] [255]) = None /\
  py_strip [8195; 120; 8203; 133] = [120; 8203].
Proof. vm_compute. repeat split; reflexivity. Qed.

Example C20_example_surrogate_context :
  adhoc_invocation [47; 112] [] [102] [47; 105; 110] (Some [97; 55296]) = None.
Proof. vm_compute. reflexivity. Qed.

(* ================================================================================================ *)
(* ---- C20_args_from_template: from the template TEXT to argv ------------------------------------- *)
(* (the statement announced in the comment above; the template language model Tpl/*.v of C10 now
   exists.)  Glue: Tags/AdHocTemplate.v - _rewrite_tag_placeholder calls
   factory( *placeholder.args, **placeholder.kwargs ), AdHocTag.configure stores the positional
   values as self.args; the binder is the one of Tpl/Signature.v (C13) on configure's signature. *)
From Tempren Require Import Tpl.Ast Tpl.Lexer Tpl.Cst Tpl.Parser Tpl.Escape Tpl.Visitor Tpl.Printer
  Tpl.RoundTrip Tags.AdHocTemplate.

(* For EVERY spelling style - either quote mark, any blanks (space TAB LF CR) between the tokens of
   the argument list, timeout_ms written before, after or among the positional arguments, () or
   nothing before a context - the text printed for the tag  %cat.name(args..., timeout_ms=tmo){ctx}
   parses back to that tag; the configured arguments of that tag are exactly [args]; and the
   program is started with  exe :: args  (then the relative path iff the tag was written without a
   context), whatever the context renders to.  Hypotheses = wf_pat of C10 on this tree: name and
   category are identifiers, no argument ends in a backslash (F31), the context is well-formed.
   The argument strings are otherwise arbitrary lists of code points: blanks, both quote marks,
   dollar-parenthesis, backticks, semicolons, stars, leading dashes, non-ASCII, newlines, the
   template's own metacharacters, the empty string. *)
Theorem C20_args_from_template : forall sty cat name (args : list str) tmo ctx_pat,
  wf_style sty = true ->
  wf_cat cat = true -> is_id name = true ->
  (forall a, In a args -> last_is_backslash a = false) ->
  (forall p, ctx_pat = Some p -> wf_pat p = true) ->
  forall t, t = adhoc_tag cat name args tmo ctx_pat ->
  parse (print sty (PCons t PNil)) = Ok (PCons t PNil) /\
  adhoc_args_of t = Some args /\
  forall (render : pat -> str) exe rel dir i,
    adhoc_invocation exe args rel dir (option_map render ctx_pat) = Some i ->
    inv_argv i = exe :: args ++ match ctx_pat with None => [rel] | Some _ => [] end.
Proof. exact args_from_template. Qed.
Print Assumptions C20_args_from_template.

(* what the glue does, without the binder: the program of a tag node is started, with the
   configured arguments [args], iff the positional arguments are exactly these strings and the
   only keyword, if any, is timeout_ms with a value that is not a string.  (A positional value
   that is not a string is stored by configure - Python does not check annotations - and
   subprocess.run then raises TypeError before anything is started; likewise a string timeout.) *)
Theorem C20_adhoc_args_of_spec : forall c n ar kw h x args,
  adhoc_args_of (Tag c n ar kw h x) = Some args <->
  ar = map VStr args /\
  (kw = [] \/ exists v, kw = [(s_timeout_ms, v)] /\ timeout_usable v = true).
Proof. exact adhoc_args_of_spec. Qed.
Print Assumptions C20_adhoc_args_of_spec.

(* configure's binding: accepted iff the only keyword, if any, is timeout_ms, once *)
Theorem C20_adhoc_configure_binding : forall n kws,
  Signature.bind adhoc_sig n kws = Signature.BindOk <-> kws = [] \/ kws = [s_timeout_ms].
Proof. exact adhoc_bind_ok. Qed.
Print Assumptions C20_adhoc_configure_binding.

(* no joining, no splitting, no re-quoting: two argument lists spelled by the same text (in
   whatever two styles) are the same list - same length, same strings, same order *)
Theorem C20_args_text_injective : forall sty1 sty2 cat1 cat2 name1 name2 (args1 args2 : list str) tmo1 tmo2,
  wf_style sty1 = true -> wf_style sty2 = true ->
  wf_cat cat1 = true -> wf_cat cat2 = true -> is_id name1 = true -> is_id name2 = true ->
  (forall a, In a args1 -> last_is_backslash a = false) ->
  (forall a, In a args2 -> last_is_backslash a = false) ->
  print sty1 (PCons (adhoc_tag cat1 name1 args1 tmo1 None) PNil) =
  print sty2 (PCons (adhoc_tag cat2 name2 args2 tmo2 None) PNil) ->
  args1 = args2.
Proof. exact args_text_injective. Qed.
Print Assumptions C20_args_text_injective.

(* ---- the per-character instance, through the executable lexer/parser/printer ------------------- *)
(* six hostile argument strings:
     a b        |  SQ DQ $(x)`;*   |  (empty)  |  --é€😀  |  \ SQ \ DQ x  |  ,)%{}| LF =
   (SQ = single quote, DQ = double quote, LF = line feed) *)
Definition ex_hostile : list str :=
  [[97; 32; 98]; [39; 34; 36; 40; 120; 41; 96; 59; 42]; []; [45; 45; 233; 8364; 128512];
   [92; 39; 92; 34; 120]; [44; 41; 37; 123; 125; 124; 10; 61]].

(* single quotes, no blanks, no timeout, no context:
   %P('a b','\' DQ $(x)`;*','','--é€😀','\\\'\\ DQ x',',)%{}| LF =')   on the file "-f" *)
Definition ex_sty_sq : style :=
  {| sty_dq := false; sty_lower := false; sty_flag := false; sty_order := 0; sty_parens := false; sty_ws := [] |}.
Definition ex_text_sq : str :=
  [37; 80; 40; 39; 97; 32; 98; 39; 44; 39; 92; 39; 34; 36; 40; 120; 41; 96; 59; 42; 39; 44; 39; 39; 44;
   39; 45; 45; 233; 8364; 128512; 39; 44; 39; 92; 92; 92; 39; 92; 92; 34; 120; 39; 44; 39; 44; 41; 37;
   123; 125; 124; 10; 61; 39; 41].

Example C20_example_template_hostile_sq :
  wf_style ex_sty_sq = true /\
  print ex_sty_sq (PCons (adhoc_tag None [80] ex_hostile None None) PNil) = ex_text_sq /\
  parse ex_text_sq =
    Ok (PCons (Tag None [80]
                 [VStr [97; 32; 98]; VStr [39; 34; 36; 40; 120; 41; 96; 59; 42]; VStr [];
                  VStr [45; 45; 233; 8364; 128512]; VStr [92; 39; 92; 34; 120];
                  VStr [44; 41; 37; 123; 125; 124; 10; 61]] [] false PNil) PNil) /\
  adhoc_args_of (adhoc_tag None [80] ex_hostile None None) = Some ex_hostile /\
  adhoc_invocation [47; 112] ex_hostile [45; 102] [47; 105; 110] None =
    Some (mkInv [[47; 112]; [97; 32; 98]; [39; 34; 36; 40; 120; 41; 96; 59; 42]; [];
                 [45; 45; 233; 8364; 128512]; [92; 39; 92; 34; 120];
                 [44; 41; 37; 123; 125; 124; 10; 61]; [45; 102]] None [47; 105; 110]).
Proof. vm_compute. repeat split; reflexivity. Qed.

(* double quotes, space TAB after every token, timeout_ms=500 written after the first argument,
   category, a context:   %AdHoc.P( DQ a b DQ , timeout_ms = 500 , DQ ' \DQ $(x)`;* DQ , ... ){x y} *)
Definition ex_sty_dq : style :=
  {| sty_dq := true; sty_lower := true; sty_flag := true; sty_order := 2; sty_parens := true; sty_ws := [32; 9] |}.
Definition ex_text_dq : str :=
  [37; 65; 100; 72; 111; 99; 46; 80; 40; 32; 9; 34; 97; 32; 98; 34; 32; 9; 44; 32; 9; 116; 105; 109; 101;
   111; 117; 116; 95; 109; 115; 32; 9; 61; 32; 9; 53; 48; 48; 32; 9; 44; 32; 9; 34; 39; 92; 34; 36; 40;
   120; 41; 96; 59; 42; 34; 32; 9; 44; 32; 9; 34; 34; 32; 9; 44; 32; 9; 34; 45; 45; 233; 8364; 128512;
   34; 32; 9; 44; 32; 9; 34; 92; 92; 39; 92; 92; 92; 34; 120; 34; 32; 9; 44; 32; 9; 34; 44; 41; 37; 123;
   125; 124; 10; 61; 34; 32; 9; 41; 123; 120; 32; 121; 125].
Definition ex_tag_dq : ast :=
  adhoc_tag (Some [65; 100; 72; 111; 99]) [80] ex_hostile (Some 500%Z) (Some (PCons (RawText [120; 32; 121]) PNil)).

Example C20_example_template_hostile_dq :
  wf_style ex_sty_dq = true /\
  print ex_sty_dq (PCons ex_tag_dq PNil) = ex_text_dq /\
  parse ex_text_dq = Ok (PCons ex_tag_dq PNil) /\
  adhoc_args_of ex_tag_dq = Some ex_hostile /\
  adhoc_invocation [47; 112] ex_hostile [45; 102] [47; 105; 110] (Some [120; 32; 121]) =
    Some (mkInv [[47; 112]; [97; 32; 98]; [39; 34; 36; 40; 120; 41; 96; 59; 42]; [];
                 [45; 45; 233; 8364; 128512]; [92; 39; 92; 34; 120];
                 [44; 41; 37; 123; 125; 124; 10; 61]] (Some [120; 32; 121]) [47; 105; 110]).
Proof. vm_compute. repeat split; reflexivity. Qed.

(* values that are not strings never reach argv:  %P('a', 5)  and  %P('a', True)  are configured
   (Python does not check ": str") and the program is never started (TypeError in subprocess.run);
   %P('a', timeout_ms='5')  likewise (TypeError in timeout_ms / 1000);  %P('a', timeout=5)  and
   %P('a', shell)  are refused by configure;  %P('a', timeout_ms=True)  starts the program *)
Example C20_example_template_not_started :
  (forall t, parse [37; 80; 40; 39; 97; 39; 44; 53; 41] = Ok (PCons t PNil) -> adhoc_args_of t = None) /\
  (forall t, parse [37; 80; 40; 39; 97; 39; 44; 84; 114; 117; 101; 41] = Ok (PCons t PNil) -> adhoc_args_of t = None) /\
  (forall t, parse [37; 80; 40; 39; 97; 39; 44; 116; 105; 109; 101; 111; 117; 116; 95; 109; 115; 61; 39; 53; 39; 41]
             = Ok (PCons t PNil) -> adhoc_args_of t = None) /\
  (forall t, parse [37; 80; 40; 39; 97; 39; 44; 116; 105; 109; 101; 111; 117; 116; 61; 53; 41]
             = Ok (PCons t PNil) -> adhoc_args_of t = None) /\
  (forall t, parse [37; 80; 40; 39; 97; 39; 44; 115; 104; 101; 108; 108; 41] = Ok (PCons t PNil) -> adhoc_args_of t = None) /\
  (forall t, parse [37; 80; 40; 39; 97; 39; 44; 116; 105; 109; 101; 111; 117; 116; 95; 109; 115; 61; 84; 114; 117; 101; 41]
             = Ok (PCons t PNil) -> adhoc_args_of t = Some [[97]]) /\
  parse [37; 80; 40; 39; 97; 39; 44; 53; 41] = Ok (PCons (Tag None [80] [VStr [97]; VInt 5] [] false PNil) PNil).
Proof.
  vm_compute. repeat split; try reflexivity; intros t H; inversion H; reflexivity.
Qed.

(* the excluded strings (F31, open): an argument ending in a backslash.  The lexer rule
   STRING_VALUE takes the escaped-looking closing quote as part of the string:
   %P('a\\','b')  is a lexical error at the closing quote of 'b' (nothing is started - no wrong
   argv), while the lone  %P('a\\')  is read back correctly. *)
Example C20_example_template_trailing_backslash :
  print ex_sty_sq (PCons (adhoc_tag None [80] [[97; 92]; [98]] None None) PNil) =
    [37; 80; 40; 39; 97; 92; 92; 39; 44; 39; 98; 39; 41] /\
  parse [37; 80; 40; 39; 97; 92; 92; 39; 44; 39; 98; 39; 41] = Err (ELex 11) /\
  parse (print ex_sty_sq (PCons (adhoc_tag None [80] [[97; 92]] None None) PNil)) =
    Ok (PCons (adhoc_tag None [80] [[97; 92]] None None) PNil).
Proof. vm_compute. repeat split; reflexivity. Qed.
