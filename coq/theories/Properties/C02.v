(* C02 — a reported success means the template's plan was applied exactly.  Statements only. *)
From Tempren Require Import Base.Str Py.PathLib FS.Model FS.Lemmas Pipe.Pipeline Pipe.Confine Pipe.Plan Pipe.Strategies Pipe.Scenarios.
Open Scope N_scope.

(* FULL STATEMENT (not proved; decided by the correspondence + the oracle of harness/c02.py):
     forall c plan s, strategy = Stop -> not dry -> no fault -> WF s -> selected_ok s plan ->
       r_status (run c plan [] s) = 0 -> r_final (run c plan [] s) = apply_plan s plan
     and: all destinations free -> r_status = 0;  acyclic chain visited in one direction -> r_status = 0.
   PROVED below (..._partial): the per-file building blocks the full statement is made of. *)

(* status 0 is reported exactly when no exception ended the run *)
Theorem C02_success_means_no_error : forall c plan cwd s,
  r_status (run c plan cwd s) = 0%Z <-> r_error (run c plan cwd s) = None.
Proof. exact status_zero_iff_no_error. Qed.
Print Assumptions C02_success_means_no_error.

(* a file whose generated path equals its own is skipped: the run continues with the world unchanged *)
Theorem C02_unchanged_name_is_skipped : forall c f r rest w cwd bl cwd1 np,
  chdir (w_fs w) (pf_dir f) = Some cwd1 ->
  generate (c_mode c) f r = inl np -> ppath_eqb np (pf_rel f) = true ->
  first_pass c ((f, r) :: rest) w cwd bl = first_pass c rest w cwd1 bl.
Proof. exact skip_unchanged. Qed.
Print Assumptions C02_unchanged_name_is_skipped.

(* one file with a free destination: status 0, exactly that entry re-keyed (every other entry and every node
   untouched: [rekey] only rewrites keys at or below the source), one rename call, one report line *)
Theorem C02_one_free_rename_is_exact_partial : forall c f t s cwd cwd1 np sp sn dpar dname,
  c_mode c = MName -> c_dry c = false -> c_fault c = None -> c_var c = fixed ->
  chdir s (pf_dir f) = Some cwd1 ->
  generate MName f (RText t) = inl np -> ppath_eqb np (pf_rel f) = false ->
  contained fixed s f np = Some true -> parents_contained s f np = Some true ->
  source_contained s f = Some true ->
  resolve s cwd1 (to_upath (pf_rel f)) false = WFound sp sn -> sp <> [] ->
  resolve s cwd1 (to_upath np) false = WMissing dpar dname ->
  name_eqb dname dotdot = false ->
  bad_last (to_upath (pf_rel f)) || bad_last (to_upath np) = false ->
  is_dir_node sn && is_prefix_path sp (dpar ++ [dname]) = false ->
  let r := run c [(f, RText t)] cwd s in
  r_status r = 0%Z /\ r_final r = rekey sp (dpar ++ [dname]) s /\
  r_states r = [rekey sp (dpar ++ [dname]) s] /\
  r_report r = [(pp_str (pf_rel f), pp_str np, false)] /\ r_calls r = [(CRename, COk)].
Proof. exact one_free_rename_is_exact. Qed.
Print Assumptions C02_one_free_rename_is_exact_partial.

(* re-keying moves exactly the subtree of the source and changes no node *)
Theorem C02_rekey_changes_only_the_source_subtree : forall sp dp s k n,
  In (k, n) s -> is_prefix_path sp k = false -> In (k, n) (rekey sp dp s).
Proof.
  intros sp dp s k n H P. pose proof (In_rekey sp dp s k n H) as I. rewrite rekey_outside in I by exact P. exact I.
Qed.
Print Assumptions C02_rekey_changes_only_the_source_subtree.

Theorem C02_rekey_keeps_every_node : forall sp dp s, map snd (rekey sp dp s) = map snd s.
Proof. exact map_snd_rekey. Qed.
Print Assumptions C02_rekey_keeps_every_node.

(* deferred renames form a stack (retried last-deferred-first) and each is retried in the input directory
   of its own file *)
Theorem C02_backlog_is_a_stack : forall c plan w cwd bl w' cwd' bl' e,
  first_pass c plan w cwd bl = (w', cwd', bl', e) -> exists newer, bl' = newer ++ bl.
Proof. exact backlog_is_a_stack. Qed.
Print Assumptions C02_backlog_is_a_stack.

Theorem C02_deferred_retried_in_own_directory : forall c d src dst rest w cwd,
  v_backlog_chdir (c_var c) = true ->
  second_pass c ((d, src, dst) :: rest) w cwd =
    match chdir (w_fs w) d with
    | None => (w, cwd, Some ExOther)
    | Some cwd1 =>
      match renamer c w cwd1 src dst false with
      | (w1, None) => second_pass c rest w1 cwd1
      | (w1, Some e) =>
        if is_file_exists e then
          match resolve_conflict c w1 cwd1 src dst with
          | (w2, None) => second_pass c rest w2 cwd1
          | (w2, Some e2) => (w2, cwd1, Some e2)
          end
        else (w1, cwd1, Some e)
      end
    end.
Proof. exact deferred_retried_in_own_directory. Qed.
Print Assumptions C02_deferred_retried_in_own_directory.

(* Finding F2 (fixed): two input roots, renumbering 0->1, 1->2 in 'in' plus an unrelated rename in 'in2' that
   leaves the working directory there.  Retrying the deferred 0->1 WITHOUT changing back renames the unselected
   look-alike in2/0 and leaves in/0 where it was, with status 0; the current code applies the plan. *)
Example C02_multiroot_backlog_refuted :
  let bad := run (f2_cfg no_backlog_chdir false) f2_plan [] f2_fs in
  let good := run (f2_cfg fixed false) f2_plan [] f2_fs in
  r_status bad = 0%Z /\ lookup (r_final bad) [[105; 110; 50]; [48]] = None /\ lookup (r_final bad) [[105; 110]; [48]] = Some (NFile 1) /\
  r_status good = 0%Z /\ lookup (r_final good) [[105; 110; 50]; [48]] = Some (NFile 3) /\
  lookup (r_final good) [[105; 110]; [48]] = None /\ lookup (r_final good) [[105; 110]; [49]] = Some (NFile 1) /\
  lookup (r_final good) [[105; 110]; [50]] = Some (NFile 2).
Proof. vm_compute. repeat split. Qed.

(* Finding F25 (OPEN, recorded in known_findings.json): directory mode, a deferred child whose parent is renamed
   in between: status 0 although the plan was not applied (in/b/c — now in/a/c — was renamed to k, in/z/c was not). *)
Example C02_directory_mode_refuted :
  let r := run (f25_cfg fixed false) f25_plan [] f25_fs in
  r_status r = 0%Z /\
  lookup (r_final r) [[105; 110]; [122]; [99]] = Some NDir /\        (* in/z/c: not renamed *)
  lookup (r_final r) [[105; 110]; [97]; [107]] = Some NDir /\         (* in/a/k: the OTHER c was renamed *)
  lookup (r_final r) [[105; 110]; [122]; [107]] = Some (NFile 1).      (* in/z/k: the file that made the first attempt a conflict *)
Proof. vm_compute. repeat split. Qed.

(* ---------- the first part of the FULL STATEMENT, proved for name mode (Pipe/PlanExact.v) -------------------- *)
(* [selected_ok s plan]: every entry is (f, RText t) with a relative path without "..", chdir to its input       *)
(* directory lands on that very path, lstat of the relative path there finds a file or symbolic link at exactly  *)
(* input directory/relative path ([selected_node], so no symbolic link on the way), t is a valid name other than *)
(* "..", and the real source paths are pairwise distinct.  [apply_plan s plan] = the initial tree with every     *)
(* selected source key replaced, simultaneously, by input directory/parent/t; nodes and list order unchanged.    *)
(* No hypothesis about the containment tests, the order of the plan, collisions or deferrals: whatever happens,  *)
(* status 0 implies the equality.                                                                                 *)
From Tempren Require Import Pipe.PlanExact.

Theorem C02_success_exact_name_mode : forall c plan cwd s,
  c_mode c = MName -> c_strategy c = Stop -> c_dry c = false -> c_fault c = None -> c_var c = fixed ->
  WF s -> selected_ok s plan ->
  r_status (run c plan cwd s) = 0%Z ->
  forall k, lookup (r_final (run c plan cwd s)) k = lookup (apply_plan s plan) k.
Proof. exact success_exact_name_mode. Qed.
Print Assumptions C02_success_exact_name_mode.

(* stronger: the final tree IS that list (same order, same nodes) *)
Theorem C02_success_exact_name_mode_list : forall c plan cwd s,
  c_mode c = MName -> c_strategy c = Stop -> c_dry c = false -> c_fault c = None -> c_var c = fixed ->
  WF s -> selected_ok s plan ->
  r_status (run c plan cwd s) = 0%Z ->
  r_final (run c plan cwd s) = apply_plan s plan.
Proof. exact success_exact_name_mode_list. Qed.
Print Assumptions C02_success_exact_name_mode_list.

(* read entry by entry: every selected file is found at input directory/generated name with its own node ... *)
Theorem C02_success_selected_at_destination : forall c plan cwd s,
  c_mode c = MName -> c_strategy c = Stop -> c_dry c = false -> c_fault c = None -> c_var c = fixed ->
  WF s -> selected_ok s plan ->
  r_status (run c plan cwd s) = 0%Z ->
  forall f t, In (f, RText t) plan ->
    lookup (r_final (run c plan cwd s)) (dst_key f t) = lookup s (src_key f) /\
    exists n, lookup s (src_key f) = Some n /\ is_dir_node n = false.
Proof. exact success_selected_at_destination. Qed.
Print Assumptions C02_success_selected_at_destination.

(* ... and every entry that is not a selected source is where it was *)
Theorem C02_success_unselected_untouched : forall c plan cwd s,
  c_mode c = MName -> c_strategy c = Stop -> c_dry c = false -> c_fault c = None -> c_var c = fixed ->
  WF s -> selected_ok s plan ->
  r_status (run c plan cwd s) = 0%Z ->
  forall k n, (forall f t, In (f, RText t) plan -> src_key f <> k) -> In (k, n) s ->
    lookup (r_final (run c plan cwd s)) k = Some n.
Proof. exact success_unselected_untouched. Qed.
Print Assumptions C02_success_unselected_untouched.

(* second part of the FULL STATEMENT ("all destinations free -> r_status = 0"), name mode: if every
   destination that differs from its source is a free name of the initial tree (short enough for the bounded walk
   of the model: realpath's final stat) and no two of them coincide, the run reports 0 and the plan is applied *)
Theorem C02_all_free_succeeds : forall c plan cwd s,
  c_mode c = MName -> c_strategy c = Stop -> c_dry c = false -> c_fault c = None -> c_var c = fixed ->
  WF s -> selected_ok s plan -> all_free s plan ->
  r_status (run c plan cwd s) = 0%Z /\ r_final (run c plan cwd s) = apply_plan s plan.
Proof. exact all_free_succeeds. Qed.
Print Assumptions C02_all_free_succeeds.

(* the boolean checker the harness can evaluate on a generated case implies the hypothesis *)
Theorem C02_selected_okb_sound : forall s plan, selected_okb s plan = true -> selected_ok s plan.
Proof. exact selected_okb_sound. Qed.
Print Assumptions C02_selected_okb_sound.

(* the lstat condition follows from the tree alone for paths the bounded walk of the model can process *)
Theorem C02_lookup_selected_node : forall s f n,
  WF s -> pp_root (pf_rel f) = 0%nat -> lookup s (pf_dir f) = Some NDir ->
  no_dotdot (pp_parts (pf_rel f)) = true -> pp_parts (pf_rel f) <> [] ->
  (length (pp_parts (pf_rel f)) <= walk_fuel)%nat ->
  lookup s (src_key f) = Some n -> is_dir_node n = false ->
  selected_node s f = Some n.
Proof. exact lookup_selected_node. Qed.
Print Assumptions C02_lookup_selected_node.

(* non-vacuity: the chain in/0->1, in/1->2, in/2->3 visited front to back (two deferrals, retried newest first),
   a renamed symbolic link in a subdirectory, a skipped file and unselected entries: the hypotheses hold, the run
   reports 0 and both sides of the conclusion evaluate to the same tree *)
Example C02_chain_with_deferrals_is_exact :
  WF ex_fs /\ selected_ok ex_fs ex_plan /\
  r_status (run ex_cfg ex_plan [] ex_fs) = 0%Z /\
  r_final (run ex_cfg ex_plan [] ex_fs) = apply_plan ex_fs ex_plan /\
  map (fun x => fst (fst x)) (r_report (run ex_cfg ex_plan [] ex_fs)) = [[50]; [115;117;98;47;120]; [49]; [48]] /\
  lookup (apply_plan ex_fs ex_plan) [ex_in; [49]] = Some (NFile 1) /\
  lookup (apply_plan ex_fs ex_plan) [ex_in; [50]] = Some (NFile 2) /\
  lookup (apply_plan ex_fs ex_plan) [ex_in; [51]] = Some (NFile 3) /\
  lookup (apply_plan ex_fs ex_plan) [ex_in; [48]] = None.
Proof.
  split; [exact ex_wf|]. split; [exact ex_selected_ok|]. vm_compute. repeat split.
Qed.
