(* C02 — a reported success means the template's plan was applied exactly.  Statements only. *)
From Tempren Require Import Base.Str Py.PathLib FS.Model FS.Lemmas Pipe.Pipeline Pipe.Confine Pipe.Plan Pipe.Strategies Pipe.Scenarios.
Open Scope N_scope.

(* FULL STATEMENT (not proved; decided by the correspondence + the oracle of harness/c02.py):
     forall c plan s, strategy = Stop -> not dry -> no fault -> WF s -> selected_ok s plan ->
       r_status (run c plan [] s) = 0 -> r_final (run c plan [] s) = apply_plan s plan
     and: all destinations free -> r_status = 0;  acyclic chain visited in one direction -> r_status = 0.
   PROVED below (..._partial): the per-file building blocks the full statement is made of. *)

(* status 0 is reported exactly when no exception ended the run *)
Theorem C02_success_means_no_error : forall c plan cwd s,
  r_status (run c plan cwd s) = 0%Z <-> r_error (run c plan cwd s) = None.
Proof. exact status_zero_iff_no_error. Qed.
Print Assumptions C02_success_means_no_error.

(* a file whose generated path equals its own is skipped: the run continues with the world unchanged *)
Theorem C02_unchanged_name_is_skipped : forall c f r rest w cwd bl cwd1 np,
  chdir (w_fs w) (pf_dir f) = Some cwd1 ->
  generate (c_mode c) f r = inl np -> ppath_eqb np (pf_rel f) = true ->
  first_pass c ((f, r) :: rest) w cwd bl = first_pass c rest w cwd1 bl.
Proof. exact skip_unchanged. Qed.
Print Assumptions C02_unchanged_name_is_skipped.

(* one file with a free destination: status 0, exactly that entry re-keyed (every other entry and every node
   untouched: [rekey] only rewrites keys at or below the source), one rename call, one report line *)
Theorem C02_one_free_rename_is_exact_partial : forall c f t s cwd cwd1 np sp sn dpar dname,
  c_mode c = MName -> c_dry c = false -> c_fault c = None -> c_var c = fixed ->
  chdir s (pf_dir f) = Some cwd1 ->
  generate MName f (RText t) = inl np -> ppath_eqb np (pf_rel f) = false ->
  contained fixed s f np = Some true -> parents_contained s f np = Some true ->
  source_contained s f = Some true ->
  resolve s cwd1 (to_upath (pf_rel f)) false = WFound sp sn -> sp <> [] ->
  resolve s cwd1 (to_upath np) false = WMissing dpar dname ->
  name_eqb dname dotdot = false ->
  bad_last (to_upath (pf_rel f)) || bad_last (to_upath np) = false ->
  is_dir_node sn && is_prefix_path sp (dpar ++ [dname]) = false ->
  let r := run c [(f, RText t)] cwd s in
  r_status r = 0%Z /\ r_final r = rekey sp (dpar ++ [dname]) s /\
  r_states r = [rekey sp (dpar ++ [dname]) s] /\
  r_report r = [(pp_str (pf_rel f), pp_str np, false)] /\ r_calls r = [(CRename, COk)].
Proof. exact one_free_rename_is_exact. Qed.
Print Assumptions C02_one_free_rename_is_exact_partial.

(* re-keying moves exactly the subtree of the source and changes no node *)
Theorem C02_rekey_changes_only_the_source_subtree : forall sp dp s k n,
  In (k, n) s -> is_prefix_path sp k = false -> In (k, n) (rekey sp dp s).
Proof.
  intros sp dp s k n H P. pose proof (In_rekey sp dp s k n H) as I. rewrite rekey_outside in I by exact P. exact I.
Qed.
Print Assumptions C02_rekey_changes_only_the_source_subtree.

Theorem C02_rekey_keeps_every_node : forall sp dp s, map snd (rekey sp dp s) = map snd s.
Proof. exact map_snd_rekey. Qed.
Print Assumptions C02_rekey_keeps_every_node.

(* deferred renames form a stack (retried last-deferred-first) and each is retried in the input directory
   of its own file *)
Theorem C02_backlog_is_a_stack : forall c plan w cwd bl w' cwd' bl' e,
  first_pass c plan w cwd bl = (w', cwd', bl', e) -> exists newer, bl' = newer ++ bl.
Proof. exact backlog_is_a_stack. Qed.
Print Assumptions C02_backlog_is_a_stack.

Theorem C02_deferred_retried_in_own_directory : forall c d src dst rest w cwd,
  v_backlog_chdir (c_var c) = true ->
  second_pass c ((d, src, dst) :: rest) w cwd =
    match chdir (w_fs w) d with
    | None => (w, cwd, Some ExOther)
    | Some cwd1 =>
      match backlog_verify (c_var c) (w_fs w) d src dst with
      | Some e => (w, cwd1, Some e)
      | None =>
      match renamer c w cwd1 src dst false with
      | (w1, None) => second_pass c rest w1 cwd1
      | (w1, Some e) =>
        if is_file_exists e then
          match resolve_conflict c w1 cwd1 src dst with
          | (w2, None) => second_pass c rest w2 cwd1
          | (w2, Some e2) => (w2, cwd1, Some e2)
          end
        else (w1, cwd1, Some e)
      end
      end
    end.
Proof. exact deferred_retried_in_own_directory. Qed.
Print Assumptions C02_deferred_retried_in_own_directory.

(* Finding F2 (fixed): two input roots, renumbering 0->1, 1->2 in 'in' plus an unrelated rename in 'in2' that
   leaves the working directory there.  Retrying the deferred 0->1 WITHOUT changing back renames the unselected
   look-alike in2/0 and leaves in/0 where it was, with status 0; the current code applies the plan. *)
Example C02_multiroot_backlog_refuted :
  let bad := run (f2_cfg no_backlog_chdir false) f2_plan [] f2_fs in
  let good := run (f2_cfg fixed false) f2_plan [] f2_fs in
  r_status bad = 0%Z /\ lookup (r_final bad) [[105; 110; 50]; [48]] = None /\ lookup (r_final bad) [[105; 110]; [48]] = Some (NFile 1) /\
  r_status good = 0%Z /\ lookup (r_final good) [[105; 110; 50]; [48]] = Some (NFile 3) /\
  lookup (r_final good) [[105; 110]; [48]] = None /\ lookup (r_final good) [[105; 110]; [49]] = Some (NFile 1) /\
  lookup (r_final good) [[105; 110]; [50]] = Some (NFile 2).
Proof. vm_compute. repeat split. Qed.

(* Finding F25 (OPEN, recorded in known_findings.json): directory mode, a deferred child whose parent is renamed
   in between: status 0 although the plan was not applied (in/b/c — now in/a/c — was renamed to k, in/z/c was not). *)
Example C02_directory_mode_refuted :
  let r := run (f25_cfg fixed false) f25_plan [] f25_fs in
  r_status r = 0%Z /\
  lookup (r_final r) [[105; 110]; [122]; [99]] = Some NDir /\        (* in/z/c: not renamed *)
  lookup (r_final r) [[105; 110]; [97]; [107]] = Some NDir /\         (* in/a/k: the OTHER c was renamed *)
  lookup (r_final r) [[105; 110]; [122]; [107]] = Some (NFile 1).      (* in/z/k: the file that made the first attempt a conflict *)
Proof. vm_compute. repeat split. Qed.

(* ---------- the first part of the FULL STATEMENT, proved for name mode (Pipe/PlanExact.v) -------------------- *)
(* [selected_ok s plan]: every entry is (f, RText t) with a relative path without "..", chdir to its input       *)
(* directory lands on that very path, lstat of the relative path there finds a file or symbolic link at exactly  *)
(* input directory/relative path ([selected_node], so no symbolic link on the way), t is a valid name other than *)
(* "..", and the real source paths are pairwise distinct.  [apply_plan s plan] = the initial tree with every     *)
(* selected source key replaced, simultaneously, by input directory/parent/t; nodes and list order unchanged.    *)
(* No hypothesis about the containment tests, the order of the plan, collisions or deferrals: whatever happens,  *)
(* status 0 implies the equality.                                                                                 *)
From Tempren Require Import Pipe.PlanExact.

Theorem C02_success_exact_name_mode : forall c plan cwd s,
  c_mode c = MName -> c_strategy c = Stop -> c_dry c = false -> c_fault c = None -> c_var c = fixed ->
  WF s -> selected_ok s plan ->
  r_status (run c plan cwd s) = 0%Z ->
  forall k, lookup (r_final (run c plan cwd s)) k = lookup (apply_plan s plan) k.
Proof. exact success_exact_name_mode. Qed.
Print Assumptions C02_success_exact_name_mode.

(* stronger: the final tree IS that list (same order, same nodes) *)
Theorem C02_success_exact_name_mode_list : forall c plan cwd s,
  c_mode c = MName -> c_strategy c = Stop -> c_dry c = false -> c_fault c = None -> c_var c = fixed ->
  WF s -> selected_ok s plan ->
  r_status (run c plan cwd s) = 0%Z ->
  r_final (run c plan cwd s) = apply_plan s plan.
Proof. exact success_exact_name_mode_list. Qed.
Print Assumptions C02_success_exact_name_mode_list.

(* read entry by entry: every selected file is found at input directory/generated name with its own node ... *)
Theorem C02_success_selected_at_destination : forall c plan cwd s,
  c_mode c = MName -> c_strategy c = Stop -> c_dry c = false -> c_fault c = None -> c_var c = fixed ->
  WF s -> selected_ok s plan ->
  r_status (run c plan cwd s) = 0%Z ->
  forall f t, In (f, RText t) plan ->
    lookup (r_final (run c plan cwd s)) (dst_key f t) = lookup s (src_key f) /\
    exists n, lookup s (src_key f) = Some n /\ is_dir_node n = false.
Proof. exact success_selected_at_destination. Qed.
Print Assumptions C02_success_selected_at_destination.

(* ... and every entry that is not a selected source is where it was *)
Theorem C02_success_unselected_untouched : forall c plan cwd s,
  c_mode c = MName -> c_strategy c = Stop -> c_dry c = false -> c_fault c = None -> c_var c = fixed ->
  WF s -> selected_ok s plan ->
  r_status (run c plan cwd s) = 0%Z ->
  forall k n, (forall f t, In (f, RText t) plan -> src_key f <> k) -> In (k, n) s ->
    lookup (r_final (run c plan cwd s)) k = Some n.
Proof. exact success_unselected_untouched. Qed.
Print Assumptions C02_success_unselected_untouched.

(* second part of the FULL STATEMENT ("all destinations free -> r_status = 0"), name mode: if every
   destination that differs from its source is a free name of the initial tree (short enough for the bounded walk
   of the model: realpath's final stat) and no two of them coincide, the run reports 0 and the plan is applied *)
Theorem C02_all_free_succeeds : forall c plan cwd s,
  c_mode c = MName -> c_strategy c = Stop -> c_dry c = false -> c_fault c = None -> c_var c = fixed ->
  WF s -> selected_ok s plan -> all_free s plan ->
  r_status (run c plan cwd s) = 0%Z /\ r_final (run c plan cwd s) = apply_plan s plan.
Proof. exact all_free_succeeds. Qed.
Print Assumptions C02_all_free_succeeds.

(* the boolean checker the harness can evaluate on a generated case implies the hypothesis *)
Theorem C02_selected_okb_sound : forall s plan, selected_okb s plan = true -> selected_ok s plan.
Proof. exact selected_okb_sound. Qed.
Print Assumptions C02_selected_okb_sound.

(* the lstat condition follows from the tree alone for paths the bounded walk of the model can process *)
Theorem C02_lookup_selected_node : forall s f n,
  WF s -> pp_root (pf_rel f) = 0%nat -> lookup s (pf_dir f) = Some NDir ->
  no_dotdot (pp_parts (pf_rel f)) = true -> pp_parts (pf_rel f) <> [] ->
  (length (pp_parts (pf_rel f)) <= walk_fuel)%nat ->
  lookup s (src_key f) = Some n -> is_dir_node n = false ->
  selected_node s f = Some n.
Proof. exact lookup_selected_node. Qed.
Print Assumptions C02_lookup_selected_node.

(* non-vacuity: the chain in/0->1, in/1->2, in/2->3 visited front to back (two deferrals, retried newest first),
   a renamed symbolic link in a subdirectory, a skipped file and unselected entries: the hypotheses hold, the run
   reports 0 and both sides of the conclusion evaluate to the same tree *)
Example C02_chain_with_deferrals_is_exact :
  WF ex_fs /\ selected_ok ex_fs ex_plan /\
  r_status (run ex_cfg ex_plan [] ex_fs) = 0%Z /\
  r_final (run ex_cfg ex_plan [] ex_fs) = apply_plan ex_fs ex_plan /\
  map (fun x => fst (fst x)) (r_report (run ex_cfg ex_plan [] ex_fs)) = [[50]; [115;117;98;47;120]; [49]; [48]] /\
  lookup (apply_plan ex_fs ex_plan) [ex_in; [49]] = Some (NFile 1) /\
  lookup (apply_plan ex_fs ex_plan) [ex_in; [50]] = Some (NFile 2) /\
  lookup (apply_plan ex_fs ex_plan) [ex_in; [51]] = Some (NFile 3) /\
  lookup (apply_plan ex_fs ex_plan) [ex_in; [48]] = None.
Proof.
  split; [exact ex_wf|]. split; [exact ex_selected_ok|]. vm_compute. repeat split.
Qed.

(* ---------- the CHAIN clause of the FULL STATEMENT, name mode (Pipe/PlanChains.v) ---------------------------- *)
(* [occupies e e']: e' moves (destination <> source) and the source key of e is the destination key of e'.       *)
(* [chain_ok s plan]: the destinations of the moving entries are pairwise distinct, and each is absent from s or  *)
(* the source key of another moving entry (and short enough for the bounded walk of the model).                   *)
(* [occupant_first] / [occupant_last]: every dependent pair is visited in the same direction, stated over         *)
(* positions (nth_error) in the plan.  Either direction implies that the relation is acyclic, so acyclicity is    *)
(* not a hypothesis; no hypothesis on the conflict strategy either (no conflict is ever resolved).                *)
(* Occupant last needs [occupants_not_links]: the containment test resolves the destination before the entry is   *)
(* deferred, so an occupant that is a symbolic link out of the input directory ends the run with status 1         *)
(* ([C02_chain_link_occupant_refuted]).                                                                           *)
From Tempren Require Import Pipe.PlanChains.

Theorem C02_chain_occupant_first_succeeds : forall c plan cwd s,
  c_mode c = MName -> c_dry c = false -> c_fault c = None -> c_var c = fixed ->
  WF s -> selected_ok s plan -> chain_ok s plan -> occupant_first plan ->
  r_status (run c plan cwd s) = 0%Z /\ r_final (run c plan cwd s) = apply_plan s plan.
Proof. exact chain_occupant_first_succeeds. Qed.
Print Assumptions C02_chain_occupant_first_succeeds.

Theorem C02_chain_occupant_last_succeeds : forall c plan cwd s,
  c_mode c = MName -> c_dry c = false -> c_fault c = None -> c_var c = fixed ->
  WF s -> selected_ok s plan -> chain_ok s plan -> occupants_not_links s plan -> occupant_last plan ->
  r_status (run c plan cwd s) = 0%Z /\ r_final (run c plan cwd s) = apply_plan s plan.
Proof. exact chain_occupant_last_succeeds. Qed.
Print Assumptions C02_chain_occupant_last_succeeds.

(* either direction hypothesis makes the relation acyclic on the plan *)
Theorem C02_occupant_first_acyclic : forall plan,
  occupant_first plan -> forall e, ~ Relation_Operators.clos_trans _ (occupies_in plan) e e.
Proof. exact occupant_first_acyclic. Qed.
Print Assumptions C02_occupant_first_acyclic.

Theorem C02_occupant_last_acyclic : forall plan,
  occupant_last plan -> forall e, ~ Relation_Operators.clos_trans _ (occupies_in plan) e e.
Proof. exact occupant_last_acyclic. Qed.
Print Assumptions C02_occupant_last_acyclic.

(* a plan whose destinations are all free satisfies the chain hypotheses in both directions *)
Theorem C02_all_free_is_a_chain : forall s plan,
  WF s -> selected_ok s plan -> all_free s plan ->
  chain_ok s plan /\ occupant_first plan /\ occupant_last plan /\ occupants_not_links s plan.
Proof. exact all_free_chain_ok. Qed.
Print Assumptions C02_all_free_is_a_chain.

(* the boolean checkers imply the hypotheses *)
Theorem C02_chain_checkers_sound : forall s plan,
  (chain_okb s plan = true -> chain_ok s plan) /\
  (occupant_firstb plan = true -> occupant_first plan) /\
  (occupant_lastb plan = true -> occupant_last plan) /\
  (occupants_not_linksb s plan = true -> occupants_not_links s plan).
Proof.
  intros s plan. split; [apply chain_okb_sound|]. split; [apply occupant_firstb_sound|].
  split; [apply occupant_lastb_sound | apply occupants_not_linksb_sound].
Qed.
Print Assumptions C02_chain_checkers_sound.

(* non-vacuity, one example per direction, THROUGH the theorems (run is not evaluated): the chain in/0->1, in/1->2,
   in/2->3 front to back (occupant last: two deferrals) and back to front (occupant first: none) *)
Example C02_chain_occupant_last_example :
  occupant_last ex_plan /\ ~ occupant_first ex_plan /\
  r_status (run ex_cfg ex_plan [] ex_fs) = 0%Z /\ r_final (run ex_cfg ex_plan [] ex_fs) = apply_plan ex_fs ex_plan.
Proof.
  split; [exact ex_occupant_last|]. split; [exact ex_not_occupant_first|].
  apply C02_chain_occupant_last_succeeds;
    [reflexivity | reflexivity | reflexivity | reflexivity | exact ex_wf | exact ex_selected_ok | exact ex_chain_ok
    | exact ex_occupants_not_links | exact ex_occupant_last].
Qed.

Example C02_chain_occupant_first_example :
  occupant_first ex_plan_rev /\
  r_status (run ex_cfg ex_plan_rev [] ex_fs) = 0%Z /\
  r_final (run ex_cfg ex_plan_rev [] ex_fs) = apply_plan ex_fs ex_plan_rev /\
  map (fun x => fst (fst x)) (r_report (run ex_cfg ex_plan_rev [] ex_fs)) = [[115;117;98;47;120]; [50]; [49]; [48]].
Proof.
  split; [exact ex_rev_occupant_first|].
  rewrite <- and_assoc. split; [|vm_compute; reflexivity].
  apply C02_chain_occupant_first_succeeds;
    [reflexivity | reflexivity | reflexivity | reflexivity | exact ex_wf | exact ex_rev_selected_ok | exact ex_rev_chain_ok
    | exact ex_rev_occupant_first].
Qed.

(* the extra hypothesis of the occupant-last direction cannot be dropped: in/a -> b, in/b -> c where in/b is a
   symbolic link to /out.  Every other hypothesis holds; visiting in/a first ends the run with status 1
   (InvalidDestinationError from the containment test, which follows the link), visiting in/b first succeeds. *)
Example C02_chain_link_occupant_refuted :
  WF lk_fs /\ selected_ok lk_fs lk_plan /\ chain_ok lk_fs lk_plan /\ occupant_last lk_plan /\
  r_status (run ex_cfg lk_plan [] lk_fs) = 1%Z /\ r_error (run ex_cfg lk_plan [] lk_fs) = Some ExInvalidDest /\
  r_status (run ex_cfg (rev lk_plan) [] lk_fs) = 0%Z.
Proof.
  destruct ex_link_occupant_fails as [A [B [C [D [_ [E F]]]]]].
  split; [exact A|]. split; [exact B|]. split; [exact C|]. split; [exact D|]. split; [exact E|]. split; [exact F|].
  vm_compute. reflexivity.
Qed.

(* ---------- PATH MODE exactness (Pipe/PlanExactPath.v) ------------------------------------------------------ *)
(* [selected_ok_p s plan]: every entry is (f, RText t) with a relative source path without "..", chdir to its     *)
(* input directory lands on that very path, lstat finds a file or symbolic link at exactly input directory /      *)
(* relative path; parse_path t is a relative, non-empty path without ".."; every proper prefix of the destination *)
(* key [pdst f t] = input directory / parse_path t is a directory of s or missing ([dm]: nothing beneath a        *)
(* non-directory or a link); the real source paths are pairwise distinct; no destination is a proper ancestor of  *)
(* another destination.  (That a destination is not an existing directory need not be assumed: such a run does    *)
(* not report 0.)  No hypothesis about the containment tests, the order of the plan, collisions or deferrals.     *)
(* [apply_plan_p s plan]: every selected source key replaced, simultaneously, by its destination key;             *)
(* [needed_dir plan k]: k is a proper ancestor of some destination.                                               *)
From Tempren Require Import Pipe.PlanExactPath.

(* on every key: the re-keyed initial tree, plus a directory at every proper ancestor of a destination that was
   missing, and nothing else *)
Theorem C02_success_exact_path_mode : forall c plan cwd s,
  c_mode c = MPath -> c_strategy c = Stop -> c_dry c = false -> c_fault c = None -> c_var c = fixed ->
  WF s -> selected_ok_p s plan ->
  r_status (run c plan cwd s) = 0%Z ->
  forall k, lookup (r_final (run c plan cwd s)) k =
            match lookup (apply_plan_p s plan) k with
            | Some n => Some n
            | None => if needed_dir plan k then Some NDir else None
            end.
Proof. exact success_exact_path_mode. Qed.
Print Assumptions C02_success_exact_path_mode.

(* as a list: the initial entries in their order with re-keyed paths and unchanged nodes, followed by the created
   directories, each a proper ancestor of a destination; the result is well-formed *)
Theorem C02_success_exact_path_mode_list : forall c plan cwd s,
  c_mode c = MPath -> c_strategy c = Stop -> c_dry c = false -> c_fault c = None -> c_var c = fixed ->
  WF s -> selected_ok_p s plan ->
  r_status (run c plan cwd s) = 0%Z ->
  exists C, r_final (run c plan cwd s) = apply_plan_p s plan ++ C /\
            (forall k n, In (k, n) C -> n = NDir /\ exists f t, In (f, RText t) plan /\ proper_prefix k (pdst f t)) /\
            WF (r_final (run c plan cwd s)).
Proof. exact success_exact_path_mode_list. Qed.
Print Assumptions C02_success_exact_path_mode_list.

Theorem C02_selected_okb_p_sound : forall s plan, selected_okb_p s plan = true -> selected_ok_p s plan.
Proof. exact selected_okb_p_sound. Qed.
Print Assumptions C02_selected_okb_p_sound.

(* one call of FileMover on plain paths, whatever its outcome: the tree gains only missing ancestors of the
   destination; on success it is then re-keyed from the source key to the destination key, which was free *)
Theorem C02_file_mover_step_is_exact : forall w d src dst w' r,
  pp_root src = 0%nat -> pp_root dst = 0%nat ->
  no_dotdot (pp_parts src) = true -> no_dotdot (pp_parts dst) = true -> pp_parts dst <> [] ->
  dm (w_fs w) (d ++ pp_parts dst) -> dm (w_fs w) (d ++ pp_parts src) ->
  file_mover fixed None w d src dst false = (w', r) ->
  exists C1, new_dirs (d ++ pp_parts dst) C1 /\ FS.DirExt.dir_ext (w_fs w) (w_fs w ++ C1) /\
    match r with
    | Some _ => w_fs w' = w_fs w ++ C1
    | None => w_fs w' = rekey (d ++ pp_parts src) (d ++ pp_parts dst) (w_fs w ++ C1) /\
              lookup (w_fs w ++ C1) (d ++ pp_parts dst) = None
    end.
Proof. exact file_mover_plain. Qed.
Print Assumptions C02_file_mover_step_is_exact.

(* non-vacuity: in/b -> a is deferred behind in/a -> new/deep/a (which creates in/new and in/new/deep), the symbolic
   link in/sub/x -> sub/y moves inside an existing directory; the hypotheses hold, the run reports 0, and the
   equation of the theorem holds on every key *)
Example C02_path_mode_example :
  WF pex_fs /\ selected_ok_p pex_fs pex_plan /\
  r_status (run pex_cfg pex_plan [] pex_fs) = 0%Z /\
  lookup (r_final (run pex_cfg pex_plan [] pex_fs)) [ex_in; [97]] = Some (NFile 2) /\
  lookup (r_final (run pex_cfg pex_plan [] pex_fs)) [ex_in; [110;101;119]; [100;101;101;112]] = Some NDir /\
  lookup (r_final (run pex_cfg pex_plan [] pex_fs)) [ex_in; [110;101;119]; [100;101;101;112]; [97]] = Some (NFile 1) /\
  (forall k, lookup (r_final (run pex_cfg pex_plan [] pex_fs)) k =
             match lookup (apply_plan_p pex_fs pex_plan) k with
             | Some n => Some n
             | None => if needed_dir pex_plan k then Some NDir else None
             end).
Proof.
  split; [exact pex_wf|]. split; [exact pex_selected_ok|].
  split; [vm_compute; reflexivity|]. split; [vm_compute; reflexivity|]. split; [vm_compute; reflexivity|].
  split; [vm_compute; reflexivity|].
  apply C02_success_exact_path_mode;
    [reflexivity | reflexivity | reflexivity | reflexivity | reflexivity | exact pex_wf | exact pex_selected_ok |].
  vm_compute. reflexivity.
Qed.

(* ---- the whole program (added once the component models were composed: Whole/Main.v [tempren_main]) ---- *)
From Coq Require Import Permutation.
From Tempren Require Import Pipe.FrontCompile Whole.Library Whole.Render Whole.Gather Whole.Main Whole.Facts
  Whole.ExactWhole Whole.Examples.

(* `tempren -n -cs <text> dirs` for a text that compiles against the core library, a real run on a tree with
   ordinary names: if no entry is gathered twice and every rendered name is a usable file name (non-empty, no '/',
   not "." or ".."), then exit status 0 means the final tree is the rendered plan applied to the initial tree all
   at once (same nodes in the same list order, only the keys of the gathered files rewritten) - for every -r, -ih,
   sort option and listing order. *)
Theorem C02_whole_exact : forall upper lower o text b dirs s,
  tree_ok s ->
  o_mode o = MName -> o_strategy o = Stop -> o_dry o = false -> o_fault o = None ->
  (forall l, Permutation l (o_listing o l)) ->
  compile core_reg text = inl b ->
  NoDup (map src_key (gather_all o s dirs)) ->
  Forall (fun e => exists t, snd e = RText t /\ valid_name_b t = true) (whole_plan upper lower b o dirs s) ->
  let r := tempren_main upper lower core_reg o text dirs s in
  r_status r = 0%Z ->
  r_final r = apply_plan s (whole_plan upper lower b o dirs s).
Proof. exact whole_exact_name_mode. Qed.
Print Assumptions C02_whole_exact.

(* ... and when moreover every new name is free in the initial tree and no two files get the same new name, the
   program does exit with status 0 *)
Theorem C02_whole_all_free_succeeds : forall upper lower o text b dirs s,
  tree_ok s ->
  o_mode o = MName -> o_strategy o = Stop -> o_dry o = false -> o_fault o = None ->
  (forall l, Permutation l (o_listing o l)) ->
  args_ok s text dirs = true -> existsb (input_is_dir s) dirs = true ->
  compile core_reg text = inl b ->
  NoDup (map src_key (gather_all o s dirs)) ->
  Forall (fun e => exists t, snd e = RText t /\ valid_name_b t = true) (whole_plan upper lower b o dirs s) ->
  all_free s (whole_plan upper lower b o dirs s) ->
  let r := tempren_main upper lower core_reg o text dirs s in
  r_status r = 0%Z /\ r_final r = apply_plan s (whole_plan upper lower b o dirs s).
Proof. exact whole_all_free_succeeds. Qed.
Print Assumptions C02_whole_all_free_succeeds.

(* one input path: nothing is gathered twice *)
Theorem C02_whole_one_input_directory : forall o s d,
  WF s -> explicit_mode o = false -> NoDup (map src_key (gather_all o s [d])).
Proof. exact gather_one_dir_nodup. Qed.
Print Assumptions C02_whole_one_input_directory.

(* %Upper{%Base()}_%Count(start=3,step=2)%Ext() on the example tree, -r, sorted by name: the hypotheses hold, the run
   succeeds and the tree is the plan applied *)
Example C02_whole_example :
  tree_ok_b ex_tree = true /\
  (exists b, compile core_reg t_upper_count = inl b /\
     forallb (fun e => match snd e with RText t => valid_name_b t | _ => false end)
             (whole_plan ascii_upper_str ascii_lower_str b (ex_options MName true true) ex_dirs ex_tree) = true /\
     r_status (ex_main (ex_options MName true true) t_upper_count ex_dirs ex_tree) = 0%Z /\
     r_final (ex_main (ex_options MName true true) t_upper_count ex_dirs ex_tree)
       = apply_plan ex_tree (whole_plan ascii_upper_str ascii_lower_str b (ex_options MName true true) ex_dirs ex_tree) /\
     fs_eqb (r_final (ex_main (ex_options MName true true) t_upper_count ex_dirs ex_tree)) ex_tree = false).
Proof.
  split; [vm_compute; reflexivity|]. eexists. split; [vm_compute; reflexivity|].
  vm_compute. repeat split; reflexivity.
Qed.
