(* C03 — each conflict strategy does what its flag documents.  Statements only. *)
From Tempren Require Import Base.Str Py.PathLib FS.Model FS.Lemmas Pipe.Pipeline Pipe.Safety Pipe.SafetyFacts Pipe.Strategies Pipe.Scenarios.
Open Scope N_scope.

(* ---- the prompt: any unambiguous prefix, any letter case, empty = ignore --------------------------- *)
Theorem C03_answer_is_prefix_of_its_word : forall l a w,
  l <> [] -> In (a, w) [(AIgnore, w_ignore); (AStop, w_stop); (AOverride, w_override); (ACustom, w_custom)] ->
  (parse_answer l = a <-> is_prefix_str (lower l) w = true).
Proof. exact parse_answer_prefix. Qed.
Print Assumptions C03_answer_is_prefix_of_its_word.

Theorem C03_prefixes_are_unambiguous : forall l : str,
  l <> [] ->
  forall w1 w2, In w1 [w_ignore; w_stop; w_override; w_custom] -> In w2 [w_ignore; w_stop; w_override; w_custom] ->
  is_prefix_str l w1 = true -> is_prefix_str l w2 = true -> w1 = w2.
Proof. exact option_words_unambiguous. Qed.
Print Assumptions C03_prefixes_are_unambiguous.

Theorem C03_empty_answer_is_ignore : parse_answer [] = AIgnore.
Proof. exact empty_answer_is_ignore. Qed.
Print Assumptions C03_empty_answer_is_ignore.

Theorem C03_letter_case_irrelevant : forall l l', lower l = lower l' -> parse_answer l = parse_answer l'.
Proof. exact letter_case_irrelevant. Qed.
Print Assumptions C03_letter_case_irrelevant.

(* ---- manual resolution behaves, answer by answer, exactly like the corresponding flag ----------------- *)
Theorem C03_manual_is_flag : forall c w cwd src dst a rest st,
  c_strategy c = Manual -> w_answers w = a :: rest -> strategy_of (parse_answer a) = Some st ->
  resolve_conflict c w cwd src dst = resolve_conflict (with_strategy c st) (consume w) cwd src dst.
Proof. exact manual_is_flag. Qed.
Print Assumptions C03_manual_is_flag.

Theorem C03_garbage_reprompts : forall c w cwd src dst a rest,
  c_strategy c = Manual -> w_answers w = a :: rest -> parse_answer a = AInvalid ->
  resolve_conflict c w cwd src dst = resolve_conflict c (consume w) cwd src dst.
Proof. exact garbage_reprompts. Qed.
Print Assumptions C03_garbage_reprompts.

(* a custom path goes to the renamer WITHOUT override, hence (C01) it cannot overwrite anything *)
Theorem C03_custom_path_not_override : forall c w cwd src dst a p rest,
  c_strategy c = Manual -> w_answers w = a :: p :: rest -> parse_answer a = ACustom ->
  resolve_conflict c w cwd src dst = renamer c (consume (consume w)) cwd src (parse_path p) false.
Proof. exact custom_path_not_override. Qed.
Print Assumptions C03_custom_path_not_override.

Theorem C03_custom_path_overwrites_nothing : forall L c w cwd src dst w' e,
  guarded (c_var c) -> Safe L w -> renamer c w cwd src dst false = (w', e) -> Safe L w'.
Proof. exact Safe_renamer. Qed.
Print Assumptions C03_custom_path_overwrites_nothing.

(* ---- what each strategy does with a conflict ------------------------------------------------------------ *)
Theorem C03_stop_raises : forall c w cwd src dst,
  c_strategy c = Stop -> resolve_conflict c w cwd src dst = (w, Some ExDestExists).
Proof. exact stop_raises. Qed.
Print Assumptions C03_stop_raises.

Theorem C03_ignore_continues : forall c w cwd src dst,
  c_strategy c = Ignore -> resolve_conflict c w cwd src dst = (w, None).
Proof. exact ignore_continues. Qed.
Print Assumptions C03_ignore_continues.

Theorem C03_override_reissues_with_override : forall c w cwd src dst,
  c_strategy c = Override -> resolve_conflict c w cwd src dst = renamer c w cwd src dst true.
Proof. exact override_reissues. Qed.
Print Assumptions C03_override_reissues_with_override.

(* ignore: for EVERY plan (whose templates do not themselves raise a FileExistsError) and tree, the run never ends
   with a destination-exists error: a conflict cannot stop it *)
Theorem C03_ignore_never_ends_on_a_conflict : forall c plan cwd s e,
  c_strategy c = Ignore -> ~ plan_raises_exists (c_mode c) plan ->
  r_error (run c plan cwd s) = Some e -> is_file_exists e = false.
Proof. exact ignore_never_ends_on_a_conflict. Qed.
Print Assumptions C03_ignore_never_ends_on_a_conflict.

Theorem C03_status_zero_iff_no_error : forall c plan cwd s,
  r_status (run c plan cwd s) = 0%Z <-> r_error (run c plan cwd s) = None.
Proof. exact status_zero_iff_no_error. Qed.
Print Assumptions C03_status_zero_iff_no_error.

(* NOT proved (kept visible): the plan-level converse clauses — "stop exits 1 ONLY IF the plan contains a
   conflict", "ignore renames EVERY file whose destination is free", "override leaves the source's content at an
   occupied destination" — are decided by the correspondence and the oracle of harness/c03.py, not by a theorem. *)

(* Non-vacuity: a two-root scenario with a deferred rename, under stop / ignore / manual with the answers "S" and "" *)
Definition with_answers (c : cfg) (st : strategy) (a : list str) : cfg :=
  {| c_mode := c_mode c; c_strategy := st; c_dry := false; c_answers := a; c_fault := None; c_var := fixed |}.

Example C03_example :
  let c := f28_cfg fixed false in
  r_status (run (with_answers c Stop []) f28_plan [] f28_fs) = 1%Z /\
  r_status (run (with_answers c Ignore []) f28_plan [] f28_fs) = 0%Z /\
  r_status (run (with_answers c Manual [[83]]) f28_plan [] f28_fs) = 1%Z /\
  r_status (run (with_answers c Manual [[]]) f28_plan [] f28_fs) = 0%Z /\
  r_status (run (with_answers c Manual [[122]; [73; 71]]) f28_plan [] f28_fs) = 0%Z /\
  r_prompts (run (with_answers c Manual [[122]; [73; 71]]) f28_plan [] f28_fs) = 2%nat.
Proof. vm_compute. repeat split. Qed.
