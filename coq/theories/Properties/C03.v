(* C03 — each conflict strategy does what its flag documents.  Statements only. *)
From Tempren Require Import Base.Str Py.PathLib FS.Model FS.Lemmas Pipe.Pipeline Pipe.Safety Pipe.SafetyFacts Pipe.Strategies Pipe.Scenarios.
Open Scope N_scope.

(* ---- the prompt: any unambiguous prefix, any letter case, empty = ignore --------------------------- *)
Theorem C03_answer_is_prefix_of_its_word : forall l a w,
  l <> [] -> In (a, w) [(AIgnore, w_ignore); (AStop, w_stop); (AOverride, w_override); (ACustom, w_custom)] ->
  (parse_answer l = a <-> is_prefix_str (lower l) w = true).
Proof. exact parse_answer_prefix. Qed.
Print Assumptions C03_answer_is_prefix_of_its_word.

Theorem C03_prefixes_are_unambiguous : forall l : str,
  l <> [] ->
  forall w1 w2, In w1 [w_ignore; w_stop; w_override; w_custom] -> In w2 [w_ignore; w_stop; w_override; w_custom] ->
  is_prefix_str l w1 = true -> is_prefix_str l w2 = true -> w1 = w2.
Proof. exact option_words_unambiguous. Qed.
Print Assumptions C03_prefixes_are_unambiguous.

Theorem C03_empty_answer_is_ignore : parse_answer [] = AIgnore.
Proof. exact empty_answer_is_ignore. Qed.
Print Assumptions C03_empty_answer_is_ignore.

Theorem C03_letter_case_irrelevant : forall l l', lower l = lower l' -> parse_answer l = parse_answer l'.
Proof. exact letter_case_irrelevant. Qed.
Print Assumptions C03_letter_case_irrelevant.

(* ---- manual resolution behaves, answer by answer, exactly like the corresponding flag ----------------- *)
Theorem C03_manual_is_flag : forall c w cwd src dst a rest st,
  c_strategy c = Manual -> w_answers w = a :: rest -> strategy_of (parse_answer a) = Some st ->
  resolve_conflict c w cwd src dst = resolve_conflict (with_strategy c st) (consume w) cwd src dst.
Proof. exact manual_is_flag. Qed.
Print Assumptions C03_manual_is_flag.

Theorem C03_garbage_reprompts : forall c w cwd src dst a rest,
  c_strategy c = Manual -> w_answers w = a :: rest -> parse_answer a = AInvalid ->
  resolve_conflict c w cwd src dst = resolve_conflict c (consume w) cwd src dst.
Proof. exact garbage_reprompts. Qed.
Print Assumptions C03_garbage_reprompts.

(* a custom path goes to the renamer WITHOUT override, hence (C01) it cannot overwrite anything *)
Theorem C03_custom_path_not_override : forall c w cwd src dst a p rest,
  c_strategy c = Manual -> w_answers w = a :: p :: rest -> parse_answer a = ACustom ->
  resolve_conflict c w cwd src dst = renamer c (consume (consume w)) cwd src (parse_path p) false.
Proof. exact custom_path_not_override. Qed.
Print Assumptions C03_custom_path_not_override.

Theorem C03_custom_path_overwrites_nothing : forall L c w cwd src dst w' e,
  guarded (c_var c) -> Safe L w -> renamer c w cwd src dst false = (w', e) -> Safe L w'.
Proof. exact Safe_renamer. Qed.
Print Assumptions C03_custom_path_overwrites_nothing.

(* ---- what each strategy does with a conflict ------------------------------------------------------------ *)
Theorem C03_stop_raises : forall c w cwd src dst,
  c_strategy c = Stop -> resolve_conflict c w cwd src dst = (w, Some ExDestExists).
Proof. exact stop_raises. Qed.
Print Assumptions C03_stop_raises.

Theorem C03_ignore_continues : forall c w cwd src dst,
  c_strategy c = Ignore -> resolve_conflict c w cwd src dst = (w, None).
Proof. exact ignore_continues. Qed.
Print Assumptions C03_ignore_continues.

Theorem C03_override_reissues_with_override : forall c w cwd src dst,
  c_strategy c = Override -> resolve_conflict c w cwd src dst = renamer c w cwd src dst true.
Proof. exact override_reissues. Qed.
Print Assumptions C03_override_reissues_with_override.

(* ignore: for EVERY plan (whose templates do not themselves raise a FileExistsError) and tree, the run never ends
   with a destination-exists error: a conflict cannot stop it *)
Theorem C03_ignore_never_ends_on_a_conflict : forall c plan cwd s e,
  c_strategy c = Ignore -> ~ plan_raises_exists (c_mode c) plan ->
  r_error (run c plan cwd s) = Some e -> is_file_exists e = false.
Proof. exact ignore_never_ends_on_a_conflict. Qed.
Print Assumptions C03_ignore_never_ends_on_a_conflict.

Theorem C03_status_zero_iff_no_error : forall c plan cwd s,
  r_status (run c plan cwd s) = 0%Z <-> r_error (run c plan cwd s) = None.
Proof. exact status_zero_iff_no_error. Qed.
Print Assumptions C03_status_zero_iff_no_error.

(* NOT proved (kept visible): the plan-level converse clauses — "stop exits 1 ONLY IF the plan contains a
   conflict", "ignore renames EVERY file whose destination is free", "override leaves the source's content at an
   occupied destination" — are decided by the correspondence and the oracle of harness/c03.py, not by a theorem. *)

(* Non-vacuity: a two-root scenario with a deferred rename, under stop / ignore / manual with the answers "S" and "" *)
Definition with_answers (c : cfg) (st : strategy) (a : list str) : cfg :=
  {| c_mode := c_mode c; c_strategy := st; c_dry := false; c_answers := a; c_fault := None; c_var := fixed |}.

Example C03_example :
  let c := f28_cfg fixed false in
  r_status (run (with_answers c Stop []) f28_plan [] f28_fs) = 1%Z /\
  r_status (run (with_answers c Ignore []) f28_plan [] f28_fs) = 0%Z /\
  r_status (run (with_answers c Manual [[83]]) f28_plan [] f28_fs) = 1%Z /\
  r_status (run (with_answers c Manual [[]]) f28_plan [] f28_fs) = 0%Z /\
  r_status (run (with_answers c Manual [[122]; [73; 71]]) f28_plan [] f28_fs) = 0%Z /\
  r_prompts (run (with_answers c Manual [[122]; [73; 71]]) f28_plan [] f28_fs) = 2%nat.
Proof. vm_compute. repeat split. Qed.

(* ==== plan level (name mode, real run, no fault, selected files = distinct existing non-directories) ==== *)
(* proofs and definitions: Pipe/StrategyExact.v.  [conflict s plan f t] = the destination of (f, t) differs from its
   source and was present in the initial tree or is generated for another entry as well;
   [dests_plain s plan] = no symbolic link can lie at a generated destination (there initially, or renamed there) and
   the paths are short enough for the bounded walk; [no_dir_dest] / [no_chain] = the two restrictions of the override
   clause (no destination an existing directory; no source key another entry's destination key, finding F33). *)
From Tempren Require Import FS.WfCheck Pipe.PlanExact Pipe.StrategyExact.

(* (a) stop ends with DestinationAlreadyExistsError ONLY on a real conflict; the entry named is an entry of the plan *)
Theorem C03_stop_only_on_conflict : forall c plan cwd s,
  c_mode c = MName -> c_strategy c = Stop -> c_dry c = false -> c_fault c = None -> c_var c = fixed ->
  WF s -> selected_ok s plan ->
  r_error (run c plan cwd s) = Some ExDestExists ->
  exists f t, In (f, RText t) plan /\ dst_key f t <> src_key f /\
    (lookup s (dst_key f t) <> None \/
     exists f' t', In (f', RText t') plan /\ src_key f' <> src_key f /\ dst_key f' t' = dst_key f t).
Proof. exact stop_only_on_conflict_thm. Qed.
Print Assumptions C03_stop_only_on_conflict.

(* the same seen from the second pass: it can only fail with that error, at the backlog entry of a plan entry
   whose destination conflicts.  (Since the repair of F38 the second pass runs the containment tests again and
   may end with their error instead: that is excluded when no symbolic link can lie at a destination
   ([dests_plain]), and it is not a FileExistsError.) *)
Theorem C03_stop_error_names_plan_entry : forall c plan cwd s w1 cwd1 bl w2 cwd2 e,
  c_mode c = MName -> c_strategy c = Stop -> c_dry c = false -> c_fault c = None -> c_var c = fixed ->
  WF s -> selected_ok s plan ->
  first_pass c plan (init_world s (c_answers c)) cwd [] = (w1, cwd1, bl, None) ->
  second_pass c bl w1 cwd1 = (w2, cwd2, Some e) ->
  dests_plain s plan \/ is_file_exists e = true ->
  e = ExDestExists /\
  exists f t, In (pf_dir f, pf_rel f, new_path f t) bl /\ In (f, RText t) plan /\ conflict s plan f t.
Proof. exact stop_error_names_plan_entry_thm. Qed.
Print Assumptions C03_stop_error_names_plan_entry.

(* contrapositive: destinations absent from the initial tree and pairwise distinct => never that error *)
Theorem C03_stop_no_conflict_no_dest_error : forall c plan cwd s,
  c_mode c = MName -> c_strategy c = Stop -> c_dry c = false -> c_fault c = None -> c_var c = fixed ->
  WF s -> selected_ok s plan ->
  (forall f t, In (f, RText t) plan -> dst_key f t <> src_key f -> lookup s (dst_key f t) = None) ->
  (forall f t f' t', In (f, RText t) plan -> In (f', RText t') plan ->
     dst_key f t <> src_key f -> dst_key f t = dst_key f' t' -> src_key f = src_key f') ->
  r_error (run c plan cwd s) <> Some ExDestExists.
Proof. exact stop_no_conflict_no_dest_error_thm. Qed.
Print Assumptions C03_stop_no_conflict_no_dest_error.

Theorem C03_stop_all_free_no_dest_error : forall c plan cwd s,
  c_mode c = MName -> c_strategy c = Stop -> c_dry c = false -> c_fault c = None -> c_var c = fixed ->
  WF s -> selected_ok s plan -> all_free s plan ->
  r_error (run c plan cwd s) <> Some ExDestExists.
Proof. exact stop_all_free_no_dest_error_thm. Qed.
Print Assumptions C03_stop_all_free_no_dest_error.

(* (b) ignore.  _partial: [selected_ok] alone is NOT enough for status 0 (see C03_ignore_exit0_without_plain_dests_refuted):
   Pipeline.execute resolves the destination before the renamer sees the conflict, so a symbolic link lying at a
   generated destination can end the run with InvalidDestinationError; [dests_plain] excludes exactly that *)
Theorem C03_ignore_exit0_partial : forall c plan cwd s,
  c_mode c = MName -> c_strategy c = Ignore -> c_dry c = false -> c_fault c = None -> c_var c = fixed ->
  WF s -> selected_ok s plan -> dests_plain s plan ->
  r_error (run c plan cwd s) = None /\ r_status (run c plan cwd s) = 0%Z.
Proof. exact ignore_exit0_thm. Qed.
Print Assumptions C03_ignore_exit0_partial.

(* _partial only in that "the run reported no error" is a premise (it follows from [dests_plain] by the theorem above) *)
Theorem C03_ignore_free_renamed_partial : forall c plan cwd s,
  c_mode c = MName -> c_strategy c = Ignore -> c_dry c = false -> c_fault c = None -> c_var c = fixed ->
  WF s -> selected_ok s plan ->
  r_error (run c plan cwd s) = None ->
  forall f t, In (f, RText t) plan ->
    lookup s (dst_key f t) = None ->
    (forall f' t', In (f', RText t') plan -> dst_key f' t' = dst_key f t -> src_key f' = src_key f) ->
    lookup (r_final (run c plan cwd s)) (dst_key f t) = lookup s (src_key f) /\
    ((forall f' t', In (f', RText t') plan -> dst_key f' t' <> src_key f) ->
     lookup (r_final (run c plan cwd s)) (src_key f) = None).
Proof. exact ignore_free_renamed_thm. Qed.
Print Assumptions C03_ignore_free_renamed_partial.

(* an entry that is not at its destination at the end had a conflicting destination (no further premise) *)
Theorem C03_ignore_not_renamed_had_conflict_partial : forall c plan cwd s,
  c_mode c = MName -> c_strategy c = Ignore -> c_dry c = false -> c_fault c = None -> c_var c = fixed ->
  WF s -> selected_ok s plan ->
  r_error (run c plan cwd s) = None ->
  forall f t, In (f, RText t) plan ->
    lookup (r_final (run c plan cwd s)) (dst_key f t) <> lookup s (src_key f) ->
    dst_key f t <> src_key f /\
    (lookup s (dst_key f t) <> None \/
     exists f' t', In (f', RText t') plan /\ src_key f' <> src_key f /\ dst_key f' t' = dst_key f t).
Proof. exact ignore_not_renamed_had_conflict_thm. Qed.
Print Assumptions C03_ignore_not_renamed_had_conflict_partial.

(* _partial: "still at its source key" is read off the tree, so an entry with an EQUAL node (a second name of the same
   file) that is renamed onto the vacated source key must be excluded (C03_ignore_left_without_twin_clause_refuted) *)
Theorem C03_ignore_left_had_conflict_partial : forall c plan cwd s,
  c_mode c = MName -> c_strategy c = Ignore -> c_dry c = false -> c_fault c = None -> c_var c = fixed ->
  WF s -> selected_ok s plan ->
  r_error (run c plan cwd s) = None ->
  forall f t, In (f, RText t) plan -> dst_key f t <> src_key f ->
    lookup (r_final (run c plan cwd s)) (src_key f) = lookup s (src_key f) ->
    (forall f' t', In (f', RText t') plan -> dst_key f' t' = src_key f -> lookup s (src_key f') <> lookup s (src_key f)) ->
    lookup s (dst_key f t) <> None \/
    exists f' t', In (f', RText t') plan /\ src_key f' <> src_key f /\ dst_key f' t' = dst_key f t.
Proof. exact ignore_left_had_conflict_thm. Qed.
Print Assumptions C03_ignore_left_had_conflict_partial.

(* (c) override, restricted as the property says and to plans without chains (F33); _partial: [dests_plain] as for ignore *)
Theorem C03_override_exit0_partial : forall c plan cwd s,
  c_mode c = MName -> c_strategy c = Override -> c_dry c = false -> c_fault c = None -> c_var c = fixed ->
  WF s -> selected_ok s plan -> no_dir_dest s plan -> no_chain plan -> dests_plain s plan ->
  r_error (run c plan cwd s) = None /\ r_status (run c plan cwd s) = 0%Z.
Proof. exact override_exit0_thm. Qed.
Print Assumptions C03_override_exit0_partial.

Theorem C03_override_holds_source_partial : forall c plan cwd s,
  c_mode c = MName -> c_strategy c = Override -> c_dry c = false -> c_fault c = None -> c_var c = fixed ->
  WF s -> selected_ok s plan -> no_dir_dest s plan -> no_chain plan -> dests_plain s plan ->
  forall f t m, In (f, RText t) plan ->
    lookup s (dst_key f t) = Some m -> is_dir_node m = false ->
    (forall f' r', In (f', r') plan -> src_key f' <> dst_key f t) ->
    (forall f' t', In (f', RText t') plan -> dst_key f' t' = dst_key f t -> src_key f' = src_key f) ->
    r_status (run c plan cwd s) = 0%Z /\
    lookup (r_final (run c plan cwd s)) (dst_key f t) = lookup s (src_key f).
Proof. exact override_holds_source_thm. Qed.
Print Assumptions C03_override_holds_source_partial.

(* more generally: whatever the destination held, if exactly one entry generates it, it holds that entry's node *)
Theorem C03_override_unique_target : forall c plan cwd s,
  c_mode c = MName -> c_strategy c = Override -> c_dry c = false -> c_fault c = None -> c_var c = fixed ->
  WF s -> selected_ok s plan -> no_dir_dest s plan -> no_chain plan ->
  r_error (run c plan cwd s) = None ->
  forall f t, In (f, RText t) plan -> dst_key f t <> src_key f ->
    (forall f' t', In (f', RText t') plan -> dst_key f' t' = dst_key f t -> src_key f' = src_key f) ->
    lookup (r_final (run c plan cwd s)) (dst_key f t) = lookup s (src_key f).
Proof. exact override_unique_target_thm. Qed.
Print Assumptions C03_override_unique_target.

(* ---- why the restrictions are there ---- *)
(* F33 (corpus/C03/F33_override_chain.json): in/b -> x, in/a -> b under override; all other hypotheses hold *)
Theorem C03_override_holds_source_without_no_chain_refuted :
  ~ (forall c plan cwd s,
       c_mode c = MName -> c_strategy c = Override -> c_dry c = false -> c_fault c = None -> c_var c = fixed ->
       WF s -> selected_ok s plan -> no_dir_dest s plan -> dests_plain s plan ->
       forall f t m, In (f, RText t) plan ->
         lookup s (dst_key f t) = Some m -> is_dir_node m = false ->
         (forall f' r', In (f', r') plan -> src_key f' <> dst_key f t) ->
         (forall f' t', In (f', RText t') plan -> dst_key f' t' = dst_key f t -> src_key f' = src_key f) ->
         r_status (run c plan cwd s) = 0%Z /\
         lookup (r_final (run c plan cwd s)) (dst_key f t) = lookup s (src_key f)).
Proof. exact override_holds_source_without_no_chain_refuted. Qed.
Print Assumptions C03_override_holds_source_without_no_chain_refuted.

Example C03_F33_replay :
  let r := run (f33_cfg fixed false) f33_plan [] f33_fs in
  r_status r = 0%Z /\ selected_okb f33_fs f33_plan = true /\ wf_b f33_fs = true /\
  no_dir_dest_b f33_fs f33_plan = true /\ no_chain_b f33_plan = false /\
  lookup f33_fs (src_key f33_b) = Some (NFile 2) /\ lookup f33_fs (dst_key f33_b [120]) = Some (NFile 3) /\
  lookup (r_final r) (dst_key f33_b [120]) = Some (NFile 1).
Proof. vm_compute. repeat split. Qed.

Theorem C03_ignore_exit0_without_plain_dests_refuted :
  ~ (forall c plan cwd s,
       c_mode c = MName -> c_strategy c = Ignore -> c_dry c = false -> c_fault c = None -> c_var c = fixed ->
       WF s -> selected_ok s plan -> r_error (run c plan cwd s) = None).
Proof. exact ignore_exit0_without_plain_dests_refuted. Qed.
Print Assumptions C03_ignore_exit0_without_plain_dests_refuted.

Theorem C03_ignore_left_without_twin_clause_refuted :
  ~ (forall c plan cwd s,
       c_mode c = MName -> c_strategy c = Ignore -> c_dry c = false -> c_fault c = None -> c_var c = fixed ->
       WF s -> selected_ok s plan -> r_error (run c plan cwd s) = None ->
       forall f t, In (f, RText t) plan -> dst_key f t <> src_key f ->
         lookup (r_final (run c plan cwd s)) (src_key f) = lookup s (src_key f) ->
         lookup s (dst_key f t) <> None \/
         exists f' t', In (f', RText t') plan /\ src_key f' <> src_key f /\ dst_key f' t' = dst_key f t).
Proof. exact ignore_left_had_conflict_without_twin_clause_refuted. Qed.
Print Assumptions C03_ignore_left_without_twin_clause_refuted.

(* ---- non-vacuity: in/a -> A (free), in/b -> x (in/x exists), in/c -> y and in/d -> y (generated twice) ---- *)
Example C03_plan_level_example :
  let ri := run (sx_cfg Ignore) nv_plan [] nv_fs in
  let rs := run (sx_cfg Stop) nv_plan [] nv_fs in
  selected_okb nv_fs nv_plan = true /\ wf_b nv_fs = true /\ no_links_b nv_fs = true /\ short_b nv_plan = true /\
  r_error ri = None /\ r_status ri = 0%Z /\
  lookup (r_final ri) [[105;110]; [65]] = Some (NFile 1) /\ lookup (r_final ri) [[105;110]; [97]] = None /\
  lookup (r_final ri) [[105;110]; [98]] = Some (NFile 2) /\ lookup (r_final ri) [[105;110]; [120]] = Some (NFile 5) /\
  lookup (r_final ri) [[105;110]; [121]] = Some (NFile 3) /\ lookup (r_final ri) [[105;110]; [99]] = None /\
  lookup (r_final ri) [[105;110]; [100]] = Some (NFile 4) /\
  r_error rs = Some ExDestExists /\ r_status rs = 1%Z.
Proof. vm_compute. repeat split. Qed.

(* the theorems apply to it: ignore reports no error, the free entry is renamed, the two others had conflicts;
   stop names a conflicting entry *)
Example C03_plan_level_example_by_theorems :
  r_error (run (sx_cfg Ignore) nv_plan [] nv_fs) = None /\
  lookup (r_final (run (sx_cfg Ignore) nv_plan [] nv_fs)) (dst_key nv_a [65]) = lookup nv_fs (src_key nv_a) /\
  conflict nv_fs nv_plan nv_b [120] /\ conflict nv_fs nv_plan nv_d [121] /\
  exists f t, In (f, RText t) nv_plan /\ dst_key f t <> src_key f /\
    (lookup nv_fs (dst_key f t) <> None \/
     exists f' t', In (f', RText t') nv_plan /\ src_key f' <> src_key f /\ dst_key f' t' = dst_key f t).
Proof.
  split; [exact nv_ignore_exit0_by_theorem|]. split; [exact nv_free_by_theorem|].
  split; [exact (proj1 nv_conflicts_by_theorem)|]. split; [exact (proj2 nv_conflicts_by_theorem) | exact nv_stop_by_theorem].
Qed.

(* ---- the whole program (Whole/Main.v [tempren_main]; proofs: Whole/PipelineProps.v) ---- *)
From Coq Require Import Permutation.
From Tempren Require Import Pipe.FrontCompile Whole.Library Whole.Render Whole.Gather Whole.Main Whole.Facts Whole.ExactWhole
  Whole.PipelineProps Whole.Examples.

(* Name mode, stop, a real run without fault, any template text and registry, -r, -ih, sort, listing order: if tempren
   ends with DestinationAlreadyExistsError (exit status 1: C03_whole_dest_error_is_status_1) then the plan the program rendered itself really contains a
   conflict - a gathered file whose new name differs from its own and is taken in the initial tree or is also the new
   name of another gathered file.  Hypotheses as in C03_stop_only_on_conflict ([selected_ok], read on the program's
   plan as in C02_whole_exact): nothing is gathered twice, and every rendered value is a valid name.  The front end's
   own failures (status 2 / 3 / 126) are never that error. *)
Theorem C03_whole_stop_only_on_conflict : forall upper lower R o text dirs s,
  tree_ok s ->
  o_mode o = MName -> o_strategy o = Stop -> o_dry o = false -> o_fault o = None ->
  (forall l, Permutation l (o_listing o l)) ->
  NoDup (map src_key (gather_all o s dirs)) ->
  (forall b, compile R text = inl b ->
     Forall (fun e => exists t, snd e = RText t /\ valid_name_b t = true) (whole_plan upper lower b o dirs s)) ->
  let r := tempren_main upper lower R o text dirs s in
  r_error r = Some ExDestExists ->
  exists b, compile R text = inl b /\
  exists f t, In (f, RText t) (whole_plan upper lower b o dirs s) /\ In f (gather_all o s dirs) /\
    dst_key f t <> src_key f /\
    (lookup s (dst_key f t) <> None \/
     exists f' t', In (f', RText t') (whole_plan upper lower b o dirs s) /\ In f' (gather_all o s dirs) /\
                   src_key f' <> src_key f /\ dst_key f' t' = dst_key f t).
Proof. exact whole_stop_only_on_conflict. Qed.
Print Assumptions C03_whole_stop_only_on_conflict.

(* ending with that error is ending with exit status 1 (any options, any text) *)
Theorem C03_whole_dest_error_is_status_1 : forall upper lower R o text dirs s,
  let r := tempren_main upper lower R o text dirs s in
  r_error r = Some ExDestExists -> r_status r = 1%Z.
Proof. exact whole_dest_error_status. Qed.
Print Assumptions C03_whole_dest_error_is_status_1.

(* "x" on the example tree, -r, sorted: status 1 with that error, and in/a.t and in/b.t both get the name in/x; the
   counting template gives no conflict and status 0 *)
Example C03_whole_example :
  let o := ex_options MName true true in
  let r := ex_main o t_x ex_dirs ex_tree in
  r_status r = 1%Z /\ r_error r = Some ExDestExists /\
  (exists b, compile core_reg t_x = inl b /\
     forallb (fun e => match snd e with RText t => valid_name_b t | _ => false end)
             (whole_plan ascii_upper_str ascii_lower_str b o ex_dirs ex_tree) = true /\
     map (fun e => match snd e with RText t => dst_key (fst e) t | _ => [] end)
         (whole_plan ascii_upper_str ascii_lower_str b o ex_dirs ex_tree) =
     [[Examples.ex_in; [120]]; [Examples.ex_in; [120]]; [Examples.ex_in; [115]; [120]]; [Examples.ex_in; [115]; [120]]]) /\
  r_status (ex_main o t_upper_count ex_dirs ex_tree) = 0%Z /\ r_error (ex_main o t_upper_count ex_dirs ex_tree) = None.
Proof.
  split; [vm_compute; reflexivity|]. split; [vm_compute; reflexivity|]. split.
  - eexists. split; [vm_compute; reflexivity|]. vm_compute. split; reflexivity.
  - vm_compute. split; reflexivity.
Qed.
