(* C18 — text tags are total, file-independent functions with their documented shape. *)
(* Totality and file/history independence hold in the model by typing: every function  *)
(* below is a total Gallina function of (arguments, context) only.                      *)
From Tempren Require Import Base.Str Tags.TextTags Tags.TextTagsProofs.
Open Scope Z_scope.

(* Trim: length min(len, width); a suffix when cropping the left side, a prefix otherwise *)
Theorem C18_trim_length : forall w left s, 0 < w ->
  length (trim w left s) = Nat.min (length s) (Z.to_nat w).
Proof. exact trim_length_pos. Qed.
Print Assumptions C18_trim_length.

Theorem C18_trim_length_negative : forall w left s, w < 0 ->
  length (trim w left s) = (length s - Nat.min (length s) (Z.to_nat (- w)))%nat.
Proof. exact trim_length_neg. Qed.
Print Assumptions C18_trim_length_negative.

Theorem C18_trim_left_is_suffix : forall w s, exists p, s = p ++ trim w true s.
Proof. exact trim_left_suffix. Qed.
Print Assumptions C18_trim_left_is_suffix.

Theorem C18_trim_right_is_prefix : forall w s, exists q, s = trim w false s ++ q.
Proof. exact trim_right_prefix. Qed.
Print Assumptions C18_trim_right_is_prefix.

(* Pad: length max(len, width), contains the input, only the pad character is added *)
Theorem C18_pad_length : forall w ch left right s,
  length (pad w ch left right s) = Nat.max (length s) (Z.to_nat w).
Proof. exact pad_length. Qed.
Print Assumptions C18_pad_length.

Theorem C18_pad_contains : forall w ch left right s,
  exists a b, pad w ch left right s = a ++ s ++ b /\
              (forall c, In c a -> c = ch) /\ (forall c, In c b -> c = ch).
Proof. exact pad_contains. Qed.
Print Assumptions C18_pad_contains.

(* Strip: a contiguous part of the input; only listed characters are removed; no
   strippable end remains *)
Theorem C18_strip_contiguous : forall set left right s,
  exists a b, s = a ++ strip_tag set left right s ++ b /\
              (forall c, In c a -> mem c set = true) /\ (forall c, In c b -> mem c set = true).
Proof. exact strip_contiguous. Qed.
Print Assumptions C18_strip_contiguous.

Theorem C18_strip_ends : forall set s,
  let r := strip_tag set false false s in
  match r with [] => True | c :: _ => mem c set = false end /\
  match rev r with [] => True | c :: _ => mem c set = false end.
Proof. exact strip_both_ends. Qed.
Print Assumptions C18_strip_ends.

Theorem C18_lstrip_end : forall set s,
  match lstrip set s with [] => True | c :: _ => mem c set = false end.
Proof. exact strip_left_end. Qed.
Print Assumptions C18_lstrip_end.

Theorem C18_rstrip_end : forall set s,
  match rev (rstrip set s) with [] => True | c :: _ => mem c set = false end.
Proof. exact strip_right_end. Qed.
Print Assumptions C18_rstrip_end.

(* Collapse: no two adjacent listed characters; a subsequence; unlisted ones all kept *)
Theorem C18_collapse_no_adjacent : forall set s i a b,
  nth_error (collapse set s) i = Some a -> nth_error (collapse set s) (S i) = Some b ->
  mem a set && mem b set = false.
Proof. exact collapse_adjacent_spec. Qed.
Print Assumptions C18_collapse_no_adjacent.

Theorem C18_collapse_subsequence : forall set s, subseq (collapse set s) s.
Proof. exact collapse_subseq. Qed.
Print Assumptions C18_collapse_subsequence.

Theorem C18_collapse_keeps_unlisted : forall set s,
  filter (fun c => negb (mem c set)) (collapse set s) = filter (fun c => negb (mem c set)) s.
Proof. exact collapse_keeps_unlisted. Qed.
Print Assumptions C18_collapse_keeps_unlisted.

(* SplitCase only inserts separators, exactly one per ASCII lower/upper boundary *)
Theorem C18_split_case_is_splice : forall sep s, split_case sep s = splice sep s.
Proof. exact split_case_is_splice. Qed.
Print Assumptions C18_split_case_is_splice.

Theorem C18_split_case_subsequence : forall sep s, subseq s (split_case sep s).
Proof. exact split_case_subseq. Qed.
Print Assumptions C18_split_case_subsequence.

Theorem C18_split_case_length : forall sep s,
  length (split_case sep s) = (length s + boundaries s * length sep)%nat.
Proof. exact split_case_length. Qed.
Print Assumptions C18_split_case_length.

(* Upper / Lower / Unidecode as character-wise maps: idempotent on every code point
   implies idempotent on every string; ASCII table entries imply ASCII output.
   The per-code-point hypotheses are checked exhaustively against CPython / unidecode
   by the harness (all 1 114 112 code points). *)
Theorem C18_charmap_idempotent : forall tbl : N -> list N,
  (forall c, map_chars tbl (tbl c) = tbl c) ->
  forall s, map_chars tbl (map_chars tbl s) = map_chars tbl s.
Proof. exact map_chars_idempotent. Qed.
Print Assumptions C18_charmap_idempotent.

Theorem C18_charmap_ascii : forall tbl : N -> list N,
  (forall c x, In x (tbl c) -> (x < 128)%N) ->
  forall s x, In x (map_chars tbl s) -> (x < 128)%N.
Proof. exact map_chars_ascii. Qed.
Print Assumptions C18_charmap_ascii.

(* Non-vacuity: concrete non-trivial inputs *)
Example C18_examples :
  trim 3 true [97;98;99;100;101]%N = [99;100;101]%N /\
  trim (-2) false [97;98;99;100;101]%N = [97;98;99]%N /\
  pad 6 42%N true true [97;98;99]%N = [42;97;98;99;42;42]%N /\
  pad 5 42%N true true [97;98]%N = [42;42;97;98;42]%N /\
  collapse [32;45]%N [97;32;45;32;98;45;99]%N = [97;32;98;45;99]%N /\
  split_case [95]%N [97;66;99;68;69]%N = [97;95;66;99;95;68;69]%N /\
  strip_tag [32]%N false false [32;32;97;32;98;32]%N = [97;32;98]%N.
Proof. vm_compute. repeat split. Qed.
