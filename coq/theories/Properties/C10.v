(* C10 - templates mean what they say: text and arguments arrive verbatim.                   *)
(* Statements only; every proof is [exact <lemma>].  Model: Tpl/Lexer.v (three-mode maximal   *)
(* munch lexer), Tpl/Parser.v (recursive descent to the parse tree Tpl/Cst.v), Tpl/Visitor.v  *)
(* (parser.py's visitor after fixes F14-F18), Tpl/Printer.v (styles), Tpl/Ast.v (trees, wf).  *)
From Coq Require Import Permutation.
From Tempren Require Import Base.Str Tpl.Ast Tpl.Lexer Tpl.Cst Tpl.Parser Tpl.Escape Tpl.Visitor
  Tpl.Printer Tpl.LexSpec Tpl.LexProofs Tpl.ParseProofs Tpl.PrintProofs Tpl.RoundTrip.
Open Scope N_scope.

(* Printing any well-formed tree in any style and parsing it back yields the same tree.
   wf_pat: raw texts non-empty, without '%' TAB LF CR, not ending in a backslash, no two
   adjacent; names are identifiers; keyword names pairwise distinct and none of True true
   False false; string values not ending in a backslash; contexts recursively.  Styles: both
   quote marks, both boolean spellings, flag shorthand or =True, three interleavings of
   positional and named arguments, () or nothing before a context, any blanks (space TAB LF
   CR) between the tokens of an argument list.  Integers are arbitrary Z; text and strings
   range over all code points. *)
Theorem C10_roundtrip : forall sty t,
  wf_style sty = true -> wf_pat t = true -> parse (print sty t) = Ok t.
Proof. exact roundtrip. Qed.
Print Assumptions C10_roundtrip.

(* its three layers *)
Theorem C10_lex_print : forall sty t, wf_style sty = true -> wf_pat t = true ->
  lex (print sty t) = LexOk (flatten_pat (cst_of_pat sty t)).
Proof. exact lex_print. Qed.
Print Assumptions C10_lex_print.

Theorem C10_parse_flatten : forall c, wfs_pat false c = true -> parse_tokens (flatten_pat c) = Some c.
Proof. exact parse_flatten. Qed.
Print Assumptions C10_parse_flatten.

Theorem C10_visit_cst_of : forall sty t, wf_pat t = true -> visit (cst_of_pat sty t) = Ok t.
Proof. exact visit_cst_of. Qed.
Print Assumptions C10_visit_cst_of.

(* the documented escapes are undone exactly: text ({ } |) and strings (quote mark, backslash) *)
Theorem C10_unescape_escape_text : forall s, unescape esc_text (escape esc_text s) = s.
Proof. exact unescape_escape_text. Qed.
Print Assumptions C10_unescape_escape_text.

Theorem C10_unescape_escape_string : forall q s, unescape (esc_str q) (escape (esc_str q) s) = s.
Proof. exact unescape_escape_string. Qed.
Print Assumptions C10_unescape_escape_string.

(* integers of any magnitude *)
Theorem C10_int_roundtrip : forall z, Z_of_decimal (decimal_Z z) = Some z.
Proof. exact Z_of_decimal_print. Qed.
Print Assumptions C10_int_roundtrip.

(* Every character is recognised: the lexemes together with the explicitly skipped whitespace
   partition the input ... *)
Theorem C10_every_char_recognised : forall s toks, lex_all s = LexOk toks -> chars toks = s.
Proof. exact every_char_recognised. Qed.
Print Assumptions C10_every_char_recognised.

(* ... and otherwise the error position lies inside the text, at a character that starts no
   token of the mode the lexer is in after the lexemes before it *)
Theorem C10_lex_error_located : forall s i, lex_all s = LexError i ->
  i < N.of_nat (length s) /\
  exists toks b, s = chars toks ++ b /\ b <> [] /\ i = N.of_nat (length (chars toks)) /\
                 lex_step (final_mode MDefault toks) b = None.
Proof. exact lex_error_located. Qed.
Print Assumptions C10_lex_error_located.

Theorem C10_lex_error_rejected : forall s i, lex_all s = LexError i -> parse s = Err (ELex i).
Proof. exact lex_error_rejected. Qed.
Print Assumptions C10_lex_error_rejected.

(* DEFAULT mode has no lexical errors: outside tags every character is text or structure *)
Theorem C10_default_mode_total : forall s, s <> [] -> lex_step MDefault s <> None.
Proof. exact lex_step_default_total. Qed.
Print Assumptions C10_default_mode_total.

(* Accepted only if every character was recognised, and nothing is silently dropped: the
   token sequence is exactly the parse tree's, and every name, argument and text leaf of the
   parse tree is in the tree that is returned (piped tags move, hence a permutation). *)
Theorem C10_nothing_dropped : forall s p, parse s = Ok p ->
  exists all c,
    lex_all s = LexOk all /\ chars all = s /\
    parse_tokens (no_ws all) = Some c /\ flatten_pat c = no_ws all /\
    visit c = Ok p /\ Permutation (leaves_cpat c) (leaves_pat p).
Proof. exact nothing_dropped_text. Qed.
Print Assumptions C10_nothing_dropped.

(* The unchanged code violated the round trip: its unescape was five successive str.replace
   passes that re-read their own output (F15) and never unescaped the double quote (F16). *)
Theorem C10_sequential_unescape_refuted : exists s, unescape_seq (escape (esc_str 39) s) <> s.
Proof. exact sequential_unescape_refuted_string. Qed.
Print Assumptions C10_sequential_unescape_refuted.

Theorem C10_sequential_unescape_text_refuted :
  exists s, wf_text s = true /\ unescape_seq (escape esc_text s) <> s.
Proof. exact sequential_unescape_refuted_text. Qed.
Print Assumptions C10_sequential_unescape_text_refuted.

Theorem C10_double_quote_refuted : exists s, unescape_seq (escape (esc_str 34) s) <> s.
Proof. exact double_quote_refuted. Qed.
Print Assumptions C10_double_quote_refuted.

(* ---------- non-vacuity ------------------------------------------------------------------- *)
Definition ex_style : style :=
  {| sty_dq := false; sty_lower := true; sty_flag := true; sty_order := 2; sty_parens := false; sty_ws := [32] |}.
(* a\{b %A.B( -5, k, 'q\'\\x', l = false ){%C{}} *)
Definition ex_tree : pat :=
  PCons (RawText [97; 123; 92; 98])
    (PCons (Tag (Some [65]) [66] [VInt (-5)%Z; VStr [39; 92; 120]] [([107], VBool true); ([108], VBool false)] true
              (PCons (Tag None [67] [] [] true PNil) PNil)) PNil).

Example C10_example_wf : wf_style ex_style = true /\ wf_pat ex_tree = true.
Proof. vm_compute. split; reflexivity. Qed.

Example C10_example_roundtrip :
  print ex_style ex_tree =
    [97; 92; 123; 92; 98; 37; 65; 46; 66; 40; 32; 45; 53; 32; 44; 32; 107; 32; 44; 32; 39; 92; 39; 92; 92;
     120; 39; 32; 44; 32; 108; 32; 61; 32; 102; 97; 108; 115; 101; 32; 41; 123; 37; 67; 123; 125; 125] /\
  parse (print ex_style ex_tree) = Ok ex_tree.
Proof. vm_compute. split; reflexivity. Qed.

(* the post-fix behaviour on the defect inputs of DESIGN §5 *)
Example C10_example_F14 :   (* '% Name()', '%Name(--1)' *)
  parse [37; 32; 78; 97; 109; 101; 40; 41] = Err (ELex 1) /\
  parse [37; 78; 97; 109; 101; 40; 45; 45; 49; 41] = Err (ELex 6).
Proof. vm_compute. split; reflexivity. Qed.

Example C10_example_F17_F18 :   (* '%N()|%U{x}', '%T(a=1,a=2)' *)
  parse [37; 78; 40; 41; 124; 37; 85; 123; 120; 125] = Err EPipeContext /\
  parse [37; 84; 40; 97; 61; 49; 44; 97; 61; 50; 41] = Err EDupKeyword.
Proof. vm_compute. split; reflexivity. Qed.

(* hypotheses of the round trip are needed: a raw text ending in a backslash glues to '}' *)
Example C10_example_trailing_backslash :
  let t := PCons (Tag None [84] [] [] true (PCons (RawText [97; 92]) PNil)) PNil in
  wf_pat t = false /\ parse (print ex_style t) <> Ok t.
Proof. vm_compute. split; [reflexivity|discriminate]. Qed.
