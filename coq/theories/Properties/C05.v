(* C05 — a dry run predicts exactly what the real run then does.  Statements only. *)
From Tempren Require Import Base.Str Py.PathLib FS.Model FS.Lemmas FS.PlainPaths Pipe.Pipeline Pipe.DryRun Pipe.DrySim Pipe.Scenarios.
From Tempren Require Import FS.WfCheck Corr.PipeCorr Pipe.DryEqualsReal Pipe.DryEqualsRealCheck.
Open Scope N_scope.

(* FULL STATEMENT (not proved as one theorem; decided by the paired runs of harness/c05.py + the correspondence):
     name mode: forall c plan s, (r_status, r_report) (run {c with dry}) = (r_status, r_report) (run {c with not dry}).
   PROVED below: the step-level simulation the full statement rests on, and (at the end of this file,
   theorems C05_dry_equals_real_name_mode...) the full statement for name mode on plans of plain paths. *)

(* The dry-run bookkeeping.  [vexists E0 cr rm k] is DryRunRenamer's "exists" for name k over ANY on-disk existence
   map E0: (on disk or created) and not removed.  One dry step makes the destination exist, the source not exist
   and leaves every other name as it was — for any disk and any history of earlier steps. *)
Theorem C05_dry_step_tracks_rename : forall E0 cr rm src dst k,
  src <> dst ->
  vexists E0 (del_path src (add_path dst cr)) (del_path dst (add_path src rm)) k =
    if rpath_eqb k dst then true else if rpath_eqb k src then false else vexists E0 cr rm k.
Proof. exact dry_step_tracks_rename. Qed.
Print Assumptions C05_dry_step_tracks_rename.

(* The real filesystem: renaming a non-directory onto a free name changes the existence of names in exactly
   the same way. *)
Theorem C05_real_rename_tracks : forall s sp n dp k,
  NoDup (map fst s) -> In (sp, n) s -> sp <> [] -> dp <> [] -> sp <> dp -> k <> [] ->
  (forall q m, In (q, m) s -> is_prefix_path sp q = true -> q = sp) ->
  (forall q m, In (q, m) s -> q <> dp) ->
  present (rekey sp dp s) k =
    if rpath_eqb k dp then true else if rpath_eqb k sp then false else present s k.
Proof. exact real_rename_tracks. Qed.
Print Assumptions C05_real_rename_tracks.

(* Hence the simulation invariant "virtual existence = existence on the real run's disk" is preserved by
   every step; both renamers decide by exactly these existence tests, so they take the same branch next time. *)
Theorem C05_simulation_step : forall E0 cr rm s sp n dp,
  NoDup (map fst s) -> In (sp, n) s -> sp <> [] -> dp <> [] -> sp <> dp ->
  (forall q m, In (q, m) s -> is_prefix_path sp q = true -> q = sp) ->
  (forall q m, In (q, m) s -> q <> dp) ->
  (forall k, k <> [] -> vexists E0 cr rm k = present s k) ->
  forall k, k <> [] ->
    vexists E0 (del_path sp (add_path dp cr)) (del_path dp (add_path sp rm)) k = present (rekey sp dp s) k.
Proof. exact simulation_step. Qed.
Print Assumptions C05_simulation_step.

(* the dry run never touches the disk, so E0 above really is the initial disk throughout (C04) *)
Theorem C05_dry_run_disk_is_initial : forall c plan cwd s,
  c_dry c = true -> r_final (run c plan cwd s) = s /\ r_states (run c plan cwd s) = [] /\ r_calls (run c plan cwd s) = [].
Proof. exact dry_run_touches_nothing. Qed.
Print Assumptions C05_dry_run_disk_is_initial.

(* Finding F3 (fixed): two input roots that both contain 'x'.  With the bookkeeping keyed by the relative path
   the dry run sees the second 'x' as already renamed and stops (status 1, two report lines) while the real run
   renames all three (status 0); with absolute keys both runs agree.  F5 / F28 (fixed): both runs agree. *)
Example C05_relative_keys_refuted :
  let dry_bad := run (f3_cfg relative_dry_keys true) f3_plan [] f3_fs in
  let dry := run (f3_cfg fixed true) f3_plan [] f3_fs in
  let real := run (f3_cfg fixed false) f3_plan [] f3_fs in
  r_status dry_bad <> r_status real /\ length (r_report dry_bad) = 2%nat /\
  r_status dry = r_status real /\ r_report dry = r_report real /\ length (r_report real) = 3%nat /\
  r_status (run (f5_cfg fixed true) f5_plan [] f5_fs) = r_status (run (f5_cfg fixed false) f5_plan [] f5_fs) /\
  r_report (run (f28_cfg fixed true) f28_plan [] f28_fs) = r_report (run (f28_cfg fixed false) f28_plan [] f28_fs) /\
  r_status (run (f28_cfg fixed true) f28_plan [] f28_fs) = r_status (run (f28_cfg fixed false) f28_plan [] f28_fs).
Proof. vm_compute. repeat split; discriminate. Qed.


(* ======================================================================================================== *)
(* The full statement, name mode (Pipe/DryEqualsReal.v).                                                    *)
(*                                                                                                          *)
(* Hypotheses (all are definitions of Pipe/DryEqualsReal.v, all have sound boolean checkers in              *)
(* Pipe/DryEqualsRealCheck.v):                                                                              *)
(*  - plain_plan s plan: every File(input directory, relative path) has  chdir s dir = Some dir  (a real    *)
(*    directory reached without links), no ".." in dir or in the relative path, pp_root = 0, non-empty      *)
(*    parts, every proper prefix below dir is a directory ENTRY of s, and dir ++ parts is a REGULAR FILE    *)
(*    of s (a file may be designated any number of times); length dir + length parts < walk_fuel (the       *)
(*    model's kernel walk answers ELOOP beyond walk_fuel = 120 components; a modelling bound).              *)
(*    Regular file, not just "non-directory": C05_symlink_source_refuted below shows that the statement     *)
(*    is FALSE in the model when the plan renames a symbolic link and reuses its name.                      *)
(*  - dest_not_link s plan: where parent/new-name is taken on the initial tree, it is not a symbolic link   *)
(*    (Path.resolve() in the containment test would follow it).                                             *)
(*  - no_override c: strategy stop or ignore, or manual where no answer parses to "override" or to          *)
(*    "custom path".                                                                                        *)
(* rendered values are arbitrary RText / RAbs / RRaise: invalid names raise the same error in both runs,    *)
(* the name ".." (accepted by with_name) is a conflict with the parent directory in both runs.              *)
(* [cfg_set_dry] is the [set_dry] of the statement ([Pipeline.set_dry] is already DryRunRenamer's update).  *)
Theorem C05_dry_equals_real_name_mode : forall c plan cwd s,
  c_mode c = MName -> c_fault c = None -> c_var c = fixed -> WF s ->
  plain_plan s plan -> dest_not_link s plan -> no_override c ->
  let d := run (cfg_set_dry c true) plan cwd s in
  let r := run (cfg_set_dry c false) plan cwd s in
  r_status d = r_status r /\ r_report d = r_report r /\ r_prompts d = r_prompts r.
Proof. exact dry_equals_real_name_mode. Qed.
Print Assumptions C05_dry_equals_real_name_mode.

(* Every strategy and every answer, override and custom paths included: additionally no rendered name is     *)
(* ".." (no_dotdot_names), where a new name is taken on the initial tree it is taken by a regular file      *)
(* (dest_replaceable: os.rename onto a directory fails, the dry run does not notice:                        *)
(* C05_override_onto_directory_refuted), and the lines typed at the manual prompt, read as paths, are       *)
(* single names other than ".." (custom_paths_single).                                                      *)
Theorem C05_dry_equals_real_name_mode_override : forall c plan cwd s,
  c_mode c = MName -> c_fault c = None -> c_var c = fixed -> WF s ->
  plain_plan s plan -> dest_not_link s plan -> no_dotdot_names plan ->
  dest_replaceable s plan -> custom_paths_single c ->
  let d := run (cfg_set_dry c true) plan cwd s in
  let r := run (cfg_set_dry c false) plan cwd s in
  r_status d = r_status r /\ r_report d = r_report r /\ r_prompts d = r_prompts r.
Proof. exact dry_equals_real_name_mode_override. Qed.
Print Assumptions C05_dry_equals_real_name_mode_override.

(* The general form both are instances of; it also gives the same terminating exception (r_error).          *)
(* OVR / CUS: may a conflict be resolved by overriding / by a custom path.                                   *)
Theorem C05_dry_equals_real_name_mode_general : forall (OVR CUS : Prop) c plan cwd s,
  c_mode c = MName -> c_fault c = None -> c_var c = fixed -> WF s ->
  plain_plan s plan -> dest_not_link s plan ->
  (OVR -> no_dotdot_names plan) -> (OVR -> dest_replaceable s plan) -> answers_ok OVR CUS c ->
  let d := run (cfg_set_dry c true) plan cwd s in
  let r := run (cfg_set_dry c false) plan cwd s in
  r_status d = r_status r /\ r_report d = r_report r /\ r_prompts d = r_prompts r /\ r_error d = r_error r.
Proof. exact dry_equals_real_name_mode_general. Qed.
Print Assumptions C05_dry_equals_real_name_mode_general.

(* The renamer-level simulation: one call of the renamer in the dry and in the real world, related by Sim    *)
(* (virtual existence = existence on the real disk, same directories and links, same report / stdin /       *)
(* prompt count), gives the same outcome and related worlds.                                                 *)
Theorem C05_sim_renamer : forall s0 st answers (OVR CUS : Prop), WF s0 ->
  forall wd wr d src dst ov wd' ed wr' er,
  Sim s0 st OVR CUS wd wr -> plain_rel s0 d src -> plain_rel s0 d dst -> skel s0 (d ++ pp_parts src) = None ->
  (ov = true -> skel s0 (d ++ pp_parts dst) = None /\ pp_parts src <> pp_parts dst) ->
  renamer (cD st answers) wd d src dst ov = (wd', ed) -> renamer (cR st answers) wr d src dst ov = (wr', er) ->
  ed = er /\ Sim s0 st OVR CUS wd' wr'.
Proof. exact sim_renamer. Qed.
Print Assumptions C05_sim_renamer.

(* The pass-level simulations the run-level theorems are assembled from. *)
Theorem C05_sim_first_pass : forall s0 st answers (OVR CUS : Prop), WF s0 ->
  forall plan wd wr cwd bl wd' cd' bd' ed wr' cr' br' er,
  plain_plan s0 plan -> dest_not_link s0 plan ->
  (OVR -> no_dotdot_names plan) -> (OVR -> dest_replaceable s0 plan) ->
  Forall (plain_entry s0 OVR) bl -> Sim s0 st OVR CUS wd wr ->
  first_pass (cD st answers) plan wd cwd bl = (wd', cd', bd', ed) ->
  first_pass (cR st answers) plan wr cwd bl = (wr', cr', br', er) ->
  ed = er /\ cd' = cr' /\ bd' = br' /\ Forall (plain_entry s0 OVR) bd' /\ Sim s0 st OVR CUS wd' wr'.
Proof. exact sim_first_pass. Qed.
Print Assumptions C05_sim_first_pass.

Theorem C05_sim_second_pass : forall s0 st answers (OVR CUS : Prop), WF s0 ->
  match st with Stop | Ignore => True | Manual => Forall (answer_ok OVR CUS) answers | Override => OVR end ->
  forall bl wd wr cwd wd' cd' ed wr' cr' er,
  Forall (plain_entry s0 OVR) bl -> Sim s0 st OVR CUS wd wr ->
  second_pass (cD st answers) bl wd cwd = (wd', cd', ed) -> second_pass (cR st answers) bl wr cwd = (wr', cr', er) ->
  ed = er /\ Sim s0 st OVR CUS wd' wr'.
Proof. exact sim_second_pass. Qed.
Print Assumptions C05_sim_second_pass.

(* Non-vacuity: the two-root tree of F3 (in/x, in/y, in2/x: equal relative names in both roots) with a        *)
(* colliding plan (in/x -> X, in/y -> X, in2/x -> X).  The hypotheses hold (checked by the sound boolean     *)
(* checker), so the theorems apply; and concretely: under stop both runs report two renames and end with    *)
(* status 1, under override both report three (the last one overriding) and end with 0, at the manual       *)
(* prompt "c" + "Z" both rename in/y to Z after 2 prompt lines.                                              *)
Definition c05_ex_plan : list (pfile * rendered) :=
  mk_plan [([[105;110]], [120], RText [88]); ([[105;110]], [121], RText [88]); ([[105;110;50]], [120], RText [88])].
Definition c05_ex_cfg (st : strategy) (ans : list str) : cfg :=
  {| c_mode := MName; c_strategy := st; c_dry := false; c_answers := ans; c_fault := None; c_var := fixed |}.

Example C05_dry_equals_real_nonvacuous :
  (WF f3_fs /\ plain_plan f3_fs c05_ex_plan /\ dest_not_link f3_fs c05_ex_plan /\
   no_dotdot_names c05_ex_plan /\ dest_replaceable f3_fs c05_ex_plan) /\
  (let d := run (cfg_set_dry (c05_ex_cfg Stop []) true) c05_ex_plan [] f3_fs in
   let r := run (cfg_set_dry (c05_ex_cfg Stop []) false) c05_ex_plan [] f3_fs in
   r_status d = 1%Z /\ r_status r = 1%Z /\ r_report d = r_report r /\ length (r_report r) = 2%nat) /\
  (let d := run (cfg_set_dry (c05_ex_cfg Override []) true) c05_ex_plan [] f3_fs in
   let r := run (cfg_set_dry (c05_ex_cfg Override []) false) c05_ex_plan [] f3_fs in
   r_status d = 0%Z /\ r_status r = 0%Z /\ r_report d = r_report r /\ length (r_report r) = 3%nat) /\
  (let d := run (cfg_set_dry (c05_ex_cfg Manual [[99]; [90]]) true) c05_ex_plan [] f3_fs in
   let r := run (cfg_set_dry (c05_ex_cfg Manual [[99]; [90]]) false) c05_ex_plan [] f3_fs in
   r_status d = 0%Z /\ r_status r = 0%Z /\ r_report d = r_report r /\ r_prompts d = 2%nat /\ r_prompts r = 2%nat).
Proof.
  split; [apply c05_covered_override_b_sound; vm_compute; reflexivity|].
  vm_compute. repeat split; reflexivity.
Qed.

(* ... and obtained from the theorems rather than by running both *)
Example C05_dry_equals_real_instance :
  let d := run (cfg_set_dry (c05_ex_cfg Stop []) true) c05_ex_plan [] f3_fs in
  let r := run (cfg_set_dry (c05_ex_cfg Stop []) false) c05_ex_plan [] f3_fs in
  r_status d = r_status r /\ r_report d = r_report r /\ r_prompts d = r_prompts r.
Proof.
  destruct (c05_covered_b_sound f3_fs c05_ex_plan eq_refl) as [W [PP NL]].
  apply dry_equals_real_name_mode; try assumption; try reflexivity.
Qed.

Example C05_dry_equals_real_override_instance :
  let c := c05_ex_cfg Manual [[111]; [99]; [90]] in         (* "o", "c", "Z" *)
  let d := run (cfg_set_dry c true) c05_ex_plan [] f3_fs in
  let r := run (cfg_set_dry c false) c05_ex_plan [] f3_fs in
  r_status d = r_status r /\ r_report d = r_report r /\ r_prompts d = r_prompts r.
Proof.
  destruct (c05_covered_override_b_sound f3_fs c05_ex_plan eq_refl) as [W [PP [NL [ND DR]]]].
  apply dry_equals_real_name_mode_override; try assumption; try reflexivity.
  unfold custom_paths_single. cbn [c_strategy c05_ex_cfg c_answers].
  repeat constructor; (eexists; split; [vm_compute; reflexivity | discriminate]).
Qed.

(* the name "..": in/s/a rendered to ".." is a conflict with the directory in/s/.. = in, in both runs *)
Definition c05_dd_fs : fs := [([[105;110]], NDir); ([[105;110]; [115]], NDir); ([[105;110]; [115]; [97]], NFile 1)].
Definition c05_dd_plan : list (pfile * rendered) := mk_plan [([[105;110]], [115;47;97], RText [46;46])].

Example C05_dotdot_name_covered :
  c05_covered_b c05_dd_fs c05_dd_plan = true /\ no_dotdot_names_b c05_dd_plan = false /\
  (let d := run (cfg_set_dry (c05_ex_cfg Stop []) true) c05_dd_plan [] c05_dd_fs in
   let r := run (cfg_set_dry (c05_ex_cfg Stop []) false) c05_dd_plan [] c05_dd_fs in
   r_status d = 1%Z /\ r_status r = 1%Z /\ r_report d = [] /\ r_report r = []).
Proof. vm_compute. repeat split; reflexivity. Qed.

(* The hypotheses are needed: without them the statement is false in the model, and in the implementation   *)
(* (open known findings F30 and F29 of known_findings.json; DryRunRenamer never changes the disk, while     *)
(* Path.resolve() and os.rename() look at the disk).  The theorems above cover the complement:              *)
(* regular-file sources + dest_not_link exclude F30, no_override resp. no_dotdot_names + dest_replaceable   *)
(* exclude F29.                                                                                             *)
(* 1. (F30) in/l is a symbolic link to /out/z, in/a a file; plan l -> m, a -> l.  Real run: l is renamed     *)
(*    away, so "in/l" is free and inside: two renames, status 0.  Dry run: the containment test still        *)
(*    follows the link on the untouched disk to /out/z: InvalidDestinationError, status 1.                   *)
Definition c05_link_fs : fs :=
  [([[105;110]], NDir); ([[105;110]; [108]], NLink 1 {| up_abs := true; up_comps := [[111;117;116]; [122]] |});
   ([[105;110]; [97]], NFile 2); ([[111;117;116]], NDir)].
Definition c05_link_plan : list (pfile * rendered) :=
  mk_plan [([[105;110]], [108], RText [109]); ([[105;110]], [97], RText [108])].

Example C05_symlink_source_refuted :
  let d := run (cfg_set_dry (c05_ex_cfg Stop []) true) c05_link_plan [] c05_link_fs in
  let r := run (cfg_set_dry (c05_ex_cfg Stop []) false) c05_link_plan [] c05_link_fs in
  wf_b c05_link_fs = true /\ plain_plan_b c05_link_fs c05_link_plan = false /\
  r_status d = 1%Z /\ r_status r = 0%Z /\ length (r_report d) = 1%nat /\ length (r_report r) = 2%nat.
Proof. vm_compute. repeat split; reflexivity. Qed.

(* 2. (F29) --conflict override with a destination that is an existing directory (in/a -> "s", in/s a        *)
(*    directory): the dry run reports the rename as an override and ends with 0, os.rename raises            *)
(*    IsADirectoryError: 126.  The same with the name ".." (C05_dotdot_name_covered's plan under override).  *)
Definition c05_ovdir_fs : fs := [([[105;110]], NDir); ([[105;110]; [97]], NFile 1); ([[105;110]; [115]], NDir)].
Definition c05_ovdir_plan : list (pfile * rendered) := mk_plan [([[105;110]], [97], RText [115])].

Example C05_override_onto_directory_refuted :
  let d := run (cfg_set_dry (c05_ex_cfg Override []) true) c05_ovdir_plan [] c05_ovdir_fs in
  let r := run (cfg_set_dry (c05_ex_cfg Override []) false) c05_ovdir_plan [] c05_ovdir_fs in
  c05_covered_b c05_ovdir_fs c05_ovdir_plan = true /\ dest_replaceable_b c05_ovdir_fs c05_ovdir_plan = false /\
  r_status d = 0%Z /\ r_status r = 126%Z /\ length (r_report d) = 1%nat /\ r_report r = [] /\
  (let d2 := run (cfg_set_dry (c05_ex_cfg Override []) true) c05_dd_plan [] c05_dd_fs in
   let r2 := run (cfg_set_dry (c05_ex_cfg Override []) false) c05_dd_plan [] c05_dd_fs in
   r_status d2 = 0%Z /\ r_status r2 = 126%Z).
Proof. vm_compute. repeat split; reflexivity. Qed.

(* ===== added by the D05r proof effort ===== *)


(* ======================================================================================================== *)
(* The last sentence of C05: the final tree of the real run is the dry run's report applied to the initial  *)
(* tree (Pipe/ReportApplied.v).                                                                             *)
(*                                                                                                          *)
(* [apply_line d (src, dst, ovr) s] does not mention the pipeline: both texts are read back as paths        *)
(* ([parse_path] = Path(text)) in the input directory d, naming the keys d ++ parts; the entry at the       *)
(* source key is re-keyed to the destination key ([rekey] of FS/Model.v); with ovr = true an entry already  *)
(* at the destination key is dropped first.  [apply_report d lines s] folds it over the lines, oldest       *)
(* first; [apply_report_in] does the same for lines paired with their input directories.                    *)
(* [report_dirs c plan cwd s] is the enriched part of the report: a twin of [run] with the same control     *)
(* flow that records, for every successful call of the renamer (= every report line), the directory the     *)
(* call was made in; oldest first, like r_report.                                                           *)
(* Hypothesis added to those of C05_dry_equals_real_name_mode:                                              *)
(*  - normal_plan plan: the relative paths of the plan are paths pathlib can produce (no empty part, no     *)
(*    part ".", no "/" inside a part), so that Path(str(p)) = p.  The filesystem model allows any list of   *)
(*    numbers as an entry name; C05_report_applied_needs_normal_names shows the statement is false in the   *)
(*    model for an entry whose NAME contains "/" (no real filesystem has one).                              *)
(* The statements hold for EVERY outcome (exit status 0 or not): the report lists what was done.            *)
From Tempren Require Import Py.PathLibProofs Pipe.ReportApplied.

(* one input directory; stop / ignore / manual without "override" and "custom path" *)
Theorem C05_final_is_report_applied : forall c plan cwd s d,
  c_mode c = MName -> c_fault c = None -> c_var c = fixed -> WF s ->
  plain_plan s plan -> dest_not_link s plan -> no_override c ->
  normal_plan plan -> (forall f r, In (f, r) plan -> pf_dir f = d) ->
  r_final (run (cfg_set_dry c false) plan cwd s) =
    apply_report d (r_report (run (cfg_set_dry c true) plan cwd s)) s.
Proof. exact final_is_report_applied. Qed.
Print Assumptions C05_final_is_report_applied.

(* several input directories: a report line does not say which input directory it belongs to, so every line *)
(* is paired with the directory the dry run recorded for it (report_dirs); the real run records the same    *)
(* directories, there is one per line, and every pair (d, line) belongs to the plan (the plan has a file in *)
(* d whose relative path prints as the line's source text).                                                 *)
Theorem C05_final_is_report_applied_dirs : forall c plan cwd s,
  c_mode c = MName -> c_fault c = None -> c_var c = fixed -> WF s ->
  plain_plan s plan -> dest_not_link s plan -> no_override c -> normal_plan plan ->
  let ds := report_dirs (cfg_set_dry c true) plan cwd s in
  let lines := r_report (run (cfg_set_dry c true) plan cwd s) in
  ds = report_dirs (cfg_set_dry c false) plan cwd s /\
  length ds = length lines /\
  Forall (line_of_plan plan) (combine ds lines) /\
  r_final (run (cfg_set_dry c false) plan cwd s) = apply_report_in (combine ds lines) s.
Proof. exact final_is_report_applied_dirs. Qed.
Print Assumptions C05_final_is_report_applied_dirs.

(* the same without the twin: SOME pairing of the lines with input directories of the plan *)
Theorem C05_final_is_report_applied_dirs_exists : forall c plan cwd s,
  c_mode c = MName -> c_fault c = None -> c_var c = fixed -> WF s ->
  plain_plan s plan -> dest_not_link s plan -> no_override c -> normal_plan plan ->
  exists ds, length ds = length (r_report (run (cfg_set_dry c true) plan cwd s)) /\
             Forall (line_of_plan plan) (combine ds (r_report (run (cfg_set_dry c true) plan cwd s))) /\
             r_final (run (cfg_set_dry c false) plan cwd s) =
               apply_report_in (combine ds (r_report (run (cfg_set_dry c true) plan cwd s))) s.
Proof. exact final_is_report_applied_dirs_exists. Qed.
Print Assumptions C05_final_is_report_applied_dirs_exists.

(* every strategy and every answer (hypotheses of C05_dry_equals_real_name_mode_override) *)
Theorem C05_final_is_report_applied_override : forall c plan cwd s d,
  c_mode c = MName -> c_fault c = None -> c_var c = fixed -> WF s ->
  plain_plan s plan -> dest_not_link s plan -> no_dotdot_names plan ->
  dest_replaceable s plan -> custom_paths_single c ->
  normal_plan plan -> (forall f r, In (f, r) plan -> pf_dir f = d) ->
  r_final (run (cfg_set_dry c false) plan cwd s) =
    apply_report d (r_report (run (cfg_set_dry c true) plan cwd s)) s.
Proof. exact final_is_report_applied_override. Qed.
Print Assumptions C05_final_is_report_applied_override.

Theorem C05_final_is_report_applied_dirs_override : forall c plan cwd s,
  c_mode c = MName -> c_fault c = None -> c_var c = fixed -> WF s ->
  plain_plan s plan -> dest_not_link s plan -> no_dotdot_names plan ->
  dest_replaceable s plan -> custom_paths_single c -> normal_plan plan ->
  let ds := report_dirs (cfg_set_dry c true) plan cwd s in
  let lines := r_report (run (cfg_set_dry c true) plan cwd s) in
  ds = report_dirs (cfg_set_dry c false) plan cwd s /\
  length ds = length lines /\
  Forall (line_of_plan plan) (combine ds lines) /\
  r_final (run (cfg_set_dry c false) plan cwd s) = apply_report_in (combine ds lines) s.
Proof. exact final_is_report_applied_dirs_override. Qed.
Print Assumptions C05_final_is_report_applied_dirs_override.

(* the general form all are instances of (OVR / CUS as in C05_dry_equals_real_name_mode_general) *)
Theorem C05_final_is_report_applied_general : forall (OVR CUS : Prop) c plan cwd s,
  c_mode c = MName -> c_fault c = None -> c_var c = fixed -> WF s ->
  plain_plan s plan -> dest_not_link s plan ->
  (OVR -> no_dotdot_names plan) -> (OVR -> dest_replaceable s plan) -> answers_ok OVR CUS c ->
  normal_plan plan ->
  let ds := report_dirs (cfg_set_dry c true) plan cwd s in
  let lines := r_report (run (cfg_set_dry c true) plan cwd s) in
  ds = report_dirs (cfg_set_dry c false) plan cwd s /\
  length ds = length lines /\
  Forall (line_of_plan plan) (combine ds lines) /\
  r_final (run (cfg_set_dry c false) plan cwd s) = apply_report_in (combine ds lines) s.
Proof. exact final_is_report_applied_general. Qed.
Print Assumptions C05_final_is_report_applied_general.

(* with one input directory the pairing is forced *)
Theorem C05_one_dir_report : forall d plan ds lines s,
  (forall f r, In (f, r) plan -> pf_dir f = d) ->
  length ds = length lines -> Forall (line_of_plan plan) (combine ds lines) ->
  apply_report_in (combine ds lines) s = apply_report d lines s.
Proof. exact one_dir_report. Qed.
Print Assumptions C05_one_dir_report.

(* a report line printed from normal paths is the re-keying of its source key to its destination key *)
Theorem C05_apply_line_is_rekey : forall d src dst ovr s,
  normal_rel src -> normal_rel dst ->
  apply_line d (pp_str src, pp_str dst, ovr) s =
    rekey (d ++ pp_parts src) (d ++ pp_parts dst) (if ovr then remove_key (d ++ pp_parts dst) s else s).
Proof. exact apply_line_rename. Qed.
Print Assumptions C05_apply_line_is_rekey.

(* Non-vacuity, a deferred rename: in/a -> "b" (taken: deferred), in/b -> "c", then in/a -> "b" from the    *)
(* backlog.  The hypotheses hold; the dry run reports b -> c, a -> b; the real run ends with in/b = old a,  *)
(* in/c = old b, and that is the report applied to the initial tree.                                        *)
Definition c05_ra_in : rpath := [[105;110]].
Definition c05_ra_fs : fs := [(c05_ra_in, NDir); (c05_ra_in ++ [[97]], NFile 1); (c05_ra_in ++ [[98]], NFile 2)].
Definition c05_ra_plan : list (pfile * rendered) :=
  mk_plan [(c05_ra_in, [97], RText [98]); (c05_ra_in, [98], RText [99])].

Example C05_final_is_report_applied_nonvacuous :
  (c05_covered_b c05_ra_fs c05_ra_plan = true /\ normal_plan_b c05_ra_plan = true /\
   forallb (fun fr => rpath_eqb (pf_dir (fst fr)) c05_ra_in) c05_ra_plan = true) /\
  (let d := run (cfg_set_dry (c05_ex_cfg Stop []) true) c05_ra_plan [] c05_ra_fs in
   let r := run (cfg_set_dry (c05_ex_cfg Stop []) false) c05_ra_plan [] c05_ra_fs in
   r_status r = 0%Z /\
   r_report d = [([98], [99], false); ([97], [98], false)] /\
   r_final d = c05_ra_fs /\
   r_final r = [(c05_ra_in, NDir); (c05_ra_in ++ [[98]], NFile 1); (c05_ra_in ++ [[99]], NFile 2)] /\
   apply_report c05_ra_in (r_report d) c05_ra_fs =
     [(c05_ra_in, NDir); (c05_ra_in ++ [[98]], NFile 1); (c05_ra_in ++ [[99]], NFile 2)]).
Proof. vm_compute. repeat split; reflexivity. Qed.

(* ... and obtained from the theorem *)
Example C05_final_is_report_applied_instance :
  r_final (run (cfg_set_dry (c05_ex_cfg Stop []) false) c05_ra_plan [] c05_ra_fs) =
    apply_report c05_ra_in (r_report (run (cfg_set_dry (c05_ex_cfg Stop []) true) c05_ra_plan [] c05_ra_fs)) c05_ra_fs.
Proof.
  destruct (c05_covered_b_sound c05_ra_fs c05_ra_plan eq_refl) as [W [PP NL]].
  assert (NP : normal_plan c05_ra_plan) by (apply normal_plan_b_sound; reflexivity).
  assert (One : forall f r, In (f, r) c05_ra_plan -> pf_dir f = c05_ra_in)
    by (intros f r [E|[E|[]]]; inversion E; reflexivity).
  exact (final_is_report_applied (c05_ex_cfg Stop []) c05_ra_plan [] c05_ra_fs c05_ra_in
           eq_refl eq_refl eq_refl W PP NL I NP One).
Qed.

(* A run that fails (status 1) half-way: in/x -> X, in/y -> X (deferred), in2/x -> X, then the deferred one *)
(* conflicts and --conflict stop ends the run.  Two input directories: the two report lines read "x -> X"   *)
(* both, the first belongs to in, the second to in2; with that pairing the report applied to the initial    *)
(* tree is the final tree, with the one-directory reading it is not.  Under override the run succeeds and   *)
(* the third line (in/y -> X, override) drops the entry in/X first.                                         *)
Example C05_final_is_report_applied_two_dirs :
  (let d := run (cfg_set_dry (c05_ex_cfg Stop []) true) c05_ex_plan [] f3_fs in
   let r := run (cfg_set_dry (c05_ex_cfg Stop []) false) c05_ex_plan [] f3_fs in
   r_status r = 1%Z /\ r_report d = [([120], [88], false); ([120], [88], false)] /\
   fs_eqb (r_final r) f3_fs = false /\
   report_dirs (cfg_set_dry (c05_ex_cfg Stop []) true) c05_ex_plan [] f3_fs = [[[105;110]]; [[105;110;50]]] /\
   r_final r = apply_report_in (combine [[[105;110]]; [[105;110;50]]] (r_report d)) f3_fs /\
   r_final r <> apply_report [[105;110]] (r_report d) f3_fs) /\
  (normal_plan_b c05_ex_plan = true /\
   let d := run (cfg_set_dry (c05_ex_cfg Override []) true) c05_ex_plan [] f3_fs in
   let r := run (cfg_set_dry (c05_ex_cfg Override []) false) c05_ex_plan [] f3_fs in
   r_status r = 0%Z /\ r_report d = [([120], [88], false); ([120], [88], false); ([121], [88], true)] /\
   report_dirs (cfg_set_dry (c05_ex_cfg Override []) true) c05_ex_plan [] f3_fs = [[[105;110]]; [[105;110;50]]; [[105;110]]] /\
   r_final r = apply_report_in (combine [[[105;110]]; [[105;110;50]]; [[105;110]]] (r_report d)) f3_fs /\
   length (r_final r) = 5%nat /\ length f3_fs = 6%nat).
Proof. vm_compute. repeat split; try reflexivity; discriminate. Qed.

(* normal_plan is needed: an entry of in whose NAME is "a/b" (one component; impossible on a real             *)
(* filesystem, possible in the model) is renamed to "c"; the report line reads "a/b -> c", and read back as *)
(* a path "a/b" names the key in/a/b, which does not exist: the report applied leaves the tree unchanged.   *)
Definition c05_slash_fs : fs := [(c05_ra_in, NDir); (c05_ra_in ++ [[97;47;98]], NFile 1)].
Definition c05_slash_plan : list (pfile * rendered) :=
  [({| pf_dir := c05_ra_in; pf_rel := {| pp_root := 0%nat; pp_parts := [[97;47;98]] |} |}, RText [99])].

Example C05_report_applied_needs_normal_names :
  let d := run (cfg_set_dry (c05_ex_cfg Stop []) true) c05_slash_plan [] c05_slash_fs in
  let r := run (cfg_set_dry (c05_ex_cfg Stop []) false) c05_slash_plan [] c05_slash_fs in
  c05_covered_b c05_slash_fs c05_slash_plan = true /\ normal_plan_b c05_slash_plan = false /\
  r_status r = 0%Z /\ r_report d = [([97;47;98], [99], false)] /\
  r_final r = [(c05_ra_in, NDir); (c05_ra_in ++ [[99]], NFile 1)] /\
  apply_report c05_ra_in (r_report d) c05_slash_fs = c05_slash_fs.
Proof. vm_compute. repeat split; reflexivity. Qed.

(* the several-directories theorem applied to the two-directory plan above *)
Example C05_final_is_report_applied_dirs_instance :
  let c := c05_ex_cfg Stop [] in
  let ds := report_dirs (cfg_set_dry c true) c05_ex_plan [] f3_fs in
  let lines := r_report (run (cfg_set_dry c true) c05_ex_plan [] f3_fs) in
  ds = report_dirs (cfg_set_dry c false) c05_ex_plan [] f3_fs /\
  length ds = length lines /\
  Forall (line_of_plan c05_ex_plan) (combine ds lines) /\
  r_final (run (cfg_set_dry c false) c05_ex_plan [] f3_fs) = apply_report_in (combine ds lines) f3_fs.
Proof.
  destruct (c05_covered_b_sound f3_fs c05_ex_plan eq_refl) as [W [PP NL]].
  assert (NP : normal_plan c05_ex_plan) by (apply normal_plan_b_sound; reflexivity).
  exact (final_is_report_applied_dirs (c05_ex_cfg Stop []) c05_ex_plan [] f3_fs eq_refl eq_refl eq_refl W PP NL I NP).
Qed.

(* ===== added by the D05p proof effort ===== *)

(* ====================== PATH mode (FileMover: mkdir -p of the destination's parent, then shutil.move) ============== *)
(* Proofs: Pipe/DryEqualsRealPath.v; checkers and scenarios: Pipe/DryEqualsRealPathCheck.v.                          *)
From Tempren Require Import Pipe.PlanExactPath Pipe.DryEqualsRealPath Pipe.DryEqualsRealPathCheck.

(* The property's restriction for path mode, "no destination lies on or beneath an existing entry of the wrong kind", *)
(* as the predicate [path_dests_ok s plan] on the initial tree and the plan; spelled out:                            *)
(*  - every rendered destination is a relative path without ".." (a template that raises is allowed, an absolute      *)
(*    result is not), short enough for the model's path walk;                                                         *)
(*  - every proper ancestor of input directory / destination is a directory of the tree or missing (so no symbolic    *)
(*    link and no regular file on the way: in particular no destination lies beneath a source of the plan);          *)
(*  - the destination itself is missing or a regular file (not an existing directory, not a symbolic link);          *)
(*  - no destination is a proper ancestor of another destination.                                                     *)
Theorem C05_path_dests_ok_spelled_out : forall s plan,
  path_dests_ok s plan <->
  (forall f r, In (f, r) plan ->
     match r with
     | RText t =>
         let np := parse_path t in
         let T := pf_dir f ++ pp_parts np in
         pp_root np = 0%nat /\ ~ In dotdot (pp_parts np) /\
         (length (pf_dir f) + length (pp_parts np) < walk_fuel)%nat /\
         (forall pre post, T = pre ++ post -> post <> [] -> lookup s pre = Some NDir \/ lookup s pre = None) /\
         (forall n, lookup s T = Some n -> exists i, n = NFile i)
     | RAbs _ => False
     | RRaise _ => True
     end) /\
  (forall f t f' t', In (f, RText t) plan -> In (f', RText t') plan ->
     ~ exists r, r <> [] /\ pf_dir f' ++ pp_parts (parse_path t') = (pf_dir f ++ pp_parts (parse_path t)) ++ r).
Proof. exact path_dests_ok_spelled_out. Qed.
Print Assumptions C05_path_dests_ok_spelled_out.

(* The full statement for path mode: stop / ignore / manual without "override" and "custom path". *)
Theorem C05_dry_equals_real_path_mode : forall c plan cwd s,
  c_mode c = MPath -> c_fault c = None -> c_var c = fixed -> WF s ->
  plain_plan s plan -> path_dests_ok s plan -> no_override c ->
  let d := run (cfg_set_dry c true) plan cwd s in
  let r := run (cfg_set_dry c false) plan cwd s in
  r_status d = r_status r /\ r_report d = r_report r /\ r_prompts d = r_prompts r /\ r_error d = r_error r.
Proof. exact dry_equals_real_path_mode. Qed.
Print Assumptions C05_dry_equals_real_path_mode.

(* Every strategy, --conflict override and "override" at the manual prompt included; only "custom path" is never      *)
(* answered (a typed path is not restricted by the hypotheses on the plan: C05_path_custom_path_refuted).             *)
Theorem C05_dry_equals_real_path_mode_override : forall c plan cwd s,
  c_mode c = MPath -> c_fault c = None -> c_var c = fixed -> WF s ->
  plain_plan s plan -> path_dests_ok s plan -> no_custom_path c ->
  let d := run (cfg_set_dry c true) plan cwd s in
  let r := run (cfg_set_dry c false) plan cwd s in
  r_status d = r_status r /\ r_report d = r_report r /\ r_prompts d = r_prompts r /\ r_error d = r_error r.
Proof. exact dry_equals_real_path_mode_override. Qed.
Print Assumptions C05_dry_equals_real_path_mode_override.

(* The hypotheses about tree and plan are decidable: [c05_path_covered_b] is a sound checker for them. *)
Theorem C05_path_covered_b_sound : forall s plan,
  c05_path_covered_b s plan = true -> WF s /\ plain_plan s plan /\ path_dests_ok s plan.
Proof. exact c05_path_covered_b_sound. Qed.
Print Assumptions C05_path_covered_b_sound.

(* What the proof rests on (1): on a path all of whose ancestors are directories or missing, mkdir -p succeeds and     *)
(* leaves the path a directory.                                                                                        *)
Theorem C05_mkdir_p_succeeds : forall d fuel w p,
  pp_root p = 0%nat -> ~ In dotdot (pp_parts p) -> (length (pp_parts p) <= fuel)%nat ->
  (length d + length (pp_parts p) < walk_fuel)%nat ->
  WF (w_fs w) -> lookup (w_fs w) d = Some NDir -> dmi (w_fs w) (d ++ pp_parts p) ->
  exists w', mkdir_p fuel None w d p = (w', None) /\ lookup (w_fs w') (d ++ pp_parts p) = Some NDir.
Proof. exact mkdir_p_success. Qed.
Print Assumptions C05_mkdir_p_succeeds.

(* (2): the simulation relation (the real disk may hold extra directories at keys that are proper ancestors of        *)
(* destinations) is preserved by one call of the renamer, and both calls end alike.                                    *)
Theorem C05_path_sim_renamer : forall s0 plan st answers OVR, WF s0 -> path_dests_ok s0 plan ->
  forall wd wr d src dst wd' ed wr' er,
  SimP s0 plan st OVR wd wr -> step_ok s0 plan d src dst ->
  renamer (pD st answers) wd d src dst false = (wd', ed) -> renamer (pR st answers) wr d src dst false = (wr', er) ->
  ed = er /\ SimP s0 plan st OVR wd' wr'.
Proof. exact simp_renamer. Qed.
Print Assumptions C05_path_sim_renamer.

(* Non-vacuity: in/c -> "x" (in/x exists: a conflict that stays), in/a -> "b" (in/b exists: deferred),                *)
(* in/b -> "new/deep/b" (creates in/new and in/new/deep; the dry run performs no call at all).  In the second pass    *)
(* in/a -> b succeeds and in/c -> x is the conflict: status 1 under stop, 0 under ignore, in both runs, with the      *)
(* same two reported renames; under override both report the third rename as an override.  The hypotheses hold        *)
(* (sound checker), so the theorems apply.                                                                             *)
Example C05_path_mode_nonvacuous :
  c05_path_covered_b p5_fs p5_plan = true /\
  (let d := run (cfg_set_dry (p5_cfg Stop []) true) p5_plan [] p5_fs in
   let r := run (cfg_set_dry (p5_cfg Stop []) false) p5_plan [] p5_fs in
   r_status d = 1%Z /\ r_status r = 1%Z /\ r_report d = p5_report /\ r_report r = p5_report /\
   r_error d = Some ExDestExists /\ r_error r = Some ExDestExists /\
   r_calls d = [] /\
   r_calls r = [(CMkdir, CErr); (CMkdir, COk); (CMkdir, COk); (CMove, COk); (CMkdir, CErr); (CMove, COk)] /\
   lookup (r_final r) [p5_in; [110;101;119]; [100;101;101;112]; [98]] = Some (NFile 2) /\
   lookup (r_final r) [p5_in; [98]] = Some (NFile 1) /\ r_final d = p5_fs) /\
  (let d := run (cfg_set_dry (p5_cfg Ignore []) true) p5_plan [] p5_fs in
   let r := run (cfg_set_dry (p5_cfg Ignore []) false) p5_plan [] p5_fs in
   r_status d = 0%Z /\ r_status r = 0%Z /\ r_report d = p5_report /\ r_report r = p5_report) /\
  (let d := run (cfg_set_dry (p5_cfg Override []) true) p5_plan [] p5_fs in
   let r := run (cfg_set_dry (p5_cfg Override []) false) p5_plan [] p5_fs in
   r_status d = 0%Z /\ r_status r = 0%Z /\ r_report d = p5_report_ov /\ r_report r = p5_report_ov /\
   lookup (r_final r) [p5_in; [120]] = Some (NFile 3)).
Proof. vm_compute. repeat split; reflexivity. Qed.

(* ... and obtained from the theorems rather than by running both *)
Example C05_path_mode_instance :
  let c := p5_cfg Manual [[122]; [115]] in                           (* "z" (asked again), "s" = stop *)
  let d := run (cfg_set_dry c true) p5_plan [] p5_fs in
  let r := run (cfg_set_dry c false) p5_plan [] p5_fs in
  r_status d = r_status r /\ r_report d = r_report r /\ r_prompts d = r_prompts r /\ r_error d = r_error r.
Proof.
  destruct (c05_path_covered_b_sound p5_fs p5_plan eq_refl) as [W [PP DO]].
  apply C05_dry_equals_real_path_mode; try assumption; try reflexivity.
  unfold no_override. cbn [c_strategy p5_cfg c_answers]. repeat constructor; vm_compute; discriminate.
Qed.

Example C05_path_mode_override_instance :
  let c := p5_cfg Manual [[122]; [111]] in                           (* "z" (asked again), "o" = override *)
  let d := run (cfg_set_dry c true) p5_plan [] p5_fs in
  let r := run (cfg_set_dry c false) p5_plan [] p5_fs in
  r_status d = r_status r /\ r_report d = r_report r /\ r_prompts d = r_prompts r /\ r_error d = r_error r.
Proof.
  destruct (c05_path_covered_b_sound p5_fs p5_plan eq_refl) as [W [PP DO]].
  apply C05_dry_equals_real_path_mode_override; try assumption; try reflexivity.
  unfold no_custom_path. cbn [c_strategy p5_cfg c_answers]. repeat constructor; vm_compute; discriminate.
Qed.

(* The restrictions are needed: dropping one makes the statement false in the model (DryRunRenamer never creates a     *)
(* directory and never looks at the kind of an entry; mkdir -p and shutil.move do).                                    *)
(* 1. a destination beneath an existing regular file (in/a a file, in/b -> "a/b"): dry 0 with one rename reported;     *)
(*    mkdir -p of in/a raises FileExistsError, the rename is deferred and ends as a conflict: 1.                       *)
Example C05_path_beneath_a_file_refuted :
  let d := run (cfg_set_dry (p5_cfg Stop []) true) p5_file_plan [] p5_file_fs in
  let r := run (cfg_set_dry (p5_cfg Stop []) false) p5_file_plan [] p5_file_fs in
  wf_b p5_file_fs = true /\ plain_plan_b p5_file_fs p5_file_plan = true /\ path_dests_ok_b p5_file_fs p5_file_plan = false /\
  r_status d = 0%Z /\ r_status r = 1%Z /\ length (r_report d) = 1%nat /\ r_report r = [].
Proof. vm_compute. repeat split; reflexivity. Qed.

(* 2. a destination that is an ancestor of another one (in/a -> "n", in/b -> "n/b"; each entry alone is fine).        *)
Example C05_path_destination_above_destination_refuted :
  let d := run (cfg_set_dry (p5_cfg Stop []) true) p5_anc_plan [] p5_file_fs in
  let r := run (cfg_set_dry (p5_cfg Stop []) false) p5_anc_plan [] p5_file_fs in
  wf_b p5_file_fs = true /\ plain_plan_b p5_file_fs p5_anc_plan = true /\
  forallb (path_entry_ok_b p5_file_fs) p5_anc_plan = true /\ path_dests_ok_b p5_file_fs p5_anc_plan = false /\
  r_status d = 0%Z /\ r_status r = 1%Z /\ length (r_report d) = 2%nat /\ length (r_report r) = 1%nat.
Proof. vm_compute. repeat split; reflexivity. Qed.

(* 3. a symbolic link among the ancestors (in/l -> sub; in/a -> "l/x", in/b -> "sub/x": one entry on disk, two names   *)
(*    in the dry run's bookkeeping).                                                                                   *)
Example C05_path_link_ancestor_refuted :
  let d := run (cfg_set_dry (p5_cfg Stop []) true) p5_link_plan [] p5_link_fs in
  let r := run (cfg_set_dry (p5_cfg Stop []) false) p5_link_plan [] p5_link_fs in
  wf_b p5_link_fs = true /\ plain_plan_b p5_link_fs p5_link_plan = true /\ path_dests_ok_b p5_link_fs p5_link_plan = false /\
  r_status d = 0%Z /\ r_status r = 1%Z /\ length (r_report d) = 2%nat /\ length (r_report r) = 1%nat.
Proof. vm_compute. repeat split; reflexivity. Qed.

(* 4. a custom path typed at the prompt ("c", then "x/y" with in/x a regular file) on a covered plan.                  *)
Example C05_path_custom_path_refuted :
  let c := p5_cfg Manual [[99]; [120;47;121]] in
  let d := run (cfg_set_dry c true) p5_plan [] p5_fs in
  let r := run (cfg_set_dry c false) p5_plan [] p5_fs in
  c05_path_covered_b p5_fs p5_plan = true /\
  r_status d = 0%Z /\ r_status r = 126%Z /\ length (r_report d) = 3%nat /\ length (r_report r) = 2%nat.
Proof. vm_compute. repeat split; reflexivity. Qed.

(* 5. --conflict override onto an existing directory (in/a -> "sub", in/sub/a exists): shutil.move moves INTO the      *)
(*    directory (shutil.Error: 126), the dry run reports an override (0).                                              *)
Example C05_path_override_onto_directory_refuted :
  let d := run (cfg_set_dry (p5_cfg Override []) true) p5_ovdir_plan [] p5_ovdir_fs in
  let r := run (cfg_set_dry (p5_cfg Override []) false) p5_ovdir_plan [] p5_ovdir_fs in
  wf_b p5_ovdir_fs = true /\ plain_plan_b p5_ovdir_fs p5_ovdir_plan = true /\ path_dests_ok_b p5_ovdir_fs p5_ovdir_plan = false /\
  r_status d = 0%Z /\ r_status r = 126%Z /\ length (r_report d) = 1%nat /\ r_report r = [].
Proof. vm_compute. repeat split; reflexivity. Qed.

(* ===== added by the D05d proof effort ===== *)


(* ======================================================================================================== *)
(* The full statement, directory mode (Pipe/DryEqualsRealDir.v).                                            *)
(*                                                                                                          *)
(* The sources are directories; os.rename moves the directory and everything below it, DryRunRenamer only   *)
(* records the two names.  Hypotheses (definitions of Pipe/DryEqualsRealDir.v, sound boolean checkers       *)
(* there):                                                                                                  *)
(*  - plain_dir_plan s plan: [plain_plan] with "dir ++ parts is a DIRECTORY of s" for "is a regular file":  *)
(*    chdir s dir = Some dir, no ".." in dir or in the relative path, pp_root = 0, non-empty parts, every   *)
(*    proper prefix below dir is a directory entry of s, length dir + length parts < walk_fuel.             *)
(*  - non_nested plan: no selected directory lies strictly below another selected directory                 *)
(*    (dir_key f = pf_dir f ++ pp_parts (pf_rel f); proper_prefix of FS/Lemmas.v); the same directory may   *)
(*    be designated more than once.  This is the static form of the restriction in the property (no          *)
(*    conflicting directory lies beneath a directory that is itself renamed); without it the statement is   *)
(*    false                                                                                                 *)
(*    (C05_directory_mode_nested_refuted: the open finding F25).  Weakened to the restriction of the       *)
(*    property itself in C05_dry_equals_real_directory_mode_nested below.                                   *)
(*  - dest_not_link s plan, no_override c: as in name mode.                                                 *)
(* Rendered values are arbitrary (RText / RAbs / RRaise; the name ".." included), the order of the plan,    *)
(* collisions, chains and deferrals are arbitrary.                                                          *)
From Tempren Require Import Pipe.DryEqualsRealDir.

Theorem C05_dry_equals_real_directory_mode : forall c plan cwd s,
  c_mode c = MDirectory -> c_fault c = None -> c_var c = fixed -> WF s ->
  plain_dir_plan s plan -> non_nested plan -> dest_not_link s plan -> no_override c ->
  let d := run (cfg_set_dry c true) plan cwd s in
  let r := run (cfg_set_dry c false) plan cwd s in
  r_status d = r_status r /\ r_report d = r_report r /\ r_prompts d = r_prompts r /\ r_error d = r_error r.
Proof. exact dry_equals_real_directory_mode. Qed.
Print Assumptions C05_dry_equals_real_directory_mode.

(* The relation the proof maintains between the dry and the real world (SimD): every proper prefix of a     *)
(* source key (an "anchor") stays a directory of the real disk and is never recorded as removed; for every  *)
(* name anchor/x, virtual existence = existence on the real disk.  One renamer call preserves it.           *)
Theorem C05_simd_renamer : forall s0 st answers (anc : rpath -> Prop), WF s0 ->
  forall wd wr d src dst wd' ed wr' er,
  SimD s0 st anc wd wr -> ready_src s0 anc d src -> plain_rel s0 d dst ->
  removelast (pp_parts dst) = removelast (pp_parts src) ->
  renamer (dD st answers) wd d src dst false = (wd', ed) -> renamer (dR st answers) wr d src dst false = (wr', er) ->
  ed = er /\ SimD s0 st anc wd' wr'.
Proof. exact simd_renamer. Qed.
Print Assumptions C05_simd_renamer.

(* Non-vacuity: two sibling directories with contents (in/d1/f, in/d2/g) and the chain d1 -> d2, d2 -> d3:   *)
(* the first rename is a conflict and is deferred, the second succeeds, the deferred one then succeeds.      *)
(* The hypotheses hold (sound checker); both runs end with status 0 and report the same two renames.         *)
Definition c05_dir_fs : fs :=
  [([[105;110]], NDir); ([[105;110]; [100;49]], NDir); ([[105;110]; [100;49]; [102]], NFile 1);
   ([[105;110]; [100;50]], NDir); ([[105;110]; [100;50]; [103]], NFile 2); ([[111;117;116]], NDir)].
Definition c05_dir_plan : list (pfile * rendered) :=
  mk_plan [([[105;110]], [100;49], RText [100;50]); ([[105;110]], [100;50], RText [100;51])].
Definition c05_dir_cfg (st : strategy) (ans : list str) : cfg :=
  {| c_mode := MDirectory; c_strategy := st; c_dry := false; c_answers := ans; c_fault := None; c_var := fixed |}.

Example C05_dry_equals_real_directory_mode_nonvacuous :
  (WF c05_dir_fs /\ plain_dir_plan c05_dir_fs c05_dir_plan /\ non_nested c05_dir_plan /\
   dest_not_link c05_dir_fs c05_dir_plan) /\
  (let d := run (cfg_set_dry (c05_dir_cfg Stop []) true) c05_dir_plan [] c05_dir_fs in
   let r := run (cfg_set_dry (c05_dir_cfg Stop []) false) c05_dir_plan [] c05_dir_fs in
   r_status d = 0%Z /\ r_status r = 0%Z /\ r_report d = r_report r /\ length (r_report r) = 2%nat /\
   lookup (r_final r) [[105;110]; [100;50]; [102]] = Some (NFile 1) /\        (* in/d2/f: the contents moved along *)
   lookup (r_final r) [[105;110]; [100;51]; [103]] = Some (NFile 2) /\        (* in/d3/g *)
   r_final d = c05_dir_fs).
Proof.
  split; [apply c05_dir_covered_b_sound; vm_compute; reflexivity|].
  vm_compute. repeat split; reflexivity.
Qed.

(* ... and obtained from the theorem rather than by running both; also at the manual prompt ("x" is invalid,   *)
(* "i" ignores) *)
Example C05_dry_equals_real_directory_mode_instance :
  let c := c05_dir_cfg Manual [[120]; [105]] in
  let d := run (cfg_set_dry c true) c05_dir_plan [] c05_dir_fs in
  let r := run (cfg_set_dry c false) c05_dir_plan [] c05_dir_fs in
  r_status d = r_status r /\ r_report d = r_report r /\ r_prompts d = r_prompts r /\ r_error d = r_error r.
Proof.
  destruct (c05_dir_covered_b_sound c05_dir_fs c05_dir_plan eq_refl) as [W [PP [NN NL]]].
  apply dry_equals_real_directory_mode; try assumption; try reflexivity.
  unfold no_override. cbn [c_strategy c05_dir_cfg c_answers].
  repeat constructor; discriminate.
Qed.

(* The non-nesting hypothesis is needed (open finding F25, the plan of C02_directory_mode_refuted):           *)
(* in/a/c -> k is a conflict (in/a/k exists) and is deferred, in/a -> z and in/b -> a succeed; when the        *)
(* deferred rename is retried the real disk has the OTHER in/a (the old in/b, with a child c and no k): the    *)
(* real run renames it, three renames, status 0; the dry run still sees in/a/k on the untouched disk: a        *)
(* conflict, status 1, two renames.  Every other hypothesis of the theorem holds.                              *)
(* The second plan (a/c -> k deferred, then a -> z) differs the other way round: the real run cannot find      *)
(* in/a/c any more (FileNotFoundError, 126), the dry run reports the conflict (1).                             *)
Definition c05_nested_plan2 : list (pfile * rendered) :=
  mk_plan [([[105;110]], [97;47;99], RText [107]); ([[105;110]], [97], RText [122])].

Example C05_directory_mode_nested_refuted :
  let d := run (f25_cfg fixed true) f25_plan [] f25_fs in
  let r := run (f25_cfg fixed false) f25_plan [] f25_fs in
  wf_b f25_fs = true /\ plain_dir_plan_b f25_fs f25_plan = true /\ dest_not_link_b f25_fs f25_plan = true /\
  non_nested_b f25_plan = false /\
  r_status d = 1%Z /\ r_status r = 0%Z /\ length (r_report d) = 2%nat /\ length (r_report r) = 3%nat /\
  (let d2 := run (f25_cfg fixed true) c05_nested_plan2 [] f25_fs in
   let r2 := run (f25_cfg fixed false) c05_nested_plan2 [] f25_fs in
   plain_dir_plan_b f25_fs c05_nested_plan2 = true /\ dest_not_link_b f25_fs c05_nested_plan2 = true /\
   non_nested_b c05_nested_plan2 = false /\
   r_status d2 = 1%Z /\ r_status r2 = 126%Z /\ r_report d2 = r_report r2).
Proof. vm_compute. repeat split; reflexivity. Qed.

(* ---------- directory mode, nested selections (Pipe/DryEqualsRealDirNested.v) ------------------------------ *)
(* The restriction of the property itself: a selected directory may lie below another selected directory    *)
(* as long as it cannot conflict.  [children_first s plan], for every position  plan = pre ++ (f, r) :: post: *)
(*  (i)  no entry of post lies strictly below f (children are processed before their parents), and          *)
(*  (ii) if some selected directory lies strictly above f (has_parent plan f) and r = RText t, then t is not  *)
(*       "..", dest_of f t is free on the initial tree and no entry of pre has the same destination: f is     *)
(*       renamed at once or fails, it is never deferred.                                                      *)
(* [non_nested] is the special case without any parent (C05_non_nested_is_children_first).  Both halves are   *)
(* needed: C05_directory_mode_nested_refuted above violates (ii) only, C05_directory_mode_parent_first_refuted *)
(* below violates (i) only.                                                                                    *)
From Tempren Require Import Pipe.DryEqualsRealDirNested.

Theorem C05_dry_equals_real_directory_mode_nested : forall c plan cwd s,
  c_mode c = MDirectory -> c_fault c = None -> c_var c = fixed -> WF s ->
  plain_dir_plan s plan -> children_first s plan -> dest_not_link s plan -> no_override c ->
  let d := run (cfg_set_dry c true) plan cwd s in
  let r := run (cfg_set_dry c false) plan cwd s in
  r_status d = r_status r /\ r_report d = r_report r /\ r_prompts d = r_prompts r /\ r_error d = r_error r.
Proof. exact dry_equals_real_directory_mode_nested. Qed.
Print Assumptions C05_dry_equals_real_directory_mode_nested.

(* The same restriction read off the dry run instead of the tree (weaker: children_first implies it,             *)
(* C05_children_first_deferred_top): children before parents ([parents_last], part (i)), and nothing that the DRY       *)
(* run's first pass defers lies beneath a selected directory ([deferred_top]: dry_deferred c plan cwd s is the      *)
(* backlog first_pass returns for cfg_set_dry c true; bkey its source key; top_in plan k: no dir_key of the plan    *)
(* is a proper prefix of k).  So whether the prediction can be trusted is itself visible in the dry run.            *)
Theorem C05_dry_equals_real_directory_mode_deferred : forall c plan cwd s,
  c_mode c = MDirectory -> c_fault c = None -> c_var c = fixed -> WF s ->
  plain_dir_plan s plan -> parents_last plan -> deferred_top c plan cwd s ->
  dest_not_link s plan -> no_override c ->
  let d := run (cfg_set_dry c true) plan cwd s in
  let r := run (cfg_set_dry c false) plan cwd s in
  r_status d = r_status r /\ r_report d = r_report r /\ r_prompts d = r_prompts r /\ r_error d = r_error r.
Proof. exact dry_equals_real_directory_mode_deferred. Qed.
Print Assumptions C05_dry_equals_real_directory_mode_deferred.

Theorem C05_children_first_deferred_top : forall c plan cwd s,
  c_mode c = MDirectory -> c_fault c = None -> c_var c = fixed -> WF s ->
  plain_dir_plan s plan -> children_first s plan -> dest_not_link s plan -> no_override c ->
  parents_last plan /\ deferred_top c plan cwd s.
Proof. exact children_first_deferred_top. Qed.
Print Assumptions C05_children_first_deferred_top.

Theorem C05_non_nested_is_children_first : forall s plan, non_nested plan -> children_first s plan.
Proof. exact non_nested_children_first. Qed.
Print Assumptions C05_non_nested_is_children_first.

(* Non-vacuity, nested: the tree of F25 (in/a/c, in/a/k, in/b/c) with the child first and a free new name:     *)
(* in/a/c -> q at once, in/a -> b is a conflict and deferred (a top entry), in/b -> z, then in/a -> b.          *)
(* The selection is nested (non_nested_b = false), the hypotheses of the nested theorem hold; status 0 and the  *)
(* same three renames in both runs; the child has moved along with its parent (in/b/q).                          *)
Definition c05_nested_ok_plan : list (pfile * rendered) :=
  mk_plan [([[105;110]], [97;47;99], RText [113]); ([[105;110]], [97], RText [98]); ([[105;110]], [98], RText [122])].

Example C05_dry_equals_real_directory_mode_nested_nonvacuous :
  (WF f25_fs /\ plain_dir_plan f25_fs c05_nested_ok_plan /\ children_first f25_fs c05_nested_ok_plan /\
   dest_not_link f25_fs c05_nested_ok_plan) /\
  non_nested_b c05_nested_ok_plan = false /\
  (let d := run (f25_cfg fixed true) c05_nested_ok_plan [] f25_fs in
   let r := run (f25_cfg fixed false) c05_nested_ok_plan [] f25_fs in
   r_status d = 0%Z /\ r_status r = 0%Z /\ r_report d = r_report r /\ length (r_report r) = 3%nat /\
   lookup (r_final r) [[105;110]; [98]; [113]] = Some NDir /\ lookup (r_final r) [[105;110]; [122]; [99]] = Some NDir).
Proof.
  split; [apply c05_dir_nested_covered_b_sound; vm_compute; reflexivity|].
  vm_compute. repeat split; reflexivity.
Qed.

Example C05_dry_equals_real_directory_mode_nested_instance :
  let d := run (cfg_set_dry (f25_cfg fixed false) true) c05_nested_ok_plan [] f25_fs in
  let r := run (cfg_set_dry (f25_cfg fixed false) false) c05_nested_ok_plan [] f25_fs in
  r_status d = r_status r /\ r_report d = r_report r /\ r_prompts d = r_prompts r /\ r_error d = r_error r.
Proof.
  destruct (c05_dir_nested_covered_b_sound f25_fs c05_nested_ok_plan eq_refl) as [W [PP [CF NL]]].
  apply dry_equals_real_directory_mode_nested; try assumption; try reflexivity.
Qed.

(* (i) is needed: the parent first (in/a -> z, then in/a/c -> q).  The real run cannot find in/a/c any more     *)
(* (FileNotFoundError, 126, one rename), the dry run still sees it on the untouched disk (0, two renames).      *)
(* The F25 plan satisfies (i) and violates (ii).                                                                 *)
Definition c05_parent_first_plan : list (pfile * rendered) :=
  mk_plan [([[105;110]], [97], RText [122]); ([[105;110]], [97;47;99], RText [113])].

Example C05_directory_mode_parent_first_refuted :
  let d := run (f25_cfg fixed true) c05_parent_first_plan [] f25_fs in
  let r := run (f25_cfg fixed false) c05_parent_first_plan [] f25_fs in
  plain_dir_plan_b f25_fs c05_parent_first_plan = true /\ dest_not_link_b f25_fs c05_parent_first_plan = true /\
  children_first_b f25_fs c05_parent_first_plan = false /\
  r_status d = 0%Z /\ r_status r = 126%Z /\ length (r_report d) = 2%nat /\ length (r_report r) = 1%nat /\
  children_first_b f25_fs f25_plan = false /\ children_first_b f25_fs c05_nested_plan2 = false.
Proof. vm_compute. repeat split; reflexivity. Qed.

(* The dry-run form covers more: in/a/m -> n, in/a/c -> m, in/a -> z on a tree with in/a/c, in/a/m.  The child's    *)
(* new name m is taken on the initial tree (children_first fails) but free by the time it is needed: nothing is      *)
(* deferred, both runs rename three directories and end with 0.                                                      *)
Definition c05_chain_fs : fs :=
  [([[105;110]], NDir); ([[105;110]; [97]], NDir); ([[105;110]; [97]; [99]], NDir); ([[105;110]; [97]; [109]], NDir);
   ([[111;117;116]], NDir)].
Definition c05_chain_plan : list (pfile * rendered) :=
  mk_plan [([[105;110]], [97;47;109], RText [110]); ([[105;110]], [97;47;99], RText [109]); ([[105;110]], [97], RText [122])].

Example C05_dry_equals_real_directory_mode_deferred_nonvacuous :
  let c := c05_dir_cfg Stop [] in
  (WF c05_chain_fs /\ plain_dir_plan c05_chain_fs c05_chain_plan /\ parents_last c05_chain_plan /\
   deferred_top c c05_chain_plan [] c05_chain_fs /\ dest_not_link c05_chain_fs c05_chain_plan) /\
  children_first_b c05_chain_fs c05_chain_plan = false /\
  (let d := run (cfg_set_dry c true) c05_chain_plan [] c05_chain_fs in
   let r := run (cfg_set_dry c false) c05_chain_plan [] c05_chain_fs in
   r_status d = 0%Z /\ r_status r = 0%Z /\ r_report d = r_report r /\ length (r_report r) = 3%nat /\
   lookup (r_final r) [[105;110]; [122]; [109]] = Some NDir /\ lookup (r_final r) [[105;110]; [122]; [110]] = Some NDir) /\
  (* the F25 plan: the dry run itself shows the deferred child *)
  deferred_top_b (f25_cfg fixed false) f25_plan [] f25_fs = false.
Proof.
  split; [apply c05_dir_deferred_covered_b_sound; vm_compute; reflexivity|].
  vm_compute. repeat split; reflexivity.
Qed.

(* ---- the whole program (Whole/Main.v [tempren_main]; proofs: Whole/PipelineProps.v) ---- *)
From Coq Require Import Permutation.
From Tempren Require Import Pipe.FrontCompile Whole.Library Whole.Render Whole.Gather Whole.Main Whole.Facts Whole.PipelineProps
  Whole.Examples.

(* Name mode, no injected fault.  For EVERY template text (compiling or not, whatever it renders: invalid names, raising
   tags, the same name for every file), registry, -r, -ih, sort, listing order, input paths, strategy stop / ignore /
   manual without an answer that reads as "override" or "custom path", and EVERY tree with ordinary names and WITHOUT
   symbolic links: tempren --dry-run and tempren end with the same exit status, print the same report lines and prompt
   the same number of times.  [set_dry o b] is o with --dry-run := b.  The hypotheses [plain_plan] / [dest_not_link] of
   the run-level theorem are DERIVED here for what the program gathers itself. *)
Theorem C05_whole_dry_equals_real : forall upper lower R o text dirs s,
  tree_ok s -> no_links s ->
  o_mode o = MName -> o_fault o = None -> no_override_no_custom o -> (forall l, Permutation l (o_listing o l)) ->
  let d := tempren_main upper lower R (set_dry o true) text dirs s in
  let r := tempren_main upper lower R (set_dry o false) text dirs s in
  r_status d = r_status r /\ r_report d = r_report r /\ r_prompts d = r_prompts r.
Proof. exact whole_dry_equals_real. Qed.
Print Assumptions C05_whole_dry_equals_real.

(* gathering, ordering and rendering do not look at --dry-run: both runs rename by the same plan *)
Theorem C05_whole_same_plan : forall upper lower b o dirs s x,
  whole_plan upper lower b (set_dry o x) dirs s = whole_plan upper lower b o dirs s.
Proof. exact whole_plan_dry_irrelevant. Qed.
Print Assumptions C05_whole_same_plan.

Theorem C05_whole_hypotheses_spelled_out : forall o s,
  (no_links s <-> forall k i t, ~ In (k, NLink i t) s) /\
  (no_links_b s = true -> no_links s) /\
  (tree_ok_b s = true -> tree_ok s) /\
  (no_override_no_custom o <->
   match o_strategy o with
   | Stop | Ignore => True
   | Manual => Forall (fun a => parse_answer a <> AOverride /\ parse_answer a <> ACustom) (o_answers o)
   | Override => False
   end) /\
  o_dry (set_dry o true) = true /\ o_dry (set_dry o false) = false.
Proof. exact dry_equals_real_hypotheses_spec. Qed.
Print Assumptions C05_whole_hypotheses_spelled_out.

(* the example tree has no symbolic link; "x" (a conflict, status 1, two lines), the counting template (status 0,
   four lines), a text that does not compile and %Base()|%Trim(2,right)|%Pad(5,'x',right)|%Upper() print the
   same in the dry and in the real run, and the real run does rename *)
Example C05_whole_example :
  tree_ok_b ex_tree = true /\ no_links_b ex_tree = true /\
  (forall t, In t [t_x; t_upper_count; t_unknown_tag; t_trim_pad] ->
     let d := ex_main (set_dry (ex_options MName true true) true) t ex_dirs ex_tree in
     let r := ex_main (set_dry (ex_options MName true true) false) t ex_dirs ex_tree in
     r_status d = r_status r /\ r_report d = r_report r /\ r_prompts d = r_prompts r /\ r_calls d = []) /\
  r_status (ex_main (set_dry (ex_options MName true true) true) t_x ex_dirs ex_tree) = 1%Z /\
  length (r_report (ex_main (set_dry (ex_options MName true true) true) t_x ex_dirs ex_tree)) = 2%nat /\
  r_status (ex_main (set_dry (ex_options MName true true) true) t_upper_count ex_dirs ex_tree) = 0%Z /\
  length (r_report (ex_main (set_dry (ex_options MName true true) true) t_upper_count ex_dirs ex_tree)) = 4%nat /\
  length (r_calls (ex_main (set_dry (ex_options MName true true) false) t_upper_count ex_dirs ex_tree)) = 4%nat /\
  r_report (ex_main (set_dry (ex_options MName true true) true) t_trim_pad ex_dirs ex_tree) =
    [([97; 46; 116], [65; 88; 88; 88; 88], false); ([98; 46; 116], [66; 88; 88; 88; 88], false);
     ([115; 47; 99], [115; 47; 67; 88; 88; 88; 88], false);
     ([115; 47; 100; 46; 116], [115; 47; 68; 88; 88; 88; 88], false)].
Proof.
  split; [vm_compute; reflexivity|]. split; [vm_compute; reflexivity|]. split.
  - intros t H. cbn [In] in H.
    repeat (destruct H as [H|H]; [subst t; vm_compute; repeat split; reflexivity|]). destruct H.
  - vm_compute. repeat split; reflexivity.
Qed.

Example C05_whole_example_by_theorem :
  let d := ex_main (set_dry (ex_options MName true true) true) t_x ex_dirs ex_tree in
  let r := ex_main (set_dry (ex_options MName true true) false) t_x ex_dirs ex_tree in
  r_status d = r_status r /\ r_report d = r_report r /\ r_prompts d = r_prompts r.
Proof.
  apply (C05_whole_dry_equals_real ascii_upper_str ascii_lower_str core_reg (ex_options MName true true) t_x ex_dirs ex_tree).
  - apply tree_ok_b_sound. vm_compute. reflexivity.
  - apply no_links_b_sound. vm_compute. reflexivity.
  - reflexivity.
  - reflexivity.
  - exact I.
  - exact permutes_id.
Qed.
