(* C05 — a dry run predicts exactly what the real run then does.  Statements only. *)
From Tempren Require Import Base.Str Py.PathLib FS.Model FS.Lemmas FS.PlainPaths Pipe.Pipeline Pipe.DryRun Pipe.DrySim Pipe.Scenarios.
From Tempren Require Import FS.WfCheck Corr.PipeCorr Pipe.DryEqualsReal Pipe.DryEqualsRealCheck.
Open Scope N_scope.

(* FULL STATEMENT (not proved as one theorem; decided by the paired runs of harness/c05.py + the correspondence):
     name mode: forall c plan s, (r_status, r_report) (run {c with dry}) = (r_status, r_report) (run {c with not dry}).
   PROVED below: the step-level simulation the full statement rests on, and (at the end of this file,
   theorems C05_dry_equals_real_name_mode...) the full statement for name mode on plans of plain paths. *)

(* The dry-run bookkeeping.  [vexists E0 cr rm k] is DryRunRenamer's "exists" for name k over ANY on-disk existence
   map E0: (on disk or created) and not removed.  One dry step makes the destination exist, the source not exist
   and leaves every other name as it was — for any disk and any history of earlier steps. *)
Theorem C05_dry_step_tracks_rename : forall E0 cr rm src dst k,
  src <> dst ->
  vexists E0 (del_path src (add_path dst cr)) (del_path dst (add_path src rm)) k =
    if rpath_eqb k dst then true else if rpath_eqb k src then false else vexists E0 cr rm k.
Proof. exact dry_step_tracks_rename. Qed.
Print Assumptions C05_dry_step_tracks_rename.

(* The real filesystem: renaming a non-directory onto a free name changes the existence of names in exactly
   the same way. *)
Theorem C05_real_rename_tracks : forall s sp n dp k,
  NoDup (map fst s) -> In (sp, n) s -> sp <> [] -> dp <> [] -> sp <> dp -> k <> [] ->
  (forall q m, In (q, m) s -> is_prefix_path sp q = true -> q = sp) ->
  (forall q m, In (q, m) s -> q <> dp) ->
  present (rekey sp dp s) k =
    if rpath_eqb k dp then true else if rpath_eqb k sp then false else present s k.
Proof. exact real_rename_tracks. Qed.
Print Assumptions C05_real_rename_tracks.

(* Hence the simulation invariant "virtual existence = existence on the real run's disk" is preserved by
   every step; both renamers decide by exactly these existence tests, so they take the same branch next time. *)
Theorem C05_simulation_step : forall E0 cr rm s sp n dp,
  NoDup (map fst s) -> In (sp, n) s -> sp <> [] -> dp <> [] -> sp <> dp ->
  (forall q m, In (q, m) s -> is_prefix_path sp q = true -> q = sp) ->
  (forall q m, In (q, m) s -> q <> dp) ->
  (forall k, k <> [] -> vexists E0 cr rm k = present s k) ->
  forall k, k <> [] ->
    vexists E0 (del_path sp (add_path dp cr)) (del_path dp (add_path sp rm)) k = present (rekey sp dp s) k.
Proof. exact simulation_step. Qed.
Print Assumptions C05_simulation_step.

(* the dry run never touches the disk, so E0 above really is the initial disk throughout (C04) *)
Theorem C05_dry_run_disk_is_initial : forall c plan cwd s,
  c_dry c = true -> r_final (run c plan cwd s) = s /\ r_states (run c plan cwd s) = [] /\ r_calls (run c plan cwd s) = [].
Proof. exact dry_run_touches_nothing. Qed.
Print Assumptions C05_dry_run_disk_is_initial.

(* Finding F3 (fixed): two input roots that both contain 'x'.  With the bookkeeping keyed by the relative path
   the dry run sees the second 'x' as already renamed and stops (status 1, two report lines) while the real run
   renames all three (status 0); with absolute keys both runs agree.  F5 / F28 (fixed): both runs agree. *)
Example C05_relative_keys_refuted :
  let dry_bad := run (f3_cfg relative_dry_keys true) f3_plan [] f3_fs in
  let dry := run (f3_cfg fixed true) f3_plan [] f3_fs in
  let real := run (f3_cfg fixed false) f3_plan [] f3_fs in
  r_status dry_bad <> r_status real /\ length (r_report dry_bad) = 2%nat /\
  r_status dry = r_status real /\ r_report dry = r_report real /\ length (r_report real) = 3%nat /\
  r_status (run (f5_cfg fixed true) f5_plan [] f5_fs) = r_status (run (f5_cfg fixed false) f5_plan [] f5_fs) /\
  r_report (run (f28_cfg fixed true) f28_plan [] f28_fs) = r_report (run (f28_cfg fixed false) f28_plan [] f28_fs) /\
  r_status (run (f28_cfg fixed true) f28_plan [] f28_fs) = r_status (run (f28_cfg fixed false) f28_plan [] f28_fs).
Proof. vm_compute. repeat split; discriminate. Qed.


(* ======================================================================================================== *)
(* The full statement, name mode (Pipe/DryEqualsReal.v).                                                    *)
(*                                                                                                          *)
(* Hypotheses (all are definitions of Pipe/DryEqualsReal.v, all have sound boolean checkers in              *)
(* Pipe/DryEqualsRealCheck.v):                                                                              *)
(*  - plain_plan s plan: every File(input directory, relative path) has  chdir s dir = Some dir  (a real    *)
(*    directory reached without links), no ".." in dir or in the relative path, pp_root = 0, non-empty      *)
(*    parts, every proper prefix below dir is a directory ENTRY of s, and dir ++ parts is a REGULAR FILE    *)
(*    of s (a file may be designated any number of times); length dir + length parts < walk_fuel (the       *)
(*    model's kernel walk answers ELOOP beyond walk_fuel = 120 components; a modelling bound).              *)
(*    Regular file, not just "non-directory": C05_symlink_source_refuted below shows that the statement     *)
(*    is FALSE in the model when the plan renames a symbolic link and reuses its name.                      *)
(*  - dest_not_link s plan: where parent/new-name is taken on the initial tree, it is not a symbolic link   *)
(*    (Path.resolve() in the containment test would follow it).                                             *)
(*  - no_override c: strategy stop or ignore, or manual where no answer parses to "override" or to          *)
(*    "custom path".                                                                                        *)
(* rendered values are arbitrary RText / RAbs / RRaise: invalid names raise the same error in both runs,    *)
(* the name ".." (accepted by with_name) is a conflict with the parent directory in both runs.              *)
(* [cfg_set_dry] is the [set_dry] of the statement ([Pipeline.set_dry] is already DryRunRenamer's update).  *)
Theorem C05_dry_equals_real_name_mode : forall c plan cwd s,
  c_mode c = MName -> c_fault c = None -> c_var c = fixed -> WF s ->
  plain_plan s plan -> dest_not_link s plan -> no_override c ->
  let d := run (cfg_set_dry c true) plan cwd s in
  let r := run (cfg_set_dry c false) plan cwd s in
  r_status d = r_status r /\ r_report d = r_report r /\ r_prompts d = r_prompts r.
Proof. exact dry_equals_real_name_mode. Qed.
Print Assumptions C05_dry_equals_real_name_mode.

(* Every strategy and every answer, override and custom paths included: additionally no rendered name is     *)
(* ".." (no_dotdot_names), where a new name is taken on the initial tree it is taken by a regular file      *)
(* (dest_replaceable: os.rename onto a directory fails, the dry run does not notice:                        *)
(* C05_override_onto_directory_refuted), and the lines typed at the manual prompt, read as paths, are       *)
(* single names other than ".." (custom_paths_single).                                                      *)
Theorem C05_dry_equals_real_name_mode_override : forall c plan cwd s,
  c_mode c = MName -> c_fault c = None -> c_var c = fixed -> WF s ->
  plain_plan s plan -> dest_not_link s plan -> no_dotdot_names plan ->
  dest_replaceable s plan -> custom_paths_single c ->
  let d := run (cfg_set_dry c true) plan cwd s in
  let r := run (cfg_set_dry c false) plan cwd s in
  r_status d = r_status r /\ r_report d = r_report r /\ r_prompts d = r_prompts r.
Proof. exact dry_equals_real_name_mode_override. Qed.
Print Assumptions C05_dry_equals_real_name_mode_override.

(* The general form both are instances of; it also gives the same terminating exception (r_error).          *)
(* OVR / CUS: may a conflict be resolved by overriding / by a custom path.                                   *)
Theorem C05_dry_equals_real_name_mode_general : forall (OVR CUS : Prop) c plan cwd s,
  c_mode c = MName -> c_fault c = None -> c_var c = fixed -> WF s ->
  plain_plan s plan -> dest_not_link s plan ->
  (OVR -> no_dotdot_names plan) -> (OVR -> dest_replaceable s plan) -> answers_ok OVR CUS c ->
  let d := run (cfg_set_dry c true) plan cwd s in
  let r := run (cfg_set_dry c false) plan cwd s in
  r_status d = r_status r /\ r_report d = r_report r /\ r_prompts d = r_prompts r /\ r_error d = r_error r.
Proof. exact dry_equals_real_name_mode_general. Qed.
Print Assumptions C05_dry_equals_real_name_mode_general.

(* The renamer-level simulation: one call of the renamer in the dry and in the real world, related by Sim    *)
(* (virtual existence = existence on the real disk, same directories and links, same report / stdin /       *)
(* prompt count), gives the same outcome and related worlds.                                                 *)
Theorem C05_sim_renamer : forall s0 st answers (OVR CUS : Prop), WF s0 ->
  forall wd wr d src dst ov wd' ed wr' er,
  Sim s0 st OVR CUS wd wr -> plain_rel s0 d src -> plain_rel s0 d dst -> skel s0 (d ++ pp_parts src) = None ->
  (ov = true -> skel s0 (d ++ pp_parts dst) = None /\ pp_parts src <> pp_parts dst) ->
  renamer (cD st answers) wd d src dst ov = (wd', ed) -> renamer (cR st answers) wr d src dst ov = (wr', er) ->
  ed = er /\ Sim s0 st OVR CUS wd' wr'.
Proof. exact sim_renamer. Qed.
Print Assumptions C05_sim_renamer.

(* The pass-level simulations the run-level theorems are assembled from. *)
Theorem C05_sim_first_pass : forall s0 st answers (OVR CUS : Prop), WF s0 ->
  forall plan wd wr cwd bl wd' cd' bd' ed wr' cr' br' er,
  plain_plan s0 plan -> dest_not_link s0 plan ->
  (OVR -> no_dotdot_names plan) -> (OVR -> dest_replaceable s0 plan) ->
  Forall (plain_entry s0 OVR) bl -> Sim s0 st OVR CUS wd wr ->
  first_pass (cD st answers) plan wd cwd bl = (wd', cd', bd', ed) ->
  first_pass (cR st answers) plan wr cwd bl = (wr', cr', br', er) ->
  ed = er /\ cd' = cr' /\ bd' = br' /\ Forall (plain_entry s0 OVR) bd' /\ Sim s0 st OVR CUS wd' wr'.
Proof. exact sim_first_pass. Qed.
Print Assumptions C05_sim_first_pass.

Theorem C05_sim_second_pass : forall s0 st answers (OVR CUS : Prop), WF s0 ->
  match st with Stop | Ignore => True | Manual => Forall (answer_ok OVR CUS) answers | Override => OVR end ->
  forall bl wd wr cwd wd' cd' ed wr' cr' er,
  Forall (plain_entry s0 OVR) bl -> Sim s0 st OVR CUS wd wr ->
  second_pass (cD st answers) bl wd cwd = (wd', cd', ed) -> second_pass (cR st answers) bl wr cwd = (wr', cr', er) ->
  ed = er /\ Sim s0 st OVR CUS wd' wr'.
Proof. exact sim_second_pass. Qed.
Print Assumptions C05_sim_second_pass.

(* Non-vacuity: the two-root tree of F3 (in/x, in/y, in2/x: equal relative names in both roots) with a        *)
(* colliding plan (in/x -> X, in/y -> X, in2/x -> X).  The hypotheses hold (checked by the sound boolean     *)
(* checker), so the theorems apply; and concretely: under stop both runs report two renames and end with    *)
(* status 1, under override both report three (the last one overriding) and end with 0, at the manual       *)
(* prompt "c" + "Z" both rename in/y to Z after 2 prompt lines.                                              *)
Definition c05_ex_plan : list (pfile * rendered) :=
  mk_plan [([[105;110]], [120], RText [88]); ([[105;110]], [121], RText [88]); ([[105;110;50]], [120], RText [88])].
Definition c05_ex_cfg (st : strategy) (ans : list str) : cfg :=
  {| c_mode := MName; c_strategy := st; c_dry := false; c_answers := ans; c_fault := None; c_var := fixed |}.

Example C05_dry_equals_real_nonvacuous :
  (WF f3_fs /\ plain_plan f3_fs c05_ex_plan /\ dest_not_link f3_fs c05_ex_plan /\
   no_dotdot_names c05_ex_plan /\ dest_replaceable f3_fs c05_ex_plan) /\
  (let d := run (cfg_set_dry (c05_ex_cfg Stop []) true) c05_ex_plan [] f3_fs in
   let r := run (cfg_set_dry (c05_ex_cfg Stop []) false) c05_ex_plan [] f3_fs in
   r_status d = 1%Z /\ r_status r = 1%Z /\ r_report d = r_report r /\ length (r_report r) = 2%nat) /\
  (let d := run (cfg_set_dry (c05_ex_cfg Override []) true) c05_ex_plan [] f3_fs in
   let r := run (cfg_set_dry (c05_ex_cfg Override []) false) c05_ex_plan [] f3_fs in
   r_status d = 0%Z /\ r_status r = 0%Z /\ r_report d = r_report r /\ length (r_report r) = 3%nat) /\
  (let d := run (cfg_set_dry (c05_ex_cfg Manual [[99]; [90]]) true) c05_ex_plan [] f3_fs in
   let r := run (cfg_set_dry (c05_ex_cfg Manual [[99]; [90]]) false) c05_ex_plan [] f3_fs in
   r_status d = 0%Z /\ r_status r = 0%Z /\ r_report d = r_report r /\ r_prompts d = 2%nat /\ r_prompts r = 2%nat).
Proof.
  split; [apply c05_covered_override_b_sound; vm_compute; reflexivity|].
  vm_compute. repeat split; reflexivity.
Qed.

(* ... and obtained from the theorems rather than by running both *)
Example C05_dry_equals_real_instance :
  let d := run (cfg_set_dry (c05_ex_cfg Stop []) true) c05_ex_plan [] f3_fs in
  let r := run (cfg_set_dry (c05_ex_cfg Stop []) false) c05_ex_plan [] f3_fs in
  r_status d = r_status r /\ r_report d = r_report r /\ r_prompts d = r_prompts r.
Proof.
  destruct (c05_covered_b_sound f3_fs c05_ex_plan eq_refl) as [W [PP NL]].
  apply dry_equals_real_name_mode; try assumption; try reflexivity.
Qed.

Example C05_dry_equals_real_override_instance :
  let c := c05_ex_cfg Manual [[111]; [99]; [90]] in         (* "o", "c", "Z" *)
  let d := run (cfg_set_dry c true) c05_ex_plan [] f3_fs in
  let r := run (cfg_set_dry c false) c05_ex_plan [] f3_fs in
  r_status d = r_status r /\ r_report d = r_report r /\ r_prompts d = r_prompts r.
Proof.
  destruct (c05_covered_override_b_sound f3_fs c05_ex_plan eq_refl) as [W [PP [NL [ND DR]]]].
  apply dry_equals_real_name_mode_override; try assumption; try reflexivity.
  unfold custom_paths_single. cbn [c_strategy c05_ex_cfg c_answers].
  repeat constructor; (eexists; split; [vm_compute; reflexivity | discriminate]).
Qed.

(* the name "..": in/s/a rendered to ".." is a conflict with the directory in/s/.. = in, in both runs *)
Definition c05_dd_fs : fs := [([[105;110]], NDir); ([[105;110]; [115]], NDir); ([[105;110]; [115]; [97]], NFile 1)].
Definition c05_dd_plan : list (pfile * rendered) := mk_plan [([[105;110]], [115;47;97], RText [46;46])].

Example C05_dotdot_name_covered :
  c05_covered_b c05_dd_fs c05_dd_plan = true /\ no_dotdot_names_b c05_dd_plan = false /\
  (let d := run (cfg_set_dry (c05_ex_cfg Stop []) true) c05_dd_plan [] c05_dd_fs in
   let r := run (cfg_set_dry (c05_ex_cfg Stop []) false) c05_dd_plan [] c05_dd_fs in
   r_status d = 1%Z /\ r_status r = 1%Z /\ r_report d = [] /\ r_report r = []).
Proof. vm_compute. repeat split; reflexivity. Qed.

(* The hypotheses are needed: without them the statement is false in the model, and in the implementation   *)
(* (open known findings F30 and F29 of known_findings.json; DryRunRenamer never changes the disk, while     *)
(* Path.resolve() and os.rename() look at the disk).  The theorems above cover the complement:              *)
(* regular-file sources + dest_not_link exclude F30, no_override resp. no_dotdot_names + dest_replaceable   *)
(* exclude F29.                                                                                             *)
(* 1. (F30) in/l is a symbolic link to /out/z, in/a a file; plan l -> m, a -> l.  Real run: l is renamed     *)
(*    away, so "in/l" is free and inside: two renames, status 0.  Dry run: the containment test still        *)
(*    follows the link on the untouched disk to /out/z: InvalidDestinationError, status 1.                   *)
Definition c05_link_fs : fs :=
  [([[105;110]], NDir); ([[105;110]; [108]], NLink 1 {| up_abs := true; up_comps := [[111;117;116]; [122]] |});
   ([[105;110]; [97]], NFile 2); ([[111;117;116]], NDir)].
Definition c05_link_plan : list (pfile * rendered) :=
  mk_plan [([[105;110]], [108], RText [109]); ([[105;110]], [97], RText [108])].

Example C05_symlink_source_refuted :
  let d := run (cfg_set_dry (c05_ex_cfg Stop []) true) c05_link_plan [] c05_link_fs in
  let r := run (cfg_set_dry (c05_ex_cfg Stop []) false) c05_link_plan [] c05_link_fs in
  wf_b c05_link_fs = true /\ plain_plan_b c05_link_fs c05_link_plan = false /\
  r_status d = 1%Z /\ r_status r = 0%Z /\ length (r_report d) = 1%nat /\ length (r_report r) = 2%nat.
Proof. vm_compute. repeat split; reflexivity. Qed.

(* 2. (F29) --conflict override with a destination that is an existing directory (in/a -> "s", in/s a        *)
(*    directory): the dry run reports the rename as an override and ends with 0, os.rename raises            *)
(*    IsADirectoryError: 126.  The same with the name ".." (C05_dotdot_name_covered's plan under override).  *)
Definition c05_ovdir_fs : fs := [([[105;110]], NDir); ([[105;110]; [97]], NFile 1); ([[105;110]; [115]], NDir)].
Definition c05_ovdir_plan : list (pfile * rendered) := mk_plan [([[105;110]], [97], RText [115])].

Example C05_override_onto_directory_refuted :
  let d := run (cfg_set_dry (c05_ex_cfg Override []) true) c05_ovdir_plan [] c05_ovdir_fs in
  let r := run (cfg_set_dry (c05_ex_cfg Override []) false) c05_ovdir_plan [] c05_ovdir_fs in
  c05_covered_b c05_ovdir_fs c05_ovdir_plan = true /\ dest_replaceable_b c05_ovdir_fs c05_ovdir_plan = false /\
  r_status d = 0%Z /\ r_status r = 126%Z /\ length (r_report d) = 1%nat /\ r_report r = [] /\
  (let d2 := run (cfg_set_dry (c05_ex_cfg Override []) true) c05_dd_plan [] c05_dd_fs in
   let r2 := run (cfg_set_dry (c05_ex_cfg Override []) false) c05_dd_plan [] c05_dd_fs in
   r_status d2 = 0%Z /\ r_status r2 = 126%Z).
Proof. vm_compute. repeat split; reflexivity. Qed.
