(* C05 — a dry run predicts exactly what the real run then does.  Statements only. *)
From Tempren Require Import Base.Str Py.PathLib FS.Model FS.Lemmas Pipe.Pipeline Pipe.DryRun Pipe.DrySim Pipe.Scenarios.
Open Scope N_scope.

(* FULL STATEMENT (not proved as one theorem; decided by the paired runs of harness/c05.py + the correspondence):
     name mode: forall c plan s, (r_status, r_report) (run {c with dry}) = (r_status, r_report) (run {c with not dry}).
   PROVED below: the step-level simulation the full statement rests on. *)

(* The dry-run bookkeeping.  [vexists E0 cr rm k] is DryRunRenamer's "exists" for name k over ANY on-disk existence
   map E0: (on disk or created) and not removed.  One dry step makes the destination exist, the source not exist
   and leaves every other name as it was — for any disk and any history of earlier steps. *)
Theorem C05_dry_step_tracks_rename : forall E0 cr rm src dst k,
  src <> dst ->
  vexists E0 (del_path src (add_path dst cr)) (del_path dst (add_path src rm)) k =
    if rpath_eqb k dst then true else if rpath_eqb k src then false else vexists E0 cr rm k.
Proof. exact dry_step_tracks_rename. Qed.
Print Assumptions C05_dry_step_tracks_rename.

(* The real filesystem: renaming a non-directory onto a free name changes the existence of names in exactly
   the same way. *)
Theorem C05_real_rename_tracks : forall s sp n dp k,
  NoDup (map fst s) -> In (sp, n) s -> sp <> [] -> dp <> [] -> sp <> dp -> k <> [] ->
  (forall q m, In (q, m) s -> is_prefix_path sp q = true -> q = sp) ->
  (forall q m, In (q, m) s -> q <> dp) ->
  present (rekey sp dp s) k =
    if rpath_eqb k dp then true else if rpath_eqb k sp then false else present s k.
Proof. exact real_rename_tracks. Qed.
Print Assumptions C05_real_rename_tracks.

(* Hence the simulation invariant "virtual existence = existence on the real run's disk" is preserved by
   every step; both renamers decide by exactly these existence tests, so they take the same branch next time. *)
Theorem C05_simulation_step : forall E0 cr rm s sp n dp,
  NoDup (map fst s) -> In (sp, n) s -> sp <> [] -> dp <> [] -> sp <> dp ->
  (forall q m, In (q, m) s -> is_prefix_path sp q = true -> q = sp) ->
  (forall q m, In (q, m) s -> q <> dp) ->
  (forall k, k <> [] -> vexists E0 cr rm k = present s k) ->
  forall k, k <> [] ->
    vexists E0 (del_path sp (add_path dp cr)) (del_path dp (add_path sp rm)) k = present (rekey sp dp s) k.
Proof. exact simulation_step. Qed.
Print Assumptions C05_simulation_step.

(* the dry run never touches the disk, so E0 above really is the initial disk throughout (C04) *)
Theorem C05_dry_run_disk_is_initial : forall c plan cwd s,
  c_dry c = true -> r_final (run c plan cwd s) = s /\ r_states (run c plan cwd s) = [] /\ r_calls (run c plan cwd s) = [].
Proof. exact dry_run_touches_nothing. Qed.
Print Assumptions C05_dry_run_disk_is_initial.

(* Finding F3 (fixed): two input roots that both contain 'x'.  With the bookkeeping keyed by the relative path
   the dry run sees the second 'x' as already renamed and stops (status 1, two report lines) while the real run
   renames all three (status 0); with absolute keys both runs agree.  F5 / F28 (fixed): both runs agree. *)
Example C05_relative_keys_refuted :
  let dry_bad := run (f3_cfg relative_dry_keys true) f3_plan [] f3_fs in
  let dry := run (f3_cfg fixed true) f3_plan [] f3_fs in
  let real := run (f3_cfg fixed false) f3_plan [] f3_fs in
  r_status dry_bad <> r_status real /\ length (r_report dry_bad) = 2%nat /\
  r_status dry = r_status real /\ r_report dry = r_report real /\ length (r_report real) = 3%nat /\
  r_status (run (f5_cfg fixed true) f5_plan [] f5_fs) = r_status (run (f5_cfg fixed false) f5_plan [] f5_fs) /\
  r_report (run (f28_cfg fixed true) f28_plan [] f28_fs) = r_report (run (f28_cfg fixed false) f28_plan [] f28_fs) /\
  r_status (run (f28_cfg fixed true) f28_plan [] f28_fs) = r_status (run (f28_cfg fixed false) f28_plan [] f28_fs).
Proof. vm_compute. repeat split; discriminate. Qed.
