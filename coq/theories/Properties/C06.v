(* C06 — renames stay inside the input directory and respect the mode.  Statements only. *)
From Tempren Require Import Base.Str Py.PathLib FS.Model FS.Lemmas Pipe.Pipeline Pipe.Confine Pipe.DryRun Pipe.Scenarios.
Open Scope N_scope.

(* A generated path that resolves outside the input directory of its file ends the run with
   InvalidDestinationError (exit status 1) with the world exactly as it was when that file came up:
   no call, no report line, nothing deferred — for every mode, strategy, plan, tree. *)
Theorem C06_refused_before_touch : forall c f r rest w cwd bl cwd1 np,
  chdir (w_fs w) (pf_dir f) = Some cwd1 ->
  generate (c_mode c) f r = inl np -> ppath_eqb np (pf_rel f) = false ->
  contained (c_var c) (w_fs w) f np = Some false ->
  first_pass c ((f, r) :: rest) w cwd bl = (w, cwd1, bl, Some ExInvalidDest).
Proof. exact refused_before_touch. Qed.
Print Assumptions C06_refused_before_touch.

(* ... and likewise when a directory that would have to be created on the way lies outside *)
Theorem C06_refused_when_new_directories_escape : forall c f r rest w cwd bl cwd1 np,
  chdir (w_fs w) (pf_dir f) = Some cwd1 ->
  generate (c_mode c) f r = inl np -> ppath_eqb np (pf_rel f) = false ->
  contained (c_var c) (w_fs w) f np = Some true ->
  dest_parent_test (c_var c) (w_fs w) f np = Some true ->
  parents_contained (w_fs w) f np = Some false ->
  first_pass c ((f, r) :: rest) w cwd bl = (w, cwd1, bl, Some ExInvalidDest).
Proof. exact refused_when_new_directories_escape. Qed.
Print Assumptions C06_refused_when_new_directories_escape.

(* ... and when the directory the destination entry itself lives in (the generated path without its last
   component, resolved) lies outside, although the destination resolves inside: its last component is then a
   symbolic link pointing inwards, which rename(2) would replace, not follow (F34, fixed).
   [dest_parent_test v] is [dest_parent_contained] for the current code and absent ([Some true]) before the fix *)
Theorem C06_refused_when_destination_directory_outside : forall c f r rest w cwd bl cwd1 np,
  chdir (w_fs w) (pf_dir f) = Some cwd1 ->
  generate (c_mode c) f r = inl np -> ppath_eqb np (pf_rel f) = false ->
  contained (c_var c) (w_fs w) f np = Some true ->
  v_dest_parent_containment (c_var c) = true ->
  dest_parent_contained (w_fs w) f np = Some false ->
  first_pass c ((f, r) :: rest) w cwd bl = (w, cwd1, bl, Some ExInvalidDest).
Proof. exact refused_when_destination_directory_outside. Qed.
Print Assumptions C06_refused_when_destination_directory_outside.

(* ... and when the file itself really lives outside its input directory: it was reached through a symbolic
   link to a directory that leaves the input directory (recursive gathering follows such links).  Whatever
   the destination, nothing is touched: an entry outside the input directory is never removed (F32, fixed) *)
Theorem C06_refused_when_source_outside : forall c f r rest w cwd bl cwd1 np,
  chdir (w_fs w) (pf_dir f) = Some cwd1 ->
  generate (c_mode c) f r = inl np -> ppath_eqb np (pf_rel f) = false ->
  contained (c_var c) (w_fs w) f np = Some true ->
  dest_parent_test (c_var c) (w_fs w) f np = Some true ->
  parents_contained (w_fs w) f np = Some true ->
  source_contained (w_fs w) f = Some false ->
  first_pass c ((f, r) :: rest) w cwd bl = (w, cwd1, bl, Some ExInvalidDest).
Proof. exact refused_when_source_outside. Qed.
Print Assumptions C06_refused_when_source_outside.

Theorem C06_refusal_is_status_1 : status_of ExInvalidDest = 1%Z.
Proof. exact invalid_dest_is_status_1. Qed.
Print Assumptions C06_refusal_is_status_1.

(* the renamer is reached for a file only after all four containment tests succeeded *)
Theorem C06_renamer_reached_only_inside : forall c f r rest w cwd bl np cwd1,
  chdir (w_fs w) (pf_dir f) = Some cwd1 ->
  generate (c_mode c) f r = inl np -> ppath_eqb np (pf_rel f) = false ->
  (contained (c_var c) (w_fs w) f np = Some true /\ dest_parent_test (c_var c) (w_fs w) f np = Some true /\
   parents_contained (w_fs w) f np = Some true /\ source_contained (w_fs w) f = Some true) \/
  (exists e, first_pass c ((f, r) :: rest) w cwd bl = (w, cwd1, bl, Some e)).
Proof. exact renamer_reached_only_inside. Qed.
Print Assumptions C06_renamer_reached_only_inside.

(* "contained" = the destination resolved as Path.resolve() does lies at or below the input directory,
   component by component *)
Theorem C06_contained_spec : forall s f np,
  contained fixed s f np = Some true <->
  exists a, realpath s [] (dest_target f np) = Some a /\ exists r, a = pf_dir f ++ r.
Proof. exact contained_spec. Qed.
Print Assumptions C06_contained_spec.

(* a sibling directory whose name merely extends the input directory's name is NOT inside ... *)
Theorem C06_lookalike_sibling_is_outside : forall (d : rpath) (x sfx : name) (rest : rpath),
  sfx <> [] -> is_prefix_path (d ++ [x]) (d ++ (x ++ sfx) :: rest) = false.
Proof. exact component_wise_rejects_lookalike. Qed.
Print Assumptions C06_lookalike_sibling_is_outside.

(* ... while the string-prefix test used before the fix accepted every such sibling *)
Theorem C06_string_prefix_accepted_lookalike : forall (d : rpath) (x sfx : name) (rest : rpath),
  str_prefix_path (d ++ [x]) (d ++ (x ++ sfx) :: rest) = true.
Proof. exact string_prefix_accepts_lookalike. Qed.
Print Assumptions C06_string_prefix_accepted_lookalike.

(* name and directory mode: a rename is only ever issued between two paths with the same parent *)
Theorem C06_name_mode_same_parent : forall v flt w cwd src dst o w' e,
  file_renamer v flt w cwd src dst o = (w', e) -> w_n w' <> w_n w -> pp_parent src = pp_parent dst.
Proof. exact name_mode_same_parent. Qed.
Print Assumptions C06_name_mode_same_parent.

Theorem C06_name_generator_keeps_parent : forall m f t np,
  m <> MPath -> generate m f (RText t) = inl np -> pp_parent np = pp_parent (pf_rel f) /\ pp_name np = t.
Proof. exact name_generator_keeps_parent. Qed.
Print Assumptions C06_name_generator_keeps_parent.

(* an empty name, "." or a name containing a separator is refused (InvalidDestinationError) *)
Theorem C06_bad_name_refused : forall m f t,
  m <> MPath -> (t = [] \/ t = [dot] \/ has_slash t = true) -> generate m f (RText t) = inr ExInvalidDest.
Proof. exact bad_name_refused. Qed.
Print Assumptions C06_bad_name_refused.

(* under dry-run nothing is touched at all (C04), in particular nothing outside *)
Theorem C06_dry_run_touches_nothing : forall c plan cwd s,
  c_dry c = true -> r_final (run c plan cwd s) = s /\ r_states (run c plan cwd s) = [] /\ r_calls (run c plan cwd s) = [].
Proof. exact dry_run_touches_nothing. Qed.
Print Assumptions C06_dry_run_touches_nothing.

(* Finding F8 (fixed): with the string-prefix test the file leaves 'in' for the sibling 'in2' with status 0;
   the current code refuses with status 1 and no call.  Finding F26 (fixed): '../new/../in/a.x' is refused. *)
Example C06_string_prefix_refuted :
  r_status (run (f8_cfg string_prefix_containment false) f8_plan [] f8_fs) = 0%Z /\
  length (r_calls (run (f8_cfg string_prefix_containment false) f8_plan [] f8_fs)) = 2%nat /\
  r_status (run (f8_cfg fixed false) f8_plan [] f8_fs) = 1%Z /\
  r_calls (run (f8_cfg fixed false) f8_plan [] f8_fs) = [] /\
  r_status (run (f26_cfg fixed false) f26_plan [] f26_fs) = 1%Z /\
  r_calls (run (f26_cfg fixed false) f26_plan [] f26_fs) = [].
Proof. vm_compute. repeat split. Qed.

(* Finding F32 (fixed): in/lnk -> ../out, out/keep.txt; the entry 'lnk/keep.txt' (as recursive gathering yields it),
   path template 'moved/%Name()': both destination tests say yes, the test on the source's real directory says no;
   status 1, no call, the tree is untouched -- for the real run and the dry run alike *)
Example C06_source_outside_refused :
  contained fixed f32_fs (fst (hd (Build_pfile [] (parse_path []), RText []) f32_plan)) (parse_path [109;111;118;101;100;47;107;101;101;112;46;116;120;116]) = Some true /\
  parents_contained f32_fs (fst (hd (Build_pfile [] (parse_path []), RText []) f32_plan)) (parse_path [109;111;118;101;100;47;107;101;101;112;46;116;120;116]) = Some true /\
  source_contained f32_fs (fst (hd (Build_pfile [] (parse_path []), RText []) f32_plan)) = Some false /\
  r_status (run (f32_cfg fixed false) f32_plan [] f32_fs) = 1%Z /\
  r_calls (run (f32_cfg fixed false) f32_plan [] f32_fs) = [] /\
  r_final (run (f32_cfg fixed false) f32_plan [] f32_fs) = f32_fs /\
  r_status (run (f32_cfg fixed true) f32_plan [] f32_fs) = 1%Z.
Proof. vm_compute. repeat split. Qed.

(* ---------- the kernel's resolution agrees with Path.resolve() ------------------------------------------ *)
From Tempren Require Import FS.RealpathAgree Pipe.Confined.

(* whenever the kernel walk of a path succeeds completely (every link followed, ".." taken of the real
   directory reached so far), posixpath._joinrealpath returns the same real path with ok = True, for every
   fuel larger than the one the walk needed; no hypothesis on the tree *)
Theorem C06_walk_realpath_agree : forall s f cur comps p n f',
  walk f s cur comps true = WFound p n -> (f < f')%nat ->
  joinreal f' s cur comps [] = (p, true).
Proof. exact walk_realpath_agree. Qed.
Print Assumptions C06_walk_realpath_agree.

(* ... and when only the last component is missing (a destination that does not exist yet) *)
Theorem C06_walk_realpath_agree_missing : forall s f cur comps par nm f',
  walk f s cur comps false = WMissing par nm -> (S f < f')%nat ->
  joinreal f' s cur comps [] = (par ++ [nm], true).
Proof. exact walk_realpath_agree_missing. Qed.
Print Assumptions C06_walk_realpath_agree_missing.

(* with the concrete fuels of the model (walk: 120, realpath: 400) *)
Theorem C06_resolve_found_realpath_raw : forall s cwd p q n,
  resolve s cwd p true = WFound q n -> realpath_raw s cwd p = q.
Proof. exact resolve_found_realpath_raw. Qed.
Print Assumptions C06_resolve_found_realpath_raw.

Theorem C06_rename_destination_is_where_realpath_says : forall s cwd dst dpar dname,
  resolve s cwd dst false = WMissing dpar dname -> realpath_raw s cwd dst = dpar ++ [dname].
Proof. exact rename_destination_is_where_realpath_says. Qed.
Print Assumptions C06_rename_destination_is_where_realpath_says.

(* rename(2) onto a free name and mkdir(2) key the new entry by realpath of the path they were given *)
Theorem C06_rename_creates_at_realpath : forall s cwd src dst dpar dname s',
  resolve s cwd dst false = WMissing dpar dname -> os_rename s cwd src dst = SOk s' ->
  exists sp sn, resolve s cwd src false = WFound sp sn /\ s' = rekey sp (realpath_raw s cwd dst) s.
Proof. exact rename_creates_at_realpath. Qed.
Print Assumptions C06_rename_creates_at_realpath.

Theorem C06_mkdir_creates_at_realpath : forall s cwd p s',
  os_mkdir s cwd p = SOk s' -> s' = s ++ [(realpath_raw s cwd p, NDir)].
Proof. exact mkdir_creates_at_realpath. Qed.
Print Assumptions C06_mkdir_creates_at_realpath.

(* the containment test (on input_directory / generated path, resolved by Path.resolve()) speaks about the
   very key that rename(2), called from inside the input directory with the unresolved path, will create *)
Theorem C06_contained_destination_key_inside : forall s f np dpar dname,
  chdir s (pf_dir f) = Some (pf_dir f) ->
  contained fixed s f np = Some true ->
  resolve s (pf_dir f) (to_upath np) false = WMissing dpar dname ->
  is_prefix_path (pf_dir f) (dpar ++ [dname]) = true.
Proof. exact contained_destination_key_inside. Qed.
Print Assumptions C06_contained_destination_key_inside.

(* one rename step: every key of the tree that appears or disappears lies at or below the input directory *)
Theorem C06_confined_step : forall s f np s' dpar dname,
  chdir s (pf_dir f) = Some (pf_dir f) ->
  contained fixed s f np = Some true ->
  plain_source s f ->
  resolve s (pf_dir f) (to_upath np) false = WMissing dpar dname ->
  os_rename s (pf_dir f) (to_upath (pf_rel f)) (to_upath np) = SOk s' ->
  is_prefix_path (pf_dir f) (dpar ++ [dname]) = true /\
  (exists sn, resolve s (pf_dir f) (to_upath (pf_rel f)) false = WFound (pf_dir f ++ pp_parts (pf_rel f)) sn /\
              s' = rekey (pf_dir f ++ pp_parts (pf_rel f)) (dpar ++ [dname]) s) /\
  (forall k n, In (k, n) s' -> ~ In (k, n) s -> is_prefix_path (pf_dir f) k = true) /\
  (forall k n, In (k, n) s -> ~ In (k, n) s' -> is_prefix_path (pf_dir f) k = true).
Proof. exact confined_step. Qed.
Print Assumptions C06_confined_step.

(* the renamer as first_pass calls it once both containment tests said yes (C06_renamer_reached_only_inside):
   name/directory mode, and every mode under dry-run; whatever the outcome of the call *)
Theorem C06_confined_renamer_step : forall c w f np w' e,
  c_var c = fixed -> (c_dry c = true \/ c_mode c <> MPath) ->
  chdir (w_fs w) (pf_dir f) = Some (pf_dir f) ->
  contained (c_var c) (w_fs w) f np = Some true ->
  plain_source (w_fs w) f ->
  renamer c w (pf_dir f) (pf_rel f) np false = (w', e) ->
  changes_below (pf_dir f) (w_fs w) (w_fs w').
Proof. exact confined_renamer_step. Qed.
Print Assumptions C06_confined_renamer_step.

(* ---------- any source: links and ".." on the way to the file being renamed ------------------------------- *)
(* The third test of first_pass (F32): Path.resolve() of the PARENT of (input directory / relative path) lies at
   or below the input directory.  The kernel follows every link but the last component's, so the entry that
   rename(2) takes away is keyed realpath(parent) ++ [last component]: at or below the input directory, with no
   hypothesis on the relative path at all.  (A trailing ".." or an empty path is refused by rename(2).) *)
Theorem C06_source_key_inside : forall s f sp sn,
  chdir s (pf_dir f) = Some (pf_dir f) ->
  source_contained s f = Some true ->
  bad_last (to_upath (pf_rel f)) = false ->
  resolve s (pf_dir f) (to_upath (pf_rel f)) false = WFound sp sn ->
  is_prefix_path (pf_dir f) sp = true.
Proof. intros s f sp sn Hc Hs. exact (source_key_inside s f sp sn Hc (source_contained_inside s f Hs)). Qed.
Print Assumptions C06_source_key_inside.

Theorem C06_confined_step_any_source : forall s f np s' dpar dname,
  chdir s (pf_dir f) = Some (pf_dir f) ->
  contained fixed s f np = Some true ->
  source_contained s f = Some true ->
  resolve s (pf_dir f) (to_upath np) false = WMissing dpar dname ->
  os_rename s (pf_dir f) (to_upath (pf_rel f)) (to_upath np) = SOk s' ->
  is_prefix_path (pf_dir f) (dpar ++ [dname]) = true /\
  (exists sp sn, resolve s (pf_dir f) (to_upath (pf_rel f)) false = WFound sp sn /\
                 is_prefix_path (pf_dir f) sp = true /\ s' = rekey sp (dpar ++ [dname]) s) /\
  (forall k n, In (k, n) s' -> ~ In (k, n) s -> is_prefix_path (pf_dir f) k = true) /\
  (forall k n, In (k, n) s -> ~ In (k, n) s' -> is_prefix_path (pf_dir f) k = true).
Proof. exact confined_step_any_source. Qed.
Print Assumptions C06_confined_step_any_source.

Theorem C06_confined_renamer_step_any_source : forall c w f np w' e,
  c_var c = fixed -> (c_dry c = true \/ c_mode c <> MPath) ->
  chdir (w_fs w) (pf_dir f) = Some (pf_dir f) ->
  contained (c_var c) (w_fs w) f np = Some true ->
  source_contained (w_fs w) f = Some true ->
  renamer c w (pf_dir f) (pf_rel f) np false = (w', e) ->
  changes_below (pf_dir f) (w_fs w) (w_fs w').
Proof. exact confined_renamer_step_any_source. Qed.
Print Assumptions C06_confined_renamer_step_any_source.

(* non-vacuity: "lnk/../x" through a symlinked directory — the kernel and realpath both take ".." of the real
   directory; and a tree on which every hypothesis of C06_confined_step holds *)
Example C06_agreement_example :
  resolve agree_fs [[105;110]] {| up_abs := false; up_comps := [[108;110;107]; dotdot; [120]] |} false
    = WMissing [[111;117;116]] [120] /\
  realpath_raw agree_fs [[105;110]] {| up_abs := false; up_comps := [[108;110;107]; dotdot; [120]] |}
    = [[111;117;116]; [120]] /\
  resolve agree_fs [[105;110]] {| up_abs := false; up_comps := [[114;101;108]; dotdot; [114;101;108]; [97]] |} true
    = WFound [[105;110]; [115;117;98]; [97]] (NFile 1) /\
  realpath_raw agree_fs [[105;110]] {| up_abs := false; up_comps := [[114;101;108]; dotdot; [114;101;108]; [97]] |}
    = [[105;110]; [115;117;98]; [97]].
Proof. exact agree_dotdot_after_link. Qed.

(* ---------- path mode: mkdir -p of the parent, then shutil.move ------------------------------------------- *)
From Tempren Require Import FS.DirExt Pipe.ConfinedMove.

(* creating plain directories at names that were missing changes neither realpath nor what a successful
   kernel walk finds; mkdir(2) is such a change *)
Theorem C06_realpath_unchanged_by_new_directories : forall s s1 cwd p,
  dir_ext s s1 -> realpath_raw s1 cwd p = realpath_raw s cwd p.
Proof. exact realpath_raw_dir_ext. Qed.
Print Assumptions C06_realpath_unchanged_by_new_directories.

Theorem C06_mkdir_only_adds_a_directory : forall s cwd p s', os_mkdir s cwd p = SOk s' -> dir_ext s s'.
Proof. exact os_mkdir_dir_ext. Qed.
Print Assumptions C06_mkdir_only_adds_a_directory.

(* mkdir -p, started on an extension of the tree s0 on which new_dirs_inside said yes for p: every
   directory it creates lies at or below d, and the result is again an extension of s0 *)
Theorem C06_mkdir_p_confined : forall s0 d flt fuel w p w' e,
  chdir s0 d = Some d -> dir_ext s0 (w_fs w) -> (pp_parts p <> [] -> ndi s0 d p) ->
  mkdir_p fuel flt w d p = (w', e) ->
  dir_ext s0 (w_fs w') /\ changes_below d (w_fs w) (w_fs w').
Proof. exact mkdir_p_confined. Qed.
Print Assumptions C06_mkdir_p_confined.

(* the rename issued after mkdir -p, judged by the containment test evaluated before it *)
Theorem C06_confined_step_after_mkdir : forall s0 s f np s' dpar dname,
  chdir s0 (pf_dir f) = Some (pf_dir f) ->
  contained fixed s0 f np = Some true ->
  plain_source s0 f ->
  dir_ext s0 s ->
  resolve s (pf_dir f) (to_upath np) false = WMissing dpar dname ->
  os_rename s (pf_dir f) (to_upath (pf_rel f)) (to_upath np) = SOk s' ->
  is_prefix_path (pf_dir f) (dpar ++ [dname]) = true /\ changes_below (pf_dir f) s s'.
Proof. exact confined_step_after_mkdir. Qed.
Print Assumptions C06_confined_step_after_mkdir.

(* every mode, dry or not: the renamer as first_pass calls it after both containment tests said yes *)
Theorem C06_confined_renamer_step_all_modes : forall c w f np w' e,
  c_var c = fixed ->
  chdir (w_fs w) (pf_dir f) = Some (pf_dir f) ->
  contained (c_var c) (w_fs w) f np = Some true ->
  parents_contained (w_fs w) f np = Some true ->
  plain_source (w_fs w) f ->
  renamer c w (pf_dir f) (pf_rel f) np false = (w', e) ->
  changes_below (pf_dir f) (w_fs w) (w_fs w').
Proof. exact confined_renamer_step_all_modes. Qed.
Print Assumptions C06_confined_renamer_step_all_modes.

(* ... and for any source, once the three tests of first_pass said yes *)
Theorem C06_confined_step_after_mkdir_any_source : forall s0 s f np s' dpar dname,
  chdir s0 (pf_dir f) = Some (pf_dir f) ->
  contained fixed s0 f np = Some true ->
  source_contained s0 f = Some true ->
  dir_ext s0 s ->
  resolve s (pf_dir f) (to_upath np) false = WMissing dpar dname ->
  os_rename s (pf_dir f) (to_upath (pf_rel f)) (to_upath np) = SOk s' ->
  is_prefix_path (pf_dir f) (dpar ++ [dname]) = true /\ changes_below (pf_dir f) s s'.
Proof. exact confined_step_after_mkdir_any_source. Qed.
Print Assumptions C06_confined_step_after_mkdir_any_source.

Theorem C06_confined_renamer_step_all_modes_any_source : forall c w f np w' e,
  c_var c = fixed ->
  chdir (w_fs w) (pf_dir f) = Some (pf_dir f) ->
  contained (c_var c) (w_fs w) f np = Some true ->
  parents_contained (w_fs w) f np = Some true ->
  source_contained (w_fs w) f = Some true ->
  renamer c w (pf_dir f) (pf_rel f) np false = (w', e) ->
  changes_below (pf_dir f) (w_fs w) (w_fs w').
Proof. exact confined_renamer_step_all_modes_any_source. Qed.
Print Assumptions C06_confined_renamer_step_all_modes_any_source.

(* one whole step of first_pass on the head of the plan, for every configuration of the current code, every
   rendered text, tree and fault, and EVERY source path (links, "..", anything the gatherer may hand over):
   the world handed on (to the rest of the plan, or returned with the error) differs from the one before only
   at or below the input directory of the file being processed.  Before the repair of F32 this needed the
   hypothesis [plain_source]; the test on the source's real directory made it superfluous. *)
Theorem C06_first_pass_head_confined : forall c f r w cwd bl,
  c_var c = fixed ->
  chdir (w_fs w) (pf_dir f) = Some (pf_dir f) ->
  exists w1, changes_below (pf_dir f) (w_fs w) (w_fs w1) /\
    ((exists bl1, forall rest, first_pass c ((f, r) :: rest) w cwd bl = first_pass c rest w1 (pf_dir f) bl1) \/
     (exists e, forall rest, first_pass c ((f, r) :: rest) w cwd bl = (w1, pf_dir f, bl, Some e))).
Proof. exact first_pass_head_confined. Qed.
Print Assumptions C06_first_pass_head_confined.

(* non-vacuity for path mode: "lnk/new/../n/b" through a symlinked directory; two directories are created *)
Example C06_confined_move_example :
  chdir cs_fs (pf_dir cs_file) = Some (pf_dir cs_file) /\
  contained fixed cs_fs cs_file cm_np = Some true /\
  parents_contained cs_fs cs_file cm_np = Some true /\
  plain_path cs_fs (pf_dir cs_file) (pp_parts (pf_rel cs_file)) = true /\
  (let '(w, e) := renamer cm_cfg (init_world cs_fs []) (pf_dir cs_file) (pf_rel cs_file) cm_np false in
   (w_fs w, e, rev (w_calls w))) =
  ([([[105;110]], NDir); ([[105;110]; [115;117;98]; [110]; [98]], NFile 1); ([[105;110]; [115;117;98]], NDir);
    ([[105;110]; [108;110;107]], NLink 2 {| up_abs := false; up_comps := [[115;117;98]] |});
    ([[111;117;116]], NDir); ([[105;110]; [115;117;98]; [110;101;119]], NDir); ([[105;110]; [115;117;98]; [110]], NDir)],
   None,
   [(CMkdir, CErr); (CMkdir, CErr); (CMkdir, COk); (CMkdir, CErr); (CMkdir, COk); (CMove, COk)]).
Proof. exact confined_move_applies. Qed.

(* ---------- the whole run: both passes ----------------------------------------------------------------------------- *)
From Tempren Require Import Pipe.Safety Pipe.SafetyFacts Pipe.DryEqualsReal Pipe.ConfinedRun.

(* Stop, Ignore, or Manual without "override" / "custom path"; every mode, dry or real, any fault.  Every entry that
   differs between the initial and the final tree lies at or below the input directory of some file of the plan,
   PROVIDED no symbolic link is moved during the run (third hypothesis from the end: the links of every state are
   those of the initial tree).  The deferred renames of the second pass are issued without a new containment test;
   what the tests of the first pass said stays true exactly as long as the links stay.  That the input directories
   stay their own real path follows from the two conditions on the plan (each is its own real path in the initial
   tree; none lies strictly below another: tempren has a single input directory). *)
Theorem C06_run_confined : forall c plan cwd s,
  c_var c = fixed -> WF s -> no_override c ->
  (forall f r, In (f, r) plan -> chdir s (pf_dir f) = Some (pf_dir f)) ->
  (forall f r f' r', In (f, r) plan -> In (f', r') plan ->
     is_prefix_path (pf_dir f) (pf_dir f') = true -> pf_dir f = pf_dir f') ->
  Forall (same_links s) (r_states (run c plan cwd s)) ->
  forall k n,
    (In (k, n) (r_final (run c plan cwd s)) /\ ~ In (k, n) s) \/ (In (k, n) s /\ ~ In (k, n) (r_final (run c plan cwd s))) ->
    exists f r, In (f, r) plan /\ is_prefix_path (pf_dir f) k = true.
Proof. exact run_confined_links_stable. Qed.
Print Assumptions C06_run_confined.

(* ... and the same for every intermediate state (after each successful rename / mkdir / move) *)
Theorem C06_every_state_confined : forall c plan cwd s,
  c_var c = fixed -> WF s -> no_override c ->
  (forall f r, In (f, r) plan -> chdir s (pf_dir f) = Some (pf_dir f)) ->
  (forall f r f' r', In (f, r) plan -> In (f', r') plan ->
     is_prefix_path (pf_dir f) (pf_dir f') = true -> pf_dir f = pf_dir f') ->
  Forall (same_links s) (r_states (run c plan cwd s)) ->
  forall h, In h (r_states (run c plan cwd s)) -> forall k n,
    (In (k, n) h /\ ~ In (k, n) s) \/ (In (k, n) s /\ ~ In (k, n) h) ->
    exists f r, In (f, r) plan /\ is_prefix_path (pf_dir f) k = true.
Proof. exact every_state_confined_links_stable. Qed.
Print Assumptions C06_every_state_confined.

(* a condition on the initial tree and the plan alone: no symbolic link at or below an input directory
   ([plan_static]); then no state of the run can have moved one *)
Theorem C06_run_confined_static : forall c plan cwd s,
  c_var c = fixed -> no_override c -> WF s -> plan_static plan s ->
  forall h, In h (r_final (run c plan cwd s) :: r_states (run c plan cwd s)) -> forall k n,
    (In (k, n) h /\ ~ In (k, n) s) \/ (In (k, n) s /\ ~ In (k, n) h) ->
    exists f r, In (f, r) plan /\ is_prefix_path (pf_dir f) k = true.
Proof. exact run_confined_static. Qed.
Print Assumptions C06_run_confined_static.

(* the most general form: [run_good] = in every state of the run each input directory is its own real path and the
   links are those of the initial tree; then the states form a chain of confined steps (a new directory, or a
   re-keying of an entry strictly below an input directory to a key at or below the same directory) *)
Theorem C06_run_is_chain_of_confined_steps : forall c plan cwd s,
  c_var c = fixed -> no_override c -> run_good c plan cwd s ->
  exists l, r_states (run c plan cwd s) = rev l /\ r_final (run c plan cwd s) = hd s l /\ chain (plan_dirs plan) s l.
Proof. exact run_is_chain. Qed.
Print Assumptions C06_run_is_chain_of_confined_steps.

Theorem C06_run_good_from_stable_links : forall c plan cwd s,
  c_var c = fixed -> no_override c -> WF s ->
  (forall f r, In (f, r) plan -> chdir s (pf_dir f) = Some (pf_dir f)) ->
  (forall f r f' r', In (f, r) plan -> In (f', r') plan ->
     is_prefix_path (pf_dir f) (pf_dir f') = true -> pf_dir f = pf_dir f') ->
  Forall (same_links s) (r_states (run c plan cwd s)) ->
  run_good c plan cwd s.
Proof. exact links_stable_run_good. Qed.
Print Assumptions C06_run_good_from_stable_links.

(* non-vacuity: a -> b is deferred (b is taken), b -> c, and the second pass renames a to b; a link outside /in *)
Example C06_run_confined_example :
  WF cr_fs /\ plan_static cr_plan cr_fs /\ no_override (cr_cfg MName) /\
  (let r := run (cr_cfg MName) cr_plan [] cr_fs in (r_status r, r_final r, r_calls r)) =
  (0%Z,
   [([n_in], NDir); ([n_in; n_b], NFile 1); ([n_in; cr_c], NFile 2); ([cr_out], NDir);
    ([cr_out; cr_l], NLink 3 {| up_abs := true; up_comps := [n_in] |})],
   [(CRename, COk); (CRename, COk)]).
Proof. exact confined_run_applies. Qed.

(* Finding F38 (fixed), the code BEFORE the repair ([pre_f38]: a deferred rename is retried without running the
   containment tests again): lnk/a -> b is deferred after all tests said yes; the plan then renames lnk away and puts a
   link to /out in its place; the retried rename moves /out/a to /out/b, status 0.  The current code runs the tests
   again and refuses: [C06_deferred_rename_is_retested] at the end of this file. *)
Example C06_deferred_rename_is_not_retested :
  WF swap_fs /\ chdir swap_fs [n_in] = Some [n_in] /\
  (let r := run (cr_cfg_v pre_f38 MName) swap_plan [] swap_fs in (r_status r, r_final r)) =
  (0%Z,
   [([n_in], NDir); ([n_in; n_sub], NDir); ([n_in; n_sub; n_a], NFile 1); ([n_in; n_sub; n_b], NFile 2);
    ([n_in; cr_lnk2], NLink 4 {| up_abs := false; up_comps := [n_sub] |});
    ([n_in; cr_lnk], NLink 5 {| up_abs := true; up_comps := [cr_out] |});
    ([cr_out], NDir); ([cr_out; n_b], NFile 3)]) /\
  is_prefix_path [n_in] [cr_out; n_b] = false /\ is_prefix_path [n_in] [cr_out; n_a] = false.
Proof. exact swap_run. Qed.

(* ---------- every conflict strategy: override, and the manual prompt with "override" and "custom path" ---------------- *)
From Tempren Require Import Pipe.DestParent Pipe.ConfinedOverride.

(* C06_run_confined without [no_override]: Stop, Ignore, Override, Manual with any answers; every mode, dry or real, any
   fault.  With override rename(2) REPLACES the destination: the entry there is removed, the source entry is re-keyed to
   it -- both keys at or below an input directory.  Name and directory mode need nothing more (the renamer insists on
   the source's parent, also for a custom path typed at the prompt).  In path mode the key of the entry that is
   replaced is realpath(generated path without its last component) ++ [last component] (rename(2) does not follow a
   symbolic link in the last component): below the input directory by the test on the directory of the destination
   entry.  Before the repair of F34 that test did not exist and the theorem needed "every symbolic link of the initial
   tree lies at or below an input directory" ([C06_override_link_destination_escapes]).  Path mode needs one thing:
   - at the manual prompt no "custom path" answer: a path typed there reaches the mover untested
     ([C06_custom_path_escapes_refuted]). *)
Theorem C06_run_confined_any_strategy : forall c plan cwd s,
  c_var c = fixed -> WF s ->
  (c_mode c = MPath -> c_strategy c = Manual -> Forall (fun a => parse_answer a <> ACustom) (c_answers c)) ->
  (forall f r, In (f, r) plan -> chdir s (pf_dir f) = Some (pf_dir f)) ->
  (forall f r f' r', In (f, r) plan -> In (f', r') plan ->
     is_prefix_path (pf_dir f) (pf_dir f') = true -> pf_dir f = pf_dir f') ->
  Forall (same_links s) (r_states (run c plan cwd s)) ->
  forall k n,
    (In (k, n) (r_final (run c plan cwd s)) /\ ~ In (k, n) s) \/ (In (k, n) s /\ ~ In (k, n) (r_final (run c plan cwd s))) ->
    exists f r, In (f, r) plan /\ is_prefix_path (pf_dir f) k = true.
Proof. exact run_confined_any_strategy. Qed.
Print Assumptions C06_run_confined_any_strategy.

(* ... and the same for every intermediate state *)
Theorem C06_every_state_confined_any_strategy : forall c plan cwd s,
  c_var c = fixed -> WF s ->
  (c_mode c = MPath -> c_strategy c = Manual -> Forall (fun a => parse_answer a <> ACustom) (c_answers c)) ->
  (forall f r, In (f, r) plan -> chdir s (pf_dir f) = Some (pf_dir f)) ->
  (forall f r f' r', In (f, r) plan -> In (f', r') plan ->
     is_prefix_path (pf_dir f) (pf_dir f') = true -> pf_dir f = pf_dir f') ->
  Forall (same_links s) (r_states (run c plan cwd s)) ->
  forall h, In h (r_states (run c plan cwd s)) -> forall k n,
    (In (k, n) h /\ ~ In (k, n) s) \/ (In (k, n) s /\ ~ In (k, n) h) ->
    exists f r, In (f, r) plan /\ is_prefix_path (pf_dir f) k = true.
Proof. exact every_state_confined_any_strategy. Qed.
Print Assumptions C06_every_state_confined_any_strategy.

(* a condition on the initial tree and the plan alone ([plan_static]: no symbolic link at or below an input directory;
   symbolic links elsewhere, pointing anywhere, are allowed) *)
Theorem C06_run_confined_static_any_strategy : forall c plan cwd s,
  c_var c = fixed -> WF s -> plan_static plan s ->
  (c_mode c = MPath -> c_strategy c = Manual -> Forall (fun a => parse_answer a <> ACustom) (c_answers c)) ->
  forall h, In h (r_final (run c plan cwd s) :: r_states (run c plan cwd s)) -> forall k n,
    (In (k, n) h /\ ~ In (k, n) s) \/ (In (k, n) s /\ ~ In (k, n) h) ->
    exists f r, In (f, r) plan /\ is_prefix_path (pf_dir f) k = true.
Proof. exact run_confined_static_any_strategy. Qed.
Print Assumptions C06_run_confined_static_any_strategy.

(* the states form a chain of steps: a new directory, a re-keying, a rename of an entry onto itself, or a replacing
   rename (removal of the entry at the destination key combined with the re-keying) *)
Theorem C06_run_is_chain_any_strategy : forall c plan cwd s,
  c_var c = fixed -> WF s -> plan_static plan s -> no_custom_in_path_mode c ->
  exists l, r_states (run c plan cwd s) = rev l /\ r_final (run c plan cwd s) = hd s l /\ chain2 (plan_dirs plan) s l.
Proof. exact run_is_chain_any_strategy. Qed.
Print Assumptions C06_run_is_chain_any_strategy.

(* every state of every run is a well-formed tree: any strategy, mode, answers, fault (rename(2) keeps the tree
   well-formed in each of its branches, replacing included) *)
Theorem C06_every_state_well_formed : forall c plan cwd s,
  WF s -> Forall WF (s :: r_states (run c plan cwd s)) /\ WF (r_final (run c plan cwd s)).
Proof. exact run_WF. Qed.
Print Assumptions C06_every_state_well_formed.

(* the hypotheses added are vacuous for the runs of C06_run_confined *)
Theorem C06_no_override_is_special_case : forall c,
  no_override c -> ~ overriding c /\ no_custom_in_path_mode c.
Proof. intros c NO. split; [exact (no_override_not_overriding c NO) | exact (no_override_no_custom c NO)]. Qed.
Print Assumptions C06_no_override_is_special_case.

(* non-vacuity under override: a -> b with b occupied by a file that is not selected; the second pass replaces it *)
Example C06_override_run_example :
  WF cr_fs /\ plan_static co_plan cr_fs /\ overriding (co_cfg MName Override []) /\
  (let r := run (co_cfg MName Override []) co_plan [] cr_fs in (r_status r, r_final r, r_calls r)) =
  (0%Z,
   [([n_in], NDir); ([n_in; n_b], NFile 1); ([cr_out], NDir);
    ([cr_out; cr_l], NLink 3 {| up_abs := true; up_comps := [n_in] |})],
   [(CRename, COk)]).
Proof. exact override_run_applies. Qed.

(* ... the same in path mode *)
Example C06_override_path_mode_example :
  WF po_fs /\ plan_static co_plan po_fs /\
  no_custom_in_path_mode (co_cfg MPath Override []) /\
  (let r := run (co_cfg MPath Override []) co_plan [] po_fs in (r_status r, r_final r, r_calls r)) =
  (0%Z, [([n_in], NDir); ([n_in; n_b], NFile 1); ([cr_out], NDir)], [(CMkdir, CErr); (CMove, COk)]).
Proof. exact override_path_mode_applies. Qed.

(* a custom path in name mode: a sibling name is used, a path into another directory is refused by the renamer *)
Example C06_custom_path_name_mode_example :
  (let r := run (co_cfg MName Manual [w_custom; co_c]) co_plan [] cr_fs in (r_status r, r_final r, r_calls r)) =
  (0%Z,
   [([n_in], NDir); ([n_in; co_c], NFile 1); ([n_in; n_b], NFile 2); ([cr_out], NDir);
    ([cr_out; cr_l], NLink 3 {| up_abs := true; up_comps := [n_in] |})],
   [(CRename, COk)]) /\
  (let r := run (co_cfg MName Manual [w_custom; co_up_x]) co_plan [] cr_fs in (r_status r, r_final r, r_calls r)) =
  (1%Z, cr_fs, []).
Proof. exact custom_path_name_mode. Qed.

(* "no custom path in path mode" cannot be dropped: "../x" typed at the prompt creates /x, status 0 *)
Example C06_custom_path_escapes_refuted :
  WF cr_fs /\ plan_static co_plan cr_fs /\ ~ overriding (co_cfg MPath Manual [w_custom; co_up_x]) /\
  (let r := run (co_cfg MPath Manual [w_custom; co_up_x]) co_plan [] cr_fs in (r_status r, r_final r, r_calls r, r_prompts r)) =
  (0%Z,
   [([n_in], NDir); ([[120]], NFile 1); ([n_in; n_b], NFile 2); ([cr_out], NDir);
    ([cr_out; cr_l], NLink 3 {| up_abs := true; up_comps := [n_in] |})],
   [(CMkdir, CErr); (CMove, COk)], 2%nat) /\
  ~ In ([[120]], NFile 1) cr_fs /\ is_prefix_path [n_in] [[120]] = false.
Proof. exact custom_path_escapes_refuted. Qed.

(* Finding F34 (fixed), the code BEFORE the repair ([pre_f34]: the current code without the test on the directory of
   the destination entry): in path mode with override the generated path "../out/l" names a link outside /in that
   points into /in; the containment test (Path.resolve()) accepts it, override replaces the link /out/l by the file,
   status 0 *)
Example C06_override_link_destination_escapes :
  WF lk_fs /\ plan_static lk_plan lk_fs /\
  contained pre_f34 lk_fs (cr_file [n_a]) (parse_path lk_dst) = Some true /\
  (let r := run (co_cfg_v pre_f34 MPath Override []) lk_plan [] lk_fs in (r_status r, r_final r, r_calls r)) =
  (0%Z,
   [([n_in], NDir); ([cr_out; cr_l], NFile 1); ([cr_out], NDir)],
   [(CMkdir, CErr); (CMove, COk)]) /\
  is_prefix_path [n_in] [cr_out; cr_l] = false /\
  (let r := run (co_cfg_v pre_f34 MPath Stop []) lk_plan [] lk_fs in (r_status r, r_final r, r_calls r)) = (1%Z, lk_fs, []).
Proof. exact override_link_destination_escapes. Qed.

(* ... and the current code on the same tree and plan: [contained] still says yes, the directory of the destination
   entry (/out) is outside: InvalidDestinationError, status 1, no call, no report line, the tree untouched *)
Example C06_override_link_destination_refused :
  contained fixed lk_fs (cr_file [n_a]) (parse_path lk_dst) = Some true /\
  dest_parent_contained lk_fs (cr_file [n_a]) (parse_path lk_dst) = Some false /\
  (let r := run (co_cfg MPath Override []) lk_plan [] lk_fs in (r_error r, r_status r, r_final r, r_calls r, r_report r)) =
  (Some ExInvalidDest, 1%Z, lk_fs, [], []) /\
  (let r := run (co_cfg MPath Stop []) lk_plan [] lk_fs in (r_error r, r_status r, r_final r, r_calls r, r_report r)) =
  (Some ExInvalidDest, 1%Z, lk_fs, [], []).
Proof. exact override_link_destination_refused. Qed.

(* what the new test means, and what it buys: the key of an EXISTING destination entry -- the one a replacing rename
   removes; rename(2) does not follow a symbolic link in the last component -- lies at or below the input directory *)
Theorem C06_dest_parent_contained_spec : forall s f np,
  dest_parent_contained s f np = Some true <->
  exists a, realpath s [] (dest_parent f np) = Some a /\ exists r, a = pf_dir f ++ r.
Proof. exact dest_parent_contained_spec. Qed.
Print Assumptions C06_dest_parent_contained_spec.

Theorem C06_existing_destination_key_inside : forall s f np dp dn,
  chdir s (pf_dir f) = Some (pf_dir f) ->
  dest_parent_contained s f np = Some true ->
  bad_last (to_upath np) = false ->
  resolve s (pf_dir f) (to_upath np) false = WFound dp dn ->
  is_prefix_path (pf_dir f) dp = true.
Proof. exact dest_key_inside. Qed.
Print Assumptions C06_existing_destination_key_inside.

(* ---- the whole program (Whole/Main.v [tempren_main]; proofs: Whole/PipelineProps.v) ---- *)
From Coq Require Import Permutation.
From Tempren Require Import Pipe.FrontCompile Whole.Library Whole.Render Whole.Gather Whole.Main Whole.Facts Whole.PipelineProps
  Whole.Examples.

(* [input_roots o s dirs]: the directories the gathered files are relative to - the real path of each input directory
   ([chdir], symbolic links in the input path followed); in directory mode without -r, where the input directories
   THEMSELVES are renamed, the real path of the parent of each input directory. *)
Theorem C06_whole_roots : forall o s dirs p,
  In p (input_roots o s dirs) <->
  exists d, In d dirs /\
    if explicit_mode o then chdir s d <> None /\ d <> [] /\ chdir s (removelast d) = Some p
    else chdir s d = Some p.
Proof. exact input_roots_spec. Qed.
Print Assumptions C06_whole_roots.

(* For EVERY template text (compiling or not, whatever it renders: absolute paths, "..", paths through links),
   registry, mode, STRATEGY (override and the manual prompt included), -r, -ih, sort, dry or real, fault index, listing
   order, and every tree with ordinary names ([tree_ok]; symbolic links allowed elsewhere): every entry that differs
   between the initial tree and ANY state of the run (the final one included) lies at or below a root.
   Hypotheses, exactly those of the plan-level theorem C06_run_confined_static_any_strategy read on the program's own
   plan: no root strictly below another root ([roots_not_nested], a hypothesis on the input paths); no symbolic link at
   or below a root ([no_links_below]); in path mode no "custom path" answer at the manual prompt.  That every gathered
   file's directory is its own real path ([chdir s (pf_dir f) = Some (pf_dir f)]) is proved, not assumed. *)
Theorem C06_whole_confined : forall upper lower R o text dirs s,
  tree_ok s -> (forall l, Permutation l (o_listing o l)) ->
  roots_not_nested (input_roots o s dirs) -> no_links_below (input_roots o s dirs) s ->
  (o_mode o = MPath -> o_strategy o = Manual -> Forall (fun a => parse_answer a <> ACustom) (o_answers o)) ->
  let r := tempren_main upper lower R o text dirs s in
  forall h, In h (r_final r :: r_states r) -> forall k n,
    (In (k, n) h /\ ~ In (k, n) s) \/ (In (k, n) s /\ ~ In (k, n) h) ->
    exists p, In p (input_roots o s dirs) /\ is_prefix_path p k = true.
Proof. exact whole_confined_static. Qed.
Print Assumptions C06_whole_confined.

(* the form with the hypothesis on the run instead of on the tree (as C06_run_confined_any_strategy): symbolic links
   anywhere, provided no state of the run has moved one *)
Theorem C06_whole_confined_same_links : forall upper lower R o text dirs s,
  tree_ok s -> (forall l, Permutation l (o_listing o l)) ->
  roots_not_nested (input_roots o s dirs) ->
  (o_mode o = MPath -> o_strategy o = Manual -> Forall (fun a => parse_answer a <> ACustom) (o_answers o)) ->
  let r := tempren_main upper lower R o text dirs s in
  Forall (same_links s) (r_states r) ->
  forall h, In h (r_final r :: r_states r) -> forall k n,
    (In (k, n) h /\ ~ In (k, n) s) \/ (In (k, n) s /\ ~ In (k, n) h) ->
    exists p, In p (input_roots o s dirs) /\ is_prefix_path p k = true.
Proof. exact whole_confined_same_links. Qed.
Print Assumptions C06_whole_confined_same_links.

Theorem C06_whole_hypotheses_spelled_out : forall D s,
  (roots_not_nested D <-> forall p p', In p D -> In p' D -> is_prefix_path p p' = true -> p = p') /\
  (no_links_below D s <-> forall k i t p, In (k, NLink i t) s -> In p D -> is_prefix_path p k = false) /\
  (roots_not_nested_b D = true -> roots_not_nested D) /\
  (no_links_below_b D s = true -> no_links_below D s).
Proof. exact confined_hypotheses_spec. Qed.
Print Assumptions C06_whole_hypotheses_spelled_out.

(* n/%Name() in path mode, -r, on the example tree: a directory is made and four files are moved, all below in/ *)
Definition t_n_name : str := [110; 47; 37; 78; 97; 109; 101; 40; 41].

Example C06_whole_example :
  let o := ex_options MPath true false in
  let r := ex_main o t_n_name ex_dirs ex_tree in
  input_roots o ex_tree ex_dirs = [[Examples.ex_in]] /\
  input_roots (ex_options MDirectory false false) ex_tree ex_dirs = [[]] /\
  r_status r = 0%Z /\ length (r_states r) = 5%nat /\
  lookup (r_final r) [Examples.ex_in; [110]; [99]] = Some (NFile 4) /\
  lookup (r_final r) [Examples.ex_in; [115]; [99]] = None /\
  lookup (r_final r) [[111; 116; 104; 101; 114]; [122]] = Some (NFile 6).
Proof. vm_compute. repeat split; reflexivity. Qed.

Example C06_whole_example_by_theorem :
  forall h, In h (r_final (tempren_main ascii_upper_str ascii_lower_str core_reg (ex_options MPath true false) t_n_name ex_dirs ex_tree) ::
                  r_states (tempren_main ascii_upper_str ascii_lower_str core_reg (ex_options MPath true false) t_n_name ex_dirs ex_tree)) ->
  forall k n,
    (In (k, n) h /\ ~ In (k, n) ex_tree) \/ (In (k, n) ex_tree /\ ~ In (k, n) h) ->
    is_prefix_path [Examples.ex_in] k = true.
Proof.
  intros h Ih k n D.
  destruct (C06_whole_confined ascii_upper_str ascii_lower_str core_reg (ex_options MPath true false) t_n_name ex_dirs ex_tree)
    with (h := h) (k := k) (n := n) as (p & Ip & Pp).
  - apply tree_ok_b_sound. vm_compute. reflexivity.
  - exact permutes_id.
  - apply roots_not_nested_b_sound. vm_compute. reflexivity.
  - apply no_links_below_b_sound. vm_compute. reflexivity.
  - intros _ St. discriminate St.
  - exact Ih.
  - exact D.
  - assert (E : input_roots (ex_options MPath true false) ex_tree ex_dirs = [[Examples.ex_in]]) by (vm_compute; reflexivity).
    rewrite E in Ip. destruct Ip as [<-|[]]. exact Pp.
Qed.

(* ---------- F38 (fixed): deferred renames are tested again before they are retried --------------------------------- *)
From Tempren Require Import Pipe.BacklogVerify.

(* the second pass runs, on the tree as it is when the deferred entry is retried, exactly the tests of the first pass
   ([verify_destination]: the four tests as one verdict) on the entry read as the file (input directory, source) ... *)
Theorem C06_deferred_retest_is_first_pass_test : forall c d src dst s,
  v_backlog_recheck (c_var c) = true ->
  backlog_verify (c_var c) s d src dst = verify_destination (c_var c) s {| pf_dir := d; pf_rel := src |} dst.
Proof. exact deferred_retest_is_first_pass_test. Qed.
Print Assumptions C06_deferred_retest_is_first_pass_test.

Theorem C06_first_pass_runs_verify_destination : forall c f r rest w cwd backlog,
  first_pass c ((f, r) :: rest) w cwd backlog =
  match chdir (w_fs w) (pf_dir f) with
  | None => (w, cwd, backlog, Some ExOther)
  | Some cwd1 =>
    match generate (c_mode c) f r with
    | inr e => (w, cwd1, backlog, Some e)
    | inl np =>
      if ppath_eqb np (pf_rel f) then first_pass c rest w cwd1 backlog
      else match verify_destination (c_var c) (w_fs w) f np with
           | Some e => (w, cwd1, backlog, Some e)
           | None =>
             match renamer c w cwd1 (pf_rel f) np false with
             | (w1, None) => first_pass c rest w1 cwd1 backlog
             | (w1, Some e) =>
               if is_file_exists e then first_pass c rest w1 cwd1 ((pf_dir f, pf_rel f, np) :: backlog)
               else (w1, cwd1, backlog, Some e)
             end
           end
    end
  end.
Proof. exact first_pass_verify. Qed.
Print Assumptions C06_first_pass_runs_verify_destination.

(* ... and a deferred entry that fails them ends the run before anything is touched: the world is exactly as it was
   when the entry came up, the error is InvalidDestinationError (status 1) or, on a symlink loop, "other" (126) *)
Theorem C06_deferred_refused_before_touch : forall c d src dst rest w cwd cwd1 e,
  (if v_backlog_chdir (c_var c) then chdir (w_fs w) d else Some cwd) = Some cwd1 ->
  backlog_verify (c_var c) (w_fs w) d src dst = Some e ->
  second_pass c ((d, src, dst) :: rest) w cwd = (w, cwd1, Some e) /\ (e = ExOther \/ e = ExInvalidDest).
Proof. exact deferred_refused_before_touch. Qed.
Print Assumptions C06_deferred_refused_before_touch.

(* the plan of [C06_deferred_rename_is_not_retested] under the current code: when lnk/a -> b is retried, lnk leads to
   /out; the run ends with InvalidDestinationError (status 1) after the two renames of the links inside /in, and
   every entry outside the input directory is as it was *)
Example C06_deferred_rename_is_retested :
  (let r := run (cr_cfg MName) swap_plan [] swap_fs in (r_status r, r_error r, r_final r, r_calls r)) =
  (1%Z, Some ExInvalidDest,
   [([n_in], NDir); ([n_in; n_sub], NDir); ([n_in; n_sub; n_a], NFile 1); ([n_in; n_sub; n_b], NFile 2);
    ([n_in; cr_lnk2], NLink 4 {| up_abs := false; up_comps := [n_sub] |});
    ([n_in; cr_lnk], NLink 5 {| up_abs := true; up_comps := [cr_out] |});
    ([cr_out], NDir); ([cr_out; n_a], NFile 3)],
   [(CRename, COk); (CRename, COk)]) /\
  (forall k n, is_prefix_path [n_in] k = false ->
     (In (k, n) (r_final (run (cr_cfg MName) swap_plan [] swap_fs)) <-> In (k, n) swap_fs)).
Proof. exact swap_run_retested. Qed.

(* ---------- with the re-test in place, the symbolic links may move -------------------------------------------------------- *)
From Tempren Require Import Pipe.ConfinedRetest.

(* Every rename of a non-override run is now issued right after its tests said yes on the CURRENT tree, so the hypothesis
   [Forall (same_links s) (r_states ...)] of [C06_run_confined_links_stable] is not needed: a run of the current code
   (any mode, Stop / Ignore / Manual without "override", dry or real, any fault, any plan, any tree - symbolic links
   anywhere, moved by the run or not) changes nothing outside the input directories of its plan, provided every input
   directory is its own real path in the initial tree and no input directory lies inside another one. *)
Theorem C06_run_confined_retest : forall c plan cwd s,
  c_var c = fixed -> WF s -> no_override c ->
  (forall f r, In (f, r) plan -> chdir s (pf_dir f) = Some (pf_dir f)) ->
  (forall f r f' r', In (f, r) plan -> In (f', r') plan ->
     is_prefix_path (pf_dir f) (pf_dir f') = true -> pf_dir f = pf_dir f') ->
  forall k n,
    (In (k, n) (r_final (run c plan cwd s)) /\ ~ In (k, n) s) \/ (In (k, n) s /\ ~ In (k, n) (r_final (run c plan cwd s))) ->
    exists f r, In (f, r) plan /\ is_prefix_path (pf_dir f) k = true.
Proof. exact run_confined_retest. Qed.
Print Assumptions C06_run_confined_retest.

(* ... and so does every intermediate state *)
Theorem C06_every_state_confined_retest : forall c plan cwd s,
  c_var c = fixed -> WF s -> no_override c ->
  (forall f r, In (f, r) plan -> chdir s (pf_dir f) = Some (pf_dir f)) ->
  (forall f r f' r', In (f, r) plan -> In (f', r') plan ->
     is_prefix_path (pf_dir f) (pf_dir f') = true -> pf_dir f = pf_dir f') ->
  forall h, In h (r_states (run c plan cwd s)) -> forall k n,
    (In (k, n) h /\ ~ In (k, n) s) \/ (In (k, n) s /\ ~ In (k, n) h) ->
    exists f r, In (f, r) plan /\ is_prefix_path (pf_dir f) k = true.
Proof. exact every_state_confined_retest_static. Qed.
Print Assumptions C06_every_state_confined_retest.

(* the general form: whenever every input directory is its own real path in every state of the run *)
Theorem C06_every_state_confined_dirs_real : forall c plan cwd s,
  c_var c = fixed -> no_override c ->
  Forall (dirs_real (plan_dirs plan)) (s :: r_states (run c plan cwd s)) ->
  forall h, In h (r_final (run c plan cwd s) :: r_states (run c plan cwd s)) -> changes_in (plan_dirs plan) s h.
Proof. exact every_state_confined_retest. Qed.
Print Assumptions C06_every_state_confined_dirs_real.

(* non-vacuity: the theorem applies to the plan of F38 (links are moved by that run) *)
Example C06_retest_theorem_applies_to_f38_plan :
  forall k n,
    (In (k, n) (r_final (run (cr_cfg MName) swap_plan [] swap_fs)) /\ ~ In (k, n) swap_fs) \/
    (In (k, n) swap_fs /\ ~ In (k, n) (r_final (run (cr_cfg MName) swap_plan [] swap_fs))) ->
    exists f r, In (f, r) swap_plan /\ is_prefix_path (pf_dir f) k = true.
Proof. exact swap_run_confined. Qed.

(* ---------- ... for ANY conflict strategy, and for the whole program -------------------------------------------------------- *)
From Tempren Require Import Pipe.ConfinedRetestOverride Whole.ConfinedRetestWhole.

(* [C06_run_confined_any_strategy] without its hypothesis [Forall (same_links s) (r_states ...)]: override and the manual
   prompt's "override" / "custom path" (outside path mode) included.  The only calls between the re-test of a deferred
   entry and a rename issued by its conflict resolution are the mkdir -p of the attempt that ended in the conflict; they
   only add directories, and realpath answers the same afterwards. *)
Theorem C06_run_confined_any_strategy_retest : forall c plan cwd s,
  c_var c = fixed -> WF s ->
  (c_mode c = MPath -> c_strategy c = Manual -> Forall (fun a => parse_answer a <> ACustom) (c_answers c)) ->
  (forall f r, In (f, r) plan -> chdir s (pf_dir f) = Some (pf_dir f)) ->
  (forall f r f' r', In (f, r) plan -> In (f', r') plan ->
     is_prefix_path (pf_dir f) (pf_dir f') = true -> pf_dir f = pf_dir f') ->
  forall k n,
    (In (k, n) (r_final (run c plan cwd s)) /\ ~ In (k, n) s) \/ (In (k, n) s /\ ~ In (k, n) (r_final (run c plan cwd s))) ->
    exists f r, In (f, r) plan /\ is_prefix_path (pf_dir f) k = true.
Proof. exact run_confined_any_strategy_retest. Qed.
Print Assumptions C06_run_confined_any_strategy_retest.

Theorem C06_every_state_confined_any_strategy_retest : forall c plan cwd s,
  c_var c = fixed -> WF s ->
  (c_mode c = MPath -> c_strategy c = Manual -> Forall (fun a => parse_answer a <> ACustom) (c_answers c)) ->
  (forall f r, In (f, r) plan -> chdir s (pf_dir f) = Some (pf_dir f)) ->
  (forall f r f' r', In (f, r) plan -> In (f', r') plan ->
     is_prefix_path (pf_dir f) (pf_dir f') = true -> pf_dir f = pf_dir f') ->
  forall h, In h (r_states (run c plan cwd s)) -> forall k n,
    (In (k, n) h /\ ~ In (k, n) s) \/ (In (k, n) s /\ ~ In (k, n) h) ->
    exists f r, In (f, r) plan /\ is_prefix_path (pf_dir f) k = true.
Proof. exact every_state_confined_any_strategy_retest. Qed.
Print Assumptions C06_every_state_confined_any_strategy_retest.

(* the whole program ([C06_whole_confined]) without [no_links_below] and without [same_links]: symbolic links anywhere
   in the tree, at or below the roots included, moved by the run or not *)
Theorem C06_whole_confined_retest : forall upper lower R o text dirs s,
  tree_ok s -> (forall l, Permutation l (o_listing o l)) ->
  roots_not_nested (input_roots o s dirs) ->
  (o_mode o = MPath -> o_strategy o = Manual -> Forall (fun a => parse_answer a <> ACustom) (o_answers o)) ->
  let r := tempren_main upper lower R o text dirs s in
  forall h, In h (r_final r :: r_states r) -> forall k n,
    (In (k, n) h /\ ~ In (k, n) s) \/ (In (k, n) s /\ ~ In (k, n) h) ->
    exists p, In p (input_roots o s dirs) /\ is_prefix_path p k = true.
Proof. exact whole_confined_retest. Qed.
Print Assumptions C06_whole_confined_retest.
