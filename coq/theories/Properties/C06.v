(* C06 — renames stay inside the input directory and respect the mode.  Statements only. *)
From Tempren Require Import Base.Str Py.PathLib FS.Model FS.Lemmas Pipe.Pipeline Pipe.Confine Pipe.DryRun Pipe.Scenarios.
Open Scope N_scope.

(* A generated path that resolves outside the input directory of its file ends the run with
   InvalidDestinationError (exit status 1) with the world exactly as it was when that file came up:
   no call, no report line, nothing deferred — for every mode, strategy, plan, tree. *)
Theorem C06_refused_before_touch : forall c f r rest w cwd bl cwd1 np,
  chdir (w_fs w) (pf_dir f) = Some cwd1 ->
  generate (c_mode c) f r = inl np -> ppath_eqb np (pf_rel f) = false ->
  contained (c_var c) (w_fs w) f np = Some false ->
  first_pass c ((f, r) :: rest) w cwd bl = (w, cwd1, bl, Some ExInvalidDest).
Proof. exact refused_before_touch. Qed.
Print Assumptions C06_refused_before_touch.

(* ... and likewise when a directory that would have to be created on the way lies outside *)
Theorem C06_refused_when_new_directories_escape : forall c f r rest w cwd bl cwd1 np,
  chdir (w_fs w) (pf_dir f) = Some cwd1 ->
  generate (c_mode c) f r = inl np -> ppath_eqb np (pf_rel f) = false ->
  contained (c_var c) (w_fs w) f np = Some true ->
  parents_contained (w_fs w) f np = Some false ->
  first_pass c ((f, r) :: rest) w cwd bl = (w, cwd1, bl, Some ExInvalidDest).
Proof. exact refused_when_new_directories_escape. Qed.
Print Assumptions C06_refused_when_new_directories_escape.

Theorem C06_refusal_is_status_1 : status_of ExInvalidDest = 1%Z.
Proof. exact invalid_dest_is_status_1. Qed.
Print Assumptions C06_refusal_is_status_1.

(* the renamer is reached for a file only after both containment tests succeeded *)
Theorem C06_renamer_reached_only_inside : forall c f r rest w cwd bl np cwd1,
  chdir (w_fs w) (pf_dir f) = Some cwd1 ->
  generate (c_mode c) f r = inl np -> ppath_eqb np (pf_rel f) = false ->
  (contained (c_var c) (w_fs w) f np = Some true /\ parents_contained (w_fs w) f np = Some true) \/
  (exists e, first_pass c ((f, r) :: rest) w cwd bl = (w, cwd1, bl, Some e)).
Proof. exact renamer_reached_only_inside. Qed.
Print Assumptions C06_renamer_reached_only_inside.

(* "contained" = the destination resolved as Path.resolve() does lies at or below the input directory,
   component by component *)
Theorem C06_contained_spec : forall s f np,
  contained fixed s f np = Some true <->
  exists a, realpath s [] (dest_target f np) = Some a /\ exists r, a = pf_dir f ++ r.
Proof. exact contained_spec. Qed.
Print Assumptions C06_contained_spec.

(* a sibling directory whose name merely extends the input directory's name is NOT inside ... *)
Theorem C06_lookalike_sibling_is_outside : forall (d : rpath) (x sfx : name) (rest : rpath),
  sfx <> [] -> is_prefix_path (d ++ [x]) (d ++ (x ++ sfx) :: rest) = false.
Proof. exact component_wise_rejects_lookalike. Qed.
Print Assumptions C06_lookalike_sibling_is_outside.

(* ... while the string-prefix test used before the fix accepted every such sibling *)
Theorem C06_string_prefix_accepted_lookalike : forall (d : rpath) (x sfx : name) (rest : rpath),
  str_prefix_path (d ++ [x]) (d ++ (x ++ sfx) :: rest) = true.
Proof. exact string_prefix_accepts_lookalike. Qed.
Print Assumptions C06_string_prefix_accepted_lookalike.

(* name and directory mode: a rename is only ever issued between two paths with the same parent *)
Theorem C06_name_mode_same_parent : forall v flt w cwd src dst o w' e,
  file_renamer v flt w cwd src dst o = (w', e) -> w_n w' <> w_n w -> pp_parent src = pp_parent dst.
Proof. exact name_mode_same_parent. Qed.
Print Assumptions C06_name_mode_same_parent.

Theorem C06_name_generator_keeps_parent : forall m f t np,
  m <> MPath -> generate m f (RText t) = inl np -> pp_parent np = pp_parent (pf_rel f) /\ pp_name np = t.
Proof. exact name_generator_keeps_parent. Qed.
Print Assumptions C06_name_generator_keeps_parent.

(* an empty name, "." or a name containing a separator is refused (InvalidDestinationError) *)
Theorem C06_bad_name_refused : forall m f t,
  m <> MPath -> (t = [] \/ t = [dot] \/ has_slash t = true) -> generate m f (RText t) = inr ExInvalidDest.
Proof. exact bad_name_refused. Qed.
Print Assumptions C06_bad_name_refused.

(* under dry-run nothing is touched at all (C04), in particular nothing outside *)
Theorem C06_dry_run_touches_nothing : forall c plan cwd s,
  c_dry c = true -> r_final (run c plan cwd s) = s /\ r_states (run c plan cwd s) = [] /\ r_calls (run c plan cwd s) = [].
Proof. exact dry_run_touches_nothing. Qed.
Print Assumptions C06_dry_run_touches_nothing.

(* Finding F8 (fixed): with the string-prefix test the file leaves 'in' for the sibling 'in2' with status 0;
   the current code refuses with status 1 and no call.  Finding F26 (fixed): '../new/../in/a.x' is refused. *)
Example C06_string_prefix_refuted :
  r_status (run (f8_cfg string_prefix_containment false) f8_plan [] f8_fs) = 0%Z /\
  length (r_calls (run (f8_cfg string_prefix_containment false) f8_plan [] f8_fs)) = 2%nat /\
  r_status (run (f8_cfg fixed false) f8_plan [] f8_fs) = 1%Z /\
  r_calls (run (f8_cfg fixed false) f8_plan [] f8_fs) = [] /\
  r_status (run (f26_cfg fixed false) f26_plan [] f26_fs) = 1%Z /\
  r_calls (run (f26_cfg fixed false) f26_plan [] f26_fs) = [].
Proof. vm_compute. repeat split. Qed.
