(* C12 — tag names resolve deterministically and never to the wrong tag.            *)
(* Statements only; every proof is [exact <lemma>].  Model: Tpl/Registry.v           *)
(* (registrations = list of (category spelling, tag name, factory id) applied in     *)
(* order to the TagRegistry; [get_in regs q] = TagRegistry.get_tag_factory after     *)
(* the fix of F19; [valid] = what register_category / register_tag_factory enforce). *)
From Coq Require Import Permutation Sorted.
From Tempren Require Import Base.Str Tpl.Registry Tpl.RegistryProofs.
Open Scope N_scope.

(* [valid] is exactly acceptance by the code: the registrations raise no ValueError
   iff no category is spelled in two ways and no tag is registered twice in a category. *)
Theorem C12_valid_iff_accepted : forall regs, build regs <> None <-> valid regs.
Proof. exact build_iff_valid. Qed.
Print Assumptions C12_valid_iff_accepted.

(* Refinement: on accepted registrations the dictionary-shaped lookup of the code equals
   the declarative specification [spec_get], which only filters the registrations. *)
Theorem C12_refines_spec : forall regs q, valid regs -> get_in regs q = spec_get regs q.
Proof. exact get_in_spec. Qed.
Print Assumptions C12_refines_spec.

(* Every registered tag is reachable as Category.Tag with the category in any letter case. *)
Theorem C12_qualified_any_case : forall regs c t f,
  valid regs -> In (c, t, f) regs ->
  forall c', lower c' = lower c -> get_in regs (Some c', t) = ROk f.
Proof. exact qualified_any_case. Qed.
Print Assumptions C12_qualified_any_case.

Theorem C12_qualified_case_variant : forall regs c t f,
  valid regs -> In (c, t, f) regs ->
  forall c', case_variant c' c -> get_in regs (Some c', t) = ROk f.
Proof. exact qualified_case_variant. Qed.
Print Assumptions C12_qualified_case_variant.

(* ... and by its bare name exactly when the name occurs in one category. *)
Theorem C12_bare_unique : forall regs c t f,
  valid regs -> In (c, t, f) regs ->
  (forall c2 f2, In (c2, t, f2) regs -> c2 = c) ->
  get_in regs (None, t) = ROk f.
Proof. exact bare_unique. Qed.
Print Assumptions C12_bare_unique.

(* A bare name present in several categories is rejected; the error carries the sorted
   list of the categories ... *)
Theorem C12_bare_ambiguous : forall regs t c1 f1 c2 f2,
  valid regs -> In (c1, t, f1) regs -> In (c2, t, f2) regs -> c1 <> c2 ->
  get_in regs (None, t) = RAmbiguous (sort_strs (cats_of t regs)).
Proof. exact bare_ambiguous. Qed.
Print Assumptions C12_bare_ambiguous.

(* ... which lists exactly all the categories having that name, in sorted order. *)
Theorem C12_ambiguous_lists_all : forall regs t c,
  In c (sort_strs (cats_of t regs)) <-> exists f, In (c, t, f) regs.
Proof. exact ambiguous_lists_all. Qed.
Print Assumptions C12_ambiguous_lists_all.

Theorem C12_ambiguous_sorted : forall l, Sorted str_le (sort_strs l).
Proof. exact sort_strs_sorted. Qed.
Print Assumptions C12_ambiguous_sorted.

(* Unknown categories and names are rejected ... *)
Theorem C12_unknown_category : forall regs c' t,
  valid regs -> (forall c t0 f, In (c, t0, f) regs -> lower c <> lower c') ->
  get_in regs (Some c', t) = RUnknownCategory.
Proof. exact unknown_category. Qed.
Print Assumptions C12_unknown_category.

Theorem C12_unknown_name_qualified : forall regs c c' t0 f0 t,
  valid regs -> In (c, t0, f0) regs -> lower c' = lower c ->
  (forall c2 f, lower c2 = lower c' -> ~ In (c2, t, f) regs) ->
  get_in regs (Some c', t) = RUnknownName.
Proof. exact unknown_name_qualified. Qed.
Print Assumptions C12_unknown_name_qualified.

Theorem C12_unknown_name_bare : forall regs t,
  valid regs -> (forall c f, ~ In (c, t, f) regs) -> get_in regs (None, t) = RUnknownName.
Proof. exact unknown_name_bare. Qed.
Print Assumptions C12_unknown_name_bare.

(* ... with the offending part located: in the template  pre % [Category .] Name post  the
   reported (column, length) cuts out exactly the category (unknown category) or exactly
   the tag name (unknown name), at its own position. *)
Theorem C12_location_unknown_category : forall pre post c t,
  let q := (Some c, t) in
  let text := pre ++ [37] ++ qname_text q ++ post in
  exists col n, error_location (len pre + 1) q RUnknownCategory = Some (col, n) /\
                slice col n text = c /\ col = len (pre ++ [37]).
Proof. exact location_unknown_category. Qed.
Print Assumptions C12_location_unknown_category.

Theorem C12_location_unknown_name_qualified : forall pre post c t,
  let q := (Some c, t) in
  let text := pre ++ [37] ++ qname_text q ++ post in
  exists col n, error_location (len pre + 1) q RUnknownName = Some (col, n) /\
                slice col n text = t /\ col = len (pre ++ [37] ++ c ++ [46]).
Proof. exact location_unknown_name_qualified. Qed.
Print Assumptions C12_location_unknown_name_qualified.

Theorem C12_location_unknown_name_bare : forall pre post t,
  let q := (@None str, t) in
  let text := pre ++ [37] ++ qname_text q ++ post in
  exists col n, error_location (len pre + 1) q RUnknownName = Some (col, n) /\
                slice col n text = t /\ col = len (pre ++ [37]).
Proof. exact location_unknown_name_bare. Qed.
Print Assumptions C12_location_unknown_name_bare.

(* Tag names stay case-sensitive: a spelling that is not registered in the category never
   resolves, whatever other spellings (equal after lower-casing) are registered there. *)
Theorem C12_case_sensitive_tags : forall regs c' t',
  (forall c2 f, lower c2 = lower c' -> ~ In (c2, t', f) regs) ->
  forall f, get_in regs (Some c', t') <> ROk f.
Proof. exact case_sensitive_tags. Qed.
Print Assumptions C12_case_sensitive_tags.

Theorem C12_case_sensitive_tags_bare : forall regs t',
  (forall c f, ~ In (c, t', f) regs) -> forall f, get_in regs (None, t') <> ROk f.
Proof. exact case_sensitive_tags_bare. Qed.
Print Assumptions C12_case_sensitive_tags_bare.

(* Resolution never depends on registration order (results are equal on the nose: same
   factory, same error, same category list), for accepted and for refused registrations. *)
Theorem C12_order_independent : forall regs regs',
  Permutation regs regs' -> valid regs -> forall q, get_in regs q = get_in regs' q.
Proof. exact order_independent. Qed.
Print Assumptions C12_order_independent.

Theorem C12_order_independent_any : forall regs regs',
  Permutation regs regs' -> forall q, get_in regs q = get_in regs' q.
Proof. exact order_independent_any. Qed.
Print Assumptions C12_order_independent_any.

(* Never the wrong tag: whatever resolves was registered under that very tag name, in the
   category asked for (up to letter case) when one was given. *)
Theorem C12_never_wrong : forall regs q f,
  get_in regs q = ROk f ->
  exists c, In (c, snd q, f) regs /\ (forall c', fst q = Some c' -> lower c = lower c').
Proof. exact never_wrong. Qed.
Print Assumptions C12_never_wrong.

(* The lookup of the unchanged tree (exact key, then the lower-cased QUERY against the
   unnormalised keys) violates C12_qualified_any_case: with the category registered as
   AdHoc, the spelling Adhoc that --list-tags prints is an unknown category (F19). *)
Theorem C12_exact_then_lower_refuted :
  exists regs c t f c',
    valid regs /\ In (c, t, f) regs /\ lower c' = lower c /\
    pre_get_in regs (Some c', t) = RUnknownCategory /\
    get_in regs (Some c', t) = ROk f.
Proof. exact exact_then_lower_refuted. Qed.
Print Assumptions C12_exact_then_lower_refuted.

(* ---------- non-vacuity ---------------------------------------------------------- *)

Definition ex_core : str := [99; 111; 114; 101].          (* core  *)
Definition ex_CORE : str := [67; 79; 82; 69].              (* CORE  *)
Definition ex_Name : str := [78; 97; 109; 101].            (* Name  *)
Definition ex_name : str := [110; 97; 109; 101].           (* name  *)
Definition ex_Ext : str := [69; 120; 116].                 (* Ext   *)
Definition ex_Alias : str := [65; 108; 105; 97; 115].      (* Alias *)
Definition ex_regs : list reg_entry :=
  [(s_AdHoc, ex_Name, 1); (ex_core, ex_Name, 2); (ex_core, ex_Ext, 3); (ex_Alias, ex_Name, 4);
   (s_AdHoc, s_E, 5)].

(* a registry with shadowed names: accepted, every spelling of the category reaches the tag,
   the bare unique name resolves, the shadowed one is ambiguous with all three categories in
   code-point order, the wrong-case tag name is unknown and located, never the wrong tag *)
Example C12_example :
  build ex_regs <> None /\
  get_in ex_regs (Some s_adhoc, ex_Name) = ROk 1 /\
  get_in ex_regs (Some s_Adhoc, s_E) = ROk 5 /\
  get_in ex_regs (Some ex_CORE, ex_Name) = ROk 2 /\
  get_in ex_regs (None, ex_Ext) = ROk 3 /\
  get_in ex_regs (None, ex_Name) = RAmbiguous [s_AdHoc; ex_Alias; ex_core] /\
  get_in ex_regs (Some ex_CORE, ex_name) = RUnknownName /\
  error_location 3 (Some ex_CORE, ex_name) RUnknownName = Some (8, 4) /\
  get_in ex_regs (Some ex_Ext, ex_Name) = RUnknownCategory /\
  get_in (rev ex_regs) (None, ex_Name) = RAmbiguous [s_AdHoc; ex_Alias; ex_core] /\
  get_in (ex_regs ++ [(s_adhoc, ex_Ext, 6)]) (None, ex_Ext) = RInvalidRegistry /\
  fail_index (ex_regs ++ [(s_adhoc, ex_Ext, 6)]) = Some 5%nat.
Proof. vm_compute. repeat split; try reflexivity; discriminate. Qed.

Example C12_example_valid : valid ex_regs.
Proof. apply build_iff_valid. vm_compute. discriminate. Qed.

(* the pre-fix lookup on the same registry: lower-case and --list-tags spellings are refused *)
Example C12_example_prefix :
  pre_get_in ex_regs (Some s_AdHoc, s_E) = ROk 5 /\
  pre_get_in ex_regs (Some s_adhoc, s_E) = RUnknownCategory /\
  pre_get_in ex_regs (Some s_Adhoc, s_E) = RUnknownCategory /\
  pre_get_in ex_regs (Some ex_CORE, ex_Name) = ROk 2.
Proof. vm_compute. repeat split; reflexivity. Qed.

(* ---- the whole program (Whole/Main.v [tempren_main]; proofs in Whole/RegOrderWhole.v) ---- *)
From Tempren Require Import Py.PathLib Tpl.Alias FS.Model Pipe.Pipeline Pipe.FrontCompile.
From Tempren Require Import Whole.Library Whole.Render Whole.Gather Whole.Main Whole.RegOrderWhole Whole.Examples.

(* The compiler and the program read a registry value only through name resolution ([get], C12), what each factory
   is ([kind_of]) and the nesting depth. *)
Theorem C12_whole_reads_registry_through_get : forall upper lower R1 R2,
  (forall q, get (tr_names R1) q = get (tr_names R2) q) /\
  (forall f, kind_of R1 f = kind_of R2 f) /\
  tr_depth R1 = tr_depth R2 ->
  (forall text, compile R1 text = compile R2 text) /\
  forall o text dirs s, tempren_main upper lower R1 o text dirs s = tempren_main upper lower R2 o text dirs s.
Proof. exact reads_registry_through_get. Qed.
Print Assumptions C12_whole_reads_registry_through_get.

(* Registration order is invisible to the program.  rows = (category spelling, tag name, factory id) with what the
   factory is (a class tag: signature, require_context, configure's verdict - or an alias text); two lists of rows
   that are permutations of one another and both register (registration succeeds in every order or in none:
   C12_whole_registers_in_any_order) give registries on which EVERY template text compiles to the same bound tree or
   fails with the same error (in particular: compiles with one iff with the other), and on which the program gives
   the same result for every text, option, input list, tree and listing order.
   fid_functional: rows with one factory id carry one factory (an id is the identity of a TagFactory object); it
   holds when the ids are pairwise distinct (C12_whole_distinct_fids). *)
Theorem C12_whole_registration_order : forall upper lower d rows1 rows2 R1 R2,
  Permutation rows1 rows2 -> fid_functional rows1 ->
  tagreg_of_rows d rows1 = Some R1 -> tagreg_of_rows d rows2 = Some R2 ->
  (forall text, compile R1 text = compile R2 text) /\
  (forall text, compiles R1 text = compiles R2 text) /\
  (forall o text dirs s,
     tempren_main upper lower R1 o text dirs s = tempren_main upper lower R2 o text dirs s).
Proof. exact whole_registration_order. Qed.
Print Assumptions C12_whole_registration_order.

Theorem C12_whole_registers_in_any_order : forall d rows1 rows2 R1,
  Permutation rows1 rows2 -> tagreg_of_rows d rows1 = Some R1 -> exists R2, tagreg_of_rows d rows2 = Some R2.
Proof. exact rows_perm_register. Qed.
Print Assumptions C12_whole_registers_in_any_order.

Theorem C12_whole_distinct_fids : forall rows, NoDup (map row_fid rows) -> fid_functional rows.
Proof. exact NoDup_fid_functional. Qed.
Print Assumptions C12_whole_distinct_fids.

(* the core library (Whole/Library.v [core_rows]) registered in ANY order: a registry exists, and it is
   indistinguishable from [core_reg] for the compiler and for the program *)
Theorem C12_whole_core_any_order : forall upper lower rows,
  Permutation core_rows rows ->
  exists R, tagreg_of_rows core_depth rows = Some R /\
    (forall text, compile R text = compile core_reg text) /\
    (forall o text dirs s,
       tempren_main upper lower R o text dirs s = tempren_main upper lower core_reg o text dirs s).
Proof. exact whole_core_any_order. Qed.
Print Assumptions C12_whole_core_any_order.

(* the core rows reversed (Text.SplitCase first, Core.Name last): another registry value (the categories stand in
   the other order), the same compiled tree for %Upper{%Base()}_%Count(start=3,step=2)%Ext(), the same error for
   %Nme(), and the same run on the example tree *)
Example C12_whole_example :
  match tagreg_of_rows core_depth (rev core_rows) with
  | Some R =>
    map cat_name (tr_names R) = [s_Text; s_Core] /\ map cat_name (tr_names core_reg) = [s_Core; s_Text] /\
    compile R t_upper_count = compile core_reg t_upper_count /\ compiles R t_upper_count = true /\
    compile R t_unknown_tag = compile core_reg t_unknown_tag /\ compiles R t_unknown_tag = false /\
    let run X := tempren_main ascii_upper_str ascii_lower_str X (ex_options MName true true) t_upper_count ex_dirs ex_tree in
    run R = run core_reg /\ r_status (run R) = 0%Z /\ length (r_calls (run R)) = 4%nat
  | None => False
  end.
Proof. vm_compute. repeat split; reflexivity. Qed.
