(* C08 — files are processed in the order given by the sort expression;            *)
(* directory mode processes deeper directories before their ancestors.              *)
(* Statements only; every proof is [exact <lemma>].                                 *)
(*                                                                                  *)
(* Model: Py/Order.v (Python's ordering of int/bool/str/tuple/PosixPath values),    *)
(* Py/Sort.v (sorted(key=..., reverse=...) as a stable insertion sort; the two       *)
(* sorters of tempren/file_sorters.py), Tags/Count.v (the counter, from C16).        *)
(* Partial: that CPython's sorted (Timsort) IS a stable sort is trusted; what is     *)
(* proved is that a stable sorted rearrangement is unique, so the model's insertion  *)
(* sort computes the list every correct stable sort returns.                         *)
From Coq Require Import Permutation Sorted.
From Tempren Require Import Base.Str Py.Order Py.OrderProofs Py.Sort Py.SortProofs Py.SortPyProofs
  Tags.Count Tags.CountProofs.

(* ---- 1. the order on keys: Python's <= on values of one shape (numbers; strings; paths;
   tuples of these, also of different lengths) never raises and is a total preorder whose
   strict part is <.  A shape is what one sort expression produces for every file. *)
Theorem C08_py_le_total_on_kind : forall s a b c,
  in_shape s a -> in_shape s b -> in_shape s c ->
  py_le a a = Some true /\
  (py_le a b = Some true \/ py_le b a = Some true) /\
  (py_le a b = Some true -> py_le b c = Some true -> py_le a c = Some true) /\
  py_lt a b = option_map negb (py_le b a) /\
  (exists r, py_lt a b = Some r).
Proof. exact py_le_total_on_kind. Qed.
Print Assumptions C08_py_le_total_on_kind.

(* numbers compare numerically (10 after 9) ... *)
Theorem C08_numbers_numerically : forall x y, py_lt (VInt x) (VInt y) = Some (Z.ltb x y).
Proof. exact py_int_lt. Qed.
Print Assumptions C08_numbers_numerically.

(* ... strings lexicographically by code point ("10" before "9") ... *)
Theorem C08_strings_lexicographically : forall c d s t,
  py_lt (VStr (c :: s)) (VStr (d :: t)) = Some (if N.eqb c d then str_ltb s t else N.ltb c d).
Proof. exact py_str_lt_cons. Qed.
Print Assumptions C08_strings_lexicographically.

(* ... tuples element-wise: the first pair of unequal items decides, a proper prefix is smaller *)
Theorem C08_tuples_elementwise : forall x y la lb,
  py_comparable (VTuple (x :: la)) (VTuple (y :: lb)) = true ->
  py_lt (VTuple (x :: la)) (VTuple (y :: lb)) =
  if py_eqb x y then py_lt (VTuple la) (VTuple lb) else py_lt x y.
Proof. exact py_tuple_lt_cons. Qed.
Print Assumptions C08_tuples_elementwise.

Theorem C08_tuples_prefix : forall la x lb, py_lt (VTuple la) (VTuple (la ++ x :: lb)) = Some true.
Proof. exact py_tuple_lt_prefix. Qed.
Print Assumptions C08_tuples_prefix.

(* ---- 2. the sort: for ANY key function and ANY comparison that is a strict weak order on
   the set D the keys come from, [sort_by] returns a rearrangement of its input that is
   sorted in the requested direction and keeps equal keys in input order (also with
   reverse=True), for lists of any length. *)
Theorem C08_sort_by_spec : forall (A K : Type) (key : A -> K) (ltb : K -> K -> bool) (D : K -> Prop),
  (forall a b, D a -> D b -> ltb a b = true -> ltb b a = false) ->
  (forall a b c, D a -> D b -> D c -> ltb b a = false -> ltb c b = false -> ltb c a = false) ->
  forall (inv : bool) (l : list A),
  keys_in A K key D l ->
  let r := sort_by key ltb inv l in
  Permutation r l /\
  StronglySorted (le_dir key ltb inv) r /\
  stable_wrt key ltb D r l.
Proof. exact sort_by_spec. Qed.
Print Assumptions C08_sort_by_spec.

(* Any two sorted lists that keep every class of equal keys in the order of [l] are equal:
   there is exactly one correct result of a stable sort. *)
Theorem C08_stable_sorted_unique : forall (A K : Type) (key : A -> K) (ltb : K -> K -> bool) (D : K -> Prop),
  (forall a, D a -> ltb a a = false) ->
  forall (inv : bool) (l r1 r2 : list A),
  keys_in A K key D r1 -> keys_in A K key D r2 ->
  StronglySorted (le_dir key ltb inv) r1 -> stable_wrt key ltb D r1 l ->
  StronglySorted (le_dir key ltb inv) r2 -> stable_wrt key ltb D r2 l ->
  r1 = r2.
Proof. exact stable_sorted_unique. Qed.
Print Assumptions C08_stable_sorted_unique.

(* ---- 3. TemplateFileSorter: with the evaluated sort tuples of one shape, sorting never
   fails, and the processing order is a rearrangement of the sorter's input in
   non-decreasing order of Python's <= on the keys (non-increasing with --sort-invert),
   files with equal keys in the order they were gathered. *)
Theorem C08_processing_order : forall (A : Type) (key : A -> pyval) (s : shape) (inv : bool) (l : list A),
  keys_shaped A key s l ->
  exists r, template_sort key inv l = Some r /\
    Permutation r l /\
    StronglySorted (py_le_dir key inv) r /\
    stable_wrt key py_ltb (in_shape s) r l.
Proof. exact template_sort_spec. Qed.
Print Assumptions C08_processing_order.

(* and every list with these three properties is the model's result *)
Theorem C08_processing_order_unique : forall (A : Type) (key : A -> pyval) (s : shape) (inv : bool) (l r : list A),
  keys_shaped A key s l ->
  Permutation r l ->
  StronglySorted (py_le_dir key inv) r ->
  stable_wrt key py_ltb (in_shape s) r l ->
  template_sort key inv l = Some r.
Proof. exact template_sort_unique. Qed.
Print Assumptions C08_processing_order_unique.

(* ---- 4. sequence-dependent templates: %Count(common) gives the i-th processed file
   start + i*step; %Count() gives it start + k*step where k files of the same directory
   were processed before it (composition with C16's counter model). *)
Theorem C08_count_follows_order : forall (A : Type) (key : A -> pyval) (dir_of : A -> dirkey)
  (inv : bool) (l : list A) (c : count_cfg) (r : list A) (i : nat) (f : A),
  template_sort key inv l = Some r ->
  cc_common c = true ->
  nth_error r i = Some f ->
  nth_error (count_values c (map dir_of r)) i = Some (cc_start c + Z.of_nat i * cc_step c)%Z.
Proof. exact count_follows_order_common. Qed.
Print Assumptions C08_count_follows_order.

Theorem C08_count_follows_order_per_directory : forall (A : Type) (key : A -> pyval) (dir_of : A -> dirkey)
  (inv : bool) (l : list A) (c : count_cfg) (r : list A) (i : nat) (f : A),
  template_sort key inv l = Some r ->
  cc_common c = false ->
  nth_error r i = Some f ->
  nth_error (count_values c (map dir_of r)) i =
    Some (cc_start c + Z.of_nat (occ (dir_of f) (map dir_of (firstn i r))) * cc_step c)%Z.
Proof. exact count_follows_order_per_directory. Qed.
Print Assumptions C08_count_follows_order_per_directory.

(* ---- 5. directory mode: PathDepthSorter returns a rearrangement, deepest first, ties in
   gather order; a directory never comes before one of its descendants. *)
Theorem C08_depth_sort_spec : forall l,
  let r := depth_sort l in
  Permutation r l /\
  StronglySorted (fun a b => (length b <= length a)%nat) r /\
  stable_wrt (@length (list N)) Nat.ltb (fun _ => True) r l.
Proof. exact depth_sort_spec. Qed.
Print Assumptions C08_depth_sort_spec.

Theorem C08_depth_first : forall l i j a b,
  nth_error (depth_sort l) i = Some a ->
  nth_error (depth_sort l) j = Some b ->
  proper_prefix a b = true ->
  (j < i)%nat.
Proof. exact depth_first. Qed.
Print Assumptions C08_depth_first.

(* the key as the code spells it — the tuple (len(parts),) under the Python order — sorts alike *)
Theorem C08_depth_sort_as_python_key : forall l, depth_sort_py l = depth_sort l.
Proof. exact depth_sort_py_eq. Qed.
Print Assumptions C08_depth_sort_as_python_key.

(* ---- non-vacuity ---- *)

(* sizes 10, 9, 100, 9 with names: (size, name) ascending and descending; the two files
   with equal keys (9, "b") keep their input order in both directions *)
Example C08_example_sort :
  let k (z : Z) (c : N) := VTuple [VInt z; VStr [c]] in
  let l := [(0%nat, k 10%Z 97%N); (1%nat, k 9%Z 98%N); (2%nat, k 100%Z 99%N); (3%nat, k 9%Z 98%N); (4%nat, k 9%Z 97%N)] in
  keys_shaped _ (@snd nat pyval) (STuple [SNum; SStr]) l /\
  option_map (map (@fst nat pyval)) (template_sort (@snd nat pyval) false l) = Some [4; 1; 3; 0; 2]%nat /\
  option_map (map (@fst nat pyval)) (template_sort (@snd nat pyval) true l) = Some [2; 0; 1; 3; 4]%nat.
Proof. vm_compute. repeat split; repeat constructor. Qed.

(* "10" < "9" as strings, 9 < 10 as numbers, mixed kinds have no order, a path [.] sorts
   after [-x] (its string pieces are compared) *)
Example C08_example_order :
  py_lt (VStr [49; 48]%N) (VStr [57]%N) = Some true /\
  py_lt (VInt 9) (VInt 10) = Some true /\
  py_lt (VBool true) (VInt 2) = Some true /\
  py_lt (VInt 1) (VStr [49]%N) = None /\
  py_lt (VTuple [VInt 1; VStr [97]%N]) (VTuple [VInt 1; VInt 3]) = None /\
  py_lt (VTuple [VInt 1; VStr [97]%N]) (VTuple [VInt 2; VInt 3]) = Some true /\
  py_lt (VPath [[45; 120]%N]) (VPath [[46]%N]) = Some true.
Proof. vm_compute. repeat split. Qed.

Example C08_example_depth :
  let a := [97]%N in let b := [98]%N in let c := [99]%N in
  depth_sort [[a]; [a; b]; [c]; [a; b; c]; [c; a]] = [[a; b; c]; [a; b]; [c; a]; [a]; [c]] /\
  proper_prefix [a] [a; b; c] = true.
Proof. vm_compute. split; reflexivity. Qed.

(* the numbering follows the sorted order, per directory *)
Example C08_example_count :
  let d1 := [[1%N]] in let d2 := [[2%N]] in
  let c := {| cc_start := 5; cc_step := 2; cc_width := 0; cc_common := false |} in
  let l := [(VInt 3, d1); (VInt 1, d2); (VInt 2, d1); (VInt 0, d2)] in
  option_map (fun r => count_values c (map (@snd pyval dirkey) r)) (template_sort (@fst pyval dirkey) false l)
  = Some [5; 7; 5; 7]%Z.
Proof. vm_compute. reflexivity. Qed.

(* outside the property's expression family (finding F9): keys of different kinds have no
   order, the model answers None where CPython's sorted may raise TypeError *)
Example C08_example_mixed_keys :
  template_sort (fun x : pyval => x) false [VTuple [VStr [97%N]]; VTuple [VInt 5]] = None.
Proof. vm_compute. reflexivity. Qed.

(* ---- the whole program (Whole/Main.v [tempren_main]; proofs in Whole/SortWhole.v) ---- *)
From Tempren Require Import Py.PathLib FS.Model FS.Lemmas Pipe.Pipeline Pipe.FrontCompile Pipe.PlanExact
  Pipe.DryEqualsRealDir Tpl.Alias.
From Tempren Require Import Whole.Library Whole.Render Whole.Gather Whole.Main Whole.Facts Whole.CountWhole
  Whole.SortWhole Whole.Examples.

(* `--sort '%Name()'` in name or path mode, for EVERY tree, input list, -r, -ih and listing order: the processing
   order of the program is what the template sorter returns for the keys (name,) (no TypeError); it is a
   rearrangement of the listed files (of the gathered files when the listing only permutes), sorted by file name in
   Python's str order (code points, lexicographically: Py/Order.v [str_leb]; equivalently Python's <= on the
   1-tuples), and stable: the files with one and the same name stand in the order in which they were listed. *)
Theorem C08_whole_sorted_by_name : forall o s dirs,
  o_mode o <> MDirectory -> o_sort_name o = true ->
  let listed := o_listing o (gather_all o s dirs) in
  let r := processing_order o s dirs in
  template_sort name_key false listed = Some r /\
  Permutation r listed /\
  (permutes (o_listing o) -> Permutation r (gather_all o s dirs)) /\
  StronglySorted (fun a b => str_leb (file_name a) (file_name b) = true) r /\
  StronglySorted (fun a b => py_le (name_key a) (name_key b) = Some true) r /\
  (forall n, filter (fun f => str_eqb n (file_name f)) r = filter (fun f => str_eqb n (file_name f)) listed).
Proof. exact processing_order_sorted_by_name. Qed.
Print Assumptions C08_whole_sorted_by_name.

Theorem C08_whole_sorted_by_name_nth : forall o s dirs i j a b,
  o_mode o <> MDirectory -> o_sort_name o = true ->
  nth_error (processing_order o s dirs) i = Some a ->
  nth_error (processing_order o s dirs) j = Some b ->
  (i < j)%nat -> str_leb (file_name a) (file_name b) = true.
Proof. exact processing_order_names_nth. Qed.
Print Assumptions C08_whole_sorted_by_name_nth.

(* "files are numbered in the order given by the sort expression", for the expression %Name() and the template
   %Count(): once the command line is accepted the program IS the pipeline run on a plan that lists the files in
   name order (sorted, stable) and gives the i-th of them the number of C16_whole_count_numbers - how many files of
   the same directory stand before it in that order. *)
Theorem C08_whole_sorted_count_numbers : forall upper lower o dirs s,
  o_mode o <> MDirectory -> o_sort_name o = true ->
  args_ok s t_count_plain dirs = true -> no_gatherers o s dirs = false ->
  let files := processing_order o s dirs in
  let plan := whole_plan upper lower [BTag fid_Count CountWhole.no_targs tt false []] o dirs s in
  tempren_main upper lower core_reg o t_count_plain dirs s = run (cfg_of_options o) plan (o_cwd o) s /\
  map fst plan = files /\
  StronglySorted (fun a b => str_leb (file_name a) (file_name b) = true) files /\
  (forall n, filter (fun f => str_eqb n (file_name f)) files =
             filter (fun f => str_eqb n (file_name f)) (o_listing o (gather_all o s dirs))) /\
  forall i f, nth_error files i = Some f ->
    nth_error plan i =
    Some (f, RText (decimal_Z (Z.of_nat (occ (file_dirkey f) (firstn i (map file_dirkey files)))))).
Proof. exact sorted_count_numbers. Qed.
Print Assumptions C08_whole_sorted_count_numbers.

(* directory mode: the processing order is the depth sorter's - a rearrangement of the listed directories, deepest
   relative path first, directories of one depth in listing order *)
Theorem C08_whole_depth_order : forall o s dirs,
  o_mode o = MDirectory ->
  let listed := o_listing o (gather_all o s dirs) in
  let r := processing_order o s dirs in
  Permutation r listed /\
  StronglySorted (fun a b => (Main.depth_key b <= Main.depth_key a)%nat) r /\
  (forall n, filter (fun f => Nat.eqb n (Main.depth_key f)) r = filter (fun f => Nat.eqb n (Main.depth_key f)) listed).
Proof. exact processing_order_depth. Qed.
Print Assumptions C08_whole_depth_order.

(* ... so a directory a is never listed before a directory b below it (dir_key = src_key = input directory ++
   relative path; proper_prefix: FS/Lemmas.v), provided b's input directory is not longer than a's - in particular
   when the same gatherer produced both, and always when there is one input directory.  The proviso cannot be
   dropped: the sort key is the depth of the RELATIVE path, see C08_whole_example_nested_inputs. *)
Theorem C08_whole_descendants_first : forall o s dirs i j a b,
  o_mode o = MDirectory ->
  nth_error (processing_order o s dirs) i = Some a ->
  nth_error (processing_order o s dirs) j = Some b ->
  proper_prefix (dir_key a) (dir_key b) ->
  (length (pf_dir b) <= length (pf_dir a))%nat ->
  (j < i)%nat.
Proof. exact descendants_first. Qed.
Print Assumptions C08_whole_descendants_first.

Theorem C08_whole_descendants_first_same_input : forall o s dirs i j a b,
  o_mode o = MDirectory ->
  nth_error (processing_order o s dirs) i = Some a ->
  nth_error (processing_order o s dirs) j = Some b ->
  pf_dir a = pf_dir b ->
  proper_prefix (src_key a) (src_key b) ->
  (j < i)%nat.
Proof. exact descendants_first_same_input. Qed.
Print Assumptions C08_whole_descendants_first_same_input.

Theorem C08_whole_descendants_first_one_input : forall o s d i j a b,
  o_mode o = MDirectory -> o_recursive o = true -> permutes (o_listing o) ->
  nth_error (processing_order o s [d]) i = Some a ->
  nth_error (processing_order o s [d]) j = Some b ->
  proper_prefix (dir_key a) (dir_key b) ->
  (j < i)%nat.
Proof. exact descendants_first_one_input. Qed.
Print Assumptions C08_whole_descendants_first_one_input.

(* the example tree, inputs in/ and in/s/, -r --sort '%Name()': listed b.t a.t s/c s/d.t | c d.t, processed
   a.t b.t s/c c s/d.t d.t (the two c and the two d.t in listing order); with the listing reversed and hidden files:
   .h a.t b.t c s/c d.t s/d.t (again in listing order - stable in both); %Count() numbers them along that order,
   per directory: in/ has a.t 0, b.t 1 and in/s/ has s/c 0, c 1, s/d.t 2, d.t 3.  With the one input in/ the run
   renames a.t, b.t, s/c, s/d.t to 0, 1, 0, 1 in that order and ends with status 0. *)
Example C08_whole_example :
  let dirs2 := [[ex_in]; [ex_in; [115]%N]] in
  let show o := map (fun f => (pf_dir f, pp_parts (pf_rel f))) (processing_order o ex_tree dirs2) in
  let i := [ex_in] in let is_ := [ex_in; [115]%N] in
  show (ex_options MName true true) =
    [(i, [[97; 46; 116]]); (i, [[98; 46; 116]]); (i, [[115]; [99]]); (is_, [[99]]);
     (i, [[115]; [100; 46; 116]]); (is_, [[100; 46; 116]])]%N /\
  show (ex_options_rev MPath true true) =
    [(i, [[46; 104]]); (i, [[97; 46; 116]]); (i, [[98; 46; 116]]); (is_, [[99]]); (i, [[115]; [99]]);
     (is_, [[100; 46; 116]]); (i, [[115]; [100; 46; 116]])]%N /\
  map snd (whole_plan ascii_upper_str ascii_lower_str [BTag fid_Count CountWhole.no_targs tt false []]
             (ex_options MName true true) dirs2 ex_tree)
    = [RText [48]; RText [49]; RText [48]; RText [49]; RText [50]; RText [51]]%N /\
  args_ok ex_tree t_count_plain ex_dirs = true /\ no_gatherers (ex_options MName true true) ex_tree ex_dirs = false /\
  let r := ex_main (ex_options MName true true) t_count_plain ex_dirs ex_tree in
  r_status r = 0%Z /\
  r_final r = [ ([ex_in], NDir); ([ex_in; [49]], NFile 1); ([ex_in; [48]], NFile 2); ([ex_in; [46; 104]], NFile 3);
                ([ex_in; [115]], NDir); ([ex_in; [115]; [48]], NFile 4); ([ex_in; [115]; [49]], NFile 5);
                ([[111; 116; 104; 101; 114]], NDir); ([[111; 116; 104; 101; 114]; [122]], NFile 6) ]%N.
Proof. vm_compute. repeat split; reflexivity. Qed.

(* directory mode -r on a/ a/b/ a/b/c/ a/b/c/d/ a/b/c/d/e/ a/d/: with the input a/ deepest first (a/b/c/d/e, a/b/c/d,
   a/b/c, then a/b and a/d in listing order); with the nested inputs a/ and a/b/c/ the entry (a/b/c, d/e) of depth 2
   comes AFTER its ancestor (a, b/c/d) of depth 3 - the proviso of C08_whole_descendants_first is needed (the same
   directory a/b/c/d/e is then also listed, and processed first, under the input a/) *)
Example C08_whole_example_nested_inputs :
  let a := [97]%N in let b := [98]%N in let c := [99]%N in let d := [100]%N in let e := [101]%N in
  let tree := [([a], NDir); ([a; b], NDir); ([a; b; c], NDir); ([a; b; c; d], NDir); ([a; b; c; d; e], NDir); ([a; d], NDir)] in
  let show dirs := map (fun f => (pf_dir f, pp_parts (pf_rel f)))
                       (processing_order (ex_options MDirectory true false) tree dirs) in
  show [[a]] = [([a], [b; c; d; e]); ([a], [b; c; d]); ([a], [b; c]); ([a], [b]); ([a], [d])] /\
  show [[a]; [a; b; c]] =
    [([a], [b; c; d; e]); ([a], [b; c; d]); ([a], [b; c]); ([a; b; c], [d; e]); ([a], [b]); ([a], [d]); ([a; b; c], [d])].
Proof. vm_compute. split; reflexivity. Qed.
