(* C08 — files are processed in the order given by the sort expression;            *)
(* directory mode processes deeper directories before their ancestors.              *)
(* Statements only; every proof is [exact <lemma>].                                 *)
(*                                                                                  *)
(* Model: Py/Order.v (Python's ordering of int/bool/str/tuple/PosixPath values),    *)
(* Py/Sort.v (sorted(key=..., reverse=...) as a stable insertion sort; the two       *)
(* sorters of tempren/file_sorters.py), Tags/Count.v (the counter, from C16).        *)
(* Partial: that CPython's sorted (Timsort) IS a stable sort is trusted; what is     *)
(* proved is that a stable sorted rearrangement is unique, so the model's insertion  *)
(* sort computes the list every correct stable sort returns.                         *)
From Coq Require Import Permutation Sorted.
From Tempren Require Import Base.Str Py.Order Py.OrderProofs Py.Sort Py.SortProofs Py.SortPyProofs
  Tags.Count Tags.CountProofs.

(* ---- 1. the order on keys: Python's <= on values of one shape (numbers; strings; paths;
   tuples of these, also of different lengths) never raises and is a total preorder whose
   strict part is <.  A shape is what one sort expression produces for every file. *)
Theorem C08_py_le_total_on_kind : forall s a b c,
  in_shape s a -> in_shape s b -> in_shape s c ->
  py_le a a = Some true /\
  (py_le a b = Some true \/ py_le b a = Some true) /\
  (py_le a b = Some true -> py_le b c = Some true -> py_le a c = Some true) /\
  py_lt a b = option_map negb (py_le b a) /\
  (exists r, py_lt a b = Some r).
Proof. exact py_le_total_on_kind. Qed.
Print Assumptions C08_py_le_total_on_kind.

(* numbers compare numerically (10 after 9) ... *)
Theorem C08_numbers_numerically : forall x y, py_lt (VInt x) (VInt y) = Some (Z.ltb x y).
Proof. exact py_int_lt. Qed.
Print Assumptions C08_numbers_numerically.

(* ... strings lexicographically by code point ("10" before "9") ... *)
Theorem C08_strings_lexicographically : forall c d s t,
  py_lt (VStr (c :: s)) (VStr (d :: t)) = Some (if N.eqb c d then str_ltb s t else N.ltb c d).
Proof. exact py_str_lt_cons. Qed.
Print Assumptions C08_strings_lexicographically.

(* ... tuples element-wise: the first pair of unequal items decides, a proper prefix is smaller *)
Theorem C08_tuples_elementwise : forall x y la lb,
  py_comparable (VTuple (x :: la)) (VTuple (y :: lb)) = true ->
  py_lt (VTuple (x :: la)) (VTuple (y :: lb)) =
  if py_eqb x y then py_lt (VTuple la) (VTuple lb) else py_lt x y.
Proof. exact py_tuple_lt_cons. Qed.
Print Assumptions C08_tuples_elementwise.

Theorem C08_tuples_prefix : forall la x lb, py_lt (VTuple la) (VTuple (la ++ x :: lb)) = Some true.
Proof. exact py_tuple_lt_prefix. Qed.
Print Assumptions C08_tuples_prefix.

(* ---- 2. the sort: for ANY key function and ANY comparison that is a strict weak order on
   the set D the keys come from, [sort_by] returns a rearrangement of its input that is
   sorted in the requested direction and keeps equal keys in input order (also with
   reverse=True), for lists of any length. *)
Theorem C08_sort_by_spec : forall (A K : Type) (key : A -> K) (ltb : K -> K -> bool) (D : K -> Prop),
  (forall a b, D a -> D b -> ltb a b = true -> ltb b a = false) ->
  (forall a b c, D a -> D b -> D c -> ltb b a = false -> ltb c b = false -> ltb c a = false) ->
  forall (inv : bool) (l : list A),
  keys_in A K key D l ->
  let r := sort_by key ltb inv l in
  Permutation r l /\
  StronglySorted (le_dir key ltb inv) r /\
  stable_wrt key ltb D r l.
Proof. exact sort_by_spec. Qed.
Print Assumptions C08_sort_by_spec.

(* Any two sorted lists that keep every class of equal keys in the order of [l] are equal:
   there is exactly one correct result of a stable sort. *)
Theorem C08_stable_sorted_unique : forall (A K : Type) (key : A -> K) (ltb : K -> K -> bool) (D : K -> Prop),
  (forall a, D a -> ltb a a = false) ->
  forall (inv : bool) (l r1 r2 : list A),
  keys_in A K key D r1 -> keys_in A K key D r2 ->
  StronglySorted (le_dir key ltb inv) r1 -> stable_wrt key ltb D r1 l ->
  StronglySorted (le_dir key ltb inv) r2 -> stable_wrt key ltb D r2 l ->
  r1 = r2.
Proof. exact stable_sorted_unique. Qed.
Print Assumptions C08_stable_sorted_unique.

(* ---- 3. TemplateFileSorter: with the evaluated sort tuples of one shape, sorting never
   fails, and the processing order is a rearrangement of the sorter's input in
   non-decreasing order of Python's <= on the keys (non-increasing with --sort-invert),
   files with equal keys in the order they were gathered. *)
Theorem C08_processing_order : forall (A : Type) (key : A -> pyval) (s : shape) (inv : bool) (l : list A),
  keys_shaped A key s l ->
  exists r, template_sort key inv l = Some r /\
    Permutation r l /\
    StronglySorted (py_le_dir key inv) r /\
    stable_wrt key py_ltb (in_shape s) r l.
Proof. exact template_sort_spec. Qed.
Print Assumptions C08_processing_order.

(* and every list with these three properties is the model's result *)
Theorem C08_processing_order_unique : forall (A : Type) (key : A -> pyval) (s : shape) (inv : bool) (l r : list A),
  keys_shaped A key s l ->
  Permutation r l ->
  StronglySorted (py_le_dir key inv) r ->
  stable_wrt key py_ltb (in_shape s) r l ->
  template_sort key inv l = Some r.
Proof. exact template_sort_unique. Qed.
Print Assumptions C08_processing_order_unique.

(* ---- 4. sequence-dependent templates: %Count(common) gives the i-th processed file
   start + i*step; %Count() gives it start + k*step where k files of the same directory
   were processed before it (composition with C16's counter model). *)
Theorem C08_count_follows_order : forall (A : Type) (key : A -> pyval) (dir_of : A -> dirkey)
  (inv : bool) (l : list A) (c : count_cfg) (r : list A) (i : nat) (f : A),
  template_sort key inv l = Some r ->
  cc_common c = true ->
  nth_error r i = Some f ->
  nth_error (count_values c (map dir_of r)) i = Some (cc_start c + Z.of_nat i * cc_step c)%Z.
Proof. exact count_follows_order_common. Qed.
Print Assumptions C08_count_follows_order.

Theorem C08_count_follows_order_per_directory : forall (A : Type) (key : A -> pyval) (dir_of : A -> dirkey)
  (inv : bool) (l : list A) (c : count_cfg) (r : list A) (i : nat) (f : A),
  template_sort key inv l = Some r ->
  cc_common c = false ->
  nth_error r i = Some f ->
  nth_error (count_values c (map dir_of r)) i =
    Some (cc_start c + Z.of_nat (occ (dir_of f) (map dir_of (firstn i r))) * cc_step c)%Z.
Proof. exact count_follows_order_per_directory. Qed.
Print Assumptions C08_count_follows_order_per_directory.

(* ---- 5. directory mode: PathDepthSorter returns a rearrangement, deepest first, ties in
   gather order; a directory never comes before one of its descendants. *)
Theorem C08_depth_sort_spec : forall l,
  let r := depth_sort l in
  Permutation r l /\
  StronglySorted (fun a b => (length b <= length a)%nat) r /\
  stable_wrt (@length (list N)) Nat.ltb (fun _ => True) r l.
Proof. exact depth_sort_spec. Qed.
Print Assumptions C08_depth_sort_spec.

Theorem C08_depth_first : forall l i j a b,
  nth_error (depth_sort l) i = Some a ->
  nth_error (depth_sort l) j = Some b ->
  proper_prefix a b = true ->
  (j < i)%nat.
Proof. exact depth_first. Qed.
Print Assumptions C08_depth_first.

(* the key as the code spells it — the tuple (len(parts),) under the Python order — sorts alike *)
Theorem C08_depth_sort_as_python_key : forall l, depth_sort_py l = depth_sort l.
Proof. exact depth_sort_py_eq. Qed.
Print Assumptions C08_depth_sort_as_python_key.

(* ---- non-vacuity ---- *)

(* sizes 10, 9, 100, 9 with names: (size, name) ascending and descending; the two files
   with equal keys (9, "b") keep their input order in both directions *)
Example C08_example_sort :
  let k (z : Z) (c : N) := VTuple [VInt z; VStr [c]] in
  let l := [(0%nat, k 10%Z 97%N); (1%nat, k 9%Z 98%N); (2%nat, k 100%Z 99%N); (3%nat, k 9%Z 98%N); (4%nat, k 9%Z 97%N)] in
  keys_shaped _ (@snd nat pyval) (STuple [SNum; SStr]) l /\
  option_map (map (@fst nat pyval)) (template_sort (@snd nat pyval) false l) = Some [4; 1; 3; 0; 2]%nat /\
  option_map (map (@fst nat pyval)) (template_sort (@snd nat pyval) true l) = Some [2; 0; 1; 3; 4]%nat.
Proof. vm_compute. repeat split; repeat constructor. Qed.

(* "10" < "9" as strings, 9 < 10 as numbers, mixed kinds have no order, a path [.] sorts
   after [-x] (its string pieces are compared) *)
Example C08_example_order :
  py_lt (VStr [49; 48]%N) (VStr [57]%N) = Some true /\
  py_lt (VInt 9) (VInt 10) = Some true /\
  py_lt (VBool true) (VInt 2) = Some true /\
  py_lt (VInt 1) (VStr [49]%N) = None /\
  py_lt (VTuple [VInt 1; VStr [97]%N]) (VTuple [VInt 1; VInt 3]) = None /\
  py_lt (VTuple [VInt 1; VStr [97]%N]) (VTuple [VInt 2; VInt 3]) = Some true /\
  py_lt (VPath [[45; 120]%N]) (VPath [[46]%N]) = Some true.
Proof. vm_compute. repeat split. Qed.

Example C08_example_depth :
  let a := [97]%N in let b := [98]%N in let c := [99]%N in
  depth_sort [[a]; [a; b]; [c]; [a; b; c]; [c; a]] = [[a; b; c]; [a; b]; [c; a]; [a]; [c]] /\
  proper_prefix [a] [a; b; c] = true.
Proof. vm_compute. split; reflexivity. Qed.

(* the numbering follows the sorted order, per directory *)
Example C08_example_count :
  let d1 := [[1%N]] in let d2 := [[2%N]] in
  let c := {| cc_start := 5; cc_step := 2; cc_width := 0; cc_common := false |} in
  let l := [(VInt 3, d1); (VInt 1, d2); (VInt 2, d1); (VInt 0, d2)] in
  option_map (fun r => count_values c (map (@snd pyval dirkey) r)) (template_sort (@fst pyval dirkey) false l)
  = Some [5; 7; 5; 7]%Z.
Proof. vm_compute. reflexivity. Qed.

(* outside the property's expression family (finding F9): keys of different kinds have no
   order, the model answers None where CPython's sorted may raise TypeError *)
Example C08_example_mixed_keys :
  template_sort (fun x : pyval => x) false [VTuple [VStr [97%N]]; VTuple [VInt 5]] = None.
Proof. vm_compute. reflexivity. Qed.
