(* A small concrete world for the non-vacuity examples of C15: a registry with Count (the  *)
(* state machine of Tags/Count.v, one state per bound instance), Name, Lower and four       *)
(* aliases.  Model only - no proofs in this file.                                            *)
From Tempren Require Import Base.Str Py.PathLib Py.Repr Tpl.Registry Tpl.Signature Tpl.Alias Tags.Count.
Open Scope N_scope.

Definition s_Core : str := [67; 111; 114; 101].
Definition s_Text : str := [84; 101; 120; 116].
Definition s_Alias : str := [65; 108; 105; 97; 115].
Definition s_Count : str := [67; 111; 117; 110; 116].
Definition s_Name : str := [78; 97; 109; 101].
Definition s_Lower : str := [76; 111; 119; 101; 114].
Definition s_N : str := [78].
Definition s_M : str := [77].
Definition s_Loop : str := [76; 111; 111; 112].
Definition s_Ping : str := [80; 105; 110; 103].
Definition s_Pong : str := [80; 111; 110; 103].
Definition s_Bad : str := [66; 97; 100].
Definition s_Nope : str := [78; 111; 112; 101].

Definition ex_regs : list reg_entry :=
  [(s_Core, s_Count, 0); (s_Core, s_Name, 1); (s_Text, s_Lower, 2);
   (s_Alias, s_N, 3); (s_Alias, s_M, 4); (s_Alias, s_Loop, 5); (s_Alias, s_Bad, 6);
   (s_Alias, s_Ping, 7); (s_Alias, s_Pong, 8)].

Definition ex_reg : registry := match build ex_regs with Some r => r | None => [] end.

Definition no_a : targs := mkArgs [] [].
Definition tag0 (n : str) : utree := UTag (None, n) no_a false [].

(*  N    = %Count(1)-%Lower{%Name()}
    M    = <%N()+%Alias.N()>
    Loop = x%Loop()
    Ping = %Pong()    Pong = p%Ping()
    Bad  = %Nope()                                                        *)
Definition body_N : upat :=
  [UTag (None, s_Count) (mkArgs [AInt 1] []) false []; URaw [45];
   UTag (None, s_Lower) no_a true [tag0 s_Name]].
Definition body_M : upat :=
  [URaw [60]; tag0 s_N; URaw [43]; UTag (Some s_Alias, s_N) no_a false []; URaw [62]].
Definition body_Loop : upat := [URaw [120]; tag0 s_Loop].
Definition body_Ping : upat := [tag0 s_Pong].
Definition body_Pong : upat := [URaw [112]; tag0 s_Ping].
Definition body_Bad : upat := [tag0 s_Nope].

Definition ex_aliases : atable :=
  [(3, Some body_N); (4, Some body_M); (5, Some body_Loop); (6, Some body_Bad);
   (7, Some body_Ping); (8, Some body_Pong)].

(* a file: its directory and its name *)
Definition ex_file := (dirkey * str)%type.

Definition arg_int (a : targs) (i : nat) (d : Z) : Z :=
  match nth_error (a_pos a) i with Some (AInt z) => z | _ => d end.

Definition ex_cfg (a : targs) : count_cfg :=
  {| cc_start := arg_int a 0 0; cc_step := arg_int a 1 1; cc_width := 0; cc_common := false |}.

Definition ex_check (f : fid) (a : targs) (hc : bool) : outcome :=
  if f =? 0 then
    if negb (count_configure_ok (ex_cfg a)) then Reject RValue
    else if hc then Reject RContextForbidden else Accept
  else if f =? 1 then (if no_args a then Accept else Reject (RBind TooMany))
  else if f =? 2 then (if hc then Accept else Reject RContextMissing)
  else Reject RValue.

Definition ex_init (f : fid) (a : targs) : count_state := count_init (ex_cfg a).

Definition ex_sem (f : fid) (a : targs) (st : count_state) (fl : ex_file) (c : option str)
  : tout * count_state :=
  if f =? 0 then
    let '(o, st') := count_process (ex_cfg a) st (fst fl) in
    (match o with
     | CInt v => OVal (VInt v)
     | CStr s => OVal (VStr s)
     | CRaise => ORaise ExOther
     end, st')
  else if f =? 1 then (OVal (VStr (snd fl)), st)
  else (OVal (VStr (ascii_lower (match c with Some s => s | None => [] end))), st).

Definition ex_bind := bind_list count_state ex_reg ex_check ex_init.
Definition ex_names := run_names count_state ex_file ex_sem.
Definition ex_exprs := run_exprs count_state ex_file ex_sem (fun _ => true).

(* three files: d/A, d/B, e/C *)
Definition ex_files : list ex_file :=
  [([[100]], [65]); ([[100]], [66]); ([[101]], [67])].

Definition ok_strings (l : list (exc + str)) : option (list str) :=
  fold_right (fun r acc => match r, acc with inr s, Some t => Some (s :: t) | _, _ => None end) (Some []) l.
