(* C10: the round trip parse (print sty t) = Ok t assembled from its three layers, the      *)
(* partition of the input into lexemes, "nothing dropped", and the refutations of the        *)
(* pre-fix sequential unescape.                                                              *)
From Coq Require Import Permutation.
From Tempren Require Import Base.Str Tpl.Ast Tpl.Lexer Tpl.Cst Tpl.Parser Tpl.Escape Tpl.Visitor
  Tpl.Printer Tpl.LexSpec Tpl.LexSpecFacts Tpl.LexProofs Tpl.ParseProofs Tpl.PrintProofs.
Open Scope N_scope.

(* layer 1: maximal munch cannot glue or split what the printer emits *)
Lemma lex_all_print sty p : wf_style sty = true -> wf_pat p = true ->
  lex_all (print sty p) = LexOk (spell (sty_ws sty) (flatten_pat (cst_of_pat sty p))).
Proof.
  intros Hs Hp. unfold print, print_cst, lex_all. apply lex_chars.
  apply print_lexable; assumption.
Qed.

Lemma lex_print sty p : wf_style sty = true -> wf_pat p = true ->
  lex (print sty p) = LexOk (flatten_pat (cst_of_pat sty p)).
Proof.
  intros Hs Hp. unfold lex. rewrite (lex_all_print sty p Hs Hp). simpl.
  f_equal. apply no_ws_print.
Qed.

(* layers 2 and 3 are ParseProofs.parse_flatten and ParseProofs.visit_cst_of *)
Theorem roundtrip sty p : wf_style sty = true -> wf_pat p = true -> parse (print sty p) = Ok p.
Proof.
  intros Hs Hp. unfold parse. rewrite (lex_print sty p Hs Hp).
  unfold parse_toks. rewrite (parse_flatten _ (wfs_cst_of sty p Hp)).
  apply visit_cst_of. exact Hp.
Qed.

(* token level (no lexer): what the style spells parses back *)
Theorem roundtrip_tokens sty p : wf_pat p = true ->
  parse_toks (flatten_pat (cst_of_pat sty p)) = Ok p.
Proof.
  intros Hp. unfold parse_toks. rewrite (parse_flatten _ (wfs_cst_of sty p Hp)).
  apply visit_cst_of. exact Hp.
Qed.

(* every character is recognised: lexemes + explicitly skipped whitespace partition the input *)
Theorem every_char_recognised s toks : lex_all s = LexOk toks -> chars toks = s.
Proof. apply lex_partition. Qed.

Theorem lex_error_located s i : lex_all s = LexError i ->
  i < N.of_nat (length s) /\
  exists toks b, s = chars toks ++ b /\ b <> [] /\ i = N.of_nat (length (chars toks)) /\
                 lex_step (final_mode MDefault toks) b = None.
Proof.
  intros H. split; [apply lex_all_error_inside; exact H|].
  apply lex_error_pos in H as (toks & b & E & Hb & Hi & Hn).
  exists toks, b. repeat split; assumption.
Qed.

Lemma drop_ws_ok r toks : drop_ws r = LexOk toks -> exists all, r = LexOk all /\ toks = no_ws all.
Proof. destruct r; simpl; intro H; [inversion H; eexists; split; reflexivity|discriminate]. Qed.

(* accepted => every character was recognised and nothing the parse tree carries is missing
   from the returned tree *)
Theorem nothing_dropped_text s p : parse s = Ok p ->
  exists all c,
    lex_all s = LexOk all /\ chars all = s /\
    parse_tokens (no_ws all) = Some c /\ flatten_pat c = no_ws all /\
    visit c = Ok p /\ Permutation (leaves_cpat c) (leaves_pat p).
Proof.
  unfold parse, lex. intros H.
  destruct (drop_ws (lex_all s)) as [toks|pos] eqn:E; [|discriminate].
  apply drop_ws_ok in E as (all & Eall & ->).
  unfold parse_toks in H. destruct (parse_tokens (no_ws all)) as [c|] eqn:Ep; [|discriminate].
  exists all, c. split; [exact Eall|]. split; [apply (lex_partition _ _ _ _ Eall)|].
  split; [exact Ep|]. split; [symmetry; apply (parse_sound _ _ Ep)|].
  split; [exact H|]. apply (nothing_dropped_parsed _ _ _ Ep H).
Qed.

(* a lexical error is never accepted *)
Theorem lex_error_rejected s i : lex_all s = LexError i -> parse s = Err (ELex i).
Proof. intros H. unfold parse, lex. rewrite H. reflexivity. Qed.

(* ---------- the pre-fix unescape (five sequential str.replace passes) -------------------- *)

(* F15: a string written with the documented escapes is not read back: the value \{ *)
Theorem sequential_unescape_refuted_string :
  exists s, unescape_seq (escape (esc_str 39) s) <> s.
Proof. exists [92; 123]. vm_compute. discriminate. Qed.

(* F15: raw text a\\b (two backslashes) loses one *)
Theorem sequential_unescape_refuted_text :
  exists s, wf_text s = true /\ unescape_seq (escape esc_text s) <> s.
Proof. exists [97; 92; 92; 98]. split; [reflexivity|]. vm_compute. discriminate. Qed.

(* F16: in a double-quoted string the escaped quote mark keeps its backslash *)
Theorem double_quote_refuted :
  exists s, unescape_seq (escape (esc_str 34) s) <> s.
Proof. exists [97; 34; 98]. vm_compute. discriminate. Qed.
