(* tempren/template/ast.py, unbound part: the tree TemplateParser.parse returns.          *)
(* A pattern is a sequence of elements; an element is raw text or a tag placeholder with    *)
(* optional category, name, positional arguments, keyword arguments and an optional         *)
(* context pattern ([has_ctx = false] <-> context is None; then [ctx = PNil]).              *)
(* Model only - no proofs in this file.                                                     *)
From Tempren Require Import Base.Str.
Open Scope N_scope.

Inductive argval :=
| VInt (z : Z)
| VBool (b : bool)
| VStr (s : str).

Definition argval_eqb (a b : argval) : bool :=
  match a, b with
  | VInt x, VInt y => Z.eqb x y
  | VBool x, VBool y => Bool.eqb x y
  | VStr x, VStr y => str_eqb x y
  | _, _ => false
  end.

Inductive ast :=
| RawText (s : str)
| Tag (cat : option str) (name : str) (args : list argval) (kwargs : list (str * argval))
      (has_ctx : bool) (ctx : pat)
with pat :=
| PNil
| PCons (e : ast) (p : pat).

Fixpoint pat_app (a b : pat) : pat :=
  match a with
  | PNil => b
  | PCons e a' => PCons e (pat_app a' b)
  end.

Fixpoint pat_list (p : pat) : list ast :=
  match p with PNil => [] | PCons e p' => e :: pat_list p' end.

Fixpoint pat_of_list (l : list ast) : pat :=
  match l with [] => PNil | e :: l' => PCons e (pat_of_list l') end.

Definition kw_eqb (a b : str * argval) : bool :=
  str_eqb (fst a) (fst b) && argval_eqb (snd a) (snd b).

Fixpoint ast_eqb (a b : ast) : bool :=
  match a, b with
  | RawText x, RawText y => str_eqb x y
  | Tag c n ar kw h x, Tag c' n' ar' kw' h' x' =>
      option_eqb str_eqb c c' && str_eqb n n' && list_eqb argval_eqb ar ar' &&
      list_eqb kw_eqb kw kw' && Bool.eqb h h' && pat_eqb x x'
  | _, _ => false
  end
with pat_eqb (a b : pat) : bool :=
  match a, b with
  | PNil, PNil => true
  | PCons e p, PCons e' p' => ast_eqb e e' && pat_eqb p p'
  | _, _ => false
  end.

(* ---------- the domain of the round trip (DESIGN §4 C10) --------------------------------- *)

Definition is_id_start (c : N) : bool := is_letter c || (c =? 95).
Definition is_id_char (c : N) : bool := is_letter c || is_digit c || (c =? 95).
Definition is_id (s : str) : bool :=
  match s with
  | [] => false
  | c :: r => is_id_start c && forallb is_id_char r
  end.

Definition s_True : str := [84; 114; 117; 101].
Definition s_true : str := [116; 114; 117; 101].
Definition s_False : str := [70; 97; 108; 115; 101].
Definition s_false : str := [102; 97; 108; 115; 101].
Definition is_bool_word (s : str) : bool :=
  str_eqb s s_True || str_eqb s s_true || str_eqb s s_False || str_eqb s s_false.

Definition last_is_backslash (s : str) : bool :=
  match rev s with 92 :: _ => true | _ => false end.

(* raw text: non-empty, no '%' TAB LF CR, not ending in a backslash *)
Definition text_char_ok (c : N) : bool :=
  negb ((c =? 37) || (c =? 9) || (c =? 10) || (c =? 13)).
Definition wf_text (s : str) : bool :=
  match s with [] => false | _ => forallb text_char_ok s && negb (last_is_backslash s) end.

Definition wf_val (v : argval) : bool :=
  match v with VStr s => negb (last_is_backslash s) | _ => true end.

Fixpoint mem_str (x : str) (l : list str) : bool :=
  match l with [] => false | y :: l' => str_eqb x y || mem_str x l' end.
Fixpoint nodup_str (l : list str) : bool :=
  match l with [] => true | x :: l' => negb (mem_str x l') && nodup_str l' end.

Definition wf_kw (k : str * argval) : bool :=
  is_id (fst k) && negb (is_bool_word (fst k)) && wf_val (snd k).

Definition wf_cat (c : option str) : bool :=
  match c with None => true | Some s => is_id s end.

Definition is_raw (e : ast) : bool := match e with RawText _ => true | _ => false end.
Definition pat_head_raw (p : pat) : bool :=
  match p with PCons e _ => is_raw e | PNil => false end.
Definition pat_is_nil (p : pat) : bool := match p with PNil => true | _ => false end.

Fixpoint wf_ast (e : ast) : bool :=
  match e with
  | RawText s => wf_text s
  | Tag c n ar kw h x =>
      wf_cat c && is_id n && forallb wf_val ar && forallb wf_kw kw &&
      nodup_str (map fst kw) && (if h then wf_pat x else pat_is_nil x)
  end
with wf_pat (p : pat) : bool :=
  match p with
  | PNil => true
  | PCons e p' => wf_ast e && negb (is_raw e && pat_head_raw p') && wf_pat p'
  end.
