(* Proofs about Tpl/Signature.v: the binder meets the declarative reading of a      *)
(* signature, the context rule, every rejection is a template error, and the printed *)
(* line determines signature and context requirement (round trips).                  *)
From Tempren Require Import Base.Str Tpl.Signature.
Open Scope N_scope.

(* ================================================================================ *)
(* 1. The declarative reading of a printed signature                                 *)
(* ================================================================================ *)

(* A call with [npos] positional values and the keyword names [kws] is *documented* by
   the signature [s] when
   - no keyword is the hidden receiver,
   - there are no more positional values than positional parameters (unless *args),
   - no keyword is repeated,
   - every keyword is a declared parameter name (any name, given **kwargs) that has not
     been filled positionally,
   - every parameter without default gets a value. *)
Definition documented (s : sig) (npos : nat) (kws : list str) : Prop :=
  ~ In receiver kws /\
  ((npos <= length (s_pos s))%nat \/ s_varpos s <> None) /\
  NoDup kws /\
  (forall k, In k kws ->
     (In k (kw_names s) \/ s_varkw s <> None) /\ ~ In k (firstn npos (pos_names s))) /\
  (forall p, In p (s_pos s ++ s_kwonly s) -> p_dflt p = None ->
     In (p_name p) (firstn npos (pos_names s)) \/ In (p_name p) kws).

(* what each class of binding error means *)
Definition explains (s : sig) (npos : nat) (kws : list str) (e : bind_err) : Prop :=
  match e with
  | TooMany => (length (s_pos s) < npos)%nat /\ s_varpos s = None
  | Unexpected k => In k kws /\ ~ In k (kw_names s) /\ s_varkw s = None
  | Multiple k =>
      In k kws /\
      (k = receiver \/ In k (firstn npos (pos_names s)) \/
       exists pre post, kws = pre ++ k :: post /\ In k pre)
  | Missing k =>
      exists p, In p (s_pos s ++ s_kwonly s) /\ p_name p = k /\ p_dflt p = None /\
                ~ In k (firstn npos (pos_names s)) /\ ~ In k kws
  end.

Lemma mem_str_In x l : mem_str x l = true <-> In x l.
Proof.
  induction l as [|y l IH]; simpl.
  - split; [discriminate | tauto].
  - rewrite orb_true_iff, IH, str_eqb_spec. split; intros [H|H]; auto.
Qed.

Lemma mem_str_not_In x l : mem_str x l = false <-> ~ In x l.
Proof.
  rewrite <- mem_str_In. destruct (mem_str x l); split; intro H; congruence.
Qed.

Lemma has_varkw_spec s : has_varkw s = true <-> s_varkw s <> None.
Proof. unfold has_varkw. destruct (s_varkw s); split; intro H; congruence. Qed.

Lemma has_varpos_spec s : has_varpos s = true <-> s_varpos s <> None.
Proof. unfold has_varpos. destruct (s_varpos s); split; intro H; congruence. Qed.

Definition name_ok (s : sig) (k : str) : Prop := In k (kw_names s) \/ s_varkw s <> None.

Lemma name_ok_spec s k : mem_str k (kw_names s) || has_varkw s = true <-> name_ok s k.
Proof. unfold name_ok. rewrite orb_true_iff, mem_str_In, has_varkw_spec. tauto. Qed.

(* ---- the keyword loop ---- *)

Lemma bind_kws_sound s : forall kws filled f',
  bind_kws s filled kws = inr f' ->
  NoDup kws /\
  (forall k, In k kws -> name_ok s k /\ ~ In k filled) /\
  (forall x, In x f' <-> In x kws \/ In x filled).
Proof.
  induction kws as [|k kws IH]; intros filled f' H; simpl in H.
  - inversion H; subst. repeat split; try constructor; simpl; tauto.
  - destruct (mem_str k filled) eqn:Ef; [discriminate|].
    destruct (mem_str k (kw_names s) || has_varkw s) eqn:Eo; [|discriminate].
    apply IH in H as (Hnd & Hall & Hf).
    apply mem_str_not_In in Ef. apply name_ok_spec in Eo.
    split; [|split].
    + constructor; auto. intro Hin. apply Hall in Hin as [_ Hn]. apply Hn. left; reflexivity.
    + intros x [->|Hin]; [tauto|].
      apply Hall in Hin as [Ho Hn]. split; auto. intro; apply Hn; right; assumption.
    + intro x. rewrite Hf. simpl. split; intros [A|A]; auto; destruct A; auto.
Qed.

Lemma bind_kws_complete s : forall kws filled,
  NoDup kws ->
  (forall k, In k kws -> name_ok s k /\ ~ In k filled) ->
  exists f', bind_kws s filled kws = inr f'.
Proof.
  induction kws as [|k kws IH]; intros filled Hnd Hall; simpl.
  - eexists; reflexivity.
  - inversion Hnd as [|? ? Hk Hnd']; subst.
    destruct (Hall k (or_introl eq_refl)) as [Ho Hn].
    apply mem_str_not_In in Hn. rewrite Hn.
    apply name_ok_spec in Ho. rewrite Ho.
    apply IH; auto.
    intros x Hx. destruct (Hall x (or_intror Hx)) as [Ho' Hn']. split; auto.
    intros [E|Hin]; [subst; contradiction | contradiction].
Qed.

Lemma bind_kws_error s : forall kws filled e,
  bind_kws s filled kws = inl e ->
  (exists k pre post, e = Multiple k /\ kws = pre ++ k :: post /\ (In k filled \/ In k pre)) \/
  (exists k, e = Unexpected k /\ In k kws /\ ~ name_ok s k).
Proof.
  induction kws as [|k kws IH]; intros filled e H; simpl in H; [discriminate|].
  destruct (mem_str k filled) eqn:Ef.
  - inversion H; subst. left. exists k, [], kws. apply mem_str_In in Ef. simpl; auto.
  - destruct (mem_str k (kw_names s) || has_varkw s) eqn:Eo.
    + apply IH in H as [(k' & pre & post & -> & -> & Hin)|(k' & -> & Hin & Hno)].
      * left. exists k', (k :: pre), post. repeat split; auto.
        destruct Hin as [[E|Hin]|Hin]; simpl; auto.
      * right. exists k'. simpl; auto.
    + inversion H; subst. right. exists k. split; [reflexivity|]. split; [left; reflexivity|].
      intro Ho. apply name_ok_spec in Ho. congruence.
Qed.

(* ---- the required parameters ---- *)

Lemma first_missing_none filled ps :
  first_missing filled ps = None <->
  forall p, In p ps -> p_dflt p = None -> In (p_name p) filled.
Proof.
  induction ps as [|p ps IH]; simpl.
  - split; [intros _ ? [] | reflexivity].
  - unfold has_dflt at 1. destruct (p_dflt p) eqn:Ed; simpl.
    + rewrite IH. split; intros H q.
      * intros [<-|Hq] Hd; [congruence | auto].
      * intros Hq; apply H; auto.
    + destruct (mem_str (p_name p) filled) eqn:Em.
      * apply mem_str_In in Em. rewrite IH. split; intros H q.
        -- intros [<-|Hq] Hd; auto.
        -- intros Hq; apply H; auto.
      * apply mem_str_not_In in Em. split; [discriminate|].
        intro H. exfalso. apply Em. apply H; auto.
Qed.

Lemma first_missing_some filled ps k :
  first_missing filled ps = Some k ->
  exists p, In p ps /\ p_name p = k /\ p_dflt p = None /\ ~ In k filled.
Proof.
  induction ps as [|p ps IH]; simpl; [discriminate|].
  unfold has_dflt at 1. destruct (p_dflt p) eqn:Ed; simpl.
  - intro H. destruct (IH H) as (q & Hq & ?). exists q; auto.
  - destruct (mem_str (p_name p) filled) eqn:Em.
    + intro H. destruct (IH H) as (q & Hq & ?). exists q; auto.
    + intro H; inversion H; subst. apply mem_str_not_In in Em. exists p; auto.
Qed.

(* ---- configure's binding ---- *)

Definition documented_configure (s : sig) (npos : nat) (kws : list str) : Prop :=
  ((npos <= length (s_pos s))%nat \/ s_varpos s <> None) /\
  NoDup kws /\
  (forall k, In k kws -> name_ok s k /\ ~ In k (firstn npos (pos_names s))) /\
  (forall p, In p (s_pos s ++ s_kwonly s) -> p_dflt p = None ->
     In (p_name p) (firstn npos (pos_names s)) \/ In (p_name p) kws).

Lemma too_many_spec s npos :
  (length (s_pos s) <? npos)%nat && negb (has_varpos s) = false <->
  ((npos <= length (s_pos s))%nat \/ s_varpos s <> None).
Proof.
  rewrite andb_false_iff, Nat.ltb_ge, negb_false_iff, has_varpos_spec. tauto.
Qed.

Lemma bind_configure_spec s npos kws :
  bind_configure s npos kws = BindOk <-> documented_configure s npos kws.
Proof.
  unfold bind_configure, documented_configure, filled_positionally. split.
  - destruct (bind_kws s (firstn npos (pos_names s)) kws) as [e|f'] eqn:Ek; [discriminate|].
    apply bind_kws_sound in Ek as (Hnd & Hall & Hf).
    destruct ((length (s_pos s) <? npos)%nat && negb (has_varpos s)) eqn:Et; [discriminate|].
    destruct (first_missing f' (s_pos s ++ s_kwonly s)) eqn:Em; [discriminate|].
    intros _. apply too_many_spec in Et.
    rewrite first_missing_none in Em.
    repeat split; auto; try (apply Hall; assumption).
    intros p Hp Hd. specialize (Em p Hp Hd). apply Hf in Em. tauto.
  - intros (Ht & Hnd & Hall & Hreq).
    destruct (bind_kws_complete s kws (firstn npos (pos_names s)) Hnd Hall) as [f' Ek].
    rewrite Ek. apply bind_kws_sound in Ek as (_ & _ & Hf).
    apply too_many_spec in Ht. rewrite Ht.
    assert (Em : first_missing f' (s_pos s ++ s_kwonly s) = None).
    { apply first_missing_none. intros p Hp Hd. apply Hf. destruct (Hreq p Hp Hd); auto. }
    rewrite Em. reflexivity.
Qed.

Lemma bind_spec s npos kws : bind s npos kws = BindOk <-> documented s npos kws.
Proof.
  unfold bind, documented.
  destruct (mem_str receiver kws) eqn:Er.
  - apply mem_str_In in Er. split; [discriminate | tauto].
  - apply mem_str_not_In in Er. rewrite bind_configure_spec.
    unfold documented_configure, name_ok. tauto.
Qed.

Lemma bind_error_explained s npos kws e :
  bind s npos kws = BindErr e -> explains s npos kws e.
Proof.
  unfold bind. destruct (mem_str receiver kws) eqn:Er.
  - intro H; inversion H; subst. apply mem_str_In in Er. simpl. auto.
  - unfold bind_configure, filled_positionally.
    destruct (bind_kws s (firstn npos (pos_names s)) kws) as [e'|f'] eqn:Ek.
    + intro H; inversion H; subst.
      apply bind_kws_error in Ek as [(k & pre & post & -> & -> & Hin)|(k & -> & Hin & Hno)]; simpl.
      * split; [apply in_or_app; right; left; reflexivity|].
        destruct Hin as [Hin|Hin]; [right; left; assumption|].
        right; right. exists pre, post; auto.
      * unfold name_ok in Hno. repeat split; auto.
        destruct (s_varkw s); [exfalso; apply Hno; right; discriminate | reflexivity].
    + apply bind_kws_sound in Ek as (_ & _ & Hf).
      destruct ((length (s_pos s) <? npos)%nat && negb (has_varpos s)) eqn:Et.
      * intro H; inversion H; subst; simpl.
        apply andb_true_iff in Et as [Et1 Et2]. apply Nat.ltb_lt in Et1. split; auto.
        apply negb_true_iff in Et2. unfold has_varpos in Et2. destruct (s_varpos s); congruence.
      * destruct (first_missing f' (s_pos s ++ s_kwonly s)) eqn:Em; [|discriminate].
        intro H; inversion H; subst; simpl.
        apply first_missing_some in Em as (p & Hp & Hn & Hd & Hnot).
        exists p. repeat split; auto; intro Hin; apply Hnot; apply Hf; auto.
Qed.

Lemma bind_error_not_documented s npos kws e :
  bind s npos kws = BindErr e -> ~ documented s npos kws.
Proof. intros H D. apply bind_spec in D. congruence. Qed.

Lemma bind_total s npos kws :
  bind s npos kws = BindOk \/ exists e, bind s npos kws = BindErr e.
Proof. destruct (bind s npos kws); eauto. Qed.

(* the clauses of the property as corollaries *)
Lemma documented_name_accepted s k :
  In k (kw_names s) -> k <> receiver ->
  (forall p, In p (s_pos s ++ s_kwonly s) -> p_dflt p = None -> p_name p = k) ->
  bind s 0 [k] = BindOk.
Proof.
  intros Hk Hr Hreq. apply bind_spec. unfold documented; simpl.
  repeat split.
  - intros [E|[]]; congruence.
  - left; apply Nat.le_0_l.
  - constructor; [intros [] | constructor].
  - destruct H as [<-|[]]; auto.
  - destruct H as [<-|[]]; auto.
  - intros p Hp Hd. right. left. symmetry. apply Hreq; auto.
Qed.

Lemma undeclared_name_rejected s npos kws k :
  In k kws -> ~ In k (kw_names s) -> s_varkw s = None -> bind s npos kws <> BindOk.
Proof.
  intros Hin Hno Hkw H. apply bind_spec in H. destruct H as (_ & _ & _ & Hall & _).
  destruct (Hall k Hin) as [[?|?] _]; congruence.
Qed.

Lemma too_many_rejected s npos kws :
  (length (s_pos s) < npos)%nat -> s_varpos s = None -> bind s npos kws <> BindOk.
Proof.
  intros Hlt Hv H. apply bind_spec in H. destruct H as (_ & [Hle|Hne] & _); [lia | congruence].
Qed.

Lemma missing_required_rejected s npos kws p :
  In p (s_pos s ++ s_kwonly s) -> p_dflt p = None ->
  ~ In (p_name p) (firstn npos (pos_names s)) -> ~ In (p_name p) kws ->
  bind s npos kws <> BindOk.
Proof.
  intros Hp Hd H1 H2 H. apply bind_spec in H. destruct H as (_ & _ & _ & _ & Hreq).
  destruct (Hreq p Hp Hd); contradiction.
Qed.

(* ================================================================================ *)
(* 2. Context rule, whole call, exit status                                          *)
(* ================================================================================ *)

Definition context_allowed (r : ctxreq) (has_ctx : bool) : Prop :=
  r = None \/ (r = Some true /\ has_ctx = true) \/ (r = Some false /\ has_ctx = false).

Lemma ctx_check_spec r c : ctx_check r c = CtxOk <-> context_allowed r c.
Proof.
  unfold context_allowed. destruct r as [[|]|], c; simpl; split; intro H;
    try reflexivity; try discriminate; auto;
    destruct H as [H|[[H1 H2]|[H1 H2]]]; congruence.
Qed.

Lemma ctx_check_missing r c : ctx_check r c = CtxMissing <-> r = Some true /\ c = false.
Proof. destruct r as [[|]|], c; simpl; split; intro H; try discriminate; auto; destruct H; congruence. Qed.

Lemma ctx_check_forbidden r c : ctx_check r c = CtxForbidden <-> r = Some false /\ c = true.
Proof. destruct r as [[|]|], c; simpl; split; intro H; try discriminate; auto; destruct H; congruence. Qed.

Lemma bind_call_accept s r cfg npos kws c :
  bind_call s r cfg npos kws c = Accept <->
  documented s npos kws /\ cfg = true /\ context_allowed r c.
Proof.
  unfold bind_call. rewrite <- bind_spec, <- ctx_check_spec.
  destruct (bind s npos kws); [|split; [discriminate | intros [H _]; discriminate]].
  destruct cfg; simpl; [|split; [discriminate | intros (_ & H & _); discriminate]].
  destruct (ctx_check r c); split; intro H; try discriminate; auto; destruct H as (_ & _ & H); discriminate.
Qed.

Lemma rejections_are_template_errors s r cfg npos kws c cl :
  bind_call s r cfg npos kws c = Reject cl ->
  is_template_error (exc_of_reject cl) = true /\ cli_status (exc_of_reject cl) = 3%Z.
Proof. intros _. destruct cl; simpl; auto. Qed.

Lemma status_of_outcome_spec o : status_of_outcome o = None \/ status_of_outcome o = Some 3%Z.
Proof. destruct o as [|[]]; simpl; auto. Qed.

(* a binding error wins over the context check (the factory is called first) *)
Lemma bind_error_first s r cfg npos kws c e :
  bind s npos kws = BindErr e -> bind_call s r cfg npos kws c = Reject (RBind e).
Proof. unfold bind_call. intros ->. reflexivity. Qed.

(* ================================================================================ *)
(* 3. The printed line determines signature and context requirement                  *)
(* ================================================================================ *)

(* names are identifiers; annotation texts contain neither ',' nor '=', default texts
   no ',' (everything else — brackets, quotes, spaces, '=' inside a default — is free) *)
Definition ident_str (n : str) : Prop := n <> [] /\ forallb is_ident n = true.
Definition wf_ann (a : str) : Prop := ~ In c_comma a /\ ~ In c_eq a.
Definition wf_dflt (d : option str) : Prop :=
  match d with Some t => ~ In c_comma t | None => True end.
Definition wf_param (p : param) : Prop :=
  ident_str (p_name p) /\ wf_ann (p_ann p) /\ wf_dflt (p_dflt p).
Definition wf_vparam (v : vparam) : Prop := ident_str (v_name v) /\ wf_ann (v_ann v).
Definition wf_opt (o : option vparam) : Prop :=
  match o with Some v => wf_vparam v | None => True end.
Definition wf_sig (s : sig) : Prop :=
  Forall wf_param (s_pos s) /\ wf_opt (s_varpos s) /\
  Forall wf_param (s_kwonly s) /\ wf_opt (s_varkw s).

(* ---- list utilities ---- *)

Lemma span_ident_app n tail :
  forallb is_ident n = true ->
  match tail with [] => True | c :: _ => is_ident c = false end ->
  span_ident (n ++ tail) = (n, tail).
Proof.
  intros Hn Ht. induction n as [|c n IH]; simpl.
  - destruct tail as [|c t]; simpl; [reflexivity | rewrite Ht; reflexivity].
  - simpl in Hn. apply andb_true_iff in Hn as [Hc Hn]. rewrite Hc, (IH Hn). reflexivity.
Qed.

Lemma split_first_none c s : ~ In c s -> split_first c s = None.
Proof.
  induction s as [|x s IH]; simpl; intro H; [reflexivity|].
  destruct (x =? c) eqn:E.
  - apply N.eqb_eq in E. exfalso; apply H; auto.
  - rewrite IH; auto.
Qed.

Lemma split_first_app c x y : ~ In c x -> split_first c (x ++ c :: y) = Some (x, y).
Proof.
  induction x as [|a x IH]; simpl; intro H.
  - rewrite N.eqb_refl. reflexivity.
  - destruct (a =? c) eqn:E.
    + apply N.eqb_eq in E. exfalso; apply H; auto.
    + rewrite IH; auto.
Qed.

Lemma skipn_length_app {A} (a b : list A) : skipn (length a) (a ++ b) = b.
Proof. induction a; simpl; auto. Qed.

Lemma is_prefix_app p r : is_prefix p (p ++ r) = true.
Proof. apply is_prefix_spec. exists r; reflexivity. Qed.

Lemma strip_suffix_app suf x : strip_suffix suf (x ++ suf) = Some x.
Proof.
  unfold strip_suffix. rewrite rev_app_distr, is_prefix_app, skipn_length_app, rev_involutive.
  reflexivity.
Qed.

Lemma split_all_single c x : ~ In c x -> split_all c x = [x].
Proof.
  induction x as [|a x IH]; simpl; intro H; [reflexivity|].
  destruct (a =? c) eqn:E.
  - apply N.eqb_eq in E. exfalso; apply H; auto.
  - rewrite IH; auto.
Qed.

Lemma split_all_app c x y : ~ In c x -> split_all c (x ++ c :: y) = x :: split_all c y.
Proof.
  induction x as [|a x IH]; simpl; intro H.
  - rewrite N.eqb_refl. reflexivity.
  - destruct (a =? c) eqn:E.
    + apply N.eqb_eq in E. exfalso; apply H; auto.
    + rewrite IH; auto.
Qed.

Lemma join_pieces_cons2 p q l :
  join_pieces (p :: q :: l) = p ++ c_comma :: c_space :: join_pieces (q :: l).
Proof. reflexivity. Qed.

Lemma split_all_join : forall ps p,
  Forall (fun x => ~ In c_comma x) (p :: ps) ->
  split_all c_comma (join_pieces (p :: ps)) = p :: map (cons c_space) ps.
Proof.
  induction ps as [|q ps IH]; intros p H.
  - simpl. apply split_all_single. inversion H; assumption.
  - rewrite join_pieces_cons2. inversion H as [|? ? Hp Hrest]; subst.
    rewrite split_all_app by assumption.
    change (split_all c_comma (c_space :: join_pieces (q :: ps)))
      with (match split_all c_comma (join_pieces (q :: ps)) with
            | [] => [[c_space]] | h :: t => (c_space :: h) :: t end).
    rewrite (IH q Hrest). reflexivity.
Qed.

Lemma unspace_false ps : unspace false (map (cons c_space) ps) = Some ps.
Proof.
  induction ps as [|p ps IH]; simpl; [reflexivity|].
  change (c_space =? c_space) with true. cbv iota. rewrite IH. reflexivity.
Qed.

Lemma unspace_true p ps : unspace true (p :: map (cons c_space) ps) = Some (p :: ps).
Proof. simpl. rewrite unspace_false. reflexivity. Qed.

Lemma map_opt_map {A B} (f : A -> option B) (g : B -> A) (l : list B) :
  Forall (fun x => f (g x) = Some x) l -> map_opt f (map g l) = Some l.
Proof.
  induction 1 as [|x l Hx _ IH]; simpl; [reflexivity|]. rewrite Hx, IH. reflexivity.
Qed.

(* ---- one parameter ---- *)

Lemma parse_tail_render a d : wf_ann a -> parse_tail (render_tail a d) = Some (a, d).
Proof.
  intros [Hc He]. unfold render_tail.
  destruct a as [|a0 a'].
  - destruct d as [t|]; reflexivity.
  - remember (a0 :: a') as a eqn:Ea.
    assert (Hne : a <> []) by (subst; discriminate).
    destruct d as [t|].
    + unfold parse_tail.
      change (c_colon =? c_eq) with false. change (c_colon =? c_colon) with true.
      change (c_space =? c_space) with true. cbv iota.
      replace (a ++ c_space :: c_eq :: c_space :: t)
        with ((a ++ [c_space]) ++ c_eq :: c_space :: t)
        by (rewrite <- app_assoc; reflexivity).
      rewrite split_first_app.
      * rewrite strip_suffix_app.
        change (c_space =? c_space) with true. cbv iota.
        destruct a; [contradiction | reflexivity].
      * rewrite in_app_iff. intros [H|[H|[]]]; [contradiction | discriminate].
    + unfold parse_tail.
      change (c_colon =? c_eq) with false. change (c_colon =? c_colon) with true.
      change (c_space =? c_space) with true. cbv iota.
      rewrite app_nil_r. rewrite split_first_none by assumption.
      destruct a; [contradiction | reflexivity].
Qed.

Lemma render_tail_head a d :
  match render_tail a d with [] => True | c :: _ => is_ident c = false end.
Proof. unfold render_tail. destruct a; destruct d; simpl; auto. Qed.

Lemma parse_named_render n a d :
  ident_str n -> wf_ann a -> parse_named (render_named n a d) = Some (n, a, d).
Proof.
  intros [Hne Hid] Ha. unfold parse_named, render_named.
  rewrite (span_ident_app n _ Hid (render_tail_head a d)).
  rewrite (parse_tail_render a d Ha).
  destruct n; [contradiction | reflexivity].
Qed.

Lemma ident_not_star c : is_ident c = true -> (c =? c_star) = false.
Proof.
  intro H. destruct (c =? c_star) eqn:E; [|reflexivity].
  apply N.eqb_eq in E; subst. vm_compute in H. discriminate.
Qed.

Lemma render_named_head n a d :
  ident_str n -> exists c rest, render_named n a d = c :: rest /\ is_ident c = true.
Proof.
  intros [Hne Hid]. destruct n as [|c n]; [contradiction|].
  simpl in Hid. apply andb_true_iff in Hid as [Hc _].
  exists c, (n ++ render_tail a d). split; [reflexivity | assumption].
Qed.

(* ---- one comma separated piece ---- *)

Definition render_piece (pc : piece) : str :=
  match pc with
  | PcParam p => render_param p
  | PcStar => [c_star]
  | PcVarPos v => c_star :: render_named (v_name v) (v_ann v) None
  | PcVarKw v => c_star :: c_star :: render_named (v_name v) (v_ann v) None
  end.

Definition wf_piece (pc : piece) : Prop :=
  match pc with
  | PcParam p => wf_param p
  | PcStar => True
  | PcVarPos v | PcVarKw v => wf_vparam v
  end.

Definition as_param (r : option (str * str * option str)) : option piece :=
  match r with
  | Some (n, ann, d) => Some (PcParam {| p_name := n; p_ann := ann; p_dflt := d |})
  | None => None
  end.

Lemma parse_piece_nonstar c rest :
  (c =? c_star) = false -> parse_piece (c :: rest) = as_param (parse_named (c :: rest)).
Proof.
  intro H. unfold parse_piece, as_param. destruct rest as [|b rest]; rewrite H; simpl;
    destruct (parse_named _) as [[[? ?] ?]|]; reflexivity.
Qed.

Lemma parse_piece_render pc : wf_piece pc -> parse_piece (render_piece pc) = Some pc.
Proof.
  destruct pc as [p| |v|v]; simpl.
  - intros (Hn & Ha & _). unfold render_param.
    destruct (render_named_head (p_name p) (p_ann p) (p_dflt p) Hn) as (c & rest & E & Hc).
    pose proof (parse_named_render (p_name p) (p_ann p) (p_dflt p) Hn Ha) as Hp.
    rewrite E in *. rewrite (parse_piece_nonstar c rest (ident_not_star c Hc)), Hp.
    destruct p; reflexivity.
  - intros _. reflexivity.
  - intros (Hn & Ha).
    destruct (render_named_head (v_name v) (v_ann v) None Hn) as (c & rest & E & Hc).
    pose proof (parse_named_render (v_name v) (v_ann v) None Hn Ha) as Hp.
    rewrite E in *. unfold parse_piece.
    change (c_star =? c_star) with true. rewrite (ident_not_star c Hc). simpl.
    rewrite Hp. destruct v; reflexivity.
  - intros (Hn & Ha).
    pose proof (parse_named_render (v_name v) (v_ann v) None Hn Ha) as Hp.
    unfold parse_piece. change (c_star =? c_star) with true. simpl.
    rewrite Hp. destruct v; reflexivity.
Qed.

Lemma ident_no_char c n : is_ident c = false -> forallb is_ident n = true -> ~ In c n.
Proof.
  intros Hc Hn Hin. rewrite forallb_forall in Hn. apply Hn in Hin. congruence.
Qed.

Lemma no_comma_named n a d :
  ident_str n -> wf_ann a -> wf_dflt d -> ~ In c_comma (render_named n a d).
Proof.
  intros [_ Hid] [Hc _] Hd. unfold render_named, render_tail. rewrite in_app_iff.
  intros [H|H].
  - revert H. apply ident_no_char; [reflexivity | assumption].
  - destruct a as [|a0 a'].
    + destruct d as [t|]; simpl in *; [destruct H as [H|H]; [discriminate | contradiction] | contradiction].
    + remember (a0 :: a') as a. simpl in H.
      destruct H as [H|[H|H]]; try discriminate.
      rewrite in_app_iff in H. destruct H as [H|H]; [contradiction|].
      destruct d as [t|]; simpl in *; [|contradiction].
      destruct H as [H|[H|[H|H]]]; try discriminate. contradiction.
Qed.

Lemma no_comma_piece pc : wf_piece pc -> ~ In c_comma (render_piece pc).
Proof.
  destruct pc as [p| |v|v]; simpl.
  - intros (Hn & Ha & Hd). apply no_comma_named; assumption.
  - intros _ [H|[]]; discriminate.
  - intros (Hn & Ha) [H|H]; [discriminate|].
    revert H. apply no_comma_named; simpl; auto.
  - intros (Hn & Ha) [H|[H|H]]; try discriminate.
    revert H. apply no_comma_named; simpl; auto.
Qed.

Lemma render_piece_nonempty pc : wf_piece pc -> render_piece pc <> [].
Proof.
  destruct pc as [p| |v|v]; simpl; try discriminate.
  intros (Hn & _). destruct (render_named_head (p_name p) (p_ann p) (p_dflt p) Hn) as (c & rest & E & _).
  unfold render_param. rewrite E. discriminate.
Qed.

(* ---- the whole parameter list ---- *)

Definition sig_pcs (s : sig) : list piece :=
  map PcParam (s_pos s)
  ++ match s_varpos s with
     | Some v => [PcVarPos v]
     | None => match s_kwonly s with [] => [] | _ => [PcStar] end
     end
  ++ map PcParam (s_kwonly s)
  ++ match s_varkw s with Some v => [PcVarKw v] | None => [] end.

Lemma sig_pieces_pcs s : sig_pieces s = map render_piece (sig_pcs s).
Proof.
  unfold sig_pieces, sig_pcs. rewrite !map_app, !map_map.
  destruct (s_varpos s), (s_kwonly s), (s_varkw s); reflexivity.
Qed.

Lemma wf_sig_pcs s : wf_sig s -> Forall wf_piece (sig_pcs s).
Proof.
  intros (Hp & Hvp & Hk & Hvk). unfold sig_pcs.
  repeat (apply Forall_app; split).
  - apply Forall_map. exact Hp.
  - destruct (s_varpos s); [constructor; [exact Hvp | constructor]|].
    destruct (s_kwonly s); [constructor | constructor; [exact I | constructor]].
  - apply Forall_map. exact Hk.
  - destruct (s_varkw s); [constructor; [exact Hvk | constructor] | constructor].
Qed.

Definition set_pos (acc : sig) (l : list param) : sig :=
  {| s_pos := l; s_varpos := s_varpos acc; s_kwonly := s_kwonly acc; s_varkw := s_varkw acc |}.
Definition set_kwonly (acc : sig) (l : list param) : sig :=
  {| s_pos := s_pos acc; s_varpos := s_varpos acc; s_kwonly := l; s_varkw := s_varkw acc |}.

Lemma assemble_pos : forall ps acc rest,
  assemble 0 acc (map PcParam ps ++ rest) = assemble 0 (set_pos acc (s_pos acc ++ ps)) rest.
Proof.
  induction ps as [|p ps IH]; intros acc rest; simpl.
  - unfold set_pos. rewrite app_nil_r. destruct acc; reflexivity.
  - rewrite IH. unfold set_pos; simpl. rewrite <- app_assoc. reflexivity.
Qed.

Lemma assemble_kwonly : forall ps acc rest,
  assemble 1 acc (map PcParam ps ++ rest) = assemble 1 (set_kwonly acc (s_kwonly acc ++ ps)) rest.
Proof.
  induction ps as [|p ps IH]; intros acc rest; simpl.
  - unfold set_kwonly. rewrite app_nil_r. destruct acc; reflexivity.
  - rewrite IH. unfold set_kwonly; simpl. rewrite <- app_assoc. reflexivity.
Qed.

Lemma assemble_sig_pcs s : assemble 0 empty_sig (sig_pcs s) = Some s.
Proof.
  destruct s as [pos vp kwo vk]. unfold sig_pcs; simpl.
  rewrite assemble_pos. unfold set_pos, empty_sig; simpl.
  destruct vp as [v|]; simpl.
  - rewrite assemble_kwonly. unfold set_kwonly; simpl. destruct vk; reflexivity.
  - destruct kwo as [|k kwo].
    + simpl. destruct vk; reflexivity.
    + change ([PcStar] ++ map PcParam (k :: kwo) ++ match vk with Some v => [PcVarKw v] | None => [] end)
        with (PcStar :: (map PcParam (k :: kwo) ++ match vk with Some v => [PcVarKw v] | None => [] end)).
      cbv beta iota delta [assemble]. fold assemble.
      rewrite assemble_kwonly. unfold set_kwonly; simpl. destruct vk; reflexivity.
Qed.

Definition is_star (pc : piece) : bool := match pc with PcStar => true | _ => false end.

Lemma no_star_params l : existsb is_star (map PcParam l) = false.
Proof. induction l; simpl; auto. Qed.

Lemma star_check s :
  existsb is_star (sig_pcs s) && match s_kwonly s with [] => true | _ => false end = false.
Proof.
  destruct (s_kwonly s) eqn:Ek; [|apply andb_false_r].
  rewrite andb_true_r. unfold sig_pcs. rewrite Ek. rewrite !existsb_app, !no_star_params.
  destruct (s_varpos s), (s_varkw s); reflexivity.
Qed.

Lemma sig_pcs_nil s : sig_pcs s = [] -> s = empty_sig.
Proof.
  destruct s as [pos vp kwo vk]. unfold sig_pcs; simpl.
  destruct pos; [|discriminate]. destruct vp; [discriminate|].
  destruct kwo; [|discriminate]. destruct vk; [discriminate|]. reflexivity.
Qed.

Lemma join_pieces_nonempty x l : x <> [] -> join_pieces (x :: l) <> [].
Proof. intro H. destruct l; simpl; destruct x; try contradiction; discriminate. Qed.

Lemma parse_body_render s : wf_sig s -> parse_body (join_pieces (sig_pieces s)) = Some s.
Proof.
  intro Hwf. pose proof (wf_sig_pcs s Hwf) as Hpcs.
  rewrite sig_pieces_pcs.
  destruct (sig_pcs s) as [|pc pcs] eqn:E.
  - apply sig_pcs_nil in E. subst. reflexivity.
  - inversion Hpcs as [|? ? Hpc Hrest]; subst.
    unfold parse_body.
    pose proof (join_pieces_nonempty (render_piece pc) (map render_piece pcs)
                  (render_piece_nonempty pc Hpc)) as Hne.
    simpl map. destruct (join_pieces (render_piece pc :: map render_piece pcs)) eqn:Ej;
      [contradiction|]. rewrite <- Ej. clear Ej Hne.
    rewrite split_all_join.
    + rewrite unspace_true.
      change (render_piece pc :: map render_piece pcs) with (map render_piece (pc :: pcs)).
      rewrite (map_opt_map parse_piece render_piece (pc :: pcs)).
      * rewrite <- E. rewrite assemble_sig_pcs.
        fold is_star. change (fun pc0 : piece => match pc0 with PcStar => true | _ => false end) with is_star.
        rewrite star_check. reflexivity.
      * eapply Forall_impl; [|exact Hpcs]. intros; apply parse_piece_render; assumption.
    + change (render_piece pc :: map render_piece pcs) with (map render_piece (pc :: pcs)).
      apply Forall_map. eapply Forall_impl; [|exact Hpcs]. intros; apply no_comma_piece; assumption.
Qed.

Lemma parse_render_sig s : wf_sig s -> parse_sig (render_sig s) = Some s.
Proof.
  intro H. unfold parse_sig, render_sig.
  change (c_lpar =? c_lpar) with true. cbv iota.
  rewrite strip_suffix_app. apply parse_body_render; assumption.
Qed.

(* ---- the whole line ---- *)

Lemma strip_suffix_last_differs suf x a b :
  a <> b -> strip_suffix (suf ++ [a]) (x ++ [b]) = None.
Proof.
  intro H. unfold strip_suffix. rewrite !rev_app_distr. simpl.
  destruct (a =? b) eqn:E; [apply N.eqb_eq in E; contradiction | reflexivity].
Qed.

Lemma read_marker_optional t : read_marker (t ++ mk_optional) = (t, None).
Proof. unfold read_marker. rewrite strip_suffix_app. reflexivity. Qed.

Lemma read_marker_required t :
  (t = [] \/ exists b, t = b ++ [c_rpar]) -> read_marker (t ++ mk_required) = (t, Some true).
Proof.
  intro Ht. unfold read_marker.
  assert (E : strip_suffix mk_optional (t ++ mk_required) = None).
  { destruct Ht as [->|[b ->]].
    - reflexivity.
    - unfold strip_suffix. rewrite !rev_app_distr. reflexivity. }
  rewrite E, strip_suffix_app. reflexivity.
Qed.

Lemma read_marker_forbidden b : read_marker (b ++ [c_rpar]) = (b ++ [c_rpar], Some false).
Proof.
  unfold read_marker.
  change mk_optional with ([91; 123; 46; 46; 46; 125] ++ [93]).
  rewrite strip_suffix_last_differs by discriminate.
  change mk_required with ([123; 46; 46; 46] ++ [125]).
  rewrite strip_suffix_last_differs by discriminate.
  reflexivity.
Qed.

Lemma read_marker_forbidden' t :
  (exists b, t = b ++ [c_rpar]) -> read_marker t = (t, Some false).
Proof. intros [b ->]. apply read_marker_forbidden. Qed.

Lemma render_sig_shape s : exists b, render_sig s = (c_lpar :: b) ++ [c_rpar].
Proof. exists (join_pieces (sig_pieces s)). reflexivity. Qed.

Lemma sig_is_empty_spec s : sig_is_empty s = true -> s = empty_sig.
Proof.
  destruct s as [pos vp kwo vk]. unfold sig_is_empty; simpl.
  destruct pos, vp, kwo, vk; try discriminate. reflexivity.
Qed.

Lemma parse_line_finish (name t : str) (r : ctxreq) (s : sig) :
  name <> [] -> t <> [] -> parse_sig t = Some s ->
  (let '(t0, r0) := (t, r) in
   match name with
   | [] => None
   | _ => match t0, r0 with
          | [], Some true => Some (name, empty_sig, r0)
          | [], _ => None
          | _, _ => match parse_sig t0 with Some s0 => Some (name, s0, r0) | None => None end
          end
   end) = Some (name, s, r).
Proof.
  intros Hn Ht Hp. destruct name; [contradiction|]. destruct t; [contradiction|].
  rewrite Hp. destruct r as [[|]|]; reflexivity.
Qed.

Lemma parse_render_line name s r :
  ident_str name -> wf_sig s -> parse_line (render_line name s r) = Some (name, s, r).
Proof.
  intros [Hne Hid] Hwf. unfold parse_line, render_line.
  change (c_pct =? c_pct) with true. cbv iota.
  destruct (render_sig_shape s) as [b Hb].
  pose proof (parse_render_sig s Hwf) as Hps.
  destruct r as [[|]|].
  - (* required *)
    destruct (sig_is_empty s) eqn:Ee.
    + apply sig_is_empty_spec in Ee. subst s.
      rewrite (span_ident_app name _ Hid) by reflexivity.
      destruct name; [contradiction | reflexivity].
    + rewrite (span_ident_app name _ Hid) by (rewrite Hb; reflexivity).
      rewrite read_marker_required by (right; exists (c_lpar :: b); exact Hb).
      apply (parse_line_finish name (render_sig s) (Some true) s); auto. rewrite Hb; discriminate.
  - (* forbidden *)
    rewrite (span_ident_app name _ Hid) by (rewrite Hb; reflexivity).
    rewrite read_marker_forbidden' by (exists (c_lpar :: b); exact Hb).
    apply (parse_line_finish name (render_sig s) (Some false) s); auto. rewrite Hb; discriminate.
  - (* optional *)
    rewrite (span_ident_app name _ Hid) by (rewrite Hb; reflexivity).
    rewrite read_marker_optional.
    apply (parse_line_finish name (render_sig s) None s); auto. rewrite Hb; discriminate.
Qed.

Lemma marker_roundtrip name s r :
  ident_str name -> wf_sig s ->
  exists name' s', parse_line (render_line name s r) = Some (name', s', r).
Proof. intros Hn Hs. exists name, s. apply parse_render_line; assumption. Qed.

Lemma render_line_injective n1 s1 r1 n2 s2 r2 :
  ident_str n1 -> wf_sig s1 -> ident_str n2 -> wf_sig s2 ->
  render_line n1 s1 r1 = render_line n2 s2 r2 -> n1 = n2 /\ s1 = s2 /\ r1 = r2.
Proof.
  intros H1 W1 H2 W2 E.
  pose proof (parse_render_line n1 s1 r1 H1 W1) as P1.
  pose proof (parse_render_line n2 s2 r2 H2 W2) as P2.
  rewrite E in P1. rewrite P1 in P2. inversion P2; auto.
Qed.

Lemma help_decides_calls name s r cfg npos kws c :
  ident_str name -> wf_sig s ->
  exists s' r', parse_line (render_line name s r) = Some (name, s', r') /\
    bind_call s' r' cfg npos kws c = bind_call s r cfg npos kws c.
Proof.
  intros Hn Hs. exists s, r. split; [apply parse_render_line; assumption | reflexivity].
Qed.
