(* tempren/template/ast.py PatternElementSequence.process for an arbitrary tag semantics:   *)
(* a tag maps (category, name, arguments, keyword arguments, rendered context or None) to    *)
(* the text it contributes for the file at hand.  Model only - no proofs in this file.       *)
From Tempren Require Import Base.Str Tpl.Ast.
Open Scope N_scope.

Section Render.
  Variable sem : option str -> str -> list argval -> list (str * argval) -> option str -> str.

  Fixpoint render_ast (e : ast) : str :=
    match e with
    | RawText s => s
    | Tag c n a k h x => sem c n a k (if h then Some (render_pat x) else None)
    end
  with render_pat (p : pat) : str :=
    match p with
    | PNil => []
    | PCons e p' => render_ast e ++ render_pat p'
    end.
End Render.
