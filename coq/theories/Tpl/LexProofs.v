(* Proofs about the lexer model: every step consumes its lexeme (L0), the unfolding          *)
(* equation of [lex_from] (L1), partition (L3), reading back lexable token lists (L2),       *)
(* error positions (L5), the output is lexable (L4), composition (L7).                       *)
From Tempren Require Import Base.Str Tpl.Ast Tpl.Lexer Tpl.Cst Tpl.Printer Tpl.Visitor
  Tpl.LexSpec Tpl.LexSpecFacts.
Open Scope N_scope.

(* ---------- tactics for character classes -------------------------------------------------- *)

(* case analysis on every comparison of code points, pruning impossible branches at once *)
Ltac cmp_cases :=
  repeat match goal with
  | |- context [N.eqb ?a ?b] => destruct (N.eqb_spec a b); try lia
  | |- context [N.leb ?a ?b] => destruct (N.leb_spec a b); try lia
  | H : context [N.eqb ?a ?b] |- _ => destruct (N.eqb_spec a b); try lia
  | H : context [N.leb ?a ?b] |- _ => destruct (N.leb_spec a b); try lia
  end.

Ltac unfold_classes :=
  unfold text_plain, is_meta3, is_aws, is_gws, is_quote, is_id_start, is_id_char, is_letter,
    is_ascii_upper, is_ascii_lower, is_digit in *.

(* goals and hypotheses that are boolean combinations of comparisons of one character *)
Ltac chars_tac :=
  unfold_classes; cmp_cases; simpl in *; try reflexivity; try discriminate; try lia.

(* ---------- the scanners split their input ------------------------------------------------- *)

Lemma scan_text_app s : forall pb p r, scan_text pb s = (p, r) -> s = p ++ r.
Proof.
  induction s as [|c s IH]; intros pb p r H; simpl in H.
  - inversion H; reflexivity.
  - destruct (text_plain c).
    + destruct (scan_text (c =? 92) s) as [p' r'] eqn:E.
      inversion H; subst. simpl. f_equal. eapply IH; eauto.
    + destruct (is_meta3 c && pb).
      * destruct (scan_text false s) as [p' r'] eqn:E.
        inversion H; subst. simpl. f_equal. eapply IH; eauto.
      * inversion H; subst. reflexivity.
Qed.

Lemma scan_while_app f s : forall p r, scan_while f s = (p, r) -> s = p ++ r.
Proof.
  induction s as [|c s IH]; intros p r H; simpl in H.
  - inversion H; reflexivity.
  - destruct (f c).
    + destruct (scan_while f s) as [p' r'] eqn:E.
      inversion H; subst. simpl. f_equal. eapply IH; eauto.
    + inversion H; subst. reflexivity.
Qed.

Lemma scan_string_app q s : forall pb p r, scan_string q pb s = Some (p, r) -> s = p ++ r.
Proof.
  induction s as [|c s IH]; intros pb p r H; simpl in H.
  - discriminate.
  - destruct (c =? q).
    + destruct pb.
      * destruct (scan_string q false s) as [[p' r']|] eqn:E.
        -- inversion H; subst. simpl. f_equal. eapply IH; eauto.
        -- inversion H; subst. reflexivity.
      * inversion H; subst. reflexivity.
    + destruct (scan_string q (c =? 92) s) as [[p' r']|] eqn:E; [|discriminate].
      inversion H; subst. simpl. f_equal. eapply IH; eauto.
Qed.

(* ---------- L0 ----------------------------------------------------------------------------- *)

Lemma lex_step_chars m s t m' rest :
  lex_step m s = Some (t, m', rest) ->
  s = lexeme t ++ rest /\ lexeme t <> [] /\ m' = mode_after m t.
Proof.
  destruct s as [|c r]; [discriminate|].
  unfold lex_step. destruct m.
  - destruct (is_gws c) eqn:Eg; [intros H; inversion H; subst; simpl; repeat split; discriminate|].
    destruct (N.eqb_spec c 37);
      [intros H; inversion H; subst; simpl; repeat split; discriminate|].
    destruct (N.eqb_spec c 124);
      [intros H; inversion H; subst; simpl; repeat split; discriminate|].
    destruct (N.eqb_spec c 123);
      [intros H; inversion H; subst; simpl; repeat split; discriminate|].
    destruct (N.eqb_spec c 125);
      [intros H; inversion H; subst; simpl; repeat split; discriminate|].
    destruct (scan_text false (c :: r)) as [p rest'] eqn:E.
    intros H; inversion H; subst. simpl.
    split; [eapply scan_text_app; eauto|]. split; [|reflexivity].
    assert (Hp : text_plain c = true).
    { unfold text_plain, is_meta3. rewrite Eg.
      repeat match goal with Hc : c <> _ |- _ => apply N.eqb_neq in Hc; rewrite Hc; clear Hc end.
      reflexivity. }
    simpl in E. rewrite Hp in E.
    destruct (scan_text (c =? 92) r) as [p' r']. inversion E; subst. discriminate.
  - destruct (is_gws c); [intros H; inversion H; subst; simpl; repeat split; discriminate|].
    destruct (N.eqb_spec c 40);
      [intros H; inversion H; subst; simpl; repeat split; discriminate|].
    destruct (N.eqb_spec c 123);
      [intros H; inversion H; subst; simpl; repeat split; discriminate|].
    destruct (N.eqb_spec c 46);
      [intros H; inversion H; subst; simpl; repeat split; discriminate|].
    destruct (is_id_start c); [|discriminate].
    destruct (scan_while is_id_char r) as [p rest'] eqn:E.
    intros H; inversion H; subst. simpl.
    split; [f_equal; eapply scan_while_app; eauto|]. split; [discriminate|reflexivity].
  - destruct (is_aws c); [intros H; inversion H; subst; simpl; repeat split; discriminate|].
    destruct (N.eqb_spec c 41);
      [intros H; inversion H; subst; simpl; repeat split; discriminate|].
    destruct (N.eqb_spec c 44);
      [intros H; inversion H; subst; simpl; repeat split; discriminate|].
    destruct (N.eqb_spec c 61);
      [intros H; inversion H; subst; simpl; repeat split; discriminate|].
    destruct (is_digit c).
    { destruct (scan_while is_digit r) as [p rest'] eqn:E.
      intros H; inversion H; subst. simpl.
      split; [f_equal; eapply scan_while_app; eauto|]. split; [discriminate|reflexivity]. }
    destruct (N.eqb_spec c 45).
    { destruct (scan_while is_digit r) as [p rest'] eqn:E.
      destruct p as [|d p]; [discriminate|].
      intros H; inversion H; subst. simpl.
      split; [f_equal; eapply (scan_while_app _ _ (d :: p)); eauto|].
      split; [discriminate|reflexivity]. }
    destruct (is_quote c).
    { destruct (scan_string c false r) as [[p rest']|] eqn:E; [|discriminate].
      intros H; inversion H; subst. simpl.
      split; [f_equal; eapply scan_string_app; eauto|]. split; [discriminate|reflexivity]. }
    destruct (is_id_start c); [|discriminate].
    destruct (scan_while is_id_char r) as [p rest'] eqn:E.
    intros H; inversion H; subst.
    destruct (is_bool_word (c :: p)); simpl;
      (split; [f_equal; eapply scan_while_app; eauto|]; split; [discriminate|reflexivity]).
Qed.

Lemma lex_step_shorter m s t m' rest :
  lex_step m s = Some (t, m', rest) -> (length rest < length s)%nat.
Proof.
  intros H. apply lex_step_chars in H as (-> & Hne & _).
  rewrite app_length. destruct (lexeme t); [contradiction|]. simpl. lia.
Qed.

(* ---------- L1 ----------------------------------------------------------------------------- *)

Lemma lex_loop_fuel n : forall n' m pos s,
  (length s < n)%nat -> (length s < n')%nat -> lex_loop n m pos s = lex_loop n' m pos s.
Proof.
  induction n as [|n IH]; intros n' m pos s H H'; [lia|].
  destruct n' as [|n']; [lia|].
  destruct s as [|c r]; [reflexivity|].
  cbn [lex_loop].
  destruct (lex_step m (c :: r)) as [[[t m'] rest]|] eqn:E; [|reflexivity].
  apply lex_step_shorter in E. f_equal. apply IH; lia.
Qed.

Lemma lex_from_eq m pos s :
  lex_from m pos s =
  match s with
  | [] => LexOk []
  | _ => match lex_step m s with
         | None => LexError pos
         | Some (t, m', rest) => lex_cons t (lex_from m' (pos + N.of_nat (length (lexeme t))) rest)
         end
  end.
Proof.
  destruct s as [|c r]; [reflexivity|].
  unfold lex_from at 1. cbn [lex_loop].
  destruct (lex_step m (c :: r)) as [[[t m'] rest]|] eqn:E; [|reflexivity].
  apply lex_step_shorter in E. f_equal. unfold lex_from. apply lex_loop_fuel; simpl in *; lia.
Qed.

(* the shape every proof by induction on the input uses *)
Lemma lex_from_cases m pos s :
  (s = [] /\ lex_from m pos s = LexOk []) \/
  (s <> [] /\ lex_step m s = None /\ lex_from m pos s = LexError pos) \/
  (exists t rest, s <> [] /\ lex_step m s = Some (t, mode_after m t, rest) /\
     s = lexeme t ++ rest /\ lexeme t <> [] /\ (length rest < length s)%nat /\
     lex_from m pos s =
       lex_cons t (lex_from (mode_after m t) (pos + N.of_nat (length (lexeme t))) rest)).
Proof.
  rewrite (lex_from_eq m pos s).
  destruct s as [|c r]; [left; split; reflexivity|]. right.
  destruct (lex_step m (c :: r)) as [[[t m'] rest]|] eqn:E.
  - right. pose proof (lex_step_shorter _ _ _ _ _ E) as Hlen.
    pose proof (lex_step_chars _ _ _ _ _ E) as (Hs & Hne & ->).
    exists t, rest. repeat split; try assumption. discriminate.
  - left. repeat split. discriminate.
Qed.

Lemma lex_cons_ok t r toks : lex_cons t r = LexOk toks -> exists toks', r = LexOk toks' /\ toks = t :: toks'.
Proof. destruct r; simpl; intros H; inversion H; subst; eauto. Qed.

Lemma lex_cons_err t r i : lex_cons t r = LexError i -> r = LexError i.
Proof. destruct r; simpl; intros H; inversion H; subst; eauto. Qed.

(* ---------- L3 ----------------------------------------------------------------------------- *)

Lemma lex_partition_n n : forall m pos s toks,
  (length s <= n)%nat -> lex_from m pos s = LexOk toks -> chars toks = s.
Proof.
  induction n as [|n IH]; intros m pos s toks Hn H.
  - destruct s; [|simpl in Hn; lia]. rewrite lex_from_eq in H. inversion H; reflexivity.
  - destruct (lex_from_cases m pos s) as [(-> & E)|[(_ & _ & E)|(t & rest & _ & _ & Hs & _ & Hlen & E)]].
    + rewrite E in H. inversion H; reflexivity.
    + rewrite E in H. discriminate.
    + rewrite E in H. apply lex_cons_ok in H as (toks' & H & ->).
      apply IH in H; [|lia]. rewrite chars_cons, H. symmetry; exact Hs.
Qed.

Lemma lex_partition m pos s toks : lex_from m pos s = LexOk toks -> chars toks = s.
Proof. apply (lex_partition_n (length s)). lia. Qed.

Lemma lex_from_pos_n n : forall m p p' s toks,
  (length s <= n)%nat -> lex_from m p s = LexOk toks -> lex_from m p' s = LexOk toks.
Proof.
  induction n as [|n IH]; intros m p p' s toks Hn H.
  - destruct s; [|simpl in Hn; lia]. rewrite lex_from_eq in *. exact H.
  - destruct (lex_from_cases m p s) as [(-> & E)|[(_ & _ & E)|(t & rest & Hsne & Est & Hs & _ & Hlen & E)]].
    + rewrite lex_from_eq in *. exact H.
    + rewrite E in H. discriminate.
    + rewrite E in H. apply lex_cons_ok in H as (toks' & H & ->).
      rewrite (lex_from_eq m p' s). rewrite Est.
      destruct s as [|c r]; [contradiction|].
      erewrite IH; [reflexivity| |exact H]. lia.
Qed.

Lemma lex_from_pos m p p' s toks : lex_from m p s = LexOk toks -> lex_from m p' s = LexOk toks.
Proof. apply (lex_from_pos_n (length s)). lia. Qed.
(* ---------- L2: the scanners read back what they are given ---------------------------------- *)

(* the backslash flag at the end of a run *)
Fixpoint end_pb (pb : bool) (s : str) : bool :=
  match s with [] => pb | c :: r => end_pb (c =? 92) r end.

Lemma is_bs_match c : match c with 92 => true | _ => false end = (c =? 92).
Proof. destruct c as [|p]; [reflexivity|]. do 7 (destruct p as [p|p|]; try reflexivity). Qed.

Lemma end_pb_rev s : forall pb, end_pb pb s = match rev s with [] => pb | c :: _ => c =? 92 end.
Proof.
  induction s as [|c r IH]; intros pb; simpl; [reflexivity|].
  rewrite IH. destruct (rev r); reflexivity.
Qed.

Lemma end_pb_last s : end_pb false s = last_is_backslash s.
Proof.
  rewrite end_pb_rev. unfold last_is_backslash.
  destruct (rev s) as [|c l]; [reflexivity|]. symmetry; apply is_bs_match.
Qed.

Definition text_stop (pb : bool) (o : option N) : bool :=
  opt_not (fun c => text_plain c || (is_meta3 c && pb)) o.

Lemma meta3_not_bs c : is_meta3 c = true -> (c =? 92) = false.
Proof. intros H. chars_tac. Qed.

Lemma scan_text_ext s : forall pb rest,
  scan_text pb s = (s, []) -> text_stop (end_pb pb s) (hd_error rest) = true ->
  scan_text pb (s ++ rest) = (s, rest).
Proof.
  induction s as [|c r IH]; intros pb rest H Hn.
  - simpl in *. destruct rest as [|d rest]; [reflexivity|].
    unfold text_stop in Hn. simpl in Hn.
    apply negb_true_iff, orb_false_iff in Hn as [H1 H2]. simpl. rewrite H1, H2. reflexivity.
  - simpl in *. destruct (text_plain c).
    + destruct (scan_text (c =? 92) r) as [p' r'] eqn:E. inversion H; subst.
      rewrite (IH _ _ E Hn). reflexivity.
    + destruct (is_meta3 c && pb) eqn:Em; [|discriminate].
      destruct (scan_text false r) as [p' r'] eqn:E. inversion H; subst.
      apply andb_true_iff in Em as [Em _]. rewrite (meta3_not_bs _ Em) in Hn.
      rewrite (IH _ _ E Hn). reflexivity.
Qed.

Lemma scan_while_ext f p : forall rest,
  forallb f p = true -> opt_not f (hd_error rest) = true -> scan_while f (p ++ rest) = (p, rest).
Proof.
  induction p as [|c p IH]; intros rest Hp Hn.
  - simpl. destruct rest as [|d rest]; [reflexivity|]. simpl in *.
    apply negb_true_iff in Hn. rewrite Hn. reflexivity.
  - simpl in *. apply andb_true_iff in Hp as [Hc Hp]. rewrite Hc, (IH _ Hp Hn). reflexivity.
Qed.

Lemma scan_string_ext q body : forall pb rest,
  (q =? 92) = false -> str_body_ok q pb body = true ->
  scan_string q pb (body ++ q :: rest) = Some (body ++ [q], rest).
Proof.
  induction body as [|c r IH]; intros pb rest Hq H.
  - simpl in *. rewrite N.eqb_refl. apply negb_true_iff in H; subst. reflexivity.
  - simpl in *. apply andb_true_iff in H as [H1 H2].
    destruct (N.eqb_spec c q).
    + subst. rewrite Hq in H2. rewrite (IH _ _ Hq H2). reflexivity.
    + rewrite (IH _ _ Hq H2). reflexivity.
Qed.

Lemma str_ok_inv s : str_ok s = true ->
  exists q body, s = q :: body ++ [q] /\ is_quote q = true /\ str_body_ok q false body = true.
Proof.
  destruct s as [|q r]; [discriminate|]. simpl. intros H. apply andb_true_iff in H as [Hq H].
  destruct (rev r) as [|q' rb] eqn:E; [discriminate|].
  apply andb_true_iff in H as [H1 H2]. apply N.eqb_eq in H1; subst q'.
  exists q, (rev rb). split; [|auto]. f_equal. rewrite <- (rev_involutive r), E. reflexivity.
Qed.

Lemma num_ok_cons c r : num_ok (c :: r) = if c =? 45 then digits_ok r else digits_ok (c :: r).
Proof. destruct c as [|p]; [reflexivity|]. do 6 (destruct p as [p|p|]; try reflexivity). Qed.

Lemma is_bool_word_id s : is_bool_word s = true -> is_id s = true.
Proof.
  unfold is_bool_word. intros H.
  repeat (apply orb_true_iff in H as [H|H]); apply str_eqb_spec in H; subst; reflexivity.
Qed.

(* ---------- L2: one step reads back one token ------------------------------------------------ *)

Lemma lex_step_text s rest :
  text_scan_ok s = true -> text_stop (last_is_backslash s) (hd_error rest) = true ->
  lex_step MDefault (s ++ rest) = Some (TText s, MDefault, rest).
Proof.
  intros Hs Hn. destruct s as [|c r]; [discriminate|].
  unfold text_scan_ok in Hs.
  destruct (scan_text false (c :: r)) as [p r'] eqn:E.
  destruct r' as [|? ?]; [|discriminate].
  pose proof (scan_text_app _ _ _ _ E) as Ep. rewrite app_nil_r in Ep. subst p.
  assert (Hc : text_plain c = true).
  { simpl in E. destruct (text_plain c); [reflexivity|]. rewrite andb_false_r in E. discriminate. }
  rewrite <- end_pb_last in Hn.
  pose proof (scan_text_ext _ _ _ E Hn) as E'.
  change ((c :: r) ++ rest) with (c :: r ++ rest) in *.
  unfold lex_step.
  assert (E1 : is_gws c = false) by (clear - Hc; chars_tac).
  assert (E2 : (c =? 37) = false) by (clear - Hc; chars_tac).
  assert (E3 : (c =? 124) = false) by (clear - Hc; chars_tac).
  assert (E4 : (c =? 123) = false) by (clear - Hc; chars_tac).
  assert (E5 : (c =? 125) = false) by (clear - Hc; chars_tac).
  rewrite E1, E2, E3, E4, E5, E'. reflexivity.
Qed.

Lemma lex_step_tagid s rest :
  is_id s = true -> opt_not is_id_char (hd_error rest) = true ->
  lex_step MTag (s ++ rest) = Some (TTagId s, MTag, rest).
Proof.
  intros Hs Hn. destruct s as [|c r]; [discriminate|].
  simpl in Hs. apply andb_true_iff in Hs as [Hc Hr].
  change ((c :: r) ++ rest) with (c :: r ++ rest).
  unfold lex_step.
  assert (E1 : is_gws c = false) by (clear - Hc; chars_tac).
  assert (E2 : (c =? 40) = false) by (clear - Hc; chars_tac).
  assert (E3 : (c =? 123) = false) by (clear - Hc; chars_tac).
  assert (E4 : (c =? 46) = false) by (clear - Hc; chars_tac).
  rewrite E1, E2, E3, E4, Hc, (scan_while_ext _ _ _ Hr Hn). reflexivity.
Qed.

Lemma lex_step_args_id c p rest :
  is_id_start c = true -> forallb is_id_char p = true ->
  opt_not is_id_char (hd_error rest) = true ->
  lex_step MArgs (c :: p ++ rest) =
  Some (if is_bool_word (c :: p) then TBool (c :: p) else TArgName (c :: p), MArgs, rest).
Proof.
  intros Hc Hr Hn. unfold lex_step.
  assert (E1 : is_aws c = false) by (clear - Hc; chars_tac).
  assert (E2 : (c =? 41) = false) by (clear - Hc; chars_tac).
  assert (E3 : (c =? 44) = false) by (clear - Hc; chars_tac).
  assert (E4 : (c =? 61) = false) by (clear - Hc; chars_tac).
  assert (E5 : is_digit c = false) by (clear - Hc; chars_tac).
  assert (E6 : (c =? 45) = false) by (clear - Hc; chars_tac).
  assert (E7 : is_quote c = false) by (clear - Hc; chars_tac).
  rewrite E1, E2, E3, E4, E5, E6, E7, Hc, (scan_while_ext _ _ _ Hr Hn). reflexivity.
Qed.

Lemma lex_step_num s rest :
  num_ok s = true -> opt_not is_digit (hd_error rest) = true ->
  lex_step MArgs (s ++ rest) = Some (TNum s, MArgs, rest).
Proof.
  intros Hs Hn. destruct s as [|c r]; [discriminate|].
  rewrite num_ok_cons in Hs.
  change ((c :: r) ++ rest) with (c :: r ++ rest).
  destruct (N.eqb_spec c 45) as [->|Hc].
  - unfold digits_ok in Hs. destruct r as [|d r]; [discriminate|].
    unfold lex_step. cbn [is_aws is_gws is_digit N.eqb N.leb orb andb].
    change (is_aws 45) with false. change (45 =? 41) with false. change (45 =? 44) with false.
    change (45 =? 61) with false. change (is_digit 45) with false. change (45 =? 45) with true.
    cbv iota.
    rewrite (scan_while_ext _ _ _ Hs Hn). reflexivity.
  - unfold digits_ok in Hs. simpl in Hs. apply andb_true_iff in Hs as [Hd Hr].
    unfold lex_step.
    assert (E1 : is_aws c = false) by (clear - Hd; chars_tac).
    assert (E2 : (c =? 41) = false) by (clear - Hd; chars_tac).
    assert (E3 : (c =? 44) = false) by (clear - Hd; chars_tac).
    assert (E4 : (c =? 61) = false) by (clear - Hd; chars_tac).
    rewrite E1, E2, E3, E4, Hd, (scan_while_ext _ _ _ Hr Hn). reflexivity.
Qed.

Lemma lex_step_str s rest :
  str_ok s = true -> lex_step MArgs (s ++ rest) = Some (TStr s, MArgs, rest).
Proof.
  intros Hs. apply str_ok_inv in Hs as (q & body & -> & Hq & Hb).
  change ((q :: body ++ [q]) ++ rest) with (q :: (body ++ [q]) ++ rest).
  rewrite <- app_assoc. cbn [app].
  unfold lex_step.
  assert (E1 : is_aws q = false) by (clear - Hq; chars_tac).
  assert (E2 : (q =? 41) = false) by (clear - Hq; chars_tac).
  assert (E3 : (q =? 44) = false) by (clear - Hq; chars_tac).
  assert (E4 : (q =? 61) = false) by (clear - Hq; chars_tac).
  assert (E5 : is_digit q = false) by (clear - Hq; chars_tac).
  assert (E6 : (q =? 45) = false) by (clear - Hq; chars_tac).
  assert (E7 : (q =? 92) = false) by (clear - Hq; chars_tac).
  rewrite E1, E2, E3, E4, E5, E6, Hq, (scan_string_ext _ _ _ _ E7 Hb). reflexivity.
Qed.

Lemma lex_step_tok m t rest :
  tok_ok m t (hd_error rest) = true ->
  lex_step m (lexeme t ++ rest) = Some (t, mode_after m t, rest).
Proof.
  intros H.
  destruct m, t; cbn [tok_ok] in H; try discriminate H; cbn [lexeme mode_after];
    try reflexivity;
    try (cbn [app]; unfold lex_step; rewrite H; reflexivity).
  - apply andb_true_iff in H as [H1 H2]. apply lex_step_text; assumption.
  - apply andb_true_iff in H as [H1 H2]. apply lex_step_tagid; assumption.
  - apply andb_true_iff in H as [H1 H2]. apply lex_step_num; assumption.
  - apply andb_true_iff in H as [H1 H2].
    pose proof (is_bool_word_id _ H1) as Hid.
    destruct s as [|c r]; [discriminate|]. simpl in Hid. apply andb_true_iff in Hid as [Hc Hr].
    change ((c :: r) ++ rest) with (c :: r ++ rest).
    rewrite (lex_step_args_id _ _ _ Hc Hr H2), H1. reflexivity.
  - apply lex_step_str; assumption.
  - apply andb_true_iff in H as [H1 H2]. apply andb_true_iff in H1 as [Hid Hnb].
    apply negb_true_iff in Hnb.
    destruct s as [|c r]; [discriminate|]. simpl in Hid. apply andb_true_iff in Hid as [Hc Hr].
    change ((c :: r) ++ rest) with (c :: r ++ rest).
    rewrite (lex_step_args_id _ _ _ Hc Hr H2), Hnb. reflexivity.
Qed.

(* ---------- L2: reading back a lexable token list ------------------------------------------- *)

Definition lex_prepend (toks : list token) (r : lex_result) : lex_result :=
  fold_right lex_cons r toks.

Lemma lex_prepend_ok a b : lex_prepend a (LexOk b) = LexOk (a ++ b).
Proof.
  induction a as [|t a IH]; [reflexivity|].
  change (lex_prepend (t :: a) (LexOk b)) with (lex_cons t (lex_prepend a (LexOk b))).
  rewrite IH. reflexivity.
Qed.

Lemma first_char_hd r nxt rest :
  nxt = hd_error rest -> first_char r nxt = hd_error (chars r ++ rest).
Proof. intros ->. unfold first_char. destruct (chars r); reflexivity. Qed.

Lemma tok_ok_lexeme m t nxt : tok_ok m t nxt = true -> lexeme t <> [].
Proof.
  intros H E.
  destruct m, t; cbn [tok_ok] in H; try discriminate H; cbn [lexeme] in E; try discriminate E;
    subst; simpl in H; try discriminate H.
Qed.

Lemma lex_chars_gen toks : forall m pos rest,
  lexable m toks (hd_error rest) = true ->
  lex_from m pos (chars toks ++ rest) =
  lex_prepend toks (lex_from (final_mode m toks) (pos + N.of_nat (length (chars toks))) rest).
Proof.
  induction toks as [|t r IH]; intros m pos rest H.
  - simpl. rewrite N.add_0_r. reflexivity.
  - simpl in H. apply andb_true_iff in H as [Ht Hr].
    rewrite (first_char_hd r _ rest eq_refl) in Ht.
    pose proof (tok_ok_lexeme _ _ _ Ht) as Hne.
    apply lex_step_tok in Ht.
    rewrite chars_cons, <- app_assoc, lex_from_eq, Ht.
    destruct (lexeme t ++ chars r ++ rest) eqn:E.
    { destruct (lexeme t); [contradiction|discriminate]. }
    rewrite (IH _ _ _ Hr). rewrite final_mode_cons. cbn [lex_prepend fold_right].
    rewrite app_length, Nat2N.inj_add, N.add_assoc. reflexivity.
Qed.

Lemma lex_chars m pos toks : lexable m toks None = true -> lex_from m pos (chars toks) = LexOk toks.
Proof.
  intros H. pose proof (lex_chars_gen toks m pos [] H) as E.
  rewrite app_nil_r in E. rewrite E, (lex_from_eq _ _ []), lex_prepend_ok, app_nil_r. reflexivity.
Qed.

(* ---------- L5 ----------------------------------------------------------------------------- *)

Lemma lex_error_pos_n n : forall m pos s i,
  (length s <= n)%nat -> lex_from m pos s = LexError i ->
  exists toks b, s = chars toks ++ b /\ b <> [] /\
    i = pos + N.of_nat (length (chars toks)) /\ lex_step (final_mode m toks) b = None.
Proof.
  induction n as [|n IH]; intros m pos s i Hn H.
  - destruct s; [|simpl in Hn; lia]. rewrite lex_from_eq in H. discriminate.
  - destruct (lex_from_cases m pos s)
      as [(-> & E)|[(Hne & Est & E)|(t & rest & _ & _ & Hs & _ & Hlen & E)]].
    + rewrite E in H. discriminate.
    + rewrite E in H. inversion H; subst i.
      exists [], s. simpl. rewrite N.add_0_r. auto.
    + rewrite E in H. apply lex_cons_err in H.
      apply IH in H; [|lia]. destruct H as (toks & b & Hr & Hb & Hi & Hst).
      exists (t :: toks), b. rewrite chars_cons, final_mode_cons, <- app_assoc, <- Hr.
      repeat split; try assumption.
      rewrite Hi, app_length, Nat2N.inj_add, N.add_assoc. reflexivity.
Qed.

Lemma lex_error_pos m pos s i : lex_from m pos s = LexError i ->
  exists toks b, s = chars toks ++ b /\ b <> [] /\
    i = pos + N.of_nat (length (chars toks)) /\ lex_step (final_mode m toks) b = None.
Proof. apply (lex_error_pos_n (length s)). lia. Qed.

Corollary lex_all_error_inside s i : lex_all s = LexError i -> (i < N.of_nat (length s)).
Proof.
  intros H. apply lex_error_pos in H as (toks & b & -> & Hb & -> & _).
  rewrite app_length. destruct b; [contradiction|]. simpl. lia.
Qed.

Lemma lex_step_default_total s : s <> [] -> lex_step MDefault s <> None.
Proof.
  destruct s as [|c r]; [contradiction|]. intros _. unfold lex_step.
  destruct (is_gws c); [discriminate|].
  destruct (c =? 37); [discriminate|].
  destruct (c =? 124); [discriminate|].
  destruct (c =? 123); [discriminate|].
  destruct (c =? 125); [discriminate|].
  destruct (scan_text false (c :: r)). discriminate.
Qed.

(* ---------- L4: what a step yields is a token of the specification --------------------------- *)

Lemma scan_text_conv s : forall pb p rest, scan_text pb s = (p, rest) ->
  scan_text pb p = (p, []) /\ text_stop (end_pb pb p) (hd_error rest) = true.
Proof.
  induction s as [|c r IH]; intros pb p rest H; simpl in H.
  - inversion H; subst. split; reflexivity.
  - destruct (text_plain c) eqn:Ec.
    + destruct (scan_text (c =? 92) r) as [p' r'] eqn:E. inversion H; subst.
      apply IH in E as [E1 E2]. split; [simpl; rewrite Ec, E1; reflexivity | exact E2].
    + destruct (is_meta3 c && pb) eqn:Em.
      * destruct (scan_text false r) as [p' r'] eqn:E. inversion H; subst.
        apply IH in E as [E1 E2]. split.
        -- simpl. rewrite Ec, Em, E1. reflexivity.
        -- simpl. apply andb_true_iff in Em as [Em _]. rewrite (meta3_not_bs _ Em). exact E2.
      * inversion H; subst. split; [reflexivity|].
        unfold text_stop. simpl. rewrite Ec, Em. reflexivity.
Qed.

Lemma scan_while_conv f s : forall p rest, scan_while f s = (p, rest) ->
  forallb f p = true /\ opt_not f (hd_error rest) = true.
Proof.
  induction s as [|c r IH]; intros p rest H; simpl in H.
  - inversion H; subst. split; reflexivity.
  - destruct (f c) eqn:Ec.
    + pose proof (IH _ _ (surjective_pairing _)) as [E1 E2].
      destruct (scan_while f r) as [p' r']. inversion H; subst. simpl in E1, E2.
      split; [simpl; rewrite Ec, E1; reflexivity | exact E2].
    + inversion H; subst. split; [reflexivity|]. simpl. rewrite Ec. reflexivity.
Qed.

Lemma lex_step_tok_ok m s t m' rest :
  lex_step m s = Some (t, m', rest) -> stable_tok t = true -> tok_ok m t (hd_error rest) = true.
Proof.
  intros H0 Hst. pose proof (lex_step_chars _ _ _ _ _ H0) as (_ & Hne & _).
  revert H0. destruct s as [|c r]; [discriminate|].
  unfold lex_step. destruct m.
  - destruct (is_gws c) eqn:Eg; [intros H; inversion H; subst; exact Eg|].
    destruct (c =? 37); [intros H; inversion H; subst; reflexivity|].
    destruct (c =? 124); [intros H; inversion H; subst; reflexivity|].
    destruct (c =? 123); [intros H; inversion H; subst; reflexivity|].
    destruct (c =? 125); [intros H; inversion H; subst; reflexivity|].
    destruct (scan_text false (c :: r)) as [p rest'] eqn:E.
    intros H; inversion H; subst. cbn [lexeme] in Hne.
    apply scan_text_conv in E as [E1 E2]. rewrite end_pb_last in E2.
    cbn [tok_ok]. apply andb_true_iff; split; [|exact E2].
    unfold text_scan_ok. destruct p as [|d p]; [contradiction|]. rewrite E1. reflexivity.
  - destruct (is_gws c) eqn:Eg; [intros H; inversion H; subst; exact Eg|].
    destruct (c =? 40); [intros H; inversion H; subst; reflexivity|].
    destruct (c =? 123); [intros H; inversion H; subst; reflexivity|].
    destruct (c =? 46); [intros H; inversion H; subst; reflexivity|].
    destruct (is_id_start c) eqn:Ei; [|discriminate].
    destruct (scan_while is_id_char r) as [p rest'] eqn:E.
    intros H; inversion H; subst. apply scan_while_conv in E as [E1 E2].
    cbn [tok_ok is_id]. rewrite Ei, E1, E2. reflexivity.
  - destruct (is_aws c) eqn:Eg; [intros H; inversion H; subst; exact Eg|].
    destruct (c =? 41); [intros H; inversion H; subst; reflexivity|].
    destruct (c =? 44); [intros H; inversion H; subst; reflexivity|].
    destruct (c =? 61); [intros H; inversion H; subst; reflexivity|].
    destruct (is_digit c) eqn:Ed.
    { destruct (scan_while is_digit r) as [p rest'] eqn:E.
      intros H; inversion H; subst. apply scan_while_conv in E as [E1 E2].
      cbn [tok_ok]. rewrite num_ok_cons.
      assert (E45 : (c =? 45) = false) by (clear - Ed; chars_tac).
      rewrite E45. unfold digits_ok. cbn [forallb]. rewrite Ed, E1, E2. reflexivity. }
    destruct (N.eqb_spec c 45) as [->|Hc].
    { destruct (scan_while is_digit r) as [p rest'] eqn:E.
      destruct p as [|d p]; [discriminate|].
      intros H; inversion H; subst. apply scan_while_conv in E as [E1 E2].
      cbn [tok_ok]. rewrite num_ok_cons. change (45 =? 45) with true. cbv iota.
      unfold digits_ok. rewrite E1, E2. reflexivity. }
    destruct (is_quote c).
    { destruct (scan_string c false r) as [[p rest']|] eqn:E; [|discriminate].
      intros H; inversion H; subst. exact Hst. }
    destruct (is_id_start c) eqn:Ei; [|discriminate].
    destruct (scan_while is_id_char r) as [p rest'] eqn:E.
    intros H; inversion H; subst. apply scan_while_conv in E as [E1 E2].
    destruct (is_bool_word (c :: p)) eqn:Eb; cbn [tok_ok is_id].
    + rewrite Eb, E2. reflexivity.
    + rewrite Eb, Ei, E1, E2. reflexivity.
Qed.

Lemma lex_output_lexable_n n : forall m pos s toks,
  (length s <= n)%nat -> lex_from m pos s = LexOk toks -> stable_strs toks = true ->
  lexable m toks None = true.
Proof.
  induction n as [|n IH]; intros m pos s toks Hn H Hst.
  - destruct s; [|simpl in Hn; lia]. rewrite lex_from_eq in H. inversion H; reflexivity.
  - destruct (lex_from_cases m pos s)
      as [(-> & E)|[(_ & _ & E)|(t & rest & _ & Est & Hs & _ & Hlen & E)]].
    + rewrite E in H. inversion H; reflexivity.
    + rewrite E in H. discriminate.
    + rewrite E in H. apply lex_cons_ok in H as (toks' & H & ->).
      simpl in Hst. apply andb_true_iff in Hst as [Ht Hst].
      cbn [lexable]. apply andb_true_iff; split.
      * rewrite (first_char_hd toks' None [] eq_refl), app_nil_r, (lex_partition _ _ _ _ H).
        eapply lex_step_tok_ok; eauto.
      * eapply IH; [|exact H|exact Hst]. lia.
Qed.

Lemma lex_output_lexable m pos s toks :
  lex_from m pos s = LexOk toks -> stable_strs toks = true -> lexable m toks None = true.
Proof. apply (lex_output_lexable_n (length s)). lia. Qed.

(* ---------- L7: composition ----------------------------------------------------------------- *)

Lemma last_bs_app a b : b <> [] -> last_is_backslash (a ++ b) = last_is_backslash b.
Proof.
  intros Hb. unfold last_is_backslash. rewrite rev_app_distr.
  destruct (rev b) as [|d l] eqn:E; [|reflexivity].
  exfalso. apply Hb. rewrite <- (rev_involutive b), E. reflexivity.
Qed.

Lemma meta3_not_plain c : is_meta3 c = true -> text_plain c = false.
Proof. intros H. unfold text_plain. rewrite H, orb_true_r. reflexivity. Qed.

Lemma meta3_not_id_char c : is_meta3 c = true -> is_id_char c = false.
Proof. intros H. chars_tac. Qed.

Lemma meta3_not_digit c : is_meta3 c = true -> is_digit c = false.
Proof. intros H. chars_tac. Qed.

Lemma tok_ok_next_meta m t c :
  tok_ok m t None = true -> last_is_backslash (lexeme t) = false -> is_meta3 c = true ->
  tok_ok m t (Some c) = true.
Proof.
  intros H Hl Hc.
  destruct m, t; cbn [tok_ok] in *; try discriminate H; try assumption;
    cbn [opt_not lexeme] in *; rewrite andb_true_r in H; rewrite H;
    rewrite ?(meta3_not_id_char _ Hc), ?(meta3_not_digit _ Hc), ?(meta3_not_plain _ Hc), ?Hl,
      ?andb_false_r; reflexivity.
Qed.

Lemma lexable_next_meta m a c :
  lexable m a None = true -> last_is_backslash (chars a) = false -> is_meta3 c = true ->
  lexable m a (Some c) = true.
Proof.
  revert m. induction a as [|t r IH]; intros m H Hl Hc; [reflexivity|].
  cbn [lexable] in *. apply andb_true_iff in H as [Ht Hr].
  rewrite chars_cons in Hl. unfold first_char in *.
  destruct (chars r) as [|d l] eqn:E.
  - rewrite app_nil_r in Hl. rewrite (tok_ok_next_meta _ _ _ Ht Hl Hc).
    rewrite IH; auto.
  - rewrite last_bs_app in Hl by discriminate. rewrite Ht. rewrite IH; auto.
Qed.

Lemma lex_app X Y tx ty :
  lex_all X = LexOk tx -> stable_strs tx = true -> final_mode MDefault tx = MDefault ->
  last_is_backslash X = false ->
  lex_all Y = LexOk ty -> stable_strs ty = true ->
  (match Y with [] => True | c :: _ => is_meta3 c = true end) ->
  lex_all (X ++ Y) = LexOk (tx ++ ty).
Proof.
  unfold lex_all. intros HX Sx Mx Lx HY Sy Hy.
  pose proof (lex_partition _ _ _ _ HX) as Px. subst X.
  pose proof (lex_output_lexable _ _ _ _ HX Sx) as Lxx.
  assert (Lxy : lexable MDefault tx (hd_error Y) = true).
  { destruct Y as [|c Y']; [exact Lxx|]. apply lexable_next_meta; assumption. }
  rewrite (lex_chars_gen _ _ _ _ Lxy), Mx.
  rewrite (lex_from_pos _ _ _ _ _ HY). apply lex_prepend_ok.
Qed.
