(* Basic facts about [chars], [first_char], [lexable], [final_mode] over concatenation. *)
From Tempren Require Import Base.Str Tpl.Ast Tpl.Lexer Tpl.Cst Tpl.Printer Tpl.Visitor Tpl.LexSpec.
Open Scope N_scope.

Lemma chars_app a b : chars (a ++ b) = chars a ++ chars b.
Proof. unfold chars. rewrite map_app, concat_app. reflexivity. Qed.

Lemma chars_cons t r : chars (t :: r) = lexeme t ++ chars r.
Proof. reflexivity. Qed.

Lemma first_char_app a b nxt : first_char (a ++ b) nxt = first_char a (first_char b nxt).
Proof.
  unfold first_char. rewrite chars_app.
  destruct (chars a) as [|c r]; simpl; reflexivity.
Qed.

Lemma final_mode_app m a b : final_mode m (a ++ b) = final_mode (final_mode m a) b.
Proof. unfold final_mode. apply fold_left_app. Qed.

Lemma final_mode_cons m t r : final_mode m (t :: r) = final_mode (mode_after m t) r.
Proof. reflexivity. Qed.

Lemma lexable_app m a b nxt :
  lexable m (a ++ b) nxt = lexable m a (first_char b nxt) && lexable (final_mode m a) b nxt.
Proof.
  revert m. induction a as [|t a IH]; intros m; simpl.
  - reflexivity.
  - rewrite IH, first_char_app, andb_assoc. reflexivity.
Qed.

Lemma no_ws_app a b : no_ws (a ++ b) = no_ws a ++ no_ws b.
Proof. unfold no_ws. apply filter_app. Qed.
