(* Aliases: tempren/alias.py (AliasTag, AliasTagFactory), the binder                       *)
(* tempren/template/compiler.py (TemplateCompiler._rewrite_pattern /                      *)
(* _rewrite_tag_placeholder) and the renderer tempren/template/ast.py (process /          *)
(* process_as_expression) over bound trees whose tag instances own their state.           *)
(*                                                                                        *)
(*  - an unbound tree is what TemplateParser.parse returns (RawText / TagPlaceholder);    *)
(*  - names are resolved by the registry model of C12 (Tpl/Registry.v);                   *)
(*  - an alias table maps the factory id of an AliasTagFactory to its pattern, already    *)
(*    parsed (None: the pattern text is rejected by the parser);                          *)
(*  - AliasTagFactory.__call__ compiles the pattern text ANEW at every instantiation:     *)
(*    binding an alias occurrence binds a fresh copy of the pattern; the recursion of     *)
(*    compile -> factory -> compile is bounded by [fuel] (the interpreter's recursion      *)
(*    limit); exhausted fuel is the RecursionError that _rewrite_tag_placeholder's         *)
(*    `except Exception` turns into a ConfigurationError (a TemplateError);                *)
(*  - then alias_tag.configure( *args, **kwargs ) with Tag.configure(self): any argument  *)
(*    is a TypeError -> ConfigurationError; require_context = False: a context is a       *)
(*    ContextForbiddenError;                                                              *)
(*  - tag semantics are abstract, with one state cell per bound instance.                 *)
(* Model only - no proofs in this file.                                                    *)
From Tempren Require Import Base.Str Py.PathLib Py.Repr Tpl.Registry Tpl.Signature.
Open Scope N_scope.

(* ---------- unbound trees ------------------------------------------------------------ *)

Inductive argval := AInt (z : Z) | AStr (s : str) | ABool (b : bool).

Record targs := mkArgs { a_pos : list argval; a_kw : list (str * argval) }.

Definition no_args (a : targs) : bool :=
  match a_pos a, a_kw a with
  | [], [] => true
  | _, _ => false
  end.

Inductive utree :=
| URaw (s : str)
| UTag (q : qname) (a : targs) (has_ctx : bool) (ctx : list utree).

Definition upat := list utree.

(* alias factory id -> its pattern as parsed (None = TemplateSyntaxError on its text) *)
Definition atable := list (fid * option upat).

Fixpoint alias_find (f : fid) (t : atable) : option (option upat) :=
  match t with
  | [] => None
  | (g, p) :: t' => if g =? f then Some p else alias_find f t'
  end.

(* the exception class of a failed registry lookup *)
Definition exc_of_lookup (r : result) : exc :=
  match r with
  | RUnknownCategory => ExUnknownCategory
  | RUnknownName => ExUnknownName
  | RAmbiguous _ => ExAmbiguousName
  | _ => ExOther          (* never produced by Registry.get: see AliasProofs.get_not_invalid *)
  end.

(* sequencing of results (first error wins, left to right) *)
Definition map_res {A B : Type} (f : A -> exc + B) : list A -> exc + list B :=
  fix go (l : list A) : exc + list B :=
    match l with
    | [] => inr []
    | x :: l' =>
      match f x with
      | inl e => inl e
      | inr y =>
        match go l' with
        | inl e => inl e
        | inr ys => inr (y :: ys)
        end
      end
    end.

Definition flat_map_opt {A B : Type} (f : A -> option (list B)) : list A -> option (list B) :=
  fix go (l : list A) : option (list B) :=
    match l with
    | [] => Some []
    | x :: l' =>
      match f x with
      | None => None
      | Some ys =>
        match go l' with
        | None => None
        | Some zs => Some (ys ++ zs)
        end
      end
    end.

(* what a tag's process() does: a value, MissingMetadataError, or another exception *)
Inductive tout := OVal (v : value) | OMissing | ORaise (e : exc).

Definition out_value (o : tout) : exc + value :=
  match o with
  | OVal v => inr v
  | OMissing => inr (VStr [])      (* TagInstance.process: except MissingMetadataError: return "" *)
  | ORaise e => inl e
  end.

Section Alias.
  Variable state : Type.       (* what one tag instance remembers between files *)
  Variable file : Type.
  Variable reg : registry.

  (* the non-alias factories, abstract:
     tag_check f args has_ctx — the factory call (argument binding and configure's own checks,
       any exception becomes ConfigurationError) followed by the require_context rule;
     tag_init — the state of the fresh instance;
     sem — process(file, context) of an instance in a given state. *)
  Variable tag_check : fid -> targs -> bool -> outcome.
  Variable tag_init : fid -> targs -> state.
  Variable sem : fid -> targs -> state -> file -> option str -> tout * state.

  (* ---------- bound trees ------------------------------------------------------------ *)

  Inductive btree :=
  | BRaw (s : str)
  | BTag (f : fid) (a : targs) (st : state) (has_ctx : bool) (ctx : list btree)
  | BAlias (body : list btree).          (* TagInstance(AliasTag(pattern)) *)

  Definition bpat := list btree.

  (* ---------- the binder ------------------------------------------------------------- *)

  Section BindWith.
    Variable aliases : atable.
    (* how an alias factory compiles its pattern (the recursive call of compile) *)
    Variable expand : option upat -> exc + bpat.

    (* TemplateCompiler._rewrite_tag_placeholder / _rewrite_pattern *)
    Fixpoint bind_with (t : utree) : exc + btree :=
      match t with
      | URaw s => inr (BRaw s)
      | UTag q a hc ctx =>
        match get reg q with
        | ROk f =>
          match alias_find f aliases with
          | Some body =>
            (* AliasTagFactory.__call__: compile, then configure( *args ), then the
               require_context = False rule of the compiler *)
            match expand body with
            | inl e => inl e
            | inr bp =>
              if no_args a then
                if hc then inl ExContextForbidden else inr (BAlias bp)
              else inl ExTagConfiguration
            end
          | None =>
            match tag_check f a hc with
            | Reject c => inl (exc_of_reject c)
            | Accept =>
              if hc then
                match map_res bind_with ctx with
                | inl e => inl e
                | inr bc => inr (BTag f a (tag_init f a) true bc)
                end
              else inr (BTag f a (tag_init f a) false [])
            end
          end
        | r => inl (exc_of_lookup r)
        end
      end.
  End BindWith.

  (* compile with [fuel] nested alias instantiations left *)
  Fixpoint expander (fuel : nat) (aliases : atable) (body : option upat) : exc + bpat :=
    match fuel with
    | O => inl ExTemplateSyntax                      (* RecursionError -> TemplateSyntaxError "nested too deeply" (since fix F10) *)
    | S n =>
      match body with
      | None => inl ExTemplateSyntax                 (* the alias text does not parse *)
      | Some p => map_res (bind_with aliases (expander n aliases)) p
      end
    end.

  Definition bind_el (fuel : nat) (aliases : atable) : utree -> exc + btree :=
    bind_with aliases (expander fuel aliases).

  (* TemplateCompiler._bind of a parsed template *)
  Definition bind_list (fuel : nat) (aliases : atable) (p : upat) : exc + bpat :=
    map_res (bind_el fuel aliases) p.

  (* ---------- writing the pattern in place ------------------------------------------- *)

  Section InlineWith.
    Variable aliases : atable.
    Variable expand : option upat -> option upat.

    (* None: not an inlinable use (alias with arguments or context, unparsable or too deeply
       nested alias) *)
    Fixpoint inline_with (t : utree) : option upat :=
      match t with
      | URaw s => Some [t]
      | UTag q a hc ctx =>
        (* not an alias occurrence: the tag stays, its context is rewritten *)
        let plain :=
          if hc then
            match flat_map_opt inline_with ctx with
            | Some c => Some [UTag q a true c]
            | None => None
            end
          else Some [UTag q a false []] in
        match get reg q with
        | ROk f =>
          match alias_find f aliases with
          | Some body => if no_args a && negb hc then expand body else None
          | None => plain
          end
        | _ => plain
        end
      end.
  End InlineWith.

  Fixpoint inliner (fuel : nat) (aliases : atable) (body : option upat) : option upat :=
    match fuel, body with
    | S n, Some p => flat_map_opt (inline_with aliases (inliner n aliases)) p
    | _, _ => None
    end.

  Definition inline_el (fuel : nat) (aliases : atable) : utree -> option upat :=
    inline_with aliases (inliner fuel aliases).

  Definition inline_list (fuel : nat) (aliases : atable) (p : upat) : option upat :=
    flat_map_opt (inline_el fuel aliases) p.

  (* the bound tree of the inlined text: every alias instance replaced by its elements *)
  Fixpoint flatten_el (b : btree) : bpat :=
    match b with
    | BRaw s => [b]
    | BTag f a st hc ctx => [BTag f a st hc (flat_map flatten_el ctx)]
    | BAlias body => flat_map flatten_el body
    end.

  Definition flatten (p : bpat) : bpat := flat_map flatten_el p.

  (* aliases flattened below the top level only (expression mode distinguishes top-level
     elements) *)
  Definition flatten_below (b : btree) : btree :=
    match b with
    | BRaw s => b
    | BTag f a st hc ctx => BTag f a st hc (flatten ctx)
    | BAlias body => BAlias (flatten body)
    end.

  (* ---------- rendering -------------------------------------------------------------- *)

  Section Render.
    Variable printable : N -> bool.
    Variable fl : file.

    (* "".join(map(conv, sub_elements)), evaluated left to right; an exception leaves the
       remaining elements untouched *)
    Definition fold_pieces (conv : btree -> value -> str) (f : btree -> (exc + value) * btree)
      : bpat -> (exc + str) * bpat :=
      fix go (l : bpat) : (exc + str) * bpat :=
        match l with
        | [] => (inr [], [])
        | x :: l' =>
          match f x with
          | (inl e, x') => (inl e, x' :: l')
          | (inr v, x') =>
            match go l' with
            | (inl e, l'') => (inl e, x' :: l'')
            | (inr s, l'') => (inr (conv x v ++ s), x' :: l'')
            end
          end
        end.

    Definition conv_str (_ : btree) (v : value) : str := py_str v.

    (* PatternElementSequence._convert_to_representation *)
    Definition conv_repr (b : btree) (v : value) : str :=
      match b with
      | BRaw _ => py_str v
      | _ => py_repr printable v
      end.

    (* PatternElement.process: value and the tree with the instances' new states *)
    Fixpoint render_el (b : btree) : (exc + value) * btree :=
      match b with
      | BRaw s => (inr (VStr s), b)
      | BTag f a st hc ctx =>
        if hc then
          match fold_pieces conv_str render_el ctx with
          | (inl e, ctx') => (inl e, BTag f a st true ctx')
          | (inr c, ctx') =>
            let '(o, st') := sem f a st fl (Some c) in
            (out_value o, BTag f a st' true ctx')
          end
        else
          let '(o, st') := sem f a st fl None in
          (out_value o, BTag f a st' false ctx)
      | BAlias body =>
        (* AliasTag.process = pattern.process(file): one str *)
        match fold_pieces conv_str render_el body with
        | (inl e, body') => (inl e, BAlias body')
        | (inr s, body') => (inr (VStr s), BAlias body')
        end
      end.

    (* PatternElementSequence.process *)
    Definition render_list : bpat -> (exc + str) * bpat := fold_pieces conv_str render_el.

    (* PatternElementSequence.process_as_expression *)
    Definition render_expr : bpat -> (exc + str) * bpat := fold_pieces conv_repr render_el.
  End Render.

  (* a whole run: the same bound template rendered for one file after the other *)
  Fixpoint run_names (files : list file) (b : bpat) : list (exc + str) :=
    match files with
    | [] => []
    | fl :: rest => let '(r, b') := render_list fl b in r :: run_names rest b'
    end.

  Fixpoint run_exprs (printable : N -> bool) (files : list file) (b : bpat) : list (exc + str) :=
    match files with
    | [] => []
    | fl :: rest => let '(r, b') := render_expr printable fl b in r :: run_exprs printable rest b'
    end.

  (* ---------- syntactic occurrence: top level, or inside the context of a tag --------- *)

  Inductive occurs (x : utree) : upat -> Prop :=
  | occ_here l : In x l -> occurs x l
  | occ_ctx q a ctx l : In (UTag q a true ctx) l -> occurs x ctx -> occurs x l.

  (* an occurrence of the alias with factory [f] *)
  Definition uses (aliases : atable) (f : fid) (p : upat) : Prop :=
    exists q a hc ctx, occurs (UTag q a hc ctx) p /\ get reg q = ROk f /\ alias_find f aliases <> None.

  (* every alias occurrence (top level or inside contexts) comes without arguments and context *)
  Definition plain_uses (aliases : atable) (p : upat) : Prop :=
    forall q a hc ctx f,
      occurs (UTag q a hc ctx) p -> get reg q = ROk f -> alias_find f aliases <> None ->
      no_args a = true /\ hc = false.
End Alias.

Arguments BRaw {state} s.
Arguments BTag {state} f a st has_ctx ctx.
Arguments BAlias {state} body.

(* ---------- adjacent raw texts (the parser yields one RawText for a maximal text run) --- *)

Fixpoint merge_raw (p : upat) : upat :=
  match p with
  | [] => []
  | URaw s :: p' =>
    match merge_raw p' with
    | URaw s' :: r => URaw (s ++ s') :: r
    | r => URaw s :: r
    end
  | t :: p' => t :: merge_raw p'
  end.

Fixpoint norm_el (t : utree) : utree :=
  match t with
  | URaw s => t
  | UTag q a hc ctx => UTag q a hc (merge_raw (map norm_el ctx))
  end.

Definition norm (p : upat) : upat := merge_raw (map norm_el p).
