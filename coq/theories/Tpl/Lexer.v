(* tempren/template/grammar/TagTemplateLexer.g4: the three lexer modes with ANTLR's         *)
(* maximal munch (longest match, earlier rule at equal length), on code points.             *)
(*                                                                                          *)
(*  DEFAULT: TAB LF CR skipped; '%' -> TAG mode; '|' '{' '}' ; TEXT is the longest run of    *)
(*           (\{ | \} | \| | any character except % { } | TAB LF CR): a run continues        *)
(*           over { } | exactly when the character before it is a backslash (whatever        *)
(*           precedes that backslash).  Every character starts some token (rule ANY is       *)
(*           unreachable), so DEFAULT mode has no lexical errors.                            *)
(*  TAG:     TAB LF CR skipped (NOT the blank); '(' -> ARGS mode; '{' -> DEFAULT mode         *)
(*           (token type CONTEXT_START); '.'; identifiers [_A-Za-z][_A-Za-z0-9]*.            *)
(*  ARGS:    blank TAB LF CR skipped; ')' -> DEFAULT mode; ','; '='; -?[0-9]+;                *)
(*           True|true|False|false (before ARG_NAME at equal length); identifiers;           *)
(*           q (\q | not q)* q for q one of the two quote marks: ends at the LAST quote reachable, *)
(*           i.e. a quote preceded by a backslash is both a candidate end and a continuation *)
(*           and the first quote NOT preceded by a backslash ends the token for good.        *)
(*  A character that starts no token of the current mode is [LexError pos] (the behaviour    *)
(*  after fix F14: TemplateParser.parse collects the lexer's errors and rejects).            *)
(* Model only - no proofs in this file.                                                      *)
From Tempren Require Import Base.Str Tpl.Ast.
Open Scope N_scope.

Inductive token :=
| TWs (c : N)                 (* explicitly skipped whitespace; only in [lex_all] *)
| TText (s : str)
| TTagStart | TPipe | TCtxStart | TCtxEnd
| TArgsStart | TArgsEnd | TCatSep
| TTagId (s : str)
| TArgSep | TArgEq
| TNum (s : str) | TBool (s : str) | TStr (s : str) | TArgName (s : str).

Definition lexeme (t : token) : str :=
  match t with
  | TWs c => [c]
  | TText s => s
  | TTagStart => [37] | TPipe => [124] | TCtxStart => [123] | TCtxEnd => [125]
  | TArgsStart => [40] | TArgsEnd => [41] | TCatSep => [46]
  | TTagId s => s
  | TArgSep => [44] | TArgEq => [61]
  | TNum s => s | TBool s => s | TStr s => s | TArgName s => s
  end.

Definition is_ws_tok (t : token) : bool := match t with TWs _ => true | _ => false end.

Inductive mode := MDefault | MTag | MArgs.

Definition is_gws (c : N) : bool := (c =? 9) || (c =? 10) || (c =? 13).
Definition is_aws (c : N) : bool := (c =? 32) || is_gws c.
Definition is_meta3 (c : N) : bool := (c =? 123) || (c =? 125) || (c =? 124).
(* ~[%{}|\t\n\r] *)
Definition text_plain (c : N) : bool := negb ((c =? 37) || is_meta3 c || is_gws c).

(* the longest TEXT run; [pb] = the previous character of this run is a backslash *)
Fixpoint scan_text (pb : bool) (s : str) : str * str :=
  match s with
  | [] => ([], [])
  | c :: r =>
    if text_plain c then
      let '(p, rest) := scan_text (c =? 92) r in (c :: p, rest)
    else if is_meta3 c && pb then
      let '(p, rest) := scan_text false r in (c :: p, rest)
    else ([], s)
  end.

Fixpoint scan_while (f : N -> bool) (s : str) : str * str :=
  match s with
  | [] => ([], [])
  | c :: r => if f c then let '(p, rest) := scan_while f r in (c :: p, rest) else ([], s)
  end.

(* after the opening quote [q]: the longest prefix of the form (\q | not q)* q *)
Fixpoint scan_string (q : N) (pb : bool) (s : str) : option (str * str) :=
  match s with
  | [] => None
  | c :: r =>
    if c =? q then
      if pb then
        match scan_string q false r with
        | Some (p, rest) => Some (c :: p, rest)
        | None => Some ([c], r)
        end
      else Some ([c], r)
    else
      match scan_string q (c =? 92) r with
      | Some (p, rest) => Some (c :: p, rest)
      | None => None
      end
  end.

Definition is_quote (c : N) : bool := (c =? 39) || (c =? 34).

(* one token of a non-empty input: token, mode afterwards, remaining input *)
Definition lex_step (m : mode) (s : str) : option (token * mode * str) :=
  match s with
  | [] => None
  | c :: r =>
    match m with
    | MDefault =>
      if is_gws c then Some (TWs c, MDefault, r)
      else if c =? 37 then Some (TTagStart, MTag, r)
      else if c =? 124 then Some (TPipe, MDefault, r)
      else if c =? 123 then Some (TCtxStart, MDefault, r)
      else if c =? 125 then Some (TCtxEnd, MDefault, r)
      else let '(p, rest) := scan_text false s in Some (TText p, MDefault, rest)
    | MTag =>
      if is_gws c then Some (TWs c, MTag, r)
      else if c =? 40 then Some (TArgsStart, MArgs, r)
      else if c =? 123 then Some (TCtxStart, MDefault, r)
      else if c =? 46 then Some (TCatSep, MTag, r)
      else if is_id_start c then
        let '(p, rest) := scan_while is_id_char r in Some (TTagId (c :: p), MTag, rest)
      else None
    | MArgs =>
      if is_aws c then Some (TWs c, MArgs, r)
      else if c =? 41 then Some (TArgsEnd, MDefault, r)
      else if c =? 44 then Some (TArgSep, MArgs, r)
      else if c =? 61 then Some (TArgEq, MArgs, r)
      else if is_digit c then
        let '(p, rest) := scan_while is_digit r in Some (TNum (c :: p), MArgs, rest)
      else if c =? 45 then
        match scan_while is_digit r with
        | ([], _) => None
        | (p, rest) => Some (TNum (c :: p), MArgs, rest)
        end
      else if is_quote c then
        match scan_string c false r with
        | Some (p, rest) => Some (TStr (c :: p), MArgs, rest)
        | None => None
        end
      else if is_id_start c then
        let '(p, rest) := scan_while is_id_char r in
        let w := c :: p in
        Some (if is_bool_word w then TBool w else TArgName w, MArgs, rest)
      else None
    end
  end.

Inductive lex_result :=
| LexOk (toks : list token)
| LexError (pos : N).

Definition lex_cons (t : token) (r : lex_result) : lex_result :=
  match r with LexOk ts => LexOk (t :: ts) | e => e end.

(* fuel = length of the input + 1 suffices: every step consumes at least one character *)
Fixpoint lex_loop (fuel : nat) (m : mode) (pos : N) (s : str) : lex_result :=
  match s with
  | [] => LexOk []
  | _ =>
    match fuel with
    | O => LexError pos
    | S f =>
      match lex_step m s with
      | None => LexError pos
      | Some (t, m', rest) =>
        lex_cons t (lex_loop f m' (pos + N.of_nat (length (lexeme t))) rest)
      end
    end
  end.

Definition lex_from (m : mode) (pos : N) (s : str) : lex_result :=
  lex_loop (S (length s)) m pos s.

(* every lexeme including the skipped whitespace, in order *)
Definition lex_all (s : str) : lex_result := lex_from MDefault 0 s.

Definition drop_ws (r : lex_result) : lex_result :=
  match r with
  | LexOk ts => LexOk (filter (fun t => negb (is_ws_tok t)) ts)
  | e => e
  end.

(* what the parser sees *)
Definition lex (s : str) : lex_result := drop_ws (lex_all s).

(* the lexer mode is a function of the tokens emitted so far *)
Definition mode_after (m : mode) (t : token) : mode :=
  match t with
  | TTagStart => MTag
  | TArgsStart => MArgs
  | TArgsEnd => MDefault
  | TCtxStart => MDefault
  | _ => m
  end.
Definition final_mode (m : mode) (ts : list token) : mode := fold_left mode_after ts m.
