(* Proofs about Tpl/RenderExpr.v: the shape of a rendered expression, and that a reader   *)
(* who knows only the raw texts and the kinds of the values recovers the values.          *)
From Coq Require Import ZArith List Bool Lia ZifyBool ZifyN.
From Tempren Require Import Base.Str Py.PathLib Py.PathLibProofs Py.Repr Py.Literal Py.LiteralProofs
  Tpl.RenderExpr.
Open Scope N_scope.

Section Shape.
  Variable printable : N -> bool.
  Variable env : tag_env.

  (* process_as_expression = concatenation of the pieces: repr of the value for a top-level
     tag (whatever its context looks like), the text itself for raw text *)
  Theorem render_expr_shape p :
    render_expr printable env p = concat (map (piece printable env) (pat_list p)).
  Proof. induction p as [|e p IH]; [reflexivity|]. cbn [render_expr pat_list map concat]. rewrite IH. reflexivity. Qed.

  Theorem piece_tag tag has_ctx ctx :
    piece printable env (PTag tag has_ctx ctx) =
    py_repr printable (pel_value env (PTag tag has_ctx ctx)).
  Proof. reflexivity. Qed.

  Theorem piece_raw t : piece printable env (PRaw t) = t.
  Proof. reflexivity. Qed.

  (* a context is rendered with str, never with repr *)
  Theorem context_uses_str tag ctx :
    pel_value env (PTag tag true ctx) =
    match env tag (Some (render_str env ctx)) with Some v => v | None => missing_value end.
  Proof. reflexivity. Qed.

  Theorem render_str_cons e p : render_str env (PCons e p) = py_str (pel_value env e) ++ render_str env p.
  Proof. reflexivity. Qed.
End Shape.

(* ---------- reading the values back ----------------------------------------------------- *)

Lemma span_digits_app d rest :
  forallb is_digit d = true ->
  (forall c, hd_error rest = Some c -> is_digit c = false) ->
  span_digits (d ++ rest) = (d, rest).
Proof.
  intros Hd Hr. induction d as [|x d IH].
  - cbn [app]. destruct rest as [|c t]; [reflexivity|].
    cbn [span_digits]. rewrite (Hr c eq_refl). reflexivity.
  - cbn [forallb] in Hd. apply andb_true_iff in Hd as [Hx Hd].
    cbn [app span_digits]. rewrite Hx, (IH Hd). reflexivity.
Qed.

Section Recover.
  Variable printable : N -> bool.
  Hypothesis printable_not_surrogate : forall c, is_surrogate c = true -> printable c = false.
  Variable env : tag_env.

  (* what follows a literal does not glue to it: not a quote (a triple quote after an empty
     string), not a digit (a longer number) *)
  Definition sep_ok (rest : str) : Prop :=
    hd_error rest <> Some c_squote /\ forall c, hd_error rest = Some c -> is_digit c = false.

  Lemma read_hole_repr v rest : py_value v -> sep_ok rest ->
    read_hole (kind_of v) (py_repr printable v ++ rest) = Some (v, rest).
  Proof.
    intros Hg [Hq Hd]. destruct v as [s|z|b| |p]; cbn [kind_of py_repr read_hole py_value] in *.
    - rewrite (str_self_delimiting printable printable_not_surrogate s rest Hg) by (right; exact Hq).
      reflexivity.
    - unfold read_int. destruct z as [|n|n]; unfold decimal_Z.
      + change (decimal_N (Z.to_N 0)) with [48]. cbn [app]. change (48 =? 45) with false. cbv iota.
        change (48 :: rest) with ([48] ++ rest). rewrite span_digits_app by (auto; reflexivity).
        reflexivity.
      + destruct (decimal_N (Z.to_N (Z.pos n))) as [|c r] eqn:E.
        { exfalso; eapply decimal_N_nonempty; eauto. }
        pose proof (decimal_N_head_digit _ _ _ E) as Hc.
        cbn [app]. replace (c =? 45) with false by (unfold is_digit in Hc; lia).
        change (c :: r ++ rest) with ((c :: r) ++ rest). rewrite <- E.
        rewrite span_digits_app by (auto; apply decimal_N_digits).
        rewrite nat_literal_decimal. cbn [option_map]. rewrite Z2N.id by lia. reflexivity.
      + cbn [app]. rewrite N.eqb_refl.
        rewrite span_digits_app by (auto; apply decimal_N_digits).
        rewrite nat_literal_decimal. reflexivity.
    - destruct b.
      + rewrite strip_prefix_app. reflexivity.
      + change (strip_prefix s_True (s_False ++ rest)) with (@None str).
        rewrite strip_prefix_app. reflexivity.
    - rewrite strip_prefix_app. reflexivity.
    - destruct Hg as [Hv Hp]. rewrite <- app_assoc. rewrite strip_prefix_app.
      rewrite <- app_assoc.
      rewrite (str_self_delimiting printable printable_not_surrogate (pp_str p) ([c_rparen] ++ rest) Hv)
        by (right; discriminate).
      cbn [app]. unfold c_rparen. rewrite Hp. reflexivity.
  Qed.

  (* every top-level tag is followed by the end of the pattern or by raw text that does not
     start with a quote or a digit; its value is a Python value *)
  Definition next_ok (p : pat) : Prop :=
    match p with
    | PNil => True
    | PCons (PRaw (c :: _)) _ => is_quote c = false /\ is_digit c = false
    | _ => False
    end.

  Fixpoint well_separated (p : pat) : Prop :=
    match p with
    | PNil => True
    | PCons (PRaw _) p' => well_separated p'
    | PCons (PTag tag h ctx) p' =>
      py_value (pel_value env (PTag tag h ctx)) /\ next_ok p' /\ well_separated p'
    end.

  Lemma next_ok_sep p : next_ok p -> sep_ok (render_expr printable env p).
  Proof.
    destruct p as [|[t|tag h ctx] p']; cbn [next_ok]; try contradiction.
    - intros _. split; [discriminate | intros c H; discriminate].
    - destruct t as [|c t]; [contradiction|]. intros [Hq Hd].
      cbn [render_expr piece app hd_error]. split.
      + intro H. inversion H; subst. discriminate.
      + intros c' H. inversion H; subst. exact Hd.
  Qed.

  Theorem values_recovered p : well_separated p ->
    recover (skeleton env p) (render_expr printable env p) = Some (tag_values env p).
  Proof.
    induction p as [|e p IH]; intro H.
    - reflexivity.
    - destruct e as [t|tag h ctx].
      + cbn [skeleton render_expr piece recover tag_values]. rewrite strip_prefix_app. apply IH. exact H.
      + destruct H as (Hg & Hn & Hw).
        cbn [skeleton render_expr piece recover tag_values].
        rewrite (read_hole_repr _ _ Hg (next_ok_sep p Hn)).
        rewrite (IH Hw). reflexivity.
  Qed.
End Recover.
