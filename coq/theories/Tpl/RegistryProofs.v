(* Proofs about the registry model Tpl/Registry.v (property C12). *)
From Coq Require Import Permutation Sorted.
From Tempren Require Import Base.Str Tpl.Registry.
Open Scope N_scope.

(* ================================================================================ *)
(* 1. sorted(): code-point lexicographic order, insertion sort                       *)
(* ================================================================================ *)

Lemma str_leb_total a : forall b, str_leb a b = false -> str_leb b a = true.
Proof.
  induction a as [|x a IH]; intros [|y b]; simpl; intro H; try discriminate; try reflexivity.
  destruct (N.ltb_spec x y); [discriminate|].
  destruct (N.ltb_spec y x); [reflexivity|].
  apply IH; exact H.
Qed.

Lemma str_leb_antisym a : forall b, str_leb a b = true -> str_leb b a = true -> a = b.
Proof.
  induction a as [|x a IH]; intros [|y b]; simpl; intros H1 H2; try discriminate; try reflexivity.
  destruct (N.ltb_spec x y); destruct (N.ltb_spec y x); try discriminate; try lia.
  assert (x = y) by lia. subst. f_equal. apply IH; assumption.
Qed.

Lemma str_leb_trans a : forall b c, str_leb a b = true -> str_leb b c = true -> str_leb a c = true.
Proof.
  induction a as [|x a IH]; intros [|y b] [|z c]; simpl; intros H1 H2; try discriminate; try reflexivity.
  destruct (N.ltb_spec x y); destruct (N.ltb_spec y z); destruct (N.ltb_spec x z);
    try reflexivity; try lia;
    destruct (N.ltb_spec y x); destruct (N.ltb_spec z y); destruct (N.ltb_spec z x);
    try discriminate; try lia.
  eapply IH; eassumption.
Qed.

Lemma str_leb_refl a : str_leb a a = true.
Proof.
  destruct (str_leb a a) eqn:E; [reflexivity|]. apply str_leb_total in E as E'. congruence.
Qed.

Lemma insert_sorted_comm x y l :
  insert_sorted x (insert_sorted y l) = insert_sorted y (insert_sorted x l).
Proof.
  induction l as [|z l IH]; simpl.
  - destruct (str_leb x y) eqn:Exy; destruct (str_leb y x) eqn:Eyx; try reflexivity.
    + rewrite (str_leb_antisym _ _ Exy Eyx). reflexivity.
    + apply str_leb_total in Exy. congruence.
  - destruct (str_leb y z) eqn:Eyz; destruct (str_leb x z) eqn:Exz; simpl.
    + destruct (str_leb x y) eqn:Exy; destruct (str_leb y x) eqn:Eyx; simpl;
        rewrite ?Eyz, ?Exz; try reflexivity.
      * rewrite (str_leb_antisym _ _ Exy Eyx). reflexivity.
      * apply str_leb_total in Exy. congruence.
    + (* y <= z, not x <= z: then not x <= y *)
      destruct (str_leb x y) eqn:Exy.
      * rewrite (str_leb_trans _ _ _ Exy Eyz) in Exz. discriminate.
      * rewrite Eyz, Exz. reflexivity.
    + destruct (str_leb y x) eqn:Eyx.
      * rewrite (str_leb_trans _ _ _ Eyx Exz) in Eyz. discriminate.
      * rewrite Exz, Eyz. reflexivity.
    + rewrite Exz, Eyz. f_equal. exact IH.
Qed.

Lemma sort_strs_perm l l' : Permutation l l' -> sort_strs l = sort_strs l'.
Proof.
  induction 1; simpl.
  - reflexivity.
  - f_equal; assumption.
  - apply insert_sorted_comm.
  - congruence.
Qed.

Lemma insert_sorted_perm x l : Permutation (insert_sorted x l) (x :: l).
Proof.
  induction l as [|y l IH]; simpl; [apply Permutation_refl|].
  destruct (str_leb x y); [apply Permutation_refl|].
  eapply Permutation_trans; [apply perm_skip; exact IH | apply perm_swap].
Qed.

Lemma sort_strs_is_perm l : Permutation (sort_strs l) l.
Proof.
  induction l as [|x l IH]; simpl; [constructor|].
  eapply Permutation_trans; [apply insert_sorted_perm | apply perm_skip; exact IH].
Qed.

Lemma sort_strs_In l c : In c (sort_strs l) <-> In c l.
Proof.
  split; apply Permutation_in; [apply sort_strs_is_perm | apply Permutation_sym, sort_strs_is_perm].
Qed.

Definition str_le (a b : str) : Prop := str_leb a b = true.

Lemma insert_sorted_sorted x l : Sorted str_le l -> Sorted str_le (insert_sorted x l).
Proof.
  induction l as [|y l IH]; simpl; intro S.
  - repeat constructor.
  - destruct (str_leb x y) eqn:E.
    + constructor; [exact S | constructor; exact E].
    + inversion S as [|? ? S' Hd]; subst. constructor; [apply IH; exact S'|].
      destruct l as [|z l]; simpl.
      * constructor. apply str_leb_total; exact E.
      * destruct (str_leb x z); constructor.
        -- apply str_leb_total; exact E.
        -- inversion Hd; assumption.
Qed.

Lemma sort_strs_sorted l : Sorted str_le (sort_strs l).
Proof. induction l; simpl; [constructor | apply insert_sorted_sorted; assumption]. Qed.

(* ================================================================================ *)
(* 2. small list facts                                                               *)
(* ================================================================================ *)

Lemma NoDup_snoc {A} (l : list A) a : NoDup l -> ~ In a l -> NoDup (l ++ [a]).
Proof.
  induction l as [|x l IH]; simpl; intros N H.
  - constructor; [intros []|constructor].
  - inversion N; subst. constructor.
    + rewrite in_app_iff. simpl. intros [I|[E|[]]]; [contradiction|]. subst. apply H; left; reflexivity.
    + apply IH; [assumption|]. intro I; apply H; right; exact I.
Qed.

Lemma NoDup_map_inj {A B} (g : A -> B) l a b :
  NoDup (map g l) -> In a l -> In b l -> g a = g b -> a = b.
Proof.
  induction l as [|x l IH]; simpl; intros N Ia Ib E; [contradiction|].
  inversion N as [|? ? Hn N']; subst.
  destruct Ia as [->|Ia]; destruct Ib as [->|Ib]; try reflexivity.
  - exfalso. apply Hn. rewrite E. apply in_map; exact Ib.
  - exfalso. apply Hn. rewrite <- E. apply in_map; exact Ia.
  - apply IH; assumption.
Qed.

Lemma NoDup_map_filter {A B} (g : A -> B) p l : NoDup (map g l) -> NoDup (map g (filter p l)).
Proof.
  induction l as [|x l IH]; simpl; intro N; [constructor|].
  inversion N as [|? ? Hn N']; subst.
  destruct (p x); simpl; [constructor|]; auto.
  intro I. apply Hn. apply in_map_iff in I as [y [E Iy]]. apply filter_In in Iy as [Iy _].
  rewrite <- E. apply in_map; exact Iy.
Qed.

Lemma NoDup_map_app_r {A B} (g : A -> B) l1 l2 : NoDup (map g (l1 ++ l2)) -> NoDup (map g l2).
Proof.
  induction l1 as [|x l1 IH]; simpl; intro N; [exact N|]. inversion N; subst. apply IH; assumption.
Qed.

Lemma NoDup_map_app_l {A B} (g : A -> B) l1 l2 : NoDup (map g (l1 ++ l2)) -> NoDup (map g l1).
Proof.
  induction l1 as [|x l1 IH]; simpl; intro N; [constructor|]. inversion N as [|? ? Hn N']; subst.
  constructor; [|apply IH; assumption].
  intro I. apply Hn. rewrite map_app, in_app_iff. left; exact I.
Qed.

(* at most one element when a NoDup key is constant on the list *)
Lemma NoDup_const_le1 {A B} (g : A -> B) (k : B) l :
  NoDup (map g l) -> (forall e, In e l -> g e = k) -> forall e, In e l -> l = [e].
Proof.
  intros N H e I. destruct l as [|a [|b l]]; simpl in *.
  - contradiction.
  - destruct I as [->|[]]; reflexivity.
  - exfalso. inversion N as [|? ? Hn _]; subst. apply Hn. left.
    rewrite (H a), (H b); auto.
Qed.

Lemma two_distinct {A} (l : list A) a b : In a l -> In b l -> a <> b -> exists x y r, l = x :: y :: r.
Proof.
  intros Ia Ib D. destruct l as [|x [|y r]].
  - contradiction.
  - destruct Ia as [<-|[]]; destruct Ib as [<-|[]]; contradiction.
  - eauto.
Qed.

Lemma filter_nil {A} (p : A -> bool) l : (forall x, In x l -> p x = false) -> filter p l = [].
Proof.
  induction l as [|x l IH]; simpl; intro H; [reflexivity|].
  rewrite (H x (or_introl eq_refl)). apply IH. intros; apply H; right; assumption.
Qed.

Lemma Permutation_filter {A} (p : A -> bool) l l' : Permutation l l' -> Permutation (filter p l) (filter p l').
Proof.
  induction 1; simpl.
  - constructor.
  - destruct (p x); [constructor|]; assumption.
  - destruct (p x); destruct (p y); try apply Permutation_refl. apply perm_swap.
  - eapply Permutation_trans; eassumption.
Qed.

(* ================================================================================ *)
(* 3. validity                                                                        *)
(* ================================================================================ *)

Lemma valid_perm l l' : Permutation l l' -> valid l -> valid l'.
Proof.
  intros P [SI ND]. split.
  - intros e1 e2 I1 I2. apply SI; eapply Permutation_in; try eassumption; apply Permutation_sym; exact P.
  - eapply Permutation_NoDup; [apply Permutation_map; exact P | exact ND].
Qed.

Lemma valid_app_l a b : valid (a ++ b) -> valid a.
Proof.
  intros [SI ND]. split.
  - intros e1 e2 I1 I2. apply SI; apply in_or_app; left; assumption.
  - eapply NoDup_map_app_l; exact ND.
Qed.

Lemma valid_app_r a b : valid (a ++ b) -> valid b.
Proof.
  intros [SI ND]. split.
  - intros e1 e2 I1 I2. apply SI; apply in_or_app; right; assumption.
  - eapply NoDup_map_app_r; exact ND.
Qed.

Lemma case_variant_lower a b : case_variant a b -> lower a = lower b.
Proof.
  unfold lower, ascii_lower. induction 1; simpl; [reflexivity|]. f_equal; assumption.
Qed.

(* ================================================================================ *)
(* 4. the structure built by the registrations                                        *)
(* ================================================================================ *)

Definition ents (x : category) : list reg_entry :=
  map (fun tf => (cat_name x, fst tf, snd tf)) (cat_tags x).

Definition flatten (r : registry) : list reg_entry := flat_map ents r.

Inductive wf : registry -> Prop :=
| wf_nil : wf []
| wf_cons x r :
    cat_key x = lower (cat_name x) ->
    ~ In (cat_key x) (map cat_key r) ->
    NoDup (map fst (cat_tags x)) ->
    cat_tags x <> [] ->
    wf r -> wf (x :: r).

Lemma find_tag_None t tags : find_tag t tags = None <-> ~ In t (map fst tags).
Proof.
  induction tags as [|[t' f] tags IH]; simpl.
  - split; [intros _ []|reflexivity].
  - destruct (str_eqb t' t) eqn:E.
    + apply str_eqb_spec in E; subst. split; [discriminate|]. intro H; exfalso; apply H; left; reflexivity.
    + apply str_eqb_neq in E. rewrite IH. split.
      * intros H [E'|I]; [contradiction|contradiction].
      * intros H I. apply H; right; exact I.
Qed.

Lemma find_tag_Some t tags f : find_tag t tags = Some f -> In (t, f) tags.
Proof.
  induction tags as [|[t' f'] tags IH]; simpl; [discriminate|].
  destruct (str_eqb t' t) eqn:E.
  - apply str_eqb_spec in E; subst. intro H; inversion H; subst. left; reflexivity.
  - intro H; right; apply IH; exact H.
Qed.

(* --- entries of one category seen through the filters of the specification --- *)

Lemma entries_of_cat_ents c x :
  entries_of_cat c (ents x) = if str_eqb (lower (cat_name x)) (lower c) then ents x else [].
Proof.
  unfold entries_of_cat, ents. induction (cat_tags x) as [|tf l IH]; simpl.
  - destruct (str_eqb _ _); reflexivity.
  - unfold e_cat at 1; simpl. destruct (str_eqb (lower (cat_name x)) (lower c)) eqn:E.
    + f_equal. exact IH.
    + exact IH.
Qed.

Lemma entries_of_tag_none t (n : str) tags :
  ~ In t (map fst tags) ->
  entries_of_tag t (map (fun tf : str * fid => (n, fst tf, snd tf)) tags) = [].
Proof.
  intro H. apply filter_nil. intros e I. apply in_map_iff in I as [[t' f] [<- I]].
  unfold e_tag; simpl. apply str_eqb_neq. intro; subst. apply H.
  change t with (fst (t, f)). apply in_map; exact I.
Qed.

Lemma entries_of_tag_ents t x :
  NoDup (map fst (cat_tags x)) ->
  entries_of_tag t (ents x) =
    match find_tag t (cat_tags x) with Some f => [(cat_name x, t, f)] | None => [] end.
Proof.
  unfold ents. induction (cat_tags x) as [|[t' f] l IH]; simpl; intro N; [reflexivity|].
  inversion N as [|? ? Hn N']; subst.
  unfold e_tag at 1; simpl. destruct (str_eqb t' t) eqn:E.
  - apply str_eqb_spec in E; subst. f_equal. apply entries_of_tag_none; exact Hn.
  - apply IH; exact N'.
Qed.

Lemma entries_of_cat_absent c r :
  wf r -> ~ In (lower c) (map cat_key r) -> entries_of_cat c (flatten r) = [].
Proof.
  induction 1 as [|x r K Hn ND NE W IH]; simpl; intro H; [reflexivity|].
  unfold entries_of_cat in *. rewrite filter_app. fold (entries_of_cat c (ents x)).
  rewrite entries_of_cat_ents.
  destruct (str_eqb (lower (cat_name x)) (lower c)) eqn:E.
  - apply str_eqb_spec in E. exfalso. apply H. left. congruence.
  - simpl. apply IH. intro I; apply H; right; exact I.
Qed.

Lemma find_key_None k r : find_key k r = None <-> ~ In k (map cat_key r).
Proof.
  induction r as [|x r IH]; simpl.
  - split; [intros _ []|reflexivity].
  - destruct (str_eqb (cat_key x) k) eqn:E.
    + apply str_eqb_spec in E. split; [discriminate|]. intro H; exfalso; apply H; left; exact E.
    + apply str_eqb_neq in E. rewrite IH. split.
      * intros H [E'|I]; contradiction.
      * intros H I; apply H; right; exact I.
Qed.

Lemma ents_nonempty x : cat_tags x <> [] -> ents x <> [].
Proof. unfold ents. destruct (cat_tags x); [congruence|discriminate]. Qed.

(* first-match view of the tag filter: no NoDup needed *)
Lemma first_tag_ents t x :
  match entries_of_tag t (ents x) with [] => RUnknownName | e :: _ => ROk (e_fid e) end =
  match find_tag t (cat_tags x) with None => RUnknownName | Some f => ROk f end.
Proof.
  unfold ents. induction (cat_tags x) as [|[t' f] l IH]; simpl; [reflexivity|].
  unfold e_tag at 1; simpl. destruct (str_eqb t' t); [reflexivity | exact IH].
Qed.

(* --- lookup on a well-formed structure = specification on its flattening --- *)

Lemma get_qualified_spec r c t :
  wf r -> get_qualified r c t = spec_get (flatten r) (Some c, t).
Proof.
  unfold get_qualified, find_category, spec_get; simpl.
  induction 1 as [|x r K Hn ND NE W IH]; simpl; [reflexivity|].
  unfold entries_of_cat in *. rewrite filter_app. fold (entries_of_cat c (ents x)).
  fold (entries_of_cat c (flatten r)). rewrite entries_of_cat_ents.
  destruct (str_eqb (cat_key x) (lower c)) eqn:E.
  - apply str_eqb_spec in E.
    assert (E' : str_eqb (lower (cat_name x)) (lower c) = true) by (apply str_eqb_spec; congruence).
    rewrite E'. rewrite entries_of_cat_absent; [|exact W|rewrite <- E; exact Hn].
    rewrite app_nil_r. pose proof (ents_nonempty x NE) as NE'.
    pose proof (first_tag_ents t x) as F.
    destruct (ents x) as [|e es] eqn:EE; [congruence|]. rewrite <- F. reflexivity.
  - assert (E' : str_eqb (lower (cat_name x)) (lower c) = false).
    { apply str_eqb_neq. apply str_eqb_neq in E. congruence. }
    rewrite E'. simpl. exact IH.
Qed.

Lemma found_in_spec t r :
  wf r -> entries_of_tag t (flatten r) = map (fun cf => (fst cf, t, snd cf)) (found_in t r).
Proof.
  induction 1 as [|x r K Hn ND NE W IH]; simpl; [reflexivity|].
  unfold entries_of_tag in *. rewrite filter_app. fold (entries_of_tag t (ents x)).
  rewrite entries_of_tag_ents by exact ND. rewrite IH.
  destruct (find_tag t (cat_tags x)); reflexivity.
Qed.

Lemma get_bare_spec r t : wf r -> get_bare r t = spec_get (flatten r) (None, t).
Proof.
  intro W. unfold get_bare, spec_get; simpl. rewrite (found_in_spec t r W).
  destruct (found_in t r) as [|[c f] [|[c2 f2] l]]; simpl; try reflexivity.
  do 2 f_equal. f_equal. rewrite map_map. simpl. reflexivity.
Qed.

Lemma get_spec r q : wf r -> get r q = spec_get (flatten r) q.
Proof.
  destruct q as [[c|] t]; unfold get; simpl; intro W.
  - apply get_qualified_spec; exact W.
  - apply get_bare_spec; exact W.
Qed.

(* --- one registration --- *)

Lemma register1_keys c t f r r' :
  register1 c t f r = Some r' ->
  forall k, In k (map cat_key r') -> In k (map cat_key r) \/ k = lower c.
Proof.
  revert r'. induction r as [|x r IH]; simpl; intros r' H k I.
  - inversion H; subst. simpl in I. destruct I as [<-|[]]. right; reflexivity.
  - destruct (str_eqb (cat_key x) (lower c)) eqn:E.
    + destruct (str_eqb (cat_name x) c); [|discriminate].
      destruct (find_tag t (cat_tags x)); [discriminate|]. inversion H; subst. simpl in I. left; exact I.
    + destruct (register1 c t f r) as [r''|] eqn:R; [|discriminate]. inversion H; subst.
      simpl in I. destruct I as [<-|I]; [left; left; reflexivity|].
      destruct (IH _ eq_refl k I); [left; right; assumption | right; assumption].
Qed.

Lemma register1_wf c t f r r' :
  wf r -> register1 c t f r = Some r' ->
  wf r' /\ Permutation (flatten r') (flatten r ++ [(c, t, f)]).
Proof.
  intro W. revert r'. induction W as [|x r K Hn ND NE W IH]; simpl; intros r' H.
  - inversion H; subst. split; [|apply Permutation_refl].
    constructor; simpl; try reflexivity; try discriminate; try constructor; auto; constructor.
  - destruct (str_eqb (cat_key x) (lower c)) eqn:E.
    + destruct (str_eqb (cat_name x) c) eqn:En; [|discriminate]. apply str_eqb_spec in En.
      destruct (find_tag t (cat_tags x)) eqn:Ft; [discriminate|]. inversion H; subst r'. split.
      * constructor; simpl; try assumption.
        -- rewrite map_app. simpl. apply NoDup_snoc; [exact ND|]. apply find_tag_None; exact Ft.
        -- destruct (cat_tags x); discriminate.
      * simpl. unfold ents at 1; simpl. rewrite map_app. simpl. fold (ents x). rewrite En.
        rewrite <- !app_assoc. apply Permutation_app_head. simpl.
        apply Permutation_cons_append.
    + destruct (register1 c t f r) as [r''|] eqn:R; [|discriminate]. inversion H; subst r'.
      destruct (IH _ eq_refl) as [W'' P]. split.
      * constructor; try assumption. intro I.
        destruct (register1_keys _ _ _ _ _ R _ I) as [I'|E']; [contradiction|].
        apply str_eqb_neq in E. contradiction.
      * simpl. rewrite <- app_assoc. apply Permutation_app_head. exact P.
Qed.

Lemma build_from_wf regs : forall r r',
  wf r -> build_from r regs = Some r' -> wf r' /\ Permutation (flatten r') (flatten r ++ regs).
Proof.
  induction regs as [|[[c t] f] regs IH]; simpl; intros r r' W H.
  - inversion H; subst. rewrite app_nil_r. split; [exact W | apply Permutation_refl].
  - unfold e_cat, e_tag, e_fid in H; simpl in H.
    destruct (register1 c t f r) as [r1|] eqn:R; [|discriminate].
    destruct (register1_wf _ _ _ _ _ W R) as [W1 P1].
    destruct (IH _ _ W1 H) as [W' P']. split; [exact W'|].
    eapply Permutation_trans; [exact P'|].
    change ((c, t, f) :: regs) with ([(c, t, f)] ++ regs). rewrite app_assoc.
    apply Permutation_app_tail. exact P1.
Qed.

Lemma build_wf regs r : build regs = Some r -> wf r /\ Permutation (flatten r) regs.
Proof. intro H. apply (build_from_wf regs [] r wf_nil H). Qed.

(* --- a registration in a valid list is never refused --- *)

Lemma In_ents x t f : In (t, f) (cat_tags x) -> In (cat_name x, t, f) (ents x).
Proof. intro I. unfold ents. apply in_map_iff. exists (t, f). split; [reflexivity | exact I]. Qed.

Lemma register1_valid c t f r :
  wf r -> valid (flatten r ++ [(c, t, f)]) -> register1 c t f r <> None.
Proof.
  induction 1 as [|x r K Hn ND NE W IH]; simpl; intro V; [discriminate|].
  destruct (str_eqb (cat_key x) (lower c)) eqn:E.
  - apply str_eqb_spec in E.
    destruct (cat_tags x) as [|[t0 f0] tags0] eqn:ET; [congruence|].
    assert (I0 : In (cat_name x, t0, f0) (ents x)) by (apply In_ents; rewrite ET; left; reflexivity).
    destruct V as [SI NDp].
    assert (En : cat_name x = c).
    { apply (SI (cat_name x, t0, f0) (c, t, f)).
      - apply in_or_app; left. apply in_or_app; left. exact I0.
      - apply in_or_app; right. left; reflexivity.
      - unfold e_cat; simpl. congruence. }
    assert (Es : str_eqb (cat_name x) c = true) by (apply str_eqb_spec; exact En). rewrite Es.
    rewrite <- ET.
    destruct (find_tag t (cat_tags x)) as [f1|] eqn:Ft; [|discriminate].
    exfalso. apply find_tag_Some in Ft.
    assert (I1 : In (cat_name x, t, f1) (ents x)) by (apply In_ents; exact Ft).
    (* (c,t) occurs twice among the pairs *)
    rewrite <- app_assoc in NDp. rewrite map_app in NDp.
    apply in_split in I1 as [l1 [l2 El]]. rewrite El in NDp.
    rewrite map_app in NDp. simpl in NDp. rewrite <- app_assoc in NDp. simpl in NDp.
    apply NoDup_remove_2 in NDp. apply NDp.
    rewrite !in_app_iff. right. right. rewrite map_app, in_app_iff. right. left.
    unfold cat_tag, e_cat, e_tag; simpl. congruence.
  - destruct (register1 c t f r) eqn:R; [discriminate|]. exfalso.
    apply IH; [|reflexivity]. rewrite <- app_assoc in V. eapply valid_app_r; exact V.
Qed.

Lemma build_from_valid regs : forall r,
  wf r -> valid (flatten r ++ regs) -> build_from r regs <> None.
Proof.
  induction regs as [|[[c t] f] regs IH]; simpl; intros r W V; [discriminate|].
  unfold e_cat, e_tag, e_fid; simpl.
  change ((c, t, f) :: regs) with ([(c, t, f)] ++ regs) in V. rewrite app_assoc in V.
  destruct (register1 c t f r) as [r1|] eqn:R.
  - destruct (register1_wf _ _ _ _ _ W R) as [W1 P1]. apply IH; [exact W1|].
    eapply valid_perm; [|exact V]. apply Permutation_app_tail. apply Permutation_sym; exact P1.
  - exfalso. eapply register1_valid; [exact W | eapply valid_app_l; exact V | exact R].
Qed.

Lemma build_valid regs : valid regs -> exists r, build regs = Some r /\ wf r /\ Permutation (flatten r) regs.
Proof.
  intro V. destruct (build regs) as [r|] eqn:B.
  - exists r. split; [reflexivity | apply build_wf; exact B].
  - exfalso. apply (build_from_valid regs [] wf_nil V). exact B.
Qed.

(* --- conversely: whatever the registrations built is valid --- *)

Lemma In_flatten r e : In e (flatten r) <-> exists x, In x r /\ In e (ents x).
Proof. unfold flatten. apply in_flat_map. Qed.

Lemma In_ents_inv x e : In e (ents x) -> e_cat e = cat_name x /\ In (e_tag e, e_fid e) (cat_tags x).
Proof.
  unfold ents. intro I. apply in_map_iff in I as [[t f] [<- I]]. split; [reflexivity | exact I].
Qed.

Lemma wf_key x r : wf r -> In x r -> cat_key x = lower (cat_name x).
Proof. induction 1; simpl; [intros [] | intros [<-|I]; auto]. Qed.

Lemma wf_nodup_keys r : wf r -> NoDup (map cat_key r).
Proof. induction 1; simpl; constructor; assumption. Qed.

Lemma wf_valid r : wf r -> valid (flatten r).
Proof.
  intro W. split.
  - intros e1 e2 I1 I2 E. apply In_flatten in I1 as [x1 [X1 I1]]. apply In_flatten in I2 as [x2 [X2 I2]].
    apply In_ents_inv in I1 as [C1 _]. apply In_ents_inv in I2 as [C2 _].
    assert (x1 = x2).
    { apply (NoDup_map_inj cat_key r); try assumption; [apply wf_nodup_keys; exact W|].
      rewrite (wf_key _ _ W X1), (wf_key _ _ W X2). congruence. }
    congruence.
  - induction W as [|x r K Hn ND NE W IH]; simpl; [constructor|].
    rewrite map_app.
    assert (A : forall l, NoDup (map fst l) ->
                NoDup (map cat_tag (map (fun tf : str * fid => (cat_name x, fst tf, snd tf)) l))).
    { induction l as [|[t f] l IHl]; simpl; intro N; [constructor|].
      inversion N as [|? ? Hn' N']; subst. constructor; [|apply IHl; exact N'].
      intro I. apply Hn'. rewrite map_map in I. apply in_map_iff in I as [[t' f'] [E I]].
      unfold cat_tag, e_cat, e_tag in E; simpl in E. inversion E; subst.
      change t with (fst (t, f')). apply in_map; exact I. }
    (* pairs of x are disjoint from pairs of the rest: different category names *)
    assert (D : forall p, In p (map cat_tag (ents x)) -> ~ In p (map cat_tag (flatten r))).
    { intros p I1 I2. apply in_map_iff in I1 as [e1 [<- I1]]. apply in_map_iff in I2 as [e2 [E2 I2]].
      apply In_ents_inv in I1 as [C1 _]. apply In_flatten in I2 as [x2 [X2 I2]].
      apply In_ents_inv in I2 as [C2 _]. apply Hn.
      assert (cat_name x2 = cat_name x).
      { unfold cat_tag in E2. inversion E2. congruence. }
      rewrite K. rewrite <- H. rewrite <- (wf_key _ _ W X2). apply in_map; exact X2. }
    clear Hn. revert D. generalize (A _ ND). unfold ents at 1 2.
    generalize (map cat_tag (map (fun tf : str * fid => (cat_name x, fst tf, snd tf)) (cat_tags x))).
    intros l Nl D. induction l as [|p l IHl]; simpl; [exact IH|].
    inversion Nl; subst. constructor.
    + rewrite in_app_iff. intros [I|I]; [contradiction|]. apply (D p); [left; reflexivity | exact I].
    + apply IHl; [assumption|]. intros q Iq. apply D; right; exact Iq.
Qed.

Lemma build_Some_valid regs r : build regs = Some r -> valid regs.
Proof.
  intro B. destruct (build_wf _ _ B) as [W P]. eapply valid_perm; [exact P | apply wf_valid; exact W].
Qed.

(* the registrations are accepted exactly when they are valid *)
Lemma build_iff_valid regs : build regs <> None <-> valid regs.
Proof.
  split.
  - destruct (build regs) eqn:B; [intros _; eapply build_Some_valid; exact B | congruence].
  - intro V. destruct (build_valid _ V) as [r [B _]]. congruence.
Qed.

(* ================================================================================ *)
(* 5. the specification is independent of the order of the registrations              *)
(* ================================================================================ *)

Lemma qualified_hits_le1 regs c t e :
  valid regs -> In e (entries_of_tag t (entries_of_cat c regs)) ->
  entries_of_tag t (entries_of_cat c regs) = [e].
Proof.
  intros [SI ND] I.
  assert (exists c0, forall e', In e' (entries_of_tag t (entries_of_cat c regs)) -> cat_tag e' = (c0, t)).
  { exists (e_cat e). intros e' I'.
    unfold entries_of_tag, entries_of_cat in I, I'.
    apply filter_In in I as [I Et]. apply filter_In in I as [I Ec].
    apply filter_In in I' as [I' Et']. apply filter_In in I' as [I' Ec'].
    apply str_eqb_spec in Et, Ec, Et', Ec'. unfold cat_tag. f_equal; [|exact Et'].
    apply SI; try assumption. congruence. }
  destruct H as [c0 H].
  apply (NoDup_const_le1 cat_tag (c0, t)); try assumption.
  unfold entries_of_tag, entries_of_cat. do 2 apply NoDup_map_filter. exact ND.
Qed.

Lemma spec_get_perm regs regs' q :
  valid regs -> Permutation regs regs' -> spec_get regs q = spec_get regs' q.
Proof.
  intros V P. assert (V' : valid regs') by (eapply valid_perm; eassumption).
  destruct q as [[c|] t]; unfold spec_get; cbn [fst snd].
  - pose proof (Permutation_filter (fun e => str_eqb (lower (e_cat e)) (lower c)) _ _ P) as Pc.
    fold (entries_of_cat c regs) in Pc. fold (entries_of_cat c regs') in Pc.
    pose proof (Permutation_filter (fun e => str_eqb (e_tag e) t) _ _ Pc) as Pt.
    fold (entries_of_tag t (entries_of_cat c regs)) in Pt.
    fold (entries_of_tag t (entries_of_cat c regs')) in Pt.
    destruct (entries_of_cat c regs) as [|a l] eqn:E1.
    + apply Permutation_nil in Pc. rewrite Pc. reflexivity.
    + destruct (entries_of_cat c regs') as [|a' l'] eqn:E2.
      * apply Permutation_sym, Permutation_nil in Pc. discriminate.
      * cbv iota. rewrite <- E1, <- E2 in *.
        destruct (entries_of_tag t (entries_of_cat c regs)) as [|e es] eqn:T1.
        -- apply Permutation_nil in Pt. rewrite Pt. reflexivity.
        -- assert (I : In e (entries_of_tag t (entries_of_cat c regs))) by (rewrite T1; left; reflexivity).
           assert (I' : In e (entries_of_tag t (entries_of_cat c regs'))).
           { eapply Permutation_in; [|exact I]. rewrite T1. exact Pt. }
           rewrite (qualified_hits_le1 _ _ _ _ V' I'). reflexivity.
  - pose proof (Permutation_filter (fun e => str_eqb (e_tag e) t) _ _ P) as Pt.
    fold (entries_of_tag t regs) in Pt. fold (entries_of_tag t regs') in Pt.
    destruct (entries_of_tag t regs) as [|e [|e2 es]] eqn:T1.
    + apply Permutation_nil in Pt. rewrite Pt. reflexivity.
    + apply Permutation_length_1_inv in Pt. rewrite Pt. reflexivity.
    + destruct (entries_of_tag t regs') as [|e' [|e2' es']] eqn:T2.
      * apply Permutation_sym, Permutation_nil in Pt. discriminate.
      * apply Permutation_length in Pt. simpl in Pt. discriminate.
      * f_equal. apply sort_strs_perm. apply Permutation_map. exact Pt.
Qed.

(* the implementation-shaped lookup refines the specification *)
Lemma get_in_spec regs q : valid regs -> get_in regs q = spec_get regs q.
Proof.
  intro V. destruct (build_valid _ V) as [r [B [W P]]]. unfold get_in. rewrite B.
  rewrite (get_spec r q W). apply spec_get_perm; [apply wf_valid; exact W | exact P].
Qed.

(* ================================================================================ *)
(* 6. the statements of C12                                                           *)
(* ================================================================================ *)

Lemma in_entries_of_cat regs c c' t f :
  In (c, t, f) regs -> lower c' = lower c -> In (c, t, f) (entries_of_cat c' regs).
Proof.
  intros I E. unfold entries_of_cat. apply filter_In. split; [exact I|].
  apply str_eqb_spec. unfold e_cat; simpl. congruence.
Qed.

Lemma in_entries_of_tag regs c t f : In (c, t, f) regs -> In (c, t, f) (entries_of_tag t regs).
Proof.
  intro I. unfold entries_of_tag. apply filter_In. split; [exact I|]. apply str_eqb_spec. reflexivity.
Qed.

Lemma qualified_any_case regs c t f :
  valid regs -> In (c, t, f) regs ->
  forall c', lower c' = lower c -> get_in regs (Some c', t) = ROk f.
Proof.
  intros V I c' E. rewrite get_in_spec by exact V. unfold spec_get; cbn [fst snd].
  pose proof (in_entries_of_cat _ _ _ _ _ I E) as Ic.
  pose proof (in_entries_of_tag _ _ _ _ Ic) as It.
  destruct (entries_of_cat c' regs) as [|a l] eqn:EC; [destruct Ic|].
  rewrite <- EC in *. rewrite (qualified_hits_le1 _ _ _ _ V It). reflexivity.
Qed.

Lemma qualified_case_variant regs c t f :
  valid regs -> In (c, t, f) regs ->
  forall c', case_variant c' c -> get_in regs (Some c', t) = ROk f.
Proof. intros V I c' CV. eapply qualified_any_case; eauto. apply case_variant_lower; exact CV. Qed.

Lemma bare_unique regs c t f :
  valid regs -> In (c, t, f) regs ->
  (forall c2 f2, In (c2, t, f2) regs -> c2 = c) ->
  get_in regs (None, t) = ROk f.
Proof.
  intros V I U. rewrite get_in_spec by exact V. unfold spec_get; cbn [fst snd].
  pose proof (in_entries_of_tag _ _ _ _ I) as It.
  assert (E : entries_of_tag t regs = [(c, t, f)]).
  { destruct V as [_ ND]. apply (NoDup_const_le1 cat_tag (c, t)).
    - unfold entries_of_tag. apply NoDup_map_filter; exact ND.
    - intros [[c2 t2] f2] I2. unfold entries_of_tag in I2. apply filter_In in I2 as [I2 Et].
      apply str_eqb_spec in Et. unfold e_tag in Et; simpl in Et. subst t2.
      unfold cat_tag, e_cat, e_tag; simpl. f_equal. eapply U; exact I2.
    - exact It. }
  rewrite E. reflexivity.
Qed.

Lemma bare_ambiguous regs t c1 f1 c2 f2 :
  valid regs -> In (c1, t, f1) regs -> In (c2, t, f2) regs -> c1 <> c2 ->
  get_in regs (None, t) = RAmbiguous (sort_strs (cats_of t regs)).
Proof.
  intros V I1 I2 D. rewrite get_in_spec by exact V. unfold spec_get, cats_of; cbn [fst snd].
  apply in_entries_of_tag in I1. apply in_entries_of_tag in I2.
  destruct (two_distinct _ _ _ I1 I2) as [x [y [r E]]]; [congruence|].
  rewrite E. reflexivity.
Qed.

Lemma cats_of_In regs t c : In c (cats_of t regs) <-> exists f, In (c, t, f) regs.
Proof.
  unfold cats_of, entries_of_tag. rewrite in_map_iff. split.
  - intros [[[c' t'] f] [E I]]. apply filter_In in I as [I Et]. apply str_eqb_spec in Et.
    unfold e_cat, e_tag in *; simpl in *. subst. exists f; exact I.
  - intros [f I]. exists (c, t, f). split; [reflexivity|]. apply filter_In. split; [exact I|].
    apply str_eqb_spec; reflexivity.
Qed.

Lemma ambiguous_lists_all regs t c :
  In c (sort_strs (cats_of t regs)) <-> exists f, In (c, t, f) regs.
Proof. rewrite sort_strs_In. apply cats_of_In. Qed.

Lemma unknown_category regs c' t :
  valid regs -> (forall c t0 f, In (c, t0, f) regs -> lower c <> lower c') ->
  get_in regs (Some c', t) = RUnknownCategory.
Proof.
  intros V H. rewrite get_in_spec by exact V. unfold spec_get; cbn [fst snd].
  unfold entries_of_cat. rewrite filter_nil; [reflexivity|].
  intros [[c t0] f] I. apply str_eqb_neq. unfold e_cat; simpl. eapply H; exact I.
Qed.

Lemma unknown_name_qualified regs c c' t0 f0 t :
  valid regs -> In (c, t0, f0) regs -> lower c' = lower c ->
  (forall c2 f, lower c2 = lower c' -> ~ In (c2, t, f) regs) ->
  get_in regs (Some c', t) = RUnknownName.
Proof.
  intros V I E H. rewrite get_in_spec by exact V. unfold spec_get; cbn [fst snd].
  pose proof (in_entries_of_cat _ _ _ _ _ I E) as Ic.
  destruct (entries_of_cat c' regs) as [|a l] eqn:EC; [contradiction|]. rewrite <- EC.
  unfold entries_of_tag. rewrite filter_nil; [reflexivity|].
  intros [[c2 t2] f2] I2. apply str_eqb_neq. unfold e_tag; simpl. intro; subst t2.
  unfold entries_of_cat in I2. apply filter_In in I2 as [I2 Ec]. apply str_eqb_spec in Ec.
  unfold e_cat in Ec; simpl in Ec. eapply H; eassumption.
Qed.

Lemma unknown_name_bare regs t :
  valid regs -> (forall c f, ~ In (c, t, f) regs) -> get_in regs (None, t) = RUnknownName.
Proof.
  intros V H. rewrite get_in_spec by exact V. unfold spec_get; cbn [fst snd].
  unfold entries_of_tag. rewrite filter_nil; [reflexivity|].
  intros [[c t2] f] I. apply str_eqb_neq. unfold e_tag; simpl. intro; subst. eapply H; exact I.
Qed.

Lemma never_wrong regs q f :
  get_in regs q = ROk f ->
  exists c, In (c, snd q, f) regs /\ (forall c', fst q = Some c' -> lower c = lower c').
Proof.
  intro G.
  assert (V : valid regs).
  { unfold get_in in G. destruct (build regs) eqn:B; [eapply build_Some_valid; exact B | discriminate]. }
  rewrite get_in_spec in G by exact V. destruct q as [[c'|] t]; unfold spec_get in G; cbn [fst snd] in *.
  - destruct (entries_of_cat c' regs) as [|a l] eqn:EC; [discriminate|]. rewrite <- EC in G.
    destruct (entries_of_tag t (entries_of_cat c' regs)) as [|[[c t2] f2] es] eqn:ET; [discriminate|].
    unfold e_fid in G; simpl in G. assert (f2 = f) by congruence. subst f2. clear G.
    assert (I : In (c, t2, f) (entries_of_tag t (entries_of_cat c' regs))) by (rewrite ET; left; reflexivity).
    unfold entries_of_tag, entries_of_cat in I. apply filter_In in I as [I Et]. apply filter_In in I as [I Ec].
    apply str_eqb_spec in Et, Ec. unfold e_tag, e_cat in *; simpl in *. subst t2.
    exists c. split; [exact I|]. intros c'' E; inversion E; subst; exact Ec.
  - destruct (entries_of_tag t regs) as [|[[c t2] f2] [|e2 es]] eqn:ET; try discriminate.
    unfold e_fid in G; simpl in G. assert (f2 = f) by congruence. subst f2. clear G.
    assert (I : In (c, t2, f) (entries_of_tag t regs)) by (rewrite ET; left; reflexivity).
    unfold entries_of_tag in I. apply filter_In in I as [I Et]. apply str_eqb_spec in Et.
    unfold e_tag in Et; simpl in Et. subst t2. exists c. split; [exact I|]. intros c'' E; discriminate.
Qed.

Lemma case_sensitive_tags regs c' t' :
  (forall c2 f, lower c2 = lower c' -> ~ In (c2, t', f) regs) ->
  forall f, get_in regs (Some c', t') <> ROk f.
Proof.
  intros H f G. apply never_wrong in G as [c [I E]]. simpl in *.
  eapply H; [apply E; reflexivity | exact I].
Qed.

Lemma case_sensitive_tags_bare regs t' :
  (forall c f, ~ In (c, t', f) regs) -> forall f, get_in regs (None, t') <> ROk f.
Proof. intros H f G. apply never_wrong in G as [c [I _]]. simpl in I. eapply H; exact I. Qed.

Lemma order_independent regs regs' :
  Permutation regs regs' -> valid regs -> forall q, get_in regs q = get_in regs' q.
Proof.
  intros P V q. rewrite get_in_spec by exact V.
  rewrite get_in_spec by (eapply valid_perm; eassumption). apply spec_get_perm; assumption.
Qed.

(* invalid registrations are refused in every order as well *)
Lemma order_independent_any regs regs' :
  Permutation regs regs' -> forall q, get_in regs q = get_in regs' q.
Proof.
  intros P q. destruct (build regs) as [r|] eqn:B.
  - apply order_independent; [exact P | eapply build_Some_valid; exact B].
  - destruct (build regs') as [r'|] eqn:B'.
    + exfalso. apply build_Some_valid in B'. apply (valid_perm _ _ (Permutation_sym P)) in B'.
      apply build_iff_valid in B'. congruence.
    + unfold get_in. rewrite B, B'. reflexivity.
Qed.

(* --- locations --- *)

Lemma slice_mid (a b c : str) : slice (len a) (len b) (a ++ b ++ c) = b.
Proof.
  unfold slice, len. rewrite !Nat2N.id.
  rewrite skipn_app, skipn_all, Nat.sub_diag. simpl.
  rewrite firstn_app, firstn_all, Nat.sub_diag. simpl. apply app_nil_r.
Qed.

Lemma len_app a b : len (a ++ b) = len a + len b.
Proof. unfold len. rewrite app_length. lia. Qed.

(* the template is  pre ++ "%" ++ [Category "."] Name ++ post ; col = position after "%" *)
Ltac norm_app := repeat (rewrite <- app_assoc; simpl); simpl; try reflexivity.

Lemma location_unknown_category pre post c t :
  let q := (Some c, t) in
  let text := pre ++ [37] ++ qname_text q ++ post in
  exists col n, error_location (len pre + 1) q RUnknownCategory = Some (col, n) /\
                slice col n text = c /\ col = len (pre ++ [37]).
Proof.
  cbv zeta. unfold qname_text. cbn [fst snd].
  exists (len pre + 1), (len c). split; [reflexivity|].
  assert (E : len pre + 1 = len (pre ++ [37])) by (rewrite len_app; reflexivity).
  split; [|exact E]. rewrite E.
  replace (pre ++ [37] ++ (c ++ [46] ++ t) ++ post) with ((pre ++ [37]) ++ c ++ ([46] ++ t ++ post))
    by norm_app.
  apply slice_mid.
Qed.

Lemma location_unknown_name_qualified pre post c t :
  let q := (Some c, t) in
  let text := pre ++ [37] ++ qname_text q ++ post in
  exists col n, error_location (len pre + 1) q RUnknownName = Some (col, n) /\
                slice col n text = t /\ col = len (pre ++ [37] ++ c ++ [46]).
Proof.
  cbv zeta. unfold qname_text. cbn [fst snd].
  exists (len pre + 1 + len c + 1), (len t). split; [reflexivity|].
  assert (E : len pre + 1 + len c + 1 = len (pre ++ [37] ++ c ++ [46])).
  { rewrite !len_app. change (len [37]) with 1. change (len [46]) with 1. lia. }
  split; [|exact E]. rewrite E.
  replace (pre ++ [37] ++ (c ++ [46] ++ t) ++ post) with ((pre ++ [37] ++ c ++ [46]) ++ t ++ post)
    by norm_app.
  apply slice_mid.
Qed.

Lemma location_unknown_name_bare pre post t :
  let q := (@None str, t) in
  let text := pre ++ [37] ++ qname_text q ++ post in
  exists col n, error_location (len pre + 1) q RUnknownName = Some (col, n) /\
                slice col n text = t /\ col = len (pre ++ [37]).
Proof.
  cbv zeta. unfold qname_text. cbn [fst snd].
  exists (len pre + 1), (len t). split; [reflexivity|].
  assert (E : len pre + 1 = len (pre ++ [37])) by (rewrite len_app; reflexivity).
  split; [|exact E]. rewrite E.
  replace (pre ++ [37] ++ t ++ post) with ((pre ++ [37]) ++ t ++ post) by norm_app.
  apply slice_mid.
Qed.

(* ================================================================================ *)
(* 7. the lookup of the unchanged tree is refuted (F19)                               *)
(* ================================================================================ *)

Definition s_AdHoc : str := [65; 100; 72; 111; 99].     (* "AdHoc" *)
Definition s_adhoc : str := [97; 100; 104; 111; 99].    (* "adhoc" *)
Definition s_Adhoc : str := [65; 100; 104; 111; 99].    (* "Adhoc", what --list-tags prints *)
Definition s_E : str := [69].

Lemma valid_single c t f : valid [(c, t, f)].
Proof.
  split.
  - intros e1 e2 [<-|[]] [<-|[]] _. reflexivity.
  - simpl. constructor; [intros []|constructor].
Qed.

Lemma exact_then_lower_refuted :
  exists regs c t f c',
    valid regs /\ In (c, t, f) regs /\ lower c' = lower c /\
    pre_get_in regs (Some c', t) = RUnknownCategory /\
    get_in regs (Some c', t) = ROk f.
Proof.
  exists [(s_AdHoc, s_E, 7)], s_AdHoc, s_E, 7, s_Adhoc.
  split; [apply valid_single|]. split; [left; reflexivity|]. vm_compute. auto.
Qed.
