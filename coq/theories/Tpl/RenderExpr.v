(* tempren/template/ast.py: a bound pattern rendered as a name (process: str of every     *)
(* element) and as an expression (process_as_expression: repr of the value of every       *)
(* TOP-LEVEL tag instance, raw text verbatim; the contexts of tags are rendered with      *)
(* process, i.e. str).  Tags are abstract: an environment maps (tag id, rendered context)  *)
(* to the value the tag returns for the file at hand, None standing for                   *)
(* MissingMetadataError (which TagInstance.process turns into the empty string).          *)
(* Model only - no proofs in this file.                                                   *)
From Tempren Require Import Base.Str Py.PathLib Py.Repr Py.Literal.
Open Scope N_scope.

Inductive pel :=
| PRaw (t : str)
| PTag (tag : nat) (has_ctx : bool) (ctx : pat)
with pat :=
| PNil
| PCons (e : pel) (p : pat).

(* what a tag returns for the current file, given its rendered context (None = no context) *)
Definition tag_env := nat -> option str -> option value.

Definition missing_value : value := VStr [].

Section Render.
  Variable printable : N -> bool.
  Variable env : tag_env.

  (* PatternElement.process / PatternElementSequence.process *)
  Fixpoint pel_value (e : pel) : value :=
    match e with
    | PRaw t => VStr t
    | PTag tag has_ctx ctx =>
      let c := if has_ctx then Some (render_str ctx) else None in
      match env tag c with
      | Some v => v
      | None => missing_value
      end
    end
  with render_str (p : pat) : str :=
    match p with
    | PNil => []
    | PCons e p' => py_str (pel_value e) ++ render_str p'
    end.

  (* PatternElementSequence._convert_to_representation *)
  Definition piece (e : pel) : str :=
    match e with
    | PRaw t => t
    | PTag _ _ _ => py_repr printable (pel_value e)
    end.

  (* PatternElementSequence.process_as_expression *)
  Fixpoint render_expr (p : pat) : str :=
    match p with
    | PNil => []
    | PCons e p' => piece e ++ render_expr p'
    end.

  (* TemplateFileSorter._generate_sort_key wraps the expression into a 1-tuple *)
  Definition sort_key_expr (p : pat) : str := 40 :: render_expr p ++ [44; 32; 41].

  Fixpoint pat_list (p : pat) : list pel :=
    match p with PNil => [] | PCons e p' => e :: pat_list p' end.

  (* the values of the top-level tags, in order *)
  Fixpoint tag_values (p : pat) : list value :=
    match p with
    | PNil => []
    | PCons (PRaw _) p' => tag_values p'
    | PCons e p' => pel_value e :: tag_values p'
    end.
End Render.

(* ---------- reading the values back out of a rendered expression ------------------------ *)
(* A reader that knows the user's raw texts and the KIND of every tag value but nothing     *)
(* about the values themselves: kinds fix how a literal is delimited (string: scanner;      *)
(* int: optional minus and the longest run of digits; bool/None: the keyword;               *)
(* path: PosixPath( string literal ) ).                                                     *)

Inductive kind := KStr | KInt | KBool | KNone | KPath.

Definition kind_of (v : value) : kind :=
  match v with
  | VStr _ => KStr | VInt _ => KInt | VBool _ => KBool | VNone => KNone | VPath _ => KPath
  end.

Inductive skel := SRaw (t : str) | SHole (k : kind).

Fixpoint span_digits (s : str) : str * str :=
  match s with
  | c :: t => if is_digit c then let '(d, r) := span_digits t in (c :: d, r) else ([], s)
  | [] => ([], [])
  end.

Definition read_int (s : str) : option (value * str) :=
  match s with
  | [] => None
  | c :: t =>
    if c =? 45 then
      let '(d, r) := span_digits t in
      option_map (fun z => (VInt (Z.opp z), r)) (nat_literal d)
    else
      let '(d, r) := span_digits s in
      option_map (fun z => (VInt z, r)) (nat_literal d)
  end.

Definition read_hole (k : kind) (s : str) : option (value * str) :=
  match k with
  | KStr => option_map (fun vr => (VStr (fst vr), snd vr)) (scan_string_literal s)
  | KInt => read_int s
  | KBool =>
    match strip_prefix s_True s with
    | Some r => Some (VBool true, r)
    | None => option_map (fun r => (VBool false, r)) (strip_prefix s_False s)
    end
  | KNone => option_map (fun r => (VNone, r)) (strip_prefix s_None s)
  | KPath =>
    match strip_prefix s_PosixPath_open s with
    | Some r =>
      match scan_string_literal r with
      | Some (v, 41 :: r') => Some (VPath (parse_path v), r')
      | _ => None
      end
    | None => None
    end
  end.

Fixpoint recover (sk : list skel) (s : str) : option (list value) :=
  match sk with
  | [] => match s with [] => Some [] | _ => None end
  | SRaw t :: sk' =>
    match strip_prefix t s with
    | Some r => recover sk' r
    | None => None
    end
  | SHole k :: sk' =>
    match read_hole k s with
    | Some (v, r) => option_map (cons v) (recover sk' r)
    | None => None
    end
  end.

(* what the reader is told about a pattern: raw texts and the kinds of the tag values *)
Fixpoint skeleton (env : tag_env) (p : pat) : list skel :=
  match p with
  | PNil => []
  | PCons (PRaw t) p' => SRaw t :: skeleton env p'
  | PCons e p' => SHole (kind_of (pel_value env e)) :: skeleton env p'
  end.
