(* C11 at text level: the pipe spelling  X|%A(..)|%B(..)  reads as the nested spelling       *)
(*  %B(..){%A(..){X}} ; the congruence that carries the law into any enclosing context;      *)
(*  a non-tag after a pipe is rejected; the law needs stable string literals (refutation).   *)
From Tempren Require Import Base.Str Tpl.Ast Tpl.Lexer Tpl.Cst Tpl.Parser Tpl.Escape
  Tpl.Visitor Tpl.Printer Tpl.LexSpec Tpl.LexSpecFacts Tpl.LexProofs Tpl.ParseProofs.
Open Scope N_scope.

Definition pipe_text (X : str) (Gs : list str) : str := X ++ concat (map (fun G => 124 :: G) Gs).
Definition nest_text (X : str) (Gs : list str) : str := fold_left (fun acc G => G ++ 123 :: acc ++ [125]) Gs X.
(* G is the text of a tag with an argument list and no context of its own, e.g. %Cat.Name(1, 'x') ;
   its string literals are stable (closing quote not preceded by a backslash) *)
Definition tag_text (G : str) (g : celem) : Prop :=
  exists tg, lex_all G = LexOk tg /\ stable_strs tg = true /\ no_ws tg = flatten_elem g /\
             plain_tag g = true /\ wfs_elem g = true.

(* ====================================================================================== *)
(* T2: without stable strings the law fails                                                *)
(* ====================================================================================== *)

Example pipe_is_nesting_text_unstable_refuted :
  let X := [37;84;40;39;97;92;39;41] in let G := [37;85;40;39;99;39;41] in
  (exists p, parse X = Ok p) /\ (exists p, parse (nest_text X [G]) = Ok p) /\ (exists e, parse (pipe_text X [G]) = Err e).
Proof.
  cbv zeta. split; [|split]; eexists; vm_compute; reflexivity.
Qed.

(* ====================================================================================== *)
(* T3: congruence                                                                          *)
(* ====================================================================================== *)

Fixpoint cp_elems (pre : list celem) (p : cpat) : cpat :=
  match pre with [] => p | e :: r => CPCons e (cp_elems r p) end.

Lemma ok_part_bind_congr {A B} (r1 r2 : res A) (f : A -> res B) :
  ok_part r1 = ok_part r2 -> ok_part (bind r1 f) = ok_part (bind r2 f).
Proof.
  destruct r1 as [a1|e1], r2 as [a2|e2]; simpl; intro H; try discriminate; try reflexivity.
  inversion H; reflexivity.
Qed.

Lemma visit_seq_elems_congr e1 e2 post :
  ok_part (visit_elem e1) = ok_part (visit_elem e2) ->
  forall pre acc,
  ok_part (visit_seq acc (cp_elems pre (CPCons e1 post))) =
  ok_part (visit_seq acc (cp_elems pre (CPCons e2 post))).
Proof.
  intros H pre. induction pre as [|e r IH]; intro acc.
  - cbn [cp_elems visit_seq]. apply ok_part_bind_congr. exact H.
  - cbn [cp_elems visit_seq]. destruct (visit_elem e) as [e'|err]; cbn [bind]; [apply IH | reflexivity].
Qed.

Lemma visit_ctx_congr a b : ok_part (visit a) = ok_part (visit b) ->
  forall c n args pre post,
  ok_part (visit (cp_elems pre (CPCons (CTag c n args true a) post))) =
  ok_part (visit (cp_elems pre (CPCons (CTag c n args true b) post))).
Proof.
  intros H c n args pre post. unfold visit. apply visit_seq_elems_congr.
  cbn [visit_elem]. destruct (visit_arglist args) as [r|err]; cbn [bind]; [|reflexivity].
  apply ok_part_bind_congr. exact H.
Qed.

Theorem pipe_is_nesting_in_context x tags c n args pre post :
  forallb plain_tag tags = true ->
  ok_part (visit (cp_elems pre (CPCons (CTag c n args true (cp_pipe x tags)) post))) =
  ok_part (visit (cp_elems pre (CPCons (CTag c n args true (cp_nest x tags)) post))).
Proof.
  intro H. apply visit_ctx_congr. apply visit_pipe_nest. exact H.
Qed.

(* ====================================================================================== *)
(* T4: a non-tag after a pipe is rejected                                                  *)
(* ====================================================================================== *)

Theorem non_tag_after_pipe_rejected_text s a b :
  lex s = LexOk (a ++ TPipe :: b) -> (match b with TTagStart :: _ => False | _ => True end) ->
  exists e, parse s = Err e.
Proof.
  intros H Hb. unfold parse. rewrite H. unfold parse_toks.
  rewrite (non_tag_after_pipe_rejected a b Hb). eauto.
Qed.

(* ====================================================================================== *)
(* T1: the pipe law at text level                                                          *)
(* ====================================================================================== *)

(* ---------- reading back the characters of a lexable token list ------------------------- *)

Lemma lex_all_chars T : lexable MDefault T None = true -> lex_all (chars T) = LexOk T.
Proof. intro H. unfold lex_all. apply lex_chars. exact H. Qed.

Lemma parse_chars T : lexable MDefault T None = true -> parse (chars T) = parse_toks (no_ws T).
Proof.
  intro H. unfold parse, lex. rewrite (lex_all_chars _ H). reflexivity.
Qed.

Lemma final_mode_no_ws T : forall m, final_mode m (no_ws T) = final_mode m T.
Proof.
  induction T as [|t r IH]; intro m; [reflexivity|].
  destruct t; cbn [no_ws filter is_ws_tok negb]; rewrite !final_mode_cons; apply IH.
Qed.

(* ---------- skipped whitespace never makes a text end in a backslash ---------------------- *)

Lemma end_pb_app a : forall pb b, end_pb pb (a ++ b) = end_pb (end_pb pb a) b.
Proof. induction a as [|c r IH]; intros pb b; [reflexivity|]. simpl. apply IH. Qed.

Lemma end_pb_mono s pb : end_pb false s = true -> end_pb pb s = true.
Proof. destruct s as [|c r]; simpl; [discriminate | auto]. Qed.

Lemma ws_not_bs m c nxt : tok_ok m (TWs c) nxt = true -> (c =? 92) = false.
Proof. destruct m; cbn [tok_ok]; intro H; chars_tac. Qed.

Lemma lexable_end_pb T : forall m nxt pb,
  lexable m T nxt = true -> end_pb pb (chars T) = true -> end_pb pb (chars (no_ws T)) = true.
Proof.
  induction T as [|t r IH]; intros m nxt pb H E; [exact E|].
  cbn [lexable] in H. apply andb_true_iff in H as [Ht Hr].
  rewrite chars_cons, end_pb_app in E.
  destruct (is_ws_tok t) eqn:Ew.
  - destruct t; try discriminate Ew.
    cbn [no_ws filter is_ws_tok negb]. fold (no_ws r).
    apply ws_not_bs in Ht. cbn [lexeme end_pb] in E. rewrite Ht in E.
    apply end_pb_mono. eapply IH; eassumption.
  - assert (N : no_ws (t :: r) = t :: no_ws r).
    { unfold no_ws. cbn [filter]. rewrite Ew. reflexivity. }
    rewrite N, chars_cons, end_pb_app. eapply IH; eassumption.
Qed.

Lemma lexable_last_bs T m nxt :
  lexable m T nxt = true -> last_is_backslash (chars (no_ws T)) = false ->
  last_is_backslash (chars T) = false.
Proof.
  intros H E. destruct (last_is_backslash (chars T)) eqn:B; [|reflexivity].
  rewrite <- end_pb_last in B. apply (lexable_end_pb _ _ _ _ H) in B.
  rewrite end_pb_last in B. congruence.
Qed.

(* ---------- what a tag text gives ---------------------------------------------------------- *)

Definition tag_toks (tg : list token) (g : celem) : Prop :=
  lexable MDefault tg None = true /\ final_mode MDefault tg = MDefault /\
  last_is_backslash (chars tg) = false /\ no_ws tg = flatten_elem g /\
  plain_tag g = true /\ wfs_elem g = true.

Lemma plain_flatten_split c n l :
  flatten_elem (CTag c n (Some l) false CPNil) =
  (TTagStart :: flatten_name c n ++ TArgsStart :: flatten_args true l) ++ [TArgsEnd].
Proof.
  cbn [flatten_elem flatten_arglist]. rewrite app_nil_r.
  cbn [app]. rewrite <- app_assoc. reflexivity.
Qed.

Lemma tag_text_toks G g : tag_text G g -> exists tg, chars tg = G /\ tag_toks tg g.
Proof.
  intros (tg & HL & HS & HN & HP & HW). exists tg.
  unfold lex_all in HL.
  pose proof (lex_partition _ _ _ _ HL) as PC.
  pose proof (lex_output_lexable _ _ _ _ HL HS) as LX.
  split; [exact PC|]. unfold tag_toks. repeat split; try assumption.
  - rewrite <- final_mode_no_ws, HN.
    pose proof (proj1 fm_flatten g HW) as F.
    destruct (plain_tag_inv _ HP) as (c & n & l & ->). apply F.
  - apply (lexable_last_bs _ _ _ LX). rewrite HN.
    destruct (plain_tag_inv _ HP) as (c & n & l & ->).
    rewrite plain_flatten_split, chars_app.
    change (chars [TArgsEnd]) with [41]. rewrite last_bs_app by discriminate. reflexivity.
Qed.

Lemma lexable_next_opt m a o :
  lexable m a None = true -> last_is_backslash (chars a) = false ->
  (match o with Some c => is_meta3 c = true | None => True end) ->
  lexable m a o = true.
Proof.
  intros H L Ho. destruct o as [c|]; [|exact H]. apply lexable_next_meta; assumption.
Qed.

(* ---------- the pipe side ------------------------------------------------------------------- *)

Lemma pipe_tail_toks Gs gs : Forall2 tag_text Gs gs ->
  exists Tt, chars Tt = concat (map (fun G => 124 :: G) Gs) /\
    lexable MDefault Tt None = true /\
    no_ws Tt = concat (map (fun g => TPipe :: flatten_elem g) gs) /\
    match first_char Tt None with Some c => is_meta3 c = true | None => True end.
Proof.
  induction 1 as [|G g Gs gs HG HF IH].
  - exists []. repeat split.
  - destruct IH as (Tt & C & L & N & F).
    apply tag_text_toks in HG as (tg & CG & LG & MG & BG & NG & _ & _).
    exists (TPipe :: tg ++ Tt). repeat split.
    + rewrite chars_cons, chars_app, C, CG. reflexivity.
    + cbn [lexable tok_ok mode_after andb]. rewrite lexable_app, MG, L, andb_true_r.
      apply lexable_next_opt; assumption.
    + change (no_ws (TPipe :: tg ++ Tt)) with (TPipe :: no_ws (tg ++ Tt)).
      rewrite no_ws_app, NG, N. cbn [map concat]. cbn [app]. reflexivity.
Qed.

Lemma Forall2_tag_flags Gs gs : Forall2 tag_text Gs gs ->
  forallb plain_tag gs = true /\ forallb wfs_elem gs = true.
Proof.
  induction 1 as [|G g Gs gs HG HF [IH1 IH2]]; [split; reflexivity|].
  destruct HG as (tg & _ & _ & _ & HP & HW). cbn [forallb]. rewrite HP, HW, IH1, IH2. split; reflexivity.
Qed.

(* ---------- the nested side ------------------------------------------------------------------ *)

Lemma nest_toks Gs gs : Forall2 tag_text Gs gs ->
  forall Ta xa,
  lexable MDefault Ta None = true -> final_mode MDefault Ta = MDefault ->
  last_is_backslash (chars Ta) = false -> no_ws Ta = flatten_pat xa ->
  exists Tn, chars Tn = nest_text (chars Ta) Gs /\ lexable MDefault Tn None = true /\
             no_ws Tn = flatten_pat (cp_nest xa gs).
Proof.
  induction 1 as [|G g Gs gs HG HF IH]; intros Ta xa LA MA BA NA.
  - exists Ta. repeat split; assumption.
  - apply tag_text_toks in HG as (tg & CG & LG & MG & BG & NG & PG & _).
    destruct (plain_tag_inv _ PG) as (c & n & l & ->).
    destruct (IH (tg ++ TCtxStart :: Ta ++ [TCtxEnd])
                 (CPCons (CTag c n (Some l) true xa) CPNil)) as (Tn & C & L & N).
    + rewrite lexable_app, MG. apply andb_true_iff. split.
      * apply lexable_next_meta; [assumption | assumption | reflexivity].
      * cbn [lexable tok_ok mode_after andb]. rewrite lexable_app, MA.
        apply andb_true_iff. split; [|reflexivity].
        apply lexable_next_meta; [assumption | assumption | reflexivity].
    + rewrite final_mode_app, MG, final_mode_cons. cbn [mode_after].
      rewrite final_mode_app, MA. reflexivity.
    + rewrite chars_app, chars_cons, chars_app. cbn [lexeme].
      change (chars [TCtxEnd]) with [125].
      rewrite app_assoc, app_assoc. rewrite last_bs_app by discriminate. reflexivity.
    + rewrite no_ws_app. change (no_ws (TCtxStart :: Ta ++ [TCtxEnd])) with (TCtxStart :: no_ws (Ta ++ [TCtxEnd])).
      rewrite no_ws_app, NG, NA. change (no_ws [TCtxEnd]) with [TCtxEnd].
      cbn [flatten_pat flatten_elem]. rewrite !app_nil_r.
      rewrite <- app_comm_cons, <- app_assoc. reflexivity.
    + exists Tn. repeat split; try assumption.
      rewrite C. rewrite chars_app, chars_cons, chars_app, CG. reflexivity.
Qed.

(* ---------- the law --------------------------------------------------------------------------- *)

Theorem pipe_is_nesting_text X tx x Gs gs :
  lex_all X = LexOk tx -> stable_strs tx = true -> last_is_backslash X = false ->
  parse_tokens (no_ws tx) = Some x ->
  Forall2 tag_text Gs gs ->
  ok_part (parse (pipe_text X Gs)) = ok_part (parse (nest_text X Gs)).
Proof.
  intros HL HS HB HP HF.
  unfold lex_all in HL.
  pose proof (lex_partition _ _ _ _ HL) as PC.
  pose proof (lex_output_lexable _ _ _ _ HL HS) as LX.
  apply parse_sound in HP as [NX WX].
  assert (MX : final_mode MDefault tx = MDefault).
  { rewrite <- final_mode_no_ws, NX. apply flatten_final_mode. exact WX. }
  subst X.
  destruct (Forall2_tag_flags _ _ HF) as [FP FW].
  (* pipe side *)
  destruct (pipe_tail_toks _ _ HF) as (Tt & CT & LT & NT & FT).
  assert (EP : parse (pipe_text (chars tx) Gs) = parse_toks (flatten_pat (cp_pipe x gs))).
  { unfold pipe_text. rewrite <- CT, <- chars_app. rewrite parse_chars.
    - rewrite no_ws_app, NX, NT, flatten_cp_pipe. reflexivity.
    - rewrite lexable_app, MX, LT, andb_true_r. apply lexable_next_opt; assumption. }
  (* nested side *)
  destruct (nest_toks _ _ HF tx x LX MX HB NX) as (Tn & CN & LN & NN).
  assert (EN : parse (nest_text (chars tx) Gs) = parse_toks (flatten_pat (cp_nest x gs))).
  { rewrite <- CN, parse_chars by assumption. rewrite NN. reflexivity. }
  rewrite EP, EN. apply pipe_is_nesting_tokens; assumption.
Qed.
