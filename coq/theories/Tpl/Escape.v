(* tempren/template/parser.py unescape (after fix F15/F16): ONE left-to-right pass in which  *)
(* a backslash followed by an escapable character yields that character; every other       *)
(* backslash is literal.  Raw text: { } | are escapable.  A string quoted with q: q and the  *)
(* backslash are escapable.  [escape] is what the printer writes.  [unescape_seq] is the     *)
(* pre-fix code: five successive str.replace passes over the whole string, the same five    *)
(* for text and for strings (used only by the refuted examples).                          *)
(* Model only - no proofs in this file.                                                      *)
From Tempren Require Import Base.Str.
Open Scope N_scope.

Definition esc_text (c : N) : bool := (c =? 123) || (c =? 125) || (c =? 124).
Definition esc_str (q c : N) : bool := (c =? q) || (c =? 92).

Fixpoint unescape (esc : N -> bool) (s : str) : str :=
  match s with
  | [] => []
  | c :: r =>
    if c =? 92 then
      match r with
      | d :: r' => if esc d then d :: unescape esc r' else c :: unescape esc r
      | [] => [c]
      end
    else c :: unescape esc r
  end.

Fixpoint escape (esc : N -> bool) (s : str) : str :=
  match s with
  | [] => []
  | c :: r => if esc c then 92 :: c :: escape esc r else c :: escape esc r
  end.

(* str.replace(a+b, b): leftmost, non-overlapping *)
Fixpoint replace2 (a b : N) (s : str) : str :=
  match s with
  | x :: r =>
    match r with
    | y :: r' => if (x =? a) && (y =? b) then b :: replace2 a b r' else x :: replace2 a b r
    | [] => s
    end
  | [] => []
  end.

(* escaped_characters = (quote, backslash, {, }, |), applied in this order by functools.reduce *)
Definition unescape_seq (s : str) : str :=
  fold_left (fun acc b => replace2 92 b acc) [39; 92; 123; 125; 124] s.
