(* Model of tempren/template/registry.py (TagRegistry / TagCategory) and of the     *)
(* error locations computed by UnknownNameError/UnknownCategoryError.with_location. *)
(* Strings are [list N] (code points).  No proofs in this file.                     *)
(*                                                                                  *)
(* The model describes the code AFTER the fix of F19: category keys are normalised  *)
(* (lower-cased) both at registration and at lookup.  The pre-fix lookup (exact      *)
(* key, then lower-cased QUERY against unnormalised keys) is kept separately as    *)
(* [pre_*] for the refutation C12_exact_then_lower_refuted.                         *)
From Tempren Require Import Base.Str.
Open Scope N_scope.

(* str.lower() restricted to the names the template grammar can spell
   (an ASCII letter or underscore, then ASCII letters, digits, underscores):
   ASCII lower-casing. *)
Definition lower (s : str) : str := ascii_lower s.

(* ---------- the registry ------------------------------------------------------ *)

Definition fid := N.                                (* identity of a TagFactory object *)

Record category := mkCat {
  cat_key  : str;                  (* key in TagRegistry.category_map            *)
  cat_name : str;                  (* TagCategory.name: the spelling registered   *)
  cat_tags : list (str * fid)      (* TagCategory.tag_map, insertion order        *)
}.

Definition registry := list category.               (* category_map, insertion order *)

(* one registration: category spelling, tag name, factory *)
Definition reg_entry := (str * str * fid)%type.
Definition e_cat (e : reg_entry) : str := fst (fst e).
Definition e_tag (e : reg_entry) : str := snd (fst e).
Definition e_fid (e : reg_entry) : fid := snd e.

Fixpoint find_key (k : str) (r : registry) : option category :=
  match r with
  | [] => None
  | x :: r' => if str_eqb (cat_key x) k then Some x else find_key k r'
  end.

(* TagRegistry.find_category *)
Definition find_category (q : str) (r : registry) : option category := find_key (lower q) r.

(* TagCategory.find_tag_factory: tag names are compared verbatim (case-sensitive) *)
Fixpoint find_tag (t : str) (tags : list (str * fid)) : option fid :=
  match tags with
  | [] => None
  | (t', f) :: rest => if str_eqb t' t then Some f else find_tag t rest
  end.

(* One registration step, as a client of the API performs it (build_tag_registry does
   exactly this): the first time a category spelling [c] is used, [register_category c]
   (ValueError when a category with the same normalised key exists); afterwards the
   TagCategory object obtained then is used; [register_tag_factory] raises ValueError
   when the tag name is already present in that category.  [None] = ValueError.        *)
Fixpoint register1 (c t : str) (f : fid) (r : registry) : option registry :=
  match r with
  | [] => Some [mkCat (lower c) c [(t, f)]]
  | x :: r' =>
    if str_eqb (cat_key x) (lower c) then
      if str_eqb (cat_name x) c then
        match find_tag t (cat_tags x) with
        | Some _ => None
        | None => Some (mkCat (cat_key x) (cat_name x) (cat_tags x ++ [(t, f)]) :: r')
        end
      else None
    else
      match register1 c t f r' with
      | None => None
      | Some r'' => Some (x :: r'')
      end
  end.

Fixpoint build_from (r : registry) (regs : list reg_entry) : option registry :=
  match regs with
  | [] => Some r
  | e :: rest =>
    match register1 (e_cat e) (e_tag e) (e_fid e) r with
    | None => None
    | Some r' => build_from r' rest
    end
  end.

Definition build (regs : list reg_entry) : option registry := build_from [] regs.

(* index of the registration that raises ValueError, if any *)
Fixpoint fail_index_from (r : registry) (regs : list reg_entry) (i : nat) : option nat :=
  match regs with
  | [] => None
  | e :: rest =>
    match register1 (e_cat e) (e_tag e) (e_fid e) r with
    | None => Some i
    | Some r' => fail_index_from r' rest (S i)
    end
  end.

Definition fail_index (regs : list reg_entry) : option nat := fail_index_from [] regs O.

(* ---------- sorted(list of str): code-point lexicographic order ---------------- *)

Fixpoint str_leb (a b : str) : bool :=
  match a, b with
  | [], _ => true
  | _ :: _, [] => false
  | x :: a', y :: b' => if x <? y then true else if y <? x then false else str_leb a' b'
  end.

Fixpoint insert_sorted (x : str) (l : list str) : list str :=
  match l with
  | [] => [x]
  | y :: l' => if str_leb x y then x :: y :: l' else y :: insert_sorted x l'
  end.

Fixpoint sort_strs (l : list str) : list str :=
  match l with
  | [] => []
  | x :: l' => insert_sorted x (sort_strs l')
  end.

(* ---------- lookup ------------------------------------------------------------- *)

Definition qname := (option str * str)%type.       (* QualifiedTagName: category?, name *)

Inductive result :=
| ROk (f : fid)
| RUnknownCategory
| RUnknownName
| RAmbiguous (cats : list str)        (* sorted TagCategory.name of every category having the name *)
| RInvalidRegistry.                   (* the registrations themselves raised ValueError             *)

(* _get_tag_factory_by_unique_name: every category is searched *)
Fixpoint found_in (t : str) (r : registry) : list (str * fid) :=
  match r with
  | [] => []
  | x :: r' =>
    match find_tag t (cat_tags x) with
    | Some f => (cat_name x, f) :: found_in t r'
    | None => found_in t r'
    end
  end.

Definition get_bare (r : registry) (t : str) : result :=
  match found_in t r with
  | [] => RUnknownName
  | [(_, f)] => ROk f
  | l => RAmbiguous (sort_strs (map fst l))
  end.

Definition get_qualified (r : registry) (c t : str) : result :=
  match find_category c r with
  | None => RUnknownCategory
  | Some x =>
    match find_tag t (cat_tags x) with
    | None => RUnknownName
    | Some f => ROk f
    end
  end.

(* TagRegistry.get_tag_factory *)
Definition get (r : registry) (q : qname) : result :=
  match fst q with
  | None => get_bare r (snd q)
  | Some c => get_qualified r c (snd q)
  end.

Definition get_in (regs : list reg_entry) (q : qname) : result :=
  match build regs with
  | None => RInvalidRegistry
  | Some r => get r q
  end.

(* ---------- declarative specification over the registrations -------------------- *)

Definition entries_of_cat (c : str) (regs : list reg_entry) : list reg_entry :=
  filter (fun e => str_eqb (lower (e_cat e)) (lower c)) regs.

Definition entries_of_tag (t : str) (regs : list reg_entry) : list reg_entry :=
  filter (fun e => str_eqb (e_tag e) t) regs.

Definition cats_of (t : str) (regs : list reg_entry) : list str :=
  map e_cat (entries_of_tag t regs).

Definition spec_get (regs : list reg_entry) (q : qname) : result :=
  match fst q with
  | Some c =>
    match entries_of_cat c regs with
    | [] => RUnknownCategory
    | es => match entries_of_tag (snd q) es with
            | [] => RUnknownName
            | e :: _ => ROk (e_fid e)
            end
    end
  | None =>
    match entries_of_tag (snd q) regs with
    | [] => RUnknownName
    | [e] => ROk (e_fid e)
    | es => RAmbiguous (sort_strs (map e_cat es))
    end
  end.

(* ---------- error locations (with_location overrides) --------------------------- *)

(* The placeholder's location is (column of the first character of [Category.]Name,
   length of that text); UnknownCategoryError narrows it to the category,
   UnknownNameError (qualified) to the tag name.  Result: (column, length). *)
Definition len (s : str) : N := N.of_nat (length s).

Definition qname_text (q : qname) : str :=
  match fst q with
  | None => snd q
  | Some c => c ++ [46] ++ snd q
  end.

Definition error_location (col : N) (q : qname) (r : result) : option (N * N) :=
  match r with
  | ROk _ => None
  | RInvalidRegistry => None
  | RUnknownCategory =>
    match fst q with
    | Some c => Some (col, len c)
    | None => None
    end
  | RUnknownName =>
    match fst q with
    | Some c => Some (col + len c + 1, len (snd q))
    | None => Some (col, len (snd q))
    end
  | RAmbiguous _ => Some (col, len (qname_text q))
  end.

(* template[column : column+length] *)
Definition slice (off n : N) (s : str) : str := firstn (N.to_nat n) (skipn (N.to_nat off) s).

(* ---------- the lookup of the unchanged tree (before the fix of F19) ------------- *)

(* category_map was keyed by the spelling registered; find_category tried the exact
   query, then the lower-cased query, against those unnormalised keys. *)
Definition pre_find_category (q : str) (r : registry) : option category :=
  match find_key q r with
  | Some x => Some x
  | None => find_key (lower q) r
  end.

Fixpoint pre_register1 (c t : str) (f : fid) (r : registry) : option registry :=
  match r with
  | [] => Some [mkCat c c [(t, f)]]
  | x :: r' =>
    if str_eqb (cat_name x) c then
      match find_tag t (cat_tags x) with
      | Some _ => None
      | None => Some (mkCat (cat_key x) (cat_name x) (cat_tags x ++ [(t, f)]) :: r')
      end
    else
      match pre_register1 c t f r' with
      | None => None
      | Some r'' => Some (x :: r'')
      end
  end.

(* register_category's guard before the fix: find_category(c) is not None *)
Definition pre_register (c t : str) (f : fid) (r : registry) : option registry :=
  match find_key c r with
  | Some _ => pre_register1 c t f r            (* spelling already registered by this client *)
  | None =>
    match find_key (lower c) r with
    | Some _ => None                           (* ValueError: already registered *)
    | None => pre_register1 c t f r
    end
  end.

Fixpoint pre_build_from (r : registry) (regs : list reg_entry) : option registry :=
  match regs with
  | [] => Some r
  | e :: rest =>
    match pre_register (e_cat e) (e_tag e) (e_fid e) r with
    | None => None
    | Some r' => pre_build_from r' rest
    end
  end.

Definition pre_get_in (regs : list reg_entry) (q : qname) : result :=
  match pre_build_from [] regs with
  | None => RInvalidRegistry
  | Some r =>
    match fst q with
    | None => get_bare r (snd q)
    | Some c =>
      match pre_find_category c r with
      | None => RUnknownCategory
      | Some x =>
        match find_tag (snd q) (cat_tags x) with
        | None => RUnknownName
        | Some f => ROk f
        end
      end
    end
  end.

(* ---------- validity of a list of registrations --------------------------------- *)

(* What register_category / register_tag_factory enforce by raising ValueError:
   two spellings of one category (equal after lower-casing) never coexist, and a tag
   name occurs at most once per category. *)
Definition spelled_injective (regs : list reg_entry) : Prop :=
  forall e1 e2, In e1 regs -> In e2 regs ->
    lower (e_cat e1) = lower (e_cat e2) -> e_cat e1 = e_cat e2.

Definition cat_tag (e : reg_entry) : str * str := (e_cat e, e_tag e).

Definition valid (regs : list reg_entry) : Prop :=
  spelled_injective regs /\ NoDup (map cat_tag regs).

(* two spellings that differ only in letter case *)
Definition case_variant (a b : str) : Prop :=
  Forall2 (fun x y => ascii_lower_char x = ascii_lower_char y) a b.
