(* The printer of the round trip: a tree, a style -> the parse tree the style spells ->       *)
(* its tokens, blanks inserted between the tokens of an argument list -> characters.          *)
(* Style: quote mark, boolean spelling, flag shorthand or name=True, order of positional and  *)
(* named arguments (positional first / named first / alternating), () or nothing before a     *)
(* context when there are no arguments, and the blanks.                                       *)
(* Model only - no proofs in this file.                                                       *)
From Tempren Require Import Base.Str Tpl.Ast Tpl.Lexer Tpl.Cst Tpl.Escape.
Open Scope N_scope.

Record style := {
  sty_dq : bool;        (* strings in double quotes *)
  sty_lower : bool;     (* true / false instead of True / False *)
  sty_flag : bool;      (* name instead of name=True *)
  sty_order : N;        (* 0 positional first, 1 named first, otherwise alternating *)
  sty_parens : bool;    (* %T(){..} instead of %T{..} when there are no arguments *)
  sty_ws : str          (* blanks written after every token of an argument list but the last *)
}.

Definition wf_style (sty : style) : bool := forallb is_aws (sty_ws sty).

Definition sty_quote (sty : style) : N := if sty_dq sty then 34 else 39.

Definition bool_word (sty : style) (b : bool) : str :=
  if b then (if sty_lower sty then s_true else s_True)
  else (if sty_lower sty then s_false else s_False).

Definition tok_of_val (sty : style) (v : argval) : token :=
  match v with
  | VInt z => TNum (decimal_Z z)
  | VBool b => TBool (bool_word sty b)
  | VStr s => let q := sty_quote sty in TStr (q :: escape (esc_str q) s ++ [q])
  end.

Definition carg_of_kw (sty : style) (k : str * argval) : carg :=
  match snd k with
  | VBool true => if sty_flag sty then CArgFlag (fst k) else CArgNamed (fst k) (tok_of_val sty (snd k))
  | v => CArgNamed (fst k) (tok_of_val sty v)
  end.

Fixpoint alternate (a b : list carg) : list carg :=
  match a with
  | [] => b
  | x :: a' => x :: match b with [] => a' | y :: b' => y :: alternate a' b' end
  end.

Definition interleave (sty : style) (ps ks : list carg) : list carg :=
  if sty_order sty =? 0 then ps ++ ks
  else if sty_order sty =? 1 then ks ++ ps
  else alternate ps ks.

Definition cargs_of (sty : style) (ar : list argval) (kw : list (str * argval)) : list carg :=
  interleave sty (map (fun v => CArgPos (tok_of_val sty v)) ar) (map (carg_of_kw sty) kw).

Fixpoint cst_of_ast (sty : style) (e : ast) : celem :=
  match e with
  | RawText s => CText (escape esc_text s)
  | Tag c n ar kw h x =>
      let args :=
        match ar, kw with
        | [], [] => if h && negb (sty_parens sty) then None else Some []
        | _, _ => Some (cargs_of sty ar kw)
        end in
      CTag c n args h (cst_of_pat sty x)
  end
with cst_of_pat (sty : style) (p : pat) : cpat :=
  match p with
  | PNil => CPNil
  | PCons e p' => CPCons (cst_of_ast sty e) (cst_of_pat sty p')
  end.

(* blanks go after '(' ',' '=' and after names and values, i.e. between any two tokens of an
   argument list *)
Definition spaced_after (t : token) : bool :=
  match t with
  | TArgsStart | TArgSep | TArgEq | TNum _ | TBool _ | TStr _ | TArgName _ => true
  | _ => false
  end.

Fixpoint spell (ws : str) (toks : list token) : list token :=
  match toks with
  | [] => []
  | t :: r => t :: (if spaced_after t then map TWs ws else []) ++ spell ws r
  end.

Definition chars (toks : list token) : str := concat (map lexeme toks).

Definition print_cst (ws : str) (c : cpat) : str := chars (spell ws (flatten_pat c)).

Definition print (sty : style) (p : pat) : str := print_cst (sty_ws sty) (cst_of_pat sty p).
