(* Recursive descent for the valid alternatives of TagTemplateParser.g4 on the token list    *)
(* (whitespace already dropped).  The grammar's error... alternatives all end in a          *)
(* TemplateSyntaxError raised by the visitor, and a mismatch raises from the error listener, *)
(* so at the level accepted / rejected they are [None].  Fuel = number of tokens + 1.        *)
(* Model only - no proofs in this file.                                                      *)
From Tempren Require Import Base.Str Tpl.Ast Tpl.Lexer Tpl.Cst.
Open Scope N_scope.

Inductive astate := AFirst | AAfter | ASep.

Definition acons (a : carg) (r : option (list carg * list token)) :=
  match r with Some (l, rest) => Some (a :: l, rest) | None => None end.

(* argumentList after ARGS_START:  ')'  |  argument (',' argument)* ')' *)
Fixpoint parse_args (st : astate) (toks : list token) : option (list carg * list token) :=
  match toks with
  | [] => None
  | t :: rest =>
    match st, t with
    | AFirst, TArgsEnd => Some ([], rest)
    | AAfter, TArgsEnd => Some ([], rest)
    | AAfter, TArgSep => parse_args ASep rest
    | AAfter, _ => None
    | _, TArgName n =>
        match rest with
        | TArgEq :: rest2 =>
            match rest2 with
            | v :: rest3 => if is_value_tok v then acons (CArgNamed n v) (parse_args AAfter rest3) else None
            | [] => None
            end
        | _ => acons (CArgFlag n) (parse_args AAfter rest)
        end
    | _, _ => if is_value_tok t then acons (CArgPos t) (parse_args AAfter rest) else None
    end
  end.

Definition PP := list token -> option (cpat * list token).

(* after TAG_START; [pp] parses a context pattern *)
Definition parse_tag_with (pp : PP) (toks : list token) : option (celem * list token) :=
  let tail (cat : option str) (name : str) (rest : list token) :=
    let ctx (args : option (list carg)) (r : list token) :=
      match pp r with
      | Some (p, TCtxEnd :: r') => Some (CTag cat name args true p, r')
      | _ => None
      end in
    match rest with
    | TArgsStart :: r =>
        match parse_args AFirst r with
        | Some (args, TCtxStart :: r') => ctx (Some args) r'
        | Some (args, r') => Some (CTag cat name (Some args) false CPNil, r')
        | None => None
        end
    | TCtxStart :: r => ctx None r
    | _ => None
    end in
  match toks with
  | TTagId a :: TCatSep :: TTagId b :: rest => tail (Some a) b rest
  | TTagId a :: rest => tail None a rest
  | _ => None
  end.

(* pattern: (rawText | tag)* pipeList? ; [pipe] = already inside the pipe list *)
Fixpoint parse_pat (fuel : nat) (pipe : bool) (toks : list token) : option (cpat * list token) :=
  match fuel with
  | O => None
  | S f =>
    match toks with
    | TText s :: rest =>
        if pipe then Some (CPNil, toks) else
        match parse_pat f false rest with
        | Some (p, r) => Some (CPCons (CText s) p, r)
        | None => None
        end
    | TTagStart :: rest =>
        if pipe then Some (CPNil, toks) else
        match parse_tag_with (parse_pat f false) rest with
        | Some (e, r) =>
            match parse_pat f false r with
            | Some (p, r') => Some (CPCons e p, r')
            | None => None
            end
        | None => None
        end
    | TPipe :: TTagStart :: rest =>
        match parse_tag_with (parse_pat f false) rest with
        | Some (e, r) =>
            match parse_pat f true r with
            | Some (p, r') => Some (CPPipe e p, r')
            | None => None
            end
        | None => None
        end
    | _ => Some (CPNil, toks)
    end
  end.

(* rootPattern: pattern EOF *)
Definition parse_tokens (toks : list token) : option cpat :=
  match parse_pat (S (length toks)) false toks with
  | Some (c, []) => Some c
  | _ => None
  end.
