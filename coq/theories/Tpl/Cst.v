(* The parse tree of TagTemplateParser.g4 restricted to its valid alternatives               *)
(* (pattern, pipeList, tag, argumentList, argument, argumentValue, rawText), and its         *)
(* token sequence.  A pattern is a chain of elements ([CPCons]) optionally ending in a       *)
(* pipe list ([CPPipe] cells).  Leaves keep the lexemes exactly as written.                  *)
(* Model only - no proofs in this file.                                                      *)
From Tempren Require Import Base.Str Tpl.Ast Tpl.Lexer.
Open Scope N_scope.

Inductive carg :=
| CArgPos (v : token)                    (* argumentValue *)
| CArgNamed (n : str) (v : token)        (* ARG_NAME '=' argumentValue *)
| CArgFlag (n : str).                    (* ARG_NAME *)

Inductive celem :=
| CText (s : str)
| CTag (cat : option str) (name : str) (args : option (list carg)) (has_ctx : bool) (ctx : cpat)
with cpat :=
| CPNil
| CPCons (e : celem) (p : cpat)
| CPPipe (e : celem) (p : cpat).         (* PIPE tag, then more PIPE tag or the end *)

Definition is_value_tok (t : token) : bool :=
  match t with TNum _ | TBool _ | TStr _ => true | _ => false end.

Definition flatten_arg (a : carg) : list token :=
  match a with
  | CArgPos v => [v]
  | CArgNamed n v => [TArgName n; TArgEq; v]
  | CArgFlag n => [TArgName n]
  end.

Fixpoint flatten_args (first : bool) (l : list carg) : list token :=
  match l with
  | [] => []
  | a :: l' => (if first then [] else [TArgSep]) ++ flatten_arg a ++ flatten_args false l'
  end.

Definition flatten_arglist (o : option (list carg)) : list token :=
  match o with
  | None => []
  | Some l => TArgsStart :: flatten_args true l ++ [TArgsEnd]
  end.

Definition flatten_name (cat : option str) (name : str) : list token :=
  match cat with
  | Some c => [TTagId c; TCatSep; TTagId name]
  | None => [TTagId name]
  end.

Fixpoint flatten_elem (e : celem) : list token :=
  match e with
  | CText s => [TText s]
  | CTag cat name args h ctx =>
      TTagStart :: flatten_name cat name ++ flatten_arglist args ++
      (if h then TCtxStart :: flatten_pat ctx ++ [TCtxEnd] else [])
  end
with flatten_pat (p : cpat) : list token :=
  match p with
  | CPNil => []
  | CPCons e p' => flatten_elem e ++ flatten_pat p'
  | CPPipe e p' => TPipe :: flatten_elem e ++ flatten_pat p'
  end.

(* structural well-formedness: what the parser produces *)
Definition is_ctag (e : celem) : bool := match e with CTag _ _ _ _ _ => true | _ => false end.
Definition cpat_is_nil (p : cpat) : bool := match p with CPNil => true | _ => false end.

Definition wfs_arg (a : carg) : bool :=
  match a with CArgPos v => is_value_tok v | CArgNamed _ v => is_value_tok v | CArgFlag _ => true end.

Fixpoint wfs_elem (e : celem) : bool :=
  match e with
  | CText _ => true
  | CTag _ _ args h ctx =>
      match args with Some l => forallb wfs_arg l | None => h end &&
      (if h then wfs_pat false ctx else cpat_is_nil ctx)
  end
with wfs_pat (pipe : bool) (p : cpat) : bool :=
  match p with
  | CPNil => true
  | CPCons e p' => negb pipe && wfs_elem e && wfs_pat false p'
  | CPPipe e p' => is_ctag e && wfs_elem e && wfs_pat true p'
  end.

(* appending a pipe list / building the nested spelling (C11) *)
Fixpoint cp_pipe (x : cpat) (tags : list celem) : cpat :=
  match x with
  | CPNil => fold_right CPPipe CPNil tags
  | CPCons e p => CPCons e (cp_pipe p tags)
  | CPPipe e p => CPPipe e (cp_pipe p tags)
  end.

Definition with_ctx (g : celem) (x : cpat) : celem :=
  match g with
  | CTag c n a _ _ => CTag c n a true x
  | e => e
  end.

Definition cp_nest (x : cpat) (tags : list celem) : cpat :=
  fold_left (fun acc g => CPCons (with_ctx g acc) CPNil) tags x.
