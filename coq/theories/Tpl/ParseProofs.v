(* Proofs about the template parser and the tree visitor:                                     *)
(*  V1  unescape (escape s) = s                                                              *)
(*  P1  parse_tokens (flatten_pat c) = Some c for structurally well-formed c                  *)
(*  P2  parse_tokens toks = Some c -> toks = flatten_pat c /\ wfs                             *)
(*  V2  visit (cst_of_pat sty p) = Ok p on the round-trip domain                              *)
(*  C11 the pipe law at tree and token level                                                 *)
(*  V3  nothing dropped: the leaves of the parse tree are those of the returned tree          *)
From Coq Require Import List NArith ZArith Bool Lia Permutation.
From Tempren Require Import Base.Str Tpl.Ast Tpl.Lexer Tpl.Cst Tpl.Parser Tpl.Escape
  Tpl.Visitor Tpl.Printer Tpl.LexSpec.
Import ListNotations.
Open Scope N_scope.

Scheme celem_mut := Induction for celem Sort Prop
  with cpat_mut := Induction for cpat Sort Prop.
Combined Scheme celem_cpat_ind from celem_mut, cpat_mut.

Scheme ast_mut := Induction for ast Sort Prop
  with pat_mut := Induction for pat Sort Prop.
Combined Scheme ast_pat_ind from ast_mut, pat_mut.

(* ====================================================================================== *)
(* V1: unescape after escape                                                              *)
(* ====================================================================================== *)

Lemma escape_nil_inv esc s : escape esc s = [] -> s = [].
Proof. destruct s as [|c r]; simpl; [reflexivity|]. destruct (esc c); discriminate. Qed.

Lemma unescape_escape esc s : unescape esc (escape esc s) = s.
Proof.
  induction s as [|c r IH]; [reflexivity|].
  simpl escape. destruct (esc c) eqn:Ec.
  - simpl. rewrite Ec. rewrite IH. reflexivity.
  - cbn [unescape]. destruct (c =? 92) eqn:E92.
    + apply N.eqb_eq in E92. subst c.
      destruct (escape esc r) as [|d r'] eqn:Er.
      * apply escape_nil_inv in Er. subst r. reflexivity.
      * assert (Hd : esc d = false).
        { destruct r as [|x r0]; [discriminate|]. simpl in Er.
          destruct (esc x) eqn:Ex; inversion Er; subst; assumption. }
        rewrite Hd. rewrite IH. reflexivity.
    + rewrite IH. reflexivity.
Qed.

Lemma unescape_escape_text s : unescape esc_text (escape esc_text s) = s.
Proof. apply unescape_escape. Qed.

Lemma unescape_escape_string q s : unescape (esc_str q) (escape (esc_str q) s) = s.
Proof. apply unescape_escape. Qed.

(* ====================================================================================== *)
(* P1: the parser reads back the tokens of a structurally well-formed tree *)
(* ====================================================================================== *)

Definition stops (rest : list token) : bool :=
  match rest with
  | TText _ :: _ | TTagStart :: _ | TPipe :: _ | TCtxStart :: _ => false
  | _ => true
  end.
Definition nctx (rest : list token) : bool :=
  match rest with TCtxStart :: _ => false | _ => true end.
Definition neq_tok (rest : list token) : bool :=
  match rest with TArgEq :: _ => false | _ => true end.

Lemma parse_args_arg st a T l rest :
  st <> AAfter -> wfs_arg a = true -> neq_tok T = true ->
  parse_args AAfter T = Some (l, rest) ->
  parse_args st (flatten_arg a ++ T) = Some (a :: l, rest).
Proof.
  intros Hst Ha Hn HT. destruct a as [v|n v|n]; simpl in *.
  - destruct v; try discriminate; destruct st; try congruence; simpl; rewrite HT; reflexivity.
  - destruct v; try discriminate; destruct st; try congruence; simpl; rewrite HT; reflexivity.
  - destruct T as [|t T']; [discriminate|].
    destruct t; try discriminate; destruct st; try congruence; rewrite HT; reflexivity.
Qed.

Lemma neq_tok_flatten_args l rest : neq_tok (flatten_args false l ++ TArgsEnd :: rest) = true.
Proof. destruct l; reflexivity. Qed.

Lemma parse_args_after l rest :
  forallb wfs_arg l = true ->
  parse_args AAfter (flatten_args false l ++ TArgsEnd :: rest) = Some (l, rest).
Proof.
  induction l as [|a l IH]; intro H; [reflexivity|].
  simpl in H. apply andb_true_iff in H as [Ha Hl].
  cbn [flatten_args app]. cbn [parse_args]. rewrite <- app_assoc.
  apply parse_args_arg; auto; try discriminate. apply neq_tok_flatten_args.
Qed.

Lemma parse_args_first l rest :
  forallb wfs_arg l = true ->
  parse_args AFirst (flatten_args true l ++ TArgsEnd :: rest) = Some (l, rest).
Proof.
  destruct l as [|a l]; intro H; [reflexivity|].
  simpl in H. apply andb_true_iff in H as [Ha Hl].
  cbn [flatten_args app]. rewrite <- app_assoc.
  apply parse_args_arg; auto; try discriminate. apply neq_tok_flatten_args.
  apply parse_args_after; assumption.
Qed.

Lemma nctx_flatten c rest : stops rest = true -> nctx (flatten_pat c ++ rest) = true.
Proof.
  intro H. destruct c as [|e p|e p]; simpl.
  - destruct rest as [|t r]; [reflexivity|]. destruct t; try reflexivity; discriminate.
  - destruct e; reflexivity.
  - reflexivity.
Qed.

Lemma parse_pat_stops f pipe rest : stops rest = true -> parse_pat (S f) pipe rest = Some (CPNil, rest).
Proof.
  intro H. destruct rest as [|t r]; [reflexivity|]. destruct t; try reflexivity; discriminate.
Qed.

Lemma parse_tag_with_args pp cat name r :
  parse_tag_with pp (flatten_name cat name ++ TArgsStart :: r) =
  match parse_args AFirst r with
  | Some (args, TCtxStart :: r') =>
      match pp r' with
      | Some (p, TCtxEnd :: r'') => Some (CTag cat name (Some args) true p, r'')
      | _ => None
      end
  | Some (args, r') => Some (CTag cat name (Some args) false CPNil, r')
  | None => None
  end.
Proof. destruct cat; reflexivity. Qed.

Lemma parse_tag_with_ctx pp cat name r :
  parse_tag_with pp (flatten_name cat name ++ TCtxStart :: r) =
  match pp r with
  | Some (p, TCtxEnd :: r'') => Some (CTag cat name None true p, r'')
  | _ => None
  end.
Proof. destruct cat; reflexivity. Qed.

Lemma parse_flatten_gen :
  (forall e, wfs_elem e = true -> forall f rest, (length (flatten_elem e) <= f)%nat ->
      nctx rest = true ->
      match e with
      | CTag _ _ _ _ _ =>
          parse_tag_with (parse_pat f false) (tl (flatten_elem e) ++ rest) = Some (e, rest)
      | CText _ => True
      end)
  /\ (forall c pipe fuel rest, wfs_pat pipe c = true -> (length (flatten_pat c) < fuel)%nat ->
      stops rest = true -> parse_pat fuel pipe (flatten_pat c ++ rest) = Some (c, rest)).
Proof.
  apply celem_cpat_ind.
  - intros; exact I.
  - intros cat name args h ctx IH Hwf f rest Hlen Hn.
    cbn [wfs_elem] in Hwf. apply andb_true_iff in Hwf as [Hargs Hctx].
    cbn [flatten_elem tl]. cbn [flatten_elem] in Hlen. cbn [length] in Hlen.
    rewrite !app_length in Hlen.
    assert (Hctxparse : h = true ->
       parse_pat f false (flatten_pat ctx ++ TCtxEnd :: rest) = Some (ctx, TCtxEnd :: rest)).
    { intro Hh. subst h. apply IH; auto.
      cbn [length] in Hlen. rewrite app_length in Hlen. lia. }
    clear IH Hlen.
    rewrite <- !app_assoc.
    destruct args as [l|].
    + cbn [flatten_arglist app]. rewrite <- app_assoc. cbn [app].
      rewrite parse_tag_with_args.
      rewrite parse_args_first by assumption.
      destruct h.
      * cbn [app]. rewrite <- app_assoc. cbn [app]. rewrite Hctxparse by reflexivity. reflexivity.
      * destruct ctx; try discriminate. cbn [app].
        destruct rest as [|t r]; [reflexivity|]. destruct t; try reflexivity; discriminate.
    + subst h. cbn [flatten_arglist app]. rewrite <- app_assoc. cbn [app].
      rewrite parse_tag_with_ctx.
      rewrite Hctxparse by reflexivity. reflexivity.
  - intros pipe fuel rest _ Hf Hs. destruct fuel; [simpl in Hf; lia|].
    apply parse_pat_stops; assumption.
  - intros e IHe p IHp pipe fuel rest Hwf Hf Hs.
    cbn [wfs_pat] in Hwf. apply andb_true_iff in Hwf as [Hwf Hp].
    apply andb_true_iff in Hwf as [Hpipe He]. destruct pipe; [discriminate|]. clear Hpipe.
    cbn [flatten_pat] in *. rewrite app_length in Hf.
    destruct fuel as [|f]; [lia|].
    rewrite <- app_assoc.
    destruct e as [s|cat name args h ctx].
    + cbn [flatten_elem app parse_pat]. cbn [flatten_elem length] in Hf.
      rewrite IHp; auto. lia.
    + specialize (IHe He f (flatten_pat p ++ rest)).
      cbn [flatten_elem] in *. cbn [app parse_pat]. cbn [tl] in IHe.
      rewrite IHe; [| lia | apply nctx_flatten; assumption].
      rewrite IHp; auto. cbn [length] in Hf. lia.
  - intros e IHe p IHp pipe fuel rest Hwf Hf Hs.
    cbn [wfs_pat] in Hwf. apply andb_true_iff in Hwf as [Hwf Hp].
    apply andb_true_iff in Hwf as [Htag He].
    destruct e as [s|cat name args h ctx]; [discriminate|]. clear Htag.
    cbn [flatten_pat] in *. cbn [length] in Hf. rewrite app_length in Hf.
    destruct fuel as [|f]; [lia|].
    cbn [app]. rewrite <- app_assoc.
    specialize (IHe He f (flatten_pat p ++ rest)).
    cbn [flatten_elem] in *. cbn [app parse_pat]. cbn [tl] in IHe.
    rewrite IHe; [| lia | apply nctx_flatten; assumption].
    rewrite IHp; auto. cbn [length] in Hf. lia.
Qed.

Lemma parse_flatten c : wfs_pat false c = true -> parse_tokens (flatten_pat c) = Some c.
Proof.
  intro H. unfold parse_tokens.
  pose proof (proj2 parse_flatten_gen c false (S (length (flatten_pat c))) [] H) as P.
  rewrite app_nil_r in P. rewrite P; auto.
Qed.

(* ====================================================================================== *)
(* P2: what the parser accepts is the token sequence of a structurally well-formed tree *)
(* ====================================================================================== *)

Ltac norm_app := repeat (progress cbn [app] || rewrite <- app_assoc || rewrite app_nil_r).

Lemma acons_some a r l rest :
  acons a r = Some (l, rest) -> exists l', l = a :: l' /\ r = Some (l', rest).
Proof.
  destruct r as [[l' r']|]; simpl; [|discriminate].
  intro H; inversion H; subst. eauto.
Qed.

Definition args_post (st : astate) (toks : list token) (l : list carg) (rest : list token) : Prop :=
  match st with
  | AAfter => toks = flatten_args false l ++ TArgsEnd :: rest
  | AFirst => toks = flatten_args true l ++ TArgsEnd :: rest
  | ASep => l <> [] /\ toks = flatten_args true l ++ TArgsEnd :: rest
  end.

Lemma args_post_cons st a l r rest :
  st <> AAfter ->
  r = flatten_args false l ++ TArgsEnd :: rest ->
  args_post st (flatten_arg a ++ r) (a :: l) rest.
Proof.
  intros Hst ->. destruct st; try congruence; cbn [args_post flatten_args app];
    rewrite <- app_assoc; try split; try reflexivity; discriminate.
Qed.

Lemma parse_args_sound n : forall toks st l rest, (length toks <= n)%nat ->
  parse_args st toks = Some (l, rest) ->
  forallb wfs_arg l = true /\ args_post st toks l rest.
Proof.
  induction n as [|n IH]; intros toks st l rest Hn H.
  - destruct toks; [discriminate | simpl in Hn; lia].
  - destruct toks as [|t r]; [discriminate|]. cbn [length] in Hn.
    assert (Hpos : st <> AAfter -> is_value_tok t = true ->
              acons (CArgPos t) (parse_args AAfter r) = Some (l, rest) ->
              forallb wfs_arg l = true /\ args_post st (t :: r) l rest).
    { intros Hst Hv HA. apply acons_some in HA as (l' & -> & HA).
      apply IH in HA as [W P]; [|lia]. split; [simpl; rewrite Hv, W; reflexivity|].
      apply (args_post_cons st (CArgPos t)); assumption. }
    assert (Hname : forall nm, st <> AAfter -> t = TArgName nm ->
              match r with
              | TArgEq :: rest2 =>
                match rest2 with
                | v :: rest3 => if is_value_tok v then acons (CArgNamed nm v) (parse_args AAfter rest3) else None
                | [] => None
                end
              | _ => acons (CArgFlag nm) (parse_args AAfter r)
              end = Some (l, rest) ->
              forallb wfs_arg l = true /\ args_post st (t :: r) l rest).
    { intros nm Hst -> HA.
      assert (Hflag : acons (CArgFlag nm) (parse_args AAfter r) = Some (l, rest) ->
                forallb wfs_arg l = true /\ args_post st (TArgName nm :: r) l rest).
      { clear HA; intro HA. apply acons_some in HA as (l' & -> & HA).
        apply IH in HA as [W P]; [|lia]. split; [simpl; exact W|].
        apply (args_post_cons st (CArgFlag nm)); assumption. }
      destruct r as [|t1 r1]; [auto|]. destruct t1; auto.
      destruct r1 as [|v r3]; [discriminate|].
      destruct (is_value_tok v) eqn:Hv; [|discriminate].
      apply acons_some in HA as (l' & -> & HA).
      apply IH in HA as [W P]; [|simpl in Hn; lia]. split; [simpl; rewrite Hv, W; reflexivity|].
      apply (args_post_cons st (CArgNamed nm v)); assumption. }
    destruct st; destruct t; cbn [parse_args] in H; try discriminate;
      try (apply Hpos; [discriminate | reflexivity | assumption]);
      try (eapply Hname; [discriminate | reflexivity | assumption]).
    all: try (inversion H; subst; split; reflexivity).
    apply IH in H as [W [Hne P]]; [|lia]. split; [exact W|].
    destruct l as [|a l']; [congruence|]. cbn [args_post]. rewrite P. reflexivity.
Qed.

Definition pp_sound (pp : PP) : Prop :=
  forall t c r, pp t = Some (c, r) -> t = flatten_pat c ++ r /\ wfs_pat false c = true.

Definition tag_tail (pp : PP) (cat : option str) (name : str) (rest : list token)
  : option (celem * list token) :=
  match rest with
  | TArgsStart :: r =>
      match parse_args AFirst r with
      | Some (args, TCtxStart :: r') =>
          match pp r' with
          | Some (p, TCtxEnd :: r'') => Some (CTag cat name (Some args) true p, r'')
          | _ => None
          end
      | Some (args, r') => Some (CTag cat name (Some args) false CPNil, r')
      | None => None
      end
  | TCtxStart :: r =>
      match pp r with
      | Some (p, TCtxEnd :: r'') => Some (CTag cat name None true p, r'')
      | _ => None
      end
  | _ => None
  end.

Lemma parse_tag_with_tail pp toks :
  parse_tag_with pp toks =
  match toks with
  | TTagId a :: TCatSep :: TTagId b :: rest => tag_tail pp (Some a) b rest
  | TTagId a :: rest => tag_tail pp None a rest
  | _ => None
  end.
Proof. reflexivity. Qed.

Lemma tag_tail_sound pp cat name r e rest :
  pp_sound pp -> tag_tail pp cat name r = Some (e, rest) ->
  TTagStart :: flatten_name cat name ++ r = flatten_elem e ++ rest /\
  wfs_elem e = true /\ is_ctag e = true.
Proof.
  intros Hpp H. unfold tag_tail in H.
  assert (Hctx : forall args r0,
     match pp r0 with
     | Some (p, TCtxEnd :: r'') => Some (CTag cat name args true p, r'')
     | _ => None
     end = Some (e, rest) ->
     exists p, e = CTag cat name args true p /\ r0 = flatten_pat p ++ TCtxEnd :: rest /\
               wfs_pat false p = true).
  { intros args r0 H0. destruct (pp r0) as [[p r2]|] eqn:Ep; [|discriminate].
    destruct r2 as [|t2 r2]; [discriminate|]. destruct t2; try discriminate.
    inversion H0; subst. apply Hpp in Ep as [-> W]. eauto. }
  destruct r as [|t r]; [discriminate|]. destruct t; try discriminate.
  - apply Hctx in H as (p & -> & -> & W). cbn [flatten_elem flatten_arglist wfs_elem is_ctag].
    rewrite W. repeat split. norm_app. reflexivity.
  - destruct (parse_args AFirst r) as [[args r2]|] eqn:Ea; [|discriminate].
    apply (parse_args_sound (length r)) in Ea as [W P]; [|lia]. cbn [args_post] in P. subst r.
    assert (Hno : Some (CTag cat name (Some args) false CPNil, r2) = Some (e, rest) ->
      TTagStart :: flatten_name cat name ++ TArgsStart :: flatten_args true args ++ TArgsEnd :: r2 =
        flatten_elem e ++ rest /\ wfs_elem e = true /\ is_ctag e = true).
    { intro H0. inversion H0; subst. cbn [flatten_elem flatten_arglist wfs_elem is_ctag cpat_is_nil].
      rewrite W. repeat split. norm_app. reflexivity. }
    destruct r2 as [|t2 r2]; [auto|]. destruct t2; auto.
    apply Hctx in H as (p & -> & -> & Wp). cbn [flatten_elem flatten_arglist wfs_elem is_ctag].
    rewrite W, Wp. repeat split. norm_app. reflexivity.
Qed.

Lemma parse_tag_with_sound pp toks e rest :
  pp_sound pp -> parse_tag_with pp toks = Some (e, rest) ->
  TTagStart :: toks = flatten_elem e ++ rest /\ wfs_elem e = true /\ is_ctag e = true.
Proof.
  intros Hpp H. rewrite parse_tag_with_tail in H.
  destruct toks as [|t toks]; [discriminate|]. destruct t; try discriminate.
  assert (D : tag_tail pp None s toks = Some (e, rest) ->
     TTagStart :: TTagId s :: toks = flatten_elem e ++ rest /\ wfs_elem e = true /\ is_ctag e = true).
  { intro H0. apply tag_tail_sound in H0; auto. }
  destruct toks as [|t1 toks1]; [auto|]. destruct t1; auto.
  destruct toks1 as [|t2 toks2]; [auto|]. destruct t2; auto.
  apply tag_tail_sound in H; auto.
Qed.

Lemma parse_pat_sound fuel : forall pipe toks c rest,
  parse_pat fuel pipe toks = Some (c, rest) ->
  toks = flatten_pat c ++ rest /\ wfs_pat pipe c = true.
Proof.
  induction fuel as [|f IH]; intros pipe toks c rest H; [discriminate|].
  assert (Hpp : pp_sound (parse_pat f false)).
  { intros t c0 r0 H0. apply IH in H0. exact H0. }
  assert (Hnil : Some (CPNil, toks) = Some (c, rest) ->
            toks = flatten_pat c ++ rest /\ wfs_pat pipe c = true).
  { intro H0. inversion H0; subst. split; reflexivity. }
  cbn [parse_pat] in H.
  destruct toks as [|t r]; [auto|]. destruct t; auto.
  - (* TText *)
    destruct pipe; [auto|].
    destruct (parse_pat f false r) as [[p r']|] eqn:E; [|discriminate].
    inversion H; subst. apply IH in E as [-> W]. cbn [flatten_pat flatten_elem wfs_pat wfs_elem].
    rewrite W. split; reflexivity.
  - (* TTagStart *)
    destruct pipe; [auto|].
    destruct (parse_tag_with (parse_pat f false) r) as [[e r1]|] eqn:Et; [|discriminate].
    destruct (parse_pat f false r1) as [[p r']|] eqn:E; [|discriminate].
    inversion H; subst. apply IH in E as [-> W].
    apply parse_tag_with_sound in Et as (Et & We & _); [|assumption].
    cbn [flatten_pat wfs_pat]. rewrite Et, We, W. rewrite app_assoc. split; reflexivity.
  - (* TPipe *)
    destruct r as [|t1 r1]; [auto|]. destruct t1; auto.
    destruct (parse_tag_with (parse_pat f false) r1) as [[e r2]|] eqn:Et; [|discriminate].
    destruct (parse_pat f true r2) as [[p r']|] eqn:E; [|discriminate].
    inversion H; subst. apply IH in E as [-> W].
    apply parse_tag_with_sound in Et as (Et & We & Ht); [|assumption].
    cbn [flatten_pat wfs_pat]. rewrite Et, We, W, Ht. rewrite app_assoc. split; reflexivity.
Qed.

Lemma parse_sound toks c : parse_tokens toks = Some c -> toks = flatten_pat c /\ wfs_pat false c = true.
Proof.
  unfold parse_tokens. intro H.
  destruct (parse_pat (S (length toks)) false toks) as [[c0 r]|] eqn:E; [|discriminate].
  destruct r; [|discriminate]. inversion H; subst.
  apply parse_pat_sound in E as [E W]. rewrite app_nil_r in E. auto.
Qed.

(* ====================================================================================== *)
(* V2: the visitor returns the tree a style spells *)
(* ====================================================================================== *)

Lemma strip_quotes_wrap q body : strip_quotes (q :: body ++ [q]) = body.
Proof. unfold strip_quotes. apply removelast_last. Qed.

Lemma visit_value_tok_of_val sty v : visit_value (tok_of_val sty v) = Ok v.
Proof.
  destruct v as [z|b|s]; cbn [tok_of_val visit_value].
  - rewrite Z_of_decimal_print. reflexivity.
  - unfold bool_word. destruct b, (sty_lower sty); reflexivity.
  - rewrite strip_quotes_wrap, unescape_escape_string. reflexivity.
Qed.

Lemma visit_value_tok_of_val_wf sty v : wf_val v = true -> visit_value (tok_of_val sty v) = Ok v.
Proof. intros _. apply visit_value_tok_of_val. Qed.

Inductive spells (sty : style) : list argval -> list (str * argval) -> list carg -> Prop :=
| sp_nil : spells sty [] [] []
| sp_pos v ar kw l : spells sty ar kw l -> spells sty (v :: ar) kw (CArgPos (tok_of_val sty v) :: l)
| sp_kw k ar kw l : spells sty ar kw l -> spells sty ar (k :: kw) (carg_of_kw sty k :: l).

Lemma visit_args_spells sty ar kw l : spells sty ar kw l -> visit_args l = Ok (ar, kw).
Proof.
  induction 1 as [|v ar kw l H IH|k ar kw l H IH].
  - reflexivity.
  - cbn [visit_args]. rewrite visit_value_tok_of_val. cbn [bind]. rewrite IH. reflexivity.
  - destruct k as [n v]. unfold carg_of_kw. cbn [fst snd].
    assert (N : visit_args (CArgNamed n (tok_of_val sty v) :: l) = Ok (ar, (n, v) :: kw)).
    { cbn [visit_args]. rewrite visit_value_tok_of_val. cbn [bind]. rewrite IH. reflexivity. }
    destruct v as [z|b|s]; try exact N. destruct b; try exact N.
    destruct (sty_flag sty); try exact N.
    cbn [visit_args]. rewrite IH. reflexivity.
Qed.

Lemma spells_pos_only sty ar : spells sty ar [] (map (fun v => CArgPos (tok_of_val sty v)) ar).
Proof. induction ar; simpl; constructor; assumption. Qed.

Lemma spells_kw_only sty kw : spells sty [] kw (map (carg_of_kw sty) kw).
Proof. induction kw; simpl; constructor; assumption. Qed.

Lemma spells_cargs_of sty ar kw : spells sty ar kw (cargs_of sty ar kw).
Proof.
  unfold cargs_of, interleave.
  destruct (sty_order sty =? 0); [|destruct (sty_order sty =? 1)].
  - induction ar as [|v ar IH]; cbn [map app]; [apply spells_kw_only | constructor; exact IH].
  - induction kw as [|k kw IH]; cbn [map app]; [apply spells_pos_only | constructor; exact IH].
  - revert kw. induction ar as [|v ar IH]; intro kw; [apply spells_kw_only|].
    cbn [map alternate]. constructor. destruct kw as [|k kw]; cbn [map].
    + apply spells_pos_only.
    + constructor. apply IH.
Qed.

Lemma visit_args_cargs_of sty ar kw : visit_args (cargs_of sty ar kw) = Ok (ar, kw).
Proof. apply (visit_args_spells sty), spells_cargs_of. Qed.

Definition cst_args (sty : style) (ar : list argval) (kw : list (str * argval)) (h : bool)
  : option (list carg) :=
  match ar, kw with
  | [], [] => if h && negb (sty_parens sty) then None else Some []
  | _, _ => Some (cargs_of sty ar kw)
  end.

Lemma visit_arglist_cst_args sty ar kw h :
  nodup_str (map fst kw) = true -> visit_arglist (cst_args sty ar kw h) = Ok (ar, kw).
Proof.
  intro Hn.
  assert (G : visit_arglist (Some (cargs_of sty ar kw)) = Ok (ar, kw)).
  { cbn [visit_arglist]. rewrite visit_args_cargs_of. cbn [bind snd]. rewrite Hn. reflexivity. }
  unfold cst_args. destruct ar; [destruct kw|]; try exact G.
  destruct (h && negb (sty_parens sty)); reflexivity.
Qed.

Lemma pat_app_nil_r p : pat_app p PNil = p.
Proof. induction p; simpl; congruence. Qed.

Lemma pat_app_snoc acc e p : pat_app (pat_snoc acc e) p = pat_app acc (PCons e p).
Proof. induction acc; simpl; congruence. Qed.

Lemma visit_cst_of_gen sty :
  (forall e, wf_ast e = true -> visit_elem (cst_of_ast sty e) = Ok e) /\
  (forall p, wf_pat p = true -> forall acc, visit_seq acc (cst_of_pat sty p) = Ok (pat_app acc p)).
Proof.
  apply ast_pat_ind.
  - intros s _. cbn [cst_of_ast visit_elem]. rewrite unescape_escape_text. reflexivity.
  - intros c n ar kw h x IH Hwf. cbn [wf_ast] in Hwf.
    repeat (apply andb_true_iff in Hwf as [Hwf ?]).
    change (cst_of_ast sty (Tag c n ar kw h x)) with
      (CTag c n (cst_args sty ar kw h) h (cst_of_pat sty x)).
    cbn [visit_elem]. rewrite visit_arglist_cst_args by assumption. cbn [bind fst snd].
    destruct h.
    + rewrite IH by assumption. reflexivity.
    + destruct x; [reflexivity | discriminate].
  - intros _ acc. cbn. rewrite pat_app_nil_r. reflexivity.
  - intros e IHe p IHp Hwf acc. cbn [wf_pat] in Hwf.
    repeat (apply andb_true_iff in Hwf as [Hwf ?]).
    cbn [cst_of_pat visit_seq]. rewrite IHe by assumption. cbn [bind].
    rewrite IHp by assumption. apply f_equal, pat_app_snoc.
Qed.

Lemma visit_elem_cst_of sty e : wf_ast e = true -> visit_elem (cst_of_ast sty e) = Ok e.
Proof. apply (proj1 (visit_cst_of_gen sty)). Qed.

Lemma visit_cst_of sty p : wf_pat p = true -> visit (cst_of_pat sty p) = Ok p.
Proof. intro H. unfold visit. rewrite (proj2 (visit_cst_of_gen sty) p H). reflexivity. Qed.

(* ====================================================================================== *)
(* C11: the pipe law (x | t1 | ... | tn spells tn{...t1{x}...}), pipes need tags, final lexer mode *)
(* ====================================================================================== *)

Definition plain_tag (g : celem) : bool :=
  match g with CTag _ _ (Some _) false CPNil => true | _ => false end.

Lemma plain_tag_inv g : plain_tag g = true -> exists c n l, g = CTag c n (Some l) false CPNil.
Proof.
  destruct g as [s|c n [l|] [|] [| |]]; try discriminate. intros _. eauto.
Qed.

Lemma visit_seq_cp_pipe x tags : forall acc,
  visit_seq acc (cp_pipe x tags) =
  bind (visit_seq acc x) (fun r => visit_seq r (fold_right CPPipe CPNil tags)).
Proof.
  induction x as [|e p IH|e p IH]; intro acc.
  - reflexivity.
  - cbn [cp_pipe visit_seq]. destruct (visit_elem e) as [e'|err]; cbn [bind]; [apply IH | reflexivity].
  - cbn [cp_pipe visit_seq]. destruct (visit_elem e) as [e'|err]; cbn [bind]; [|reflexivity].
    destruct e' as [s|c n a k [|] y]; try reflexivity. apply IH.
Qed.

Lemma visit_pipe_nest_gen tags : forall x,
  forallb plain_tag tags = true ->
  ok_part (bind (visit x) (fun r => visit_seq r (fold_right CPPipe CPNil tags))) =
  ok_part (visit (cp_nest x tags)).
Proof.
  induction tags as [|g tl IH]; intros x H.
  - cbn [fold_right visit_seq cp_nest fold_left]. destruct (visit x); reflexivity.
  - cbn [forallb] in H. apply andb_true_iff in H as [Hg Htl].
    apply plain_tag_inv in Hg as (c & n & l & ->).
    change (cp_nest x (CTag c n (Some l) false CPNil :: tl))
      with (cp_nest (CPCons (CTag c n (Some l) true x) CPNil) tl).
    rewrite <- IH by assumption.
    unfold visit at 2. cbn [fold_right visit_seq visit_elem].
    fold (visit x).
    destruct (visit x) as [r|err]; destruct (visit_arglist (Some l)) as [a|err']; reflexivity.
Qed.

Lemma visit_pipe_nest x tags :
  forallb plain_tag tags = true ->
  ok_part (visit (cp_pipe x tags)) = ok_part (visit (cp_nest x tags)).
Proof.
  intro H. unfold visit at 1. rewrite visit_seq_cp_pipe. apply visit_pipe_nest_gen; assumption.
Qed.

Lemma flatten_fold_pipe tags :
  flatten_pat (fold_right CPPipe CPNil tags) =
  concat (map (fun g => TPipe :: flatten_elem g) tags).
Proof.
  induction tags as [|g tl IH]; [reflexivity|].
  cbn [fold_right flatten_pat map concat]. rewrite IH. reflexivity.
Qed.

Lemma flatten_cp_pipe x tags :
  flatten_pat (cp_pipe x tags) =
  flatten_pat x ++ concat (map (fun g => TPipe :: flatten_elem g) tags).
Proof.
  induction x as [|e p IH|e p IH]; cbn [cp_pipe flatten_pat].
  - apply flatten_fold_pipe.
  - rewrite IH, app_assoc. reflexivity.
  - rewrite IH. cbn [app]. rewrite app_assoc. reflexivity.
Qed.

Lemma flatten_cp_nest x tags :
  forallb plain_tag tags = true ->
  flatten_pat (cp_nest x tags) =
  fold_left (fun acc g => flatten_elem g ++ TCtxStart :: acc ++ [TCtxEnd]) tags (flatten_pat x).
Proof.
  revert x. induction tags as [|g tl IH]; intros x H; [reflexivity|].
  cbn [forallb] in H. apply andb_true_iff in H as [Hg Htl].
  apply plain_tag_inv in Hg as (c & n & l & ->).
  change (cp_nest x (CTag c n (Some l) false CPNil :: tl))
    with (cp_nest (CPCons (CTag c n (Some l) true x) CPNil) tl).
  rewrite IH by assumption. cbn [fold_left]. f_equal.
  cbn [flatten_pat flatten_elem]. norm_app. reflexivity.
Qed.

Lemma wfs_fold_pipe tags pipe :
  forallb plain_tag tags = true -> forallb wfs_elem tags = true ->
  wfs_pat pipe (fold_right CPPipe CPNil tags) = true.
Proof.
  revert pipe. induction tags as [|g tl IH]; intros pipe Hp Hw; [reflexivity|].
  cbn [forallb] in Hp, Hw. apply andb_true_iff in Hp as [Hg Hp]. apply andb_true_iff in Hw as [Wg Hw].
  cbn [fold_right wfs_pat]. rewrite Wg, IH by assumption.
  apply plain_tag_inv in Hg as (c & n & l & ->). reflexivity.
Qed.

Lemma wfs_cp_pipe_gen x tags : forall pipe,
  wfs_pat pipe x = true -> forallb plain_tag tags = true -> forallb wfs_elem tags = true ->
  wfs_pat pipe (cp_pipe x tags) = true.
Proof.
  induction x as [|e p IH|e p IH]; intros pipe Hx Hp Hw; cbn [cp_pipe].
  - apply wfs_fold_pipe; assumption.
  - cbn [wfs_pat] in *. apply andb_true_iff in Hx as [Hx Hx2]. rewrite Hx, IH by assumption. reflexivity.
  - cbn [wfs_pat] in *. apply andb_true_iff in Hx as [Hx Hx2]. rewrite Hx, IH by assumption. reflexivity.
Qed.

Lemma wfs_cp_pipe x tags :
  wfs_pat false x = true -> forallb plain_tag tags = true -> forallb wfs_elem tags = true ->
  wfs_pat false (cp_pipe x tags) = true.
Proof. apply wfs_cp_pipe_gen. Qed.

Lemma wfs_cp_nest x tags :
  wfs_pat false x = true -> forallb plain_tag tags = true -> forallb wfs_elem tags = true ->
  wfs_pat false (cp_nest x tags) = true.
Proof.
  revert x. induction tags as [|g tl IH]; intros x Hx Hp Hw; [exact Hx|].
  cbn [forallb] in Hp, Hw. apply andb_true_iff in Hp as [Hg Hp]. apply andb_true_iff in Hw as [Wg Hw].
  apply plain_tag_inv in Hg as (c & n & l & ->).
  change (cp_nest x (CTag c n (Some l) false CPNil :: tl))
    with (cp_nest (CPCons (CTag c n (Some l) true x) CPNil) tl).
  apply IH; try assumption.
  cbn [wfs_elem] in Wg. cbn [wfs_pat wfs_elem negb]. rewrite Hx.
  apply andb_true_iff in Wg as [Wg _]. rewrite Wg. reflexivity.
Qed.

Lemma parse_toks_flatten c : wfs_pat false c = true -> parse_toks (flatten_pat c) = visit c.
Proof. intro H. unfold parse_toks. rewrite parse_flatten by assumption. reflexivity. Qed.

Theorem pipe_is_nesting_tokens x tags :
  wfs_pat false x = true -> forallb plain_tag tags = true -> forallb wfs_elem tags = true ->
  ok_part (parse_toks (flatten_pat (cp_pipe x tags))) =
  ok_part (parse_toks (flatten_pat (cp_nest x tags))).
Proof.
  intros Hx Hp Hw.
  rewrite !parse_toks_flatten by (apply wfs_cp_pipe || apply wfs_cp_nest; assumption).
  apply visit_pipe_nest; assumption.
Qed.

(* every TPipe is immediately followed by TTagStart *)
Fixpoint pipes_ok (l : list token) : bool :=
  match l with
  | [] => true
  | t :: r =>
      match t with
      | TPipe => match r with TTagStart :: _ => true | _ => false end
      | _ => true
      end && pipes_ok r
  end.

Lemma pipes_ok_app a b : pipes_ok a = true -> pipes_ok b = true -> pipes_ok (a ++ b) = true.
Proof.
  induction a as [|t r IH]; intros Ha Hb; [exact Hb|].
  cbn [pipes_ok app] in *. apply andb_true_iff in Ha as [Ht Hr].
  rewrite IH by assumption. rewrite andb_true_r.
  destruct t; try reflexivity.
  destruct r as [|t1 r1]; [discriminate|]. destruct t1; try discriminate. reflexivity.
Qed.

Lemma pipes_ok_split a b : pipes_ok (a ++ TPipe :: b) = true -> exists b', b = TTagStart :: b'.
Proof.
  induction a as [|t r IH]; intro H.
  - cbn [pipes_ok app] in H. apply andb_true_iff in H as [H _].
    destruct b as [|t b']; [discriminate|]. destruct t; try discriminate. eauto.
  - cbn [pipes_ok app] in H. apply andb_true_iff in H as [_ H]. auto.
Qed.

Lemma pipes_ok_flatten_args l : forall first,
  forallb wfs_arg l = true -> pipes_ok (flatten_args first l) = true.
Proof.
  induction l as [|a l IH]; intros first H; [reflexivity|].
  cbn [forallb] in H. apply andb_true_iff in H as [Ha Hl].
  cbn [flatten_args]. apply pipes_ok_app; [destruct first; reflexivity|].
  apply pipes_ok_app; [|apply IH; assumption].
  destruct a as [v|n v|n]; cbn [flatten_arg]; try reflexivity;
    destruct v; try discriminate; reflexivity.
Qed.

Lemma pipes_ok_flatten :
  (forall e, wfs_elem e = true -> pipes_ok (flatten_elem e) = true) /\
  (forall c pipe, wfs_pat pipe c = true -> pipes_ok (flatten_pat c) = true).
Proof.
  apply celem_cpat_ind.
  - reflexivity.
  - intros cat name args h ctx IH H. cbn [wfs_elem] in H. apply andb_true_iff in H as [Ha Hc].
    cbn [flatten_elem]. change (pipes_ok (TTagStart :: ?l)) with (pipes_ok l).
    apply pipes_ok_app; [destruct cat; reflexivity|].
    apply pipes_ok_app.
    + destruct args as [l|]; [|reflexivity]. cbn [flatten_arglist].
      change (pipes_ok (TArgsStart :: ?l)) with (pipes_ok l).
      apply pipes_ok_app; [apply pipes_ok_flatten_args; assumption | reflexivity].
    + destruct h; [|reflexivity].
      change (pipes_ok (TCtxStart :: ?l)) with (pipes_ok l).
      apply pipes_ok_app; [eapply IH; eassumption | reflexivity].
  - reflexivity.
  - intros e IHe p IHp pipe H. cbn [wfs_pat] in H.
    apply andb_true_iff in H as [H Hp]. apply andb_true_iff in H as [_ He].
    cbn [flatten_pat]. apply pipes_ok_app; [apply IHe; assumption | eapply IHp; eassumption].
  - intros e IHe p IHp pipe H. cbn [wfs_pat] in H.
    apply andb_true_iff in H as [H Hp]. apply andb_true_iff in H as [Ht He].
    destruct e as [s|cat name args h ctx]; [discriminate|].
    assert (P : pipes_ok (flatten_elem (CTag cat name args h ctx) ++ flatten_pat p) = true)
      by (apply pipes_ok_app; [apply IHe; assumption | eapply IHp; eassumption]).
    cbn [flatten_pat]. cbn [pipes_ok]. rewrite P. reflexivity.
Qed.

Lemma non_tag_after_pipe_rejected a b :
  (match b with TTagStart :: _ => False | _ => True end) ->
  parse_tokens (a ++ TPipe :: b) = None.
Proof.
  intro Hb. destruct (parse_tokens (a ++ TPipe :: b)) as [c|] eqn:E; [|reflexivity].
  apply parse_sound in E as [E W].
  pose proof (proj2 pipes_ok_flatten c false W) as P. rewrite <- E in P.
  apply pipes_ok_split in P as [b' ->]. contradiction.
Qed.

(* ---------- the lexer mode after an accepted token sequence ---------- *)

Lemma fm_app m a b : final_mode m (a ++ b) = final_mode (final_mode m a) b.
Proof. unfold final_mode. apply fold_left_app. Qed.

Lemma fm_flatten_name m cat name : final_mode m (flatten_name cat name) = m.
Proof. destruct cat; reflexivity. Qed.

Lemma fm_flatten_args l : forall first m,
  forallb wfs_arg l = true -> final_mode m (flatten_args first l) = m.
Proof.
  induction l as [|a l IH]; intros first m H; [reflexivity|].
  cbn [forallb] in H. apply andb_true_iff in H as [Ha Hl].
  cbn [flatten_args]. rewrite !fm_app. rewrite IH by assumption.
  assert (E1 : final_mode m (if first then [] else [TArgSep]) = m) by (destruct first; reflexivity).
  rewrite E1.
  destruct a as [v|n v|n]; cbn [flatten_arg]; try reflexivity;
    destruct v; try discriminate; reflexivity.
Qed.

Lemma fm_flatten :
  (forall e, wfs_elem e = true ->
     match e with
     | CTag _ _ _ _ _ => forall m, final_mode m (flatten_elem e) = MDefault
     | CText _ => final_mode MDefault (flatten_elem e) = MDefault
     end) /\
  (forall c pipe, wfs_pat pipe c = true -> final_mode MDefault (flatten_pat c) = MDefault).
Proof.
  apply celem_cpat_ind.
  - reflexivity.
  - intros cat name args h ctx IH H m. cbn [wfs_elem] in H. apply andb_true_iff in H as [Ha Hc].
    cbn [flatten_elem]. change (final_mode m (TTagStart :: ?l)) with (final_mode MTag l).
    rewrite !fm_app, fm_flatten_name.
    assert (Hctx : h = true -> forall m0,
       final_mode m0 (if h then TCtxStart :: flatten_pat ctx ++ [TCtxEnd] else []) = MDefault).
    { intros -> m0. change (final_mode m0 (TCtxStart :: ?l)) with (final_mode MDefault l).
      rewrite fm_app. rewrite (IH false) by assumption. reflexivity. }
    destruct args as [l|].
    + cbn [flatten_arglist]. change (final_mode MTag (TArgsStart :: ?l)) with (final_mode MArgs l).
      rewrite fm_app, fm_flatten_args by assumption.
      change (final_mode MArgs [TArgsEnd]) with MDefault.
      destruct h; [apply Hctx; reflexivity | reflexivity].
    + subst h. apply Hctx; reflexivity.
  - reflexivity.
  - intros e IHe p IHp pipe H. cbn [wfs_pat] in H.
    apply andb_true_iff in H as [H Hp]. apply andb_true_iff in H as [_ He].
    cbn [flatten_pat]. rewrite fm_app. specialize (IHe He).
    destruct e; rewrite IHe; eapply IHp; eassumption.
  - intros e IHe p IHp pipe H. cbn [wfs_pat] in H.
    apply andb_true_iff in H as [H Hp]. apply andb_true_iff in H as [Ht He].
    cbn [flatten_pat]. change (final_mode MDefault (TPipe :: ?l)) with (final_mode MDefault l).
    rewrite fm_app. specialize (IHe He).
    destruct e; rewrite IHe; eapply IHp; eassumption.
Qed.

Lemma flatten_final_mode_gen c pipe :
  wfs_pat pipe c = true -> final_mode MDefault (flatten_pat c) = MDefault.
Proof. apply (proj2 fm_flatten). Qed.

Lemma flatten_final_mode c :
  wfs_pat false c = true -> final_mode MDefault (flatten_pat c) = MDefault.
Proof. apply flatten_final_mode_gen. Qed.

(* ====================================================================================== *)
(* V3: nothing dropped - the leaves of the parse tree are the leaves of the returned tree *)
(* ====================================================================================== *)

Lemma bind_ok {A B} (r : res A) (f : A -> res B) b :
  bind r f = Ok b -> exists a, r = Ok a /\ f a = Ok b.
Proof. destruct r as [a|e]; simpl; [eauto | discriminate]. Qed.

Lemma value_or_ok v x : visit_value v = Ok x -> value_or v = x.
Proof. unfold value_or. intros ->. reflexivity. Qed.

Lemma visit_args_leaves l : forall ps ks,
  visit_args l = Ok (ps, ks) ->
  Permutation (map leaves_arg l) (map LPos ps ++ map (fun k => LKw (fst k) (snd k)) ks).
Proof.
  induction l as [|a l IH]; intros ps ks H.
  - inversion H; subst. constructor.
  - destruct a as [v|n v|n]; cbn [visit_args] in H.
    + apply bind_ok in H as (x & Hv & H). apply bind_ok in H as ([ps' ks'] & Hr & H).
      inversion H; subst. cbn [map leaves_arg fst snd app].
      rewrite (value_or_ok _ _ Hv). apply perm_skip. apply IH; assumption.
    + apply bind_ok in H as (x & Hv & H). apply bind_ok in H as ([ps' ks'] & Hr & H).
      inversion H; subst. cbn [map leaves_arg fst snd].
      rewrite (value_or_ok _ _ Hv). apply Permutation_cons_app. apply IH; assumption.
    + apply bind_ok in H as ([ps' ks'] & Hr & H).
      inversion H; subst. cbn [map leaves_arg fst snd].
      apply Permutation_cons_app. apply IH; assumption.
Qed.

Lemma visit_arglist_leaves o ps ks :
  visit_arglist o = Ok (ps, ks) ->
  Permutation (map leaves_arg (match o with Some l => l | None => [] end))
              (map LPos ps ++ map (fun k => LKw (fst k) (snd k)) ks).
Proof.
  destruct o as [l|]; cbn [visit_arglist]; intro H.
  - apply bind_ok in H as ([ps' ks'] & Hr & H).
    destruct (nodup_str (map fst (snd (ps', ks')))); [|discriminate].
    inversion H; subst. apply visit_args_leaves; assumption.
  - inversion H; subst. constructor.
Qed.

Lemma leaves_pat_snoc p e : leaves_pat (pat_snoc p e) = leaves_pat p ++ leaves_ast e.
Proof.
  induction p as [|x p IH]; cbn [pat_snoc leaves_pat].
  - rewrite app_nil_r. reflexivity.
  - rewrite IH, app_assoc. reflexivity.
Qed.

Lemma visit_elem_noctx e c n a k y : visit_elem e = Ok (Tag c n a k false y) -> y = PNil.
Proof.
  destruct e as [s|cat name args h ctx]; cbn [visit_elem]; intro H; [discriminate|].
  apply bind_ok in H as (r & _ & H). apply bind_ok in H as (x & Hx & H).
  inversion H; subst. inversion Hx; reflexivity.
Qed.

Lemma nothing_dropped_gen :
  (forall e, wfs_elem e = true -> forall a, visit_elem e = Ok a ->
     Permutation (leaves_elem e) (leaves_ast a)) /\
  (forall c pipe, wfs_pat pipe c = true -> forall acc p, visit_seq acc c = Ok p ->
     Permutation (leaves_pat acc ++ leaves_cpat c) (leaves_pat p)).
Proof.
  apply celem_cpat_ind.
  - intros s _ a H. inversion H; subst. constructor; constructor.
  - intros cat name args h ctx IH W a H. cbn [wfs_elem] in W. apply andb_true_iff in W as [_ W].
    cbn [visit_elem] in H.
    apply bind_ok in H as ([ps ks] & Ha & H). apply bind_ok in H as (x & Hx & H).
    inversion H; subst. cbn [leaves_elem leaves_ast fst snd]. apply perm_skip.
    rewrite app_assoc. apply Permutation_app; [apply visit_arglist_leaves; assumption|].
    destruct h.
    + apply (IH false W PNil x Hx).
    + inversion Hx; subst. destruct ctx; [constructor | discriminate | discriminate].
  - intros pipe _ acc p H. inversion H; subst. cbn [leaves_cpat]. rewrite app_nil_r. apply Permutation_refl.
  - intros e IHe c IHc pipe W acc p H. cbn [wfs_pat] in W.
    apply andb_true_iff in W as [W Wc]. apply andb_true_iff in W as [_ We].
    cbn [visit_seq] in H. apply bind_ok in H as (e' & He & H).
    apply (IHc false Wc) in H. rewrite leaves_pat_snoc in H.
    cbn [leaves_cpat]. rewrite app_assoc. etransitivity; [|exact H].
    apply Permutation_app_tail. apply Permutation_app_head. apply IHe; assumption.
  - intros e IHe c IHc pipe W acc p H. cbn [wfs_pat] in W.
    apply andb_true_iff in W as [W Wc]. apply andb_true_iff in W as [_ We].
    cbn [visit_seq] in H. apply bind_ok in H as (e' & He & H).
    destruct e' as [s|cat n a k [|] y]; try discriminate.
    pose proof (visit_elem_noctx _ _ _ _ _ _ He) as ->.
    apply (IHc true Wc) in H. apply (IHe We) in He.
    cbn [leaves_cpat]. rewrite app_assoc. etransitivity; [|exact H].
    apply Permutation_app_tail. cbn [leaves_pat]. rewrite app_nil_r.
    etransitivity; [apply Permutation_app_head; exact He|].
    cbn [leaves_ast leaves_pat]. rewrite app_nil_r.
    set (A := map LPos a). set (K := map (fun k0 => LKw (fst k0) (snd k0)) k).
    replace (LName cat n :: A ++ K ++ leaves_pat acc)
      with ((LName cat n :: A ++ K) ++ leaves_pat acc)
      by (cbn [app]; rewrite <- app_assoc; reflexivity).
    apply Permutation_app_comm.
Qed.

(* NOTE: the hypothesis [wfs_pat false c] is necessary: [visit] ignores the [ctx] field of a
   tag cell with [has_ctx = false], so on a tree the parser cannot produce (has_ctx = false
   with a non-empty ctx) leaves would be dropped.  Every parser output satisfies it
   ([parse_sound]). *)
Lemma nothing_dropped c p :
  wfs_pat false c = true -> visit c = Ok p -> Permutation (leaves_cpat c) (leaves_pat p).
Proof.
  intros W H. apply (proj2 nothing_dropped_gen c false W PNil p H).
Qed.

Lemma nothing_dropped_parsed toks c p :
  parse_tokens toks = Some c -> visit c = Ok p -> Permutation (leaves_cpat c) (leaves_pat p).
Proof. intros H. apply parse_sound in H as [_ W]. apply nothing_dropped; assumption. Qed.

(* the unguarded statement fails on a tree the parser never builds *)
Example nothing_dropped_needs_wfs :
  exists c p, visit c = Ok p /\ length (leaves_cpat c) <> length (leaves_pat p).
Proof.
  exists (CPCons (CTag None [97] (Some []) false (CPCons (CText [98]) CPNil)) CPNil).
  eexists. split; [reflexivity|]. cbn. discriminate.
Qed.
