(* Model of what `tempren --help <tag>` prints on its first line and of what the *)
(* template compiler then does with a call of that tag.                          *)
(*                                                                               *)
(*  - [sig]          : a configure() signature as far as tags use them           *)
(*                     (positional-or-keyword, *args, keyword-only, **kwargs;    *)
(*                     annotation and default texts are carried as opaque text)  *)
(*  - [render_sig]   : str(inspect.Signature) on such a signature                *)
(*  - [render_line]  : TagFactoryFromClass._create_configuration_signature       *)
(*  - [parse_line]   : the reader: what a user can learn from the printed line   *)
(*  - [bind]         : CPython's argument binding for tag.configure with positional and keyword arguments    *)
(*  - [ctx_check]    : the require_context test of                               *)
(*                     TemplateCompiler._rewrite_tag_placeholder                 *)
(*  - [bind_call]    : factory call, then context test, with the exception class *)
(*  - [cli_status]   : the except chain of tempren.cli.main                      *)
(* No proofs in this file.                                                       *)
From Tempren Require Import Base.Str.
Open Scope N_scope.

(* ---------- code points ----------------------------------------------------- *)
Definition c_space : N := 32.   Definition c_pct : N := 37.
Definition c_lpar : N := 40.    Definition c_rpar : N := 41.
Definition c_star : N := 42.    Definition c_comma : N := 44.
Definition c_colon : N := 58.   Definition c_eq : N := 61.

Definition mk_optional : str := [91; 123; 46; 46; 46; 125; 93].   (* "[{...}]" *)
Definition mk_required : str := [123; 46; 46; 46; 125].           (* "{...}"   *)

(* [_a-zA-Z0-9] : characters of a Python identifier / a tag name (ASCII) *)
Definition is_ident (c : N) : bool := is_letter c || is_digit c || (c =? 95).

(* ---------- signatures ------------------------------------------------------ *)

(* an ordinary parameter: name, annotation text ([] = none), default text *)
Record param := { p_name : str; p_ann : str; p_dflt : option str }.

(* a variadic parameter ( *args / **kwargs ): name and annotation text *)
Record vparam := { v_name : str; v_ann : str }.

Record sig := {
  s_pos    : list param;        (* positional-or-keyword, in order *)
  s_varpos : option vparam;     (* *args *)
  s_kwonly : list param;        (* keyword-only *)
  s_varkw  : option vparam      (* **kwargs *)
}.

Definition empty_sig : sig :=
  {| s_pos := []; s_varpos := None; s_kwonly := []; s_varkw := None |}.

Definition sig_is_empty (s : sig) : bool :=
  match s_pos s, s_varpos s, s_kwonly s, s_varkw s with
  | [], None, [], None => true
  | _, _, _, _ => false
  end.

(* the flat view  list (name * kind)  of DESIGN §3.5 *)
Inductive kind := PosOrKw (has_default : bool) | VarPos | KwOnly (has_default : bool) | VarKw.

Definition has_dflt (p : param) : bool := match p_dflt p with Some _ => true | None => false end.

Definition sig_params (s : sig) : list (str * kind) :=
  map (fun p => (p_name p, PosOrKw (has_dflt p))) (s_pos s)
  ++ match s_varpos s with Some v => [(v_name v, VarPos)] | None => [] end
  ++ map (fun p => (p_name p, KwOnly (has_dflt p))) (s_kwonly s)
  ++ match s_varkw s with Some v => [(v_name v, VarKw)] | None => [] end.

(* require_context: None = optional, Some true = required, Some false = forbidden *)
Definition ctxreq := option bool.

(* ---------- rendering ( str(inspect.Signature) ) ------------------------------ *)

(* how inspect prints one parameter: "name", "name: ann", "name=dflt", "name: ann = dflt" *)
Definition render_tail (ann : str) (dflt : option str) : str :=
  match ann with
  | [] => match dflt with None => [] | Some d => c_eq :: d end
  | _ => c_colon :: c_space :: ann ++
         match dflt with None => [] | Some d => c_space :: c_eq :: c_space :: d end
  end.

Definition render_named (name ann : str) (dflt : option str) : str :=
  name ++ render_tail ann dflt.

Definition render_param (p : param) : str := render_named (p_name p) (p_ann p) (p_dflt p).

(* the comma separated items; a bare "*" announces keyword-only parameters when
   there is no *args *)
Definition sig_pieces (s : sig) : list str :=
  map render_param (s_pos s)
  ++ match s_varpos s with
     | Some v => [c_star :: render_named (v_name v) (v_ann v) None]
     | None => match s_kwonly s with [] => [] | _ => [[c_star]] end
     end
  ++ map render_param (s_kwonly s)
  ++ match s_varkw s with
     | Some v => [c_star :: c_star :: render_named (v_name v) (v_ann v) None]
     | None => []
     end.

(* ", ".join(pieces) *)
Fixpoint join_pieces (l : list str) : str :=
  match l with
  | [] => []
  | [x] => x
  | x :: rest => x ++ c_comma :: c_space :: join_pieces rest
  end.

Definition render_sig (s : sig) : str := c_lpar :: join_pieces (sig_pieces s) ++ [c_rpar].

(* _create_configuration_signature: "%Name" + signature + context marker; a tag that
   requires a context and has no parameter is printed without parentheses *)
Definition render_line (name : str) (s : sig) (r : ctxreq) : str :=
  c_pct :: name ++
  match r with
  | None => render_sig s ++ mk_optional
  | Some true => (if sig_is_empty s then [] else render_sig s) ++ mk_required
  | Some false => render_sig s
  end.

(* ---------- reading a printed line ------------------------------------------- *)

Fixpoint span_ident (s : str) : str * str :=
  match s with
  | [] => ([], [])
  | c :: s' => if is_ident c then let '(a, b) := span_ident s' in (c :: a, b) else ([], s)
  end.

(* split at the first occurrence of c *)
Fixpoint split_first (c : N) (s : str) : option (str * str) :=
  match s with
  | [] => None
  | x :: s' => if x =? c then Some ([], s')
               else match split_first c s' with
                    | Some (a, b) => Some (x :: a, b)
                    | None => None
                    end
  end.

(* s.split(c) *)
Fixpoint split_all (c : N) (s : str) : list str :=
  match s with
  | [] => [[]]
  | x :: s' =>
    if x =? c then [] :: split_all c s'
    else match split_all c s' with
         | [] => [[x]]            (* unreachable: split_all never returns [] *)
         | h :: t => (x :: h) :: t
         end
  end.

(* remove a given suffix *)
Definition strip_suffix (suf s : str) : option str :=
  let rs := rev s in
  let rf := rev suf in
  if is_prefix rf rs then Some (rev (skipn (length rf) rs)) else None.

(* what follows the name: "", ": ann", "=dflt", ": ann = dflt" *)
Definition parse_tail (tail : str) : option (str * option str) :=
  match tail with
  | [] => Some ([], None)
  | x :: rest =>
    if x =? c_eq then Some ([], Some rest)
    else if x =? c_colon then
      match rest with
      | y :: r =>
        if y =? c_space then
          match split_first c_eq r with
          | None => match r with [] => None | _ => Some (r, None) end
          | Some (a, d) =>
            match strip_suffix [c_space] a, d with
            | Some ann, z :: dflt =>
              if z =? c_space then
                match ann with [] => None | _ => Some (ann, Some dflt) end
              else None
            | _, _ => None
            end
          end
        else None
      | [] => None
      end
    else None
  end.

(* "name", "name: ann", "name=dflt", "name: ann = dflt" *)
Definition parse_named (t : str) : option (str * str * option str) :=
  let '(name, tail) := span_ident t in
  match name with
  | [] => None
  | _ => match parse_tail tail with
         | Some (ann, d) => Some (name, ann, d)
         | None => None
         end
  end.

Inductive piece :=
| PcParam (p : param)
| PcStar                       (* bare "*" *)
| PcVarPos (v : vparam)
| PcVarKw (v : vparam).

Definition parse_piece (t : str) : option piece :=
  match t with
  | a :: b :: rest =>
    if (a =? c_star) && (b =? c_star) then
      match parse_named rest with
      | Some (n, ann, None) => Some (PcVarKw {| v_name := n; v_ann := ann |})
      | _ => None
      end
    else if a =? c_star then
      match parse_named (b :: rest) with
      | Some (n, ann, None) => Some (PcVarPos {| v_name := n; v_ann := ann |})
      | _ => None
      end
    else
      match parse_named t with
      | Some (n, ann, d) => Some (PcParam {| p_name := n; p_ann := ann; p_dflt := d |})
      | None => None
      end
  | [a] =>
    if a =? c_star then Some PcStar
    else match parse_named t with
         | Some (n, ann, d) => Some (PcParam {| p_name := n; p_ann := ann; p_dflt := d |})
         | None => None
         end
  | [] => None
  end.

(* phase 0: positional parameters; 1: keyword-only (after "*" or *args); 2: after **kwargs *)
Fixpoint assemble (phase : nat) (acc : sig) (l : list piece) : option sig :=
  match l with
  | [] => Some acc
  | pc :: rest =>
    match phase, pc with
    | O, PcParam p =>
      assemble 0 {| s_pos := s_pos acc ++ [p]; s_varpos := s_varpos acc;
                    s_kwonly := s_kwonly acc; s_varkw := s_varkw acc |} rest
    | O, PcStar => assemble 1 acc rest
    | O, PcVarPos v =>
      assemble 1 {| s_pos := s_pos acc; s_varpos := Some v;
                    s_kwonly := s_kwonly acc; s_varkw := s_varkw acc |} rest
    | S O, PcParam p =>
      assemble 1 {| s_pos := s_pos acc; s_varpos := s_varpos acc;
                    s_kwonly := s_kwonly acc ++ [p]; s_varkw := s_varkw acc |} rest
    | O, PcVarKw v | S O, PcVarKw v =>
      assemble 2 {| s_pos := s_pos acc; s_varpos := s_varpos acc;
                    s_kwonly := s_kwonly acc; s_varkw := Some v |} rest
    | _, _ => None
    end
  end.

(* every piece but the first is preceded by one space *)
Fixpoint unspace (first : bool) (l : list str) : option (list str) :=
  match l with
  | [] => Some []
  | x :: rest =>
    match (if first then Some x
           else match x with c :: x' => if c =? c_space then Some x' else None | [] => None end),
          unspace false rest with
    | Some y, Some ys => Some (y :: ys)
    | _, _ => None
    end
  end.

Fixpoint map_opt {A B} (f : A -> option B) (l : list A) : option (list B) :=
  match l with
  | [] => Some []
  | x :: rest =>
    match f x, map_opt f rest with
    | Some y, Some ys => Some (y :: ys)
    | _, _ => None
    end
  end.

(* the text between the parentheses *)
Definition parse_body (body : str) : option sig :=
  match body with
  | [] => Some empty_sig
  | _ =>
    match unspace true (split_all c_comma body) with
    | None => None
    | Some ts =>
      match map_opt parse_piece ts with
      | None => None
      | Some pcs =>
        match assemble 0 empty_sig pcs with
        | Some s =>
          (* a bare "*" must be followed by a keyword-only parameter (as in Python) *)
          if existsb (fun pc => match pc with PcStar => true | _ => false end) pcs
             && match s_kwonly s with [] => true | _ => false end
          then None else Some s
        | None => None
        end
      end
    end
  end.

Definition parse_sig (t : str) : option sig :=
  match t with
  | x :: rest =>
    if x =? c_lpar then
      match strip_suffix [c_rpar] rest with
      | Some body => parse_body body
      | None => None
      end
    else None
  | [] => None
  end.

(* the context marker at the end of the line, and what precedes it *)
Definition read_marker (rest : str) : str * ctxreq :=
  match strip_suffix mk_optional rest with
  | Some t => (t, None)
  | None =>
    match strip_suffix mk_required rest with
    | Some t => (t, Some true)
    | None => (rest, Some false)
    end
  end.

Definition parse_line (line : str) : option (str * sig * ctxreq) :=
  match line with
  | x :: l =>
    if x =? c_pct then
      let '(name, rest) := span_ident l in
      match name with
      | [] => None
      | _ =>
        let '(t, r) := read_marker rest in
        match t, r with
        | [], Some true => Some (name, empty_sig, r)   (* "%Upper{...}" *)
        | [], _ => None
        | _, _ => match parse_sig t with
                  | Some s => Some (name, s, r)
                  | None => None
                  end
        end
      end
    else None
  | [] => None
  end.

(* ---------- argument binding -------------------------------------------------- *)

Fixpoint mem_str (x : str) (l : list str) : bool :=
  match l with
  | [] => false
  | y :: l' => str_eqb x y || mem_str x l'
  end.

Inductive bind_err :=
| TooMany                (* takes N positional arguments but M were given *)
| Unexpected (k : str)   (* got an unexpected keyword argument 'k' *)
| Multiple (k : str)     (* got multiple values for argument 'k' *)
| Missing (k : str).     (* missing required (positional / keyword-only) argument 'k' *)

Inductive bind_result := BindOk | BindErr (e : bind_err).

Definition pos_names (s : sig) : list str := map p_name (s_pos s).
Definition kw_names (s : sig) : list str := map p_name (s_pos s ++ s_kwonly s).
Definition has_varkw (s : sig) : bool := match s_varkw s with Some _ => true | None => false end.
Definition has_varpos (s : sig) : bool := match s_varpos s with Some _ => true | None => false end.

(* the keywords, left to right; [filled] = names that already have a value *)
Fixpoint bind_kws (s : sig) (filled : list str) (kws : list str) : bind_err + list str :=
  match kws with
  | [] => inr filled
  | k :: rest =>
    if mem_str k filled then inl (Multiple k)
    else if mem_str k (kw_names s) || has_varkw s then bind_kws s (k :: filled) rest
    else inl (Unexpected k)
  end.

Fixpoint first_missing (filled : list str) (ps : list param) : option str :=
  match ps with
  | [] => None
  | p :: rest =>
    if has_dflt p || mem_str (p_name p) filled then first_missing filled rest
    else Some (p_name p)
  end.

(* The factory is invoked as  tag_factory( *args, **kwargs )  and passes both on to the
   bound method configure.  The first parameter of either function (which the help line
   does not show) is taken, so a keyword of that name is refused by the very first call:
   "got multiple values for argument 'self'". *)
Definition receiver : str := [115; 101; 108; 102].    (* "self" *)

(* the names that have a value before the keywords are looked at *)
Definition filled_positionally (s : sig) (npos : nat) : list str :=
  firstn npos (pos_names s).

(* tag.configure( <npos positional values>, **{k: ... for k in kws} ) — the order of
   the checks is CPython's: keywords, then the number of positionals, then missing ones *)
Definition bind_configure (s : sig) (npos : nat) (kws : list str) : bind_result :=
  match bind_kws s (filled_positionally s npos) kws with
  | inl e => BindErr e
  | inr filled =>
    if (length (s_pos s) <? npos)%nat && negb (has_varpos s) then BindErr TooMany
    else match first_missing filled (s_pos s ++ s_kwonly s) with
         | Some k => BindErr (Missing k)
         | None => BindOk
         end
  end.

Definition bind (s : sig) (npos : nat) (kws : list str) : bind_result :=
  if mem_str receiver kws then BindErr (Multiple receiver) else bind_configure s npos kws.

(* ---------- context rule ------------------------------------------------------ *)

Inductive ctx_result := CtxOk | CtxMissing | CtxForbidden.

Definition ctx_check (r : ctxreq) (has_ctx : bool) : ctx_result :=
  match r with
  | None => CtxOk
  | Some true => if has_ctx then CtxOk else CtxMissing
  | Some false => if has_ctx then CtxForbidden else CtxOk
  end.

(* ---------- one tag call, as _rewrite_tag_placeholder treats it ---------------- *)

Inductive reject_class :=
| RBind (e : bind_err)    (* ConfigurationError caused by the binding TypeError *)
| RValue                  (* ConfigurationError / TemplateError: configure's own refusal *)
| RContextMissing
| RContextForbidden.

Inductive outcome := Accept | Reject (c : reject_class).

(* [cfg_ok]: does the (abstract) body of configure accept the supplied values *)
Definition bind_call (s : sig) (r : ctxreq) (cfg_ok : bool)
                     (npos : nat) (kws : list str) (has_ctx : bool) : outcome :=
  match bind s npos kws with
  | BindErr e => Reject (RBind e)
  | BindOk =>
    if negb cfg_ok then Reject RValue
    else match ctx_check r has_ctx with
         | CtxOk => Accept
         | CtxMissing => Reject RContextMissing
         | CtxForbidden => Reject RContextForbidden
         end
  end.

(* ---------- exception classes and the exit status ------------------------------ *)

Inductive exc :=
| ExSystemExit (status : Z)       (* cli.SystemExitError *)
| ExPipelineConfiguration         (* pipeline.ConfigurationError (usage) *)
| ExTemplateEvaluation            (* TemplateEvaluationError *)
| ExTemplateSyntax                (* TemplateSyntaxError *)
| ExTagConfiguration              (* compiler.ConfigurationError *)
| ExContextMissing
| ExContextForbidden
| ExUnknownName | ExUnknownCategory | ExAmbiguousName
| ExDestinationExists | ExInvalidDestination | ExFileNotSupported
| ExOther.                        (* any other Exception *)

(* isinstance(e, TemplateError) *)
Definition is_template_error (e : exc) : bool :=
  match e with
  | ExTemplateSyntax | ExTagConfiguration | ExContextMissing | ExContextForbidden
  | ExUnknownName | ExUnknownCategory | ExAmbiguousName => true
  | _ => false
  end.

(* the except chain of tempren.cli.main *)
Definition cli_status (e : exc) : Z :=
  match e with
  | ExSystemExit st => st
  | ExPipelineConfiguration => 2
  | ExTemplateEvaluation => 4
  | ExDestinationExists | ExInvalidDestination | ExFileNotSupported => 1
  | ExOther => 126
  | _ => if is_template_error e then 3 else 126
  end%Z.

Definition exc_of_reject (c : reject_class) : exc :=
  match c with
  | RBind _ => ExTagConfiguration
  | RValue => ExTagConfiguration
  | RContextMissing => ExContextMissing
  | RContextForbidden => ExContextForbidden
  end.

Definition status_of_outcome (o : outcome) : option Z :=
  match o with
  | Accept => None                      (* compilation goes on *)
  | Reject c => Some (cli_status (exc_of_reject c))
  end.
