(* Specification side of the lexer: which token sequences are read back as themselves from  *)
(* their characters ([lexable]); definitions only, used by the proofs.                      *)
From Tempren Require Import Base.Str Tpl.Ast Tpl.Lexer Tpl.Cst Tpl.Printer Tpl.Visitor.
Open Scope N_scope.

(* first character of the characters of a token list; [nxt] is what follows the list *)
Definition first_char (toks : list token) (nxt : option N) : option N :=
  match chars toks with c :: _ => Some c | [] => nxt end.

Definition opt_not (f : N -> bool) (o : option N) : bool :=
  match o with Some c => negb (f c) | None => true end.

(* s is exactly one TEXT run *)
Definition text_scan_ok (s : str) : bool :=
  match s with
  | [] => false
  | _ => match scan_text false s with (_, []) => true | _ => false end
  end.

Definition digits_ok (s : str) : bool :=
  match s with [] => false | _ => forallb is_digit s end.
Definition num_ok (s : str) : bool :=
  match s with 45 :: r => digits_ok r | _ => digits_ok s end.

(* the body of a string token: every quote mark in it is preceded by a backslash, and it
   does not end in a backslash ([pb] = previous character is a backslash) *)
Fixpoint str_body_ok (q : N) (pb : bool) (b : str) : bool :=
  match b with
  | [] => negb pb
  | c :: r => (if c =? q then pb else true) && str_body_ok q (c =? 92) r
  end.

Definition str_ok (s : str) : bool :=
  match s with
  | q :: r =>
      is_quote q &&
      match rev r with
      | q' :: rb => (q' =? q) && str_body_ok q false (rev rb)
      | [] => false
      end
  | [] => false
  end.

(* a string token whose closing quote is NOT preceded by a backslash: its end does not
   depend on what follows *)
Definition stable_tok (t : token) : bool :=
  match t with TStr s => str_ok s | _ => true end.
Definition stable_strs (toks : list token) : bool := forallb stable_tok toks.

Definition tok_ok (m : mode) (t : token) (nxt : option N) : bool :=
  match m, t with
  | MDefault, TWs c => is_gws c
  | MTag, TWs c => is_gws c
  | MArgs, TWs c => is_aws c
  | MDefault, TText s =>
      text_scan_ok s &&
      opt_not (fun c => text_plain c || (is_meta3 c && last_is_backslash s)) nxt
  | MDefault, TTagStart => true
  | MDefault, TPipe => true
  | MDefault, TCtxStart => true
  | MDefault, TCtxEnd => true
  | MTag, TArgsStart => true
  | MTag, TCtxStart => true
  | MTag, TCatSep => true
  | MTag, TTagId s => is_id s && opt_not is_id_char nxt
  | MArgs, TArgsEnd => true
  | MArgs, TArgSep => true
  | MArgs, TArgEq => true
  | MArgs, TNum s => num_ok s && opt_not is_digit nxt
  | MArgs, TBool s => is_bool_word s && opt_not is_id_char nxt
  | MArgs, TArgName s => is_id s && negb (is_bool_word s) && opt_not is_id_char nxt
  | MArgs, TStr s => str_ok s
  | _, _ => false
  end.

Fixpoint lexable (m : mode) (toks : list token) (nxt : option N) : bool :=
  match toks with
  | [] => true
  | t :: r => tok_ok m t (first_char r nxt) && lexable (mode_after m t) r nxt
  end.

Definition no_ws (toks : list token) : list token :=
  filter (fun t => negb (is_ws_tok t)) toks.

Definition ok_part {A} (r : res A) : option A :=
  match r with Ok a => Some a | Err _ => None end.
