(* tempren/template/parser.py _TreeVisitor after fixes F15-F18, and TemplateParser.parse.     *)
(*  visitRawText: unescape of the TEXT lexeme.  visitArgumentValue: BOOLEAN by lower-casing,  *)
(*  int() of -?[0-9]+, STRING without its first and last character, unescaped for its quote.  *)
(*  visitArgumentList: positional values in order, named values in order; a bare ARG_NAME is  *)
(*  the flag shorthand name=True; a keyword given twice is rejected (F18).  visitTag:         *)
(*  category, name, arguments, context.  visitPattern: the pipe fold                          *)
(*     context := Seq prefix; for t in pipe_tags: t.context := context; context := Seq [t]    *)
(*  where a piped tag that brings its own context is rejected (F17).                          *)
(* Model only - no proofs in this file.                                                       *)
From Tempren Require Import Base.Str Tpl.Ast Tpl.Lexer Tpl.Cst Tpl.Parser Tpl.Escape.
Open Scope N_scope.

Inductive perr :=
| ELex (pos : N)        (* a character no lexer rule of the current mode accepts, at pos *)
| ESyntax               (* the token sequence is not a pattern (valid alternatives) *)
| EValue                (* unreachable on lexer output: a value token int() would refuse *)
| EPipeContext          (* F17 *)
| EDupKeyword.          (* F18 *)

Inductive res (A : Type) :=
| Ok (a : A)
| Err (e : perr).
Arguments Ok {A} a.
Arguments Err {A} e.

Definition bind {A B} (r : res A) (f : A -> res B) : res B :=
  match r with Ok a => f a | Err e => Err e end.

Definition strip_quotes (s : str) : str :=
  match s with [] => [] | _ :: r => removelast r end.

Definition visit_value (t : token) : res argval :=
  match t with
  | TNum s => match Z_of_decimal s with Some z => Ok (VInt z) | None => Err EValue end
  | TBool s => Ok (VBool (str_eqb (ascii_lower s) s_true))
  | TStr s =>
      match s with
      | q :: _ => Ok (VStr (unescape (esc_str q) (strip_quotes s)))
      | [] => Err EValue
      end
  | _ => Err EValue
  end.

Fixpoint visit_args (l : list carg) : res (list argval * list (str * argval)) :=
  match l with
  | [] => Ok ([], [])
  | a :: l' =>
    match a with
    | CArgPos v =>
        bind (visit_value v) (fun x => bind (visit_args l') (fun r => Ok (x :: fst r, snd r)))
    | CArgNamed n v =>
        bind (visit_value v) (fun x => bind (visit_args l') (fun r => Ok (fst r, (n, x) :: snd r)))
    | CArgFlag n =>
        bind (visit_args l') (fun r => Ok (fst r, (n, VBool true) :: snd r))
    end
  end.

Definition visit_arglist (o : option (list carg)) : res (list argval * list (str * argval)) :=
  match o with
  | None => Ok ([], [])
  | Some l =>
      bind (visit_args l) (fun r =>
        if nodup_str (map fst (snd r)) then Ok r else Err EDupKeyword)
  end.

Fixpoint pat_snoc (p : pat) (e : ast) : pat :=
  match p with PNil => PCons e PNil | PCons x p' => PCons x (pat_snoc p' e) end.

(* [visit_seq acc p]: acc = what the elements seen so far amount to; a pipe cell wraps it *)
Fixpoint visit_elem (e : celem) : res ast :=
  match e with
  | CText s => Ok (RawText (unescape esc_text s))
  | CTag cat name args h ctx =>
      bind (visit_arglist args) (fun r =>
      bind (if h then visit_seq PNil ctx else Ok PNil) (fun x =>
      Ok (Tag cat name (fst r) (snd r) h x)))
  end
with visit_seq (acc : pat) (p : cpat) : res pat :=
  match p with
  | CPNil => Ok acc
  | CPCons e p' => bind (visit_elem e) (fun e' => visit_seq (pat_snoc acc e') p')
  | CPPipe e p' =>
      bind (visit_elem e) (fun e' =>
        match e' with
        | Tag c n a k false _ => visit_seq (PCons (Tag c n a k true acc) PNil) p'
        | Tag _ _ _ _ true _ => Err EPipeContext
        | RawText _ => Err ESyntax
        end)
  end.

Definition visit (c : cpat) : res pat := visit_seq PNil c.

Definition parse_toks (toks : list token) : res pat :=
  match parse_tokens toks with
  | Some c => visit c
  | None => Err ESyntax
  end.

(* TemplateParser.parse *)
Definition parse (s : str) : res pat :=
  match lex s with
  | LexError pos => Err (ELex pos)
  | LexOk toks => parse_toks toks
  end.

(* ---------- the same with the pre-fix unescape (for the refuted examples) ---------------- *)
Definition visit_value_prefix (t : token) : res argval :=
  match t with
  | TStr s => Ok (VStr (unescape_seq (strip_quotes s)))
  | _ => visit_value t
  end.

(* ---------- leaves: what the parse tree / the returned tree carry ------------------------- *)
Inductive leaf :=
| LText (s : str)
| LName (cat : option str) (name : str)
| LPos (v : argval)
| LKw (n : str) (v : argval).

Definition value_or (t : token) : argval :=
  match visit_value t with Ok v => v | Err _ => VBool false end.

Definition leaves_arg (a : carg) : leaf :=
  match a with
  | CArgPos v => LPos (value_or v)
  | CArgNamed n v => LKw n (value_or v)
  | CArgFlag n => LKw n (VBool true)
  end.

Fixpoint leaves_elem (e : celem) : list leaf :=
  match e with
  | CText s => [LText (unescape esc_text s)]
  | CTag cat name args h ctx =>
      LName cat name :: map leaves_arg (match args with Some l => l | None => [] end) ++ leaves_cpat ctx
  end
with leaves_cpat (p : cpat) : list leaf :=
  match p with
  | CPNil => []
  | CPCons e p' => leaves_elem e ++ leaves_cpat p'
  | CPPipe e p' => leaves_elem e ++ leaves_cpat p'
  end.

Fixpoint leaves_ast (e : ast) : list leaf :=
  match e with
  | RawText s => [LText s]
  | Tag cat name ar kw _ x =>
      LName cat name :: map LPos ar ++ map (fun k => LKw (fst k) (snd k)) kw ++ leaves_pat x
  end
with leaves_pat (p : pat) : list leaf :=
  match p with
  | PNil => []
  | PCons e p' => leaves_ast e ++ leaves_pat p'
  end.
