(* C11 on token lists accepted by the parser, and the (trivial) rendering corollary. *)
From Tempren Require Import Base.Str Tpl.Ast Tpl.Lexer Tpl.Cst Tpl.Parser Tpl.Visitor Tpl.Printer
  Tpl.LexSpec Tpl.ParseProofs Tpl.PipeSugar Tpl.RenderName.
Open Scope N_scope.

Theorem pipe_is_nesting_token_lists xt x tags :
  parse_tokens xt = Some x -> forallb plain_tag tags = true -> forallb wfs_elem tags = true ->
  ok_part (parse_toks (xt ++ concat (map (fun g => TPipe :: flatten_elem g) tags))) =
  ok_part (parse_toks (fold_left (fun acc g => flatten_elem g ++ TCtxStart :: acc ++ [TCtxEnd]) tags xt)).
Proof.
  intros Hx Hp Hw. apply parse_sound in Hx as [-> Wx].
  rewrite <- flatten_cp_pipe. rewrite <- (flatten_cp_nest x tags Hp).
  apply pipe_is_nesting_tokens; assumption.
Qed.

Theorem render_equal (a b : str) :
  ok_part (parse a) = ok_part (parse b) ->
  forall sem, option_map (render_pat sem) (ok_part (parse a)) = option_map (render_pat sem) (ok_part (parse b)).
Proof. intros H sem. rewrite H. reflexivity. Qed.
