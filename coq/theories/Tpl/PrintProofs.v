(* Facts about the printer: the printed token list is read back as itself by the lexer      *)
(* ([print_lexable]), dropping the blanks of the spelling gives the tokens of the parse     *)
(* tree ([no_ws_print]), and the parse tree a style spells is structurally well formed      *)
(* ([wfs_cst_of]).                                                                          *)
From Tempren Require Import Base.Str Tpl.Ast Tpl.Lexer Tpl.Cst Tpl.Escape Tpl.Printer
  Tpl.Visitor Tpl.LexSpec Tpl.LexSpecFacts.
Open Scope N_scope.

Scheme ast_mut := Induction for ast Sort Prop
  with pat_mut := Induction for pat Sort Prop.
Combined Scheme ast_pat_ind from ast_mut, pat_mut.

(* ---------- generic list facts ------------------------------------------------------------ *)

Lemma forallb_map_impl {A B} (f : B -> bool) (g : A -> B) (h : A -> bool) l :
  (forall x, h x = true -> f (g x) = true) ->
  forallb h l = true -> forallb f (map g l) = true.
Proof.
  intros Hfg. induction l as [|x l IH]; simpl; intro H; [reflexivity|].
  apply andb_true_iff in H as [H1 H2]. rewrite (Hfg _ H1), (IH H2). reflexivity.
Qed.

Lemma forallb_map_all {A B} (f : B -> bool) (g : A -> B) l :
  (forall x, f (g x) = true) -> forallb f (map g l) = true.
Proof.
  intros Hfg. induction l as [|x l IH]; simpl; [reflexivity|]. rewrite Hfg, IH. reflexivity.
Qed.

Lemma forallb_alternate f a : forall b,
  forallb f a = true -> forallb f b = true -> forallb f (alternate a b) = true.
Proof.
  induction a as [|x a IH]; intros b Ha Hb; simpl; [exact Hb|].
  simpl in Ha. apply andb_true_iff in Ha as [Hx Ha]. rewrite Hx. simpl.
  destruct b as [|y b]; [exact Ha|].
  simpl in Hb. apply andb_true_iff in Hb as [Hy Hb]. simpl. rewrite Hy. simpl.
  apply IH; assumption.
Qed.

Lemma forallb_interleave f sty ps ks :
  forallb f ps = true -> forallb f ks = true -> forallb f (interleave sty ps ks) = true.
Proof.
  intros Hp Hk. unfold interleave.
  destruct (sty_order sty =? 0); [|destruct (sty_order sty =? 1)].
  - rewrite forallb_app, Hp, Hk. reflexivity.
  - rewrite forallb_app, Hp, Hk. reflexivity.
  - apply forallb_alternate; assumption.
Qed.

(* ---------- the argument list the printer writes ------------------------------------------ *)

Definition args_of (sty : style) (ar : list argval) (kw : list (str * argval)) (h : bool)
  : option (list carg) :=
  match ar, kw with
  | [], [] => if h && negb (sty_parens sty) then None else Some []
  | _, _ => Some (cargs_of sty ar kw)
  end.

Lemma cst_of_ast_tag sty c n ar kw h x :
  cst_of_ast sty (Tag c n ar kw h x) = CTag c n (args_of sty ar kw h) h (cst_of_pat sty x).
Proof. reflexivity. Qed.

Lemma cargs_of_nil sty : cargs_of sty [] [] = [].
Proof.
  unfold cargs_of, interleave. simpl.
  destruct (sty_order sty =? 0); [|destruct (sty_order sty =? 1)]; reflexivity.
Qed.

Lemma args_of_cases sty ar kw h :
  (args_of sty ar kw h = None /\ h = true) \/ args_of sty ar kw h = Some (cargs_of sty ar kw).
Proof.
  unfold args_of. destruct ar as [|a ar]; [destruct kw as [|k kw]|]; try (right; reflexivity).
  destruct h; simpl.
  - destruct (sty_parens sty); simpl; [right|left; split; reflexivity].
    rewrite cargs_of_nil; reflexivity.
  - right. rewrite cargs_of_nil; reflexivity.
Qed.

Lemma tok_of_val_value sty v : is_value_tok (tok_of_val sty v) = true.
Proof. destruct v; reflexivity. Qed.

Lemma carg_of_kw_wfs sty k : wfs_arg (carg_of_kw sty k) = true.
Proof.
  unfold carg_of_kw. destruct (snd k) as [z|[|]|s]; try reflexivity.
  destruct (sty_flag sty); reflexivity.
Qed.

Lemma cargs_of_wfs sty ar kw : forallb wfs_arg (cargs_of sty ar kw) = true.
Proof.
  unfold cargs_of. apply forallb_interleave.
  - apply forallb_map_all. intro v. simpl. apply tok_of_val_value.
  - apply forallb_map_all. intro k. apply carg_of_kw_wfs.
Qed.

(* ---------- (Q2) no blank token among the tokens of a parse tree --------------------------- *)

Lemma spell_app ws a b : spell ws (a ++ b) = spell ws a ++ spell ws b.
Proof.
  induction a as [|t a IH]; simpl; [reflexivity|].
  rewrite IH, app_assoc. reflexivity.
Qed.

Lemma no_ws_map_ws ws : no_ws (map TWs ws) = [].
Proof. induction ws as [|c ws IH]; simpl; [reflexivity|exact IH]. Qed.

Lemma no_ws_spell ws toks :
  forallb (fun t => negb (is_ws_tok t)) toks = true -> no_ws (spell ws toks) = toks.
Proof.
  induction toks as [|t r IH]; simpl; intro H; [reflexivity|].
  apply andb_true_iff in H as [H1 H2].
  unfold no_ws in *. simpl. rewrite H1. f_equal.
  rewrite filter_app, (IH H2).
  destruct (spaced_after t); simpl; [|reflexivity].
  fold (no_ws (map TWs ws)). rewrite no_ws_map_ws. reflexivity.
Qed.

Lemma value_tok_not_ws v : is_value_tok v = true -> negb (is_ws_tok v) = true.
Proof. destruct v; simpl; intro H; try reflexivity; discriminate. Qed.

Lemma flatten_args_no_ws l : forall first,
  forallb wfs_arg l = true ->
  forallb (fun t => negb (is_ws_tok t)) (flatten_args first l) = true.
Proof.
  induction l as [|a l IH]; intros first H; simpl; [reflexivity|].
  simpl in H. apply andb_true_iff in H as [Ha Hl].
  rewrite !forallb_app, (IH false Hl).
  assert (E : forallb (fun t => negb (is_ws_tok t)) (flatten_arg a) = true).
  { destruct a as [v|n v|n]; simpl in *; try rewrite (value_tok_not_ws _ Ha); reflexivity. }
  rewrite E. destruct first; reflexivity.
Qed.

Lemma flatten_arglist_no_ws o :
  match o with Some l => forallb wfs_arg l = true | None => True end ->
  forallb (fun t => negb (is_ws_tok t)) (flatten_arglist o) = true.
Proof.
  destruct o as [l|]; simpl; intro H; [|reflexivity].
  rewrite forallb_app, (flatten_args_no_ws l true H). reflexivity.
Qed.

Lemma args_of_wfs sty ar kw h :
  match args_of sty ar kw h with Some l => forallb wfs_arg l = true | None => True end.
Proof.
  destruct (args_of_cases sty ar kw h) as [[E _]|E]; rewrite E; [exact I|apply cargs_of_wfs].
Qed.

Lemma flatten_name_no_ws c n :
  forallb (fun t => negb (is_ws_tok t)) (flatten_name c n) = true.
Proof. destruct c; reflexivity. Qed.

Lemma flatten_cst_of_no_ws_mut sty :
  (forall e, forallb (fun t => negb (is_ws_tok t)) (flatten_elem (cst_of_ast sty e)) = true) /\
  (forall p, forallb (fun t => negb (is_ws_tok t)) (flatten_pat (cst_of_pat sty p)) = true).
Proof.
  apply ast_pat_ind.
  - intro s. reflexivity.
  - intros c n ar kw h x IH. rewrite cst_of_ast_tag.
    cbn [flatten_elem forallb is_ws_tok negb andb].
    rewrite !forallb_app, flatten_name_no_ws,
      (flatten_arglist_no_ws _ (args_of_wfs sty ar kw h)).
    destruct h; [|reflexivity].
    cbn [forallb is_ws_tok negb andb]. rewrite forallb_app, IH. reflexivity.
  - reflexivity.
  - intros e IHe p IHp. cbn [cst_of_pat flatten_pat]. rewrite forallb_app, IHe, IHp. reflexivity.
Qed.

Lemma flatten_cst_of_no_ws sty p :
  forallb (fun t => negb (is_ws_tok t)) (flatten_pat (cst_of_pat sty p)) = true.
Proof. apply flatten_cst_of_no_ws_mut. Qed.

Corollary no_ws_print sty p :
  no_ws (spell (sty_ws sty) (flatten_pat (cst_of_pat sty p))) = flatten_pat (cst_of_pat sty p).
Proof. apply no_ws_spell, flatten_cst_of_no_ws. Qed.

(* ---------- (Q3) the parse tree a style spells is structurally well formed ----------------- *)

Lemma wfs_cst_of_mut sty :
  (forall e, wf_ast e = true -> wfs_elem (cst_of_ast sty e) = true) /\
  (forall p, wf_pat p = true -> wfs_pat false (cst_of_pat sty p) = true).
Proof.
  apply ast_pat_ind.
  - reflexivity.
  - intros c n ar kw h x IH H. rewrite cst_of_ast_tag. cbn [wfs_elem].
    cbn [wf_ast] in H. apply andb_true_iff in H as [_ Hx].
    apply andb_true_iff; split.
    + destruct (args_of_cases sty ar kw h) as [[E Hh]|E]; rewrite E;
        [exact Hh|apply cargs_of_wfs].
    + destruct h; [apply IH, Hx|]. destruct x; [reflexivity|discriminate].
  - reflexivity.
  - intros e IHe p IHp H. cbn [wf_pat] in H.
    apply andb_true_iff in H as [H Hp]. apply andb_true_iff in H as [He _].
    cbn [cst_of_pat wfs_pat]. rewrite (IHe He), (IHp Hp). reflexivity.
Qed.

Lemma wfs_cst_of sty p : wf_pat p = true -> wfs_pat false (cst_of_pat sty p) = true.
Proof. apply wfs_cst_of_mut. Qed.

(* ========== (Q1) the printed tokens are lexable ============================================ *)

(* ---------- last character ---------- *)
Lemma last_bs_snoc s c : last_is_backslash (s ++ [c]) = (c =? 92).
Proof.
  unfold last_is_backslash. rewrite rev_unit.
  destruct (N.eqb_spec c 92) as [->|Hn]; [reflexivity|].
  destruct c as [|p]; [reflexivity|].
  do 7 (destruct p as [p|p|]; try reflexivity). congruence.
Qed.

Lemma escape_app esc a b : escape esc (a ++ b) = escape esc a ++ escape esc b.
Proof.
  induction a as [|c a IH]; simpl; [reflexivity|].
  destruct (esc c); simpl; rewrite IH; reflexivity.
Qed.

Lemma last_bs_escape esc s : last_is_backslash (escape esc s) = last_is_backslash s.
Proof.
  destruct s as [|c s] using rev_ind; [reflexivity|].
  rewrite escape_app, last_bs_snoc. simpl.
  destruct (esc c).
  - change [92; c] with ([92] ++ [c]). rewrite app_assoc. apply last_bs_snoc.
  - apply last_bs_snoc.
Qed.

(* ---------- text ---------- *)
Lemma esc_text_meta3 c : esc_text c = is_meta3 c.
Proof. reflexivity. Qed.

Lemma text_plain_of_ok c : text_char_ok c = true -> is_meta3 c = false -> text_plain c = true.
Proof.
  unfold text_char_ok, text_plain, is_gws. intros H1 H2. rewrite H2.
  destruct (c =? 37); [discriminate|]. simpl in *.
  apply negb_true_iff in H1. rewrite H1. reflexivity.
Qed.

Lemma meta3_not_plain c : is_meta3 c = true -> text_plain c = false.
Proof. unfold text_plain. intros ->. rewrite orb_true_r. reflexivity. Qed.

Lemma scan_text_escape s : forall pb,
  forallb text_char_ok s = true ->
  scan_text pb (escape esc_text s) = (escape esc_text s, []).
Proof.
  induction s as [|c r IH]; intros pb H; [reflexivity|].
  cbn [forallb] in H. apply andb_true_iff in H as [Hc Hr].
  cbn [escape]. rewrite esc_text_meta3. destruct (is_meta3 c) eqn:Em.
  - cbn [scan_text]. change (text_plain 92) with true. cbv iota.
    rewrite (meta3_not_plain _ Em), Em. change (92 =? 92) with true. cbn [andb].
    rewrite (IH false Hr). reflexivity.
  - cbn [scan_text]. rewrite (text_plain_of_ok _ Hc Em), (IH _ Hr). reflexivity.
Qed.

Lemma escape_nonempty esc s : s <> [] -> escape esc s <> [].
Proof. destruct s as [|c r]; [congruence|]. intros _. simpl. destruct (esc c); discriminate. Qed.

Lemma text_lexeme_ok s : wf_text s = true ->
  text_scan_ok (escape esc_text s) = true /\ last_is_backslash (escape esc_text s) = false.
Proof.
  unfold wf_text. destruct s as [|c r]; [discriminate|]. intro H.
  apply andb_true_iff in H as [H1 H2]. split.
  - unfold text_scan_ok. rewrite (scan_text_escape _ false H1).
    destruct (escape esc_text (c :: r)) eqn:E; [|reflexivity].
    exfalso. revert E. apply escape_nonempty. discriminate.
  - rewrite last_bs_escape. apply negb_true_iff in H2. exact H2.
Qed.

Lemma last_bs_cons c d r : last_is_backslash (c :: d :: r) = last_is_backslash (d :: r).
Proof.
  destruct (@exists_last _ (d :: r)) as [x [y E]]; [discriminate|].
  rewrite E. change (c :: x ++ [y]) with ((c :: x) ++ [y]). rewrite !last_bs_snoc. reflexivity.
Qed.

Lemma last_bs_single c : last_is_backslash [c] = (c =? 92).
Proof. apply (last_bs_snoc [] c). Qed.

(* ---------- strings ---------- *)
Lemma str_body_escape q : (92 =? q) = false -> forall s pb,
  str_body_ok q pb (escape (esc_str q) s) =
  match s with [] => negb pb | _ => negb (last_is_backslash s) end.
Proof.
  intros Hq. induction s as [|c r IH]; intro pb; [reflexivity|].
  cbn [escape]. unfold esc_str at 1.
  destruct (c =? q) eqn:Ecq; cbn [orb].
  - cbn [str_body_ok]. rewrite Hq, Ecq. change (92 =? 92) with true. cbn [andb].
    rewrite IH. destruct r as [|d r'].
    + rewrite last_bs_single. reflexivity.
    + rewrite last_bs_cons. reflexivity.
  - destruct (c =? 92) eqn:Ec.
    + cbn [str_body_ok]. rewrite Hq, Ecq, Ec. change (92 =? 92) with true. cbn [andb].
      rewrite IH. destruct r as [|d r'].
      * rewrite last_bs_single, Ec. reflexivity.
      * rewrite last_bs_cons. reflexivity.
    + cbn [str_body_ok]. rewrite Ecq, Ec. cbn [andb].
      rewrite IH. destruct r as [|d r'].
      * rewrite last_bs_single, Ec. reflexivity.
      * rewrite last_bs_cons. reflexivity.
Qed.

Lemma str_lexeme_ok sty s : last_is_backslash s = false ->
  str_ok (sty_quote sty :: escape (esc_str (sty_quote sty)) s ++ [sty_quote sty]) = true.
Proof.
  intro H. set (q := sty_quote sty).
  assert (Hq : is_quote q = true /\ (92 =? q) = false).
  { unfold q, sty_quote. destruct (sty_dq sty); split; reflexivity. }
  destruct Hq as [Hq1 Hq2].
  unfold str_ok. rewrite Hq1, rev_unit, N.eqb_refl, rev_involutive. cbn [andb].
  rewrite (str_body_escape q Hq2). destruct s; [reflexivity|]. rewrite H. reflexivity.
Qed.

(* ---------- numbers ---------- *)
Lemma num_ok_cons c r : num_ok (c :: r) = if c =? 45 then digits_ok r else digits_ok (c :: r).
Proof.
  destruct c as [|p]; [reflexivity|].
  do 6 (destruct p as [p|p|]; try reflexivity).
Qed.

Lemma digits_ok_decimal n : digits_ok (decimal_N n) = true.
Proof.
  unfold digits_ok. pose proof (decimal_N_nonempty n) as H.
  destruct (decimal_N n) eqn:E; [congruence|]. rewrite <- E. apply uint_to_str_digits.
Qed.

Lemma num_ok_decimal_N n : num_ok (decimal_N n) = true.
Proof.
  pose proof (digits_ok_decimal n) as H.
  destruct (decimal_N n) as [|c r] eqn:E; [discriminate|].
  rewrite num_ok_cons. destruct (N.eqb_spec c 45) as [->|_]; [|exact H].
  apply decimal_N_head_digit in E. discriminate.
Qed.

Lemma num_lexeme_ok z : num_ok (decimal_Z z) = true.
Proof.
  destruct z as [|p|p]; unfold decimal_Z.
  - apply num_ok_decimal_N.
  - apply num_ok_decimal_N.
  - rewrite num_ok_cons. change (45 =? 45) with true. cbv iota. apply digits_ok_decimal.
Qed.

Lemma bool_lexeme_ok sty b : is_bool_word (bool_word sty b) = true.
Proof. unfold bool_word. destruct b, (sty_lower sty); reflexivity. Qed.

(* ---------- argument tokens ---------- *)
Definition tokv_ok (v : token) : bool :=
  match v with
  | TNum s => num_ok s | TBool s => is_bool_word s | TStr s => str_ok s | _ => false
  end.
Definition name_ok (n : str) : bool := is_id n && negb (is_bool_word n).
Definition carg_ok (a : carg) : bool :=
  match a with
  | CArgPos v => tokv_ok v
  | CArgNamed n v => name_ok n && tokv_ok v
  | CArgFlag n => name_ok n
  end.

Lemma tok_of_val_ok sty v : wf_val v = true -> tokv_ok (tok_of_val sty v) = true.
Proof.
  destruct v as [z|b|s]; cbn [tok_of_val tokv_ok wf_val]; intro H.
  - apply num_lexeme_ok.
  - apply bool_lexeme_ok.
  - apply str_lexeme_ok. apply negb_true_iff in H. exact H.
Qed.

Lemma carg_of_kw_ok sty k : wf_kw k = true -> carg_ok (carg_of_kw sty k) = true.
Proof.
  unfold wf_kw. intro H. apply andb_true_iff in H as [Hn Hv].
  fold (name_ok (fst k)) in Hn.
  assert (E : carg_ok (CArgNamed (fst k) (tok_of_val sty (snd k))) = true).
  { cbn [carg_ok]. rewrite Hn, (tok_of_val_ok sty _ Hv). reflexivity. }
  unfold carg_of_kw. destruct (snd k) as [z|[|]|s]; try exact E.
  destruct (sty_flag sty); [exact Hn|exact E].
Qed.

Lemma cargs_of_ok sty ar kw :
  forallb wf_val ar = true -> forallb wf_kw kw = true ->
  forallb carg_ok (cargs_of sty ar kw) = true.
Proof.
  intros Ha Hk. unfold cargs_of. apply forallb_interleave.
  - apply forallb_map_impl with (h := wf_val); [|exact Ha].
    intros v Hv. cbn [carg_ok]. apply tok_of_val_ok, Hv.
  - apply forallb_map_impl with (h := wf_kw); [|exact Hk].
    intros k Hk'. apply carg_of_kw_ok, Hk'.
Qed.

(* ---------- separator characters ---------- *)
Lemma digit_id_char c : is_digit c = true -> is_id_char c = true.
Proof. unfold is_id_char. intros ->. rewrite orb_true_r. reflexivity. Qed.

Lemma sep_not_digit o : opt_not is_id_char o = true -> opt_not is_digit o = true.
Proof.
  destruct o as [c|]; simpl; [|reflexivity]. intro H.
  destruct (is_digit c) eqn:E; [|reflexivity].
  rewrite (digit_id_char _ E) in H. discriminate.
Qed.

Lemma aws_not_id c : is_aws c = true -> is_id_char c = false.
Proof.
  unfold is_aws, is_gws. intro H.
  repeat (apply orb_true_iff in H; destruct H as [H|H]);
    apply N.eqb_eq in H; subst c; reflexivity.
Qed.

Lemma tokv_tok_ok v o :
  tokv_ok v = true -> opt_not is_id_char o = true -> tok_ok MArgs v o = true.
Proof.
  destruct v; cbn [tokv_ok tok_ok]; try discriminate; intros H1 H2; rewrite H1.
  - rewrite (sep_not_digit _ H2). reflexivity.
  - rewrite H2. reflexivity.
  - reflexivity.
Qed.

Lemma name_tok_ok n o :
  name_ok n = true -> opt_not is_id_char o = true -> tok_ok MArgs (TArgName n) o = true.
Proof. unfold name_ok. cbn [tok_ok]. intros -> ->. reflexivity. Qed.

(* ---------- blanks ---------- *)
Section Blanks.
Variable ws : str.
Hypothesis Hws : forallb is_aws ws = true.

Lemma lexable_ws R nxt : lexable MArgs (map TWs ws ++ R) nxt = lexable MArgs R nxt.
Proof.
  revert Hws. induction ws as [|c w IH]; intro H; [reflexivity|].
  cbn [forallb] in H. apply andb_true_iff in H as [Hc Hw].
  cbn [map app lexable tok_ok mode_after]. rewrite Hc. cbn [andb]. apply IH, Hw.
Qed.

Lemma first_char_cons t R nxt :
  first_char (t :: R) nxt =
  match lexeme t with c :: _ => Some c | [] => first_char R nxt end.
Proof. unfold first_char. rewrite chars_cons. destruct (lexeme t); reflexivity. Qed.

Lemma sep_ws R nxt :
  opt_not is_id_char (first_char R nxt) = true ->
  opt_not is_id_char (first_char (map TWs ws ++ R) nxt) = true.
Proof.
  intro H. destruct ws as [|c w]; [exact H|].
  cbn [forallb] in Hws. apply andb_true_iff in Hws as [Hc _].
  cbn [map app]. rewrite first_char_cons. cbn [lexeme opt_not].
  rewrite (aws_not_id _ Hc). reflexivity.
Qed.

Lemma lex_spaced t R nxt :
  mode_after MArgs t = MArgs ->
  (forall o, opt_not is_id_char o = true -> tok_ok MArgs t o = true) ->
  opt_not is_id_char (first_char R nxt) = true ->
  lexable MArgs R nxt = true ->
  lexable MArgs (t :: map TWs ws ++ R) nxt = true.
Proof.
  intros Hm Ht Hs HR. cbn [lexable]. rewrite Hm, lexable_ws, HR, Ht; [reflexivity|].
  apply sep_ws, Hs.
Qed.

Lemma lex_value v R nxt :
  tokv_ok v = true ->
  opt_not is_id_char (first_char R nxt) = true ->
  lexable MArgs R nxt = true ->
  lexable MArgs (spell ws [v] ++ R) nxt = true.
Proof.
  intros Hv Hs HR.
  assert (E : spell ws [v] ++ R = v :: map TWs ws ++ R).
  { destruct v; try discriminate; cbn [spell spaced_after app]; rewrite app_nil_r; reflexivity. }
  rewrite E. apply lex_spaced; auto.
  - destruct v; try discriminate; reflexivity.
  - intros o Ho. apply tokv_tok_ok; assumption.
Qed.

Lemma lex_argname n R nxt :
  name_ok n = true ->
  opt_not is_id_char (first_char R nxt) = true ->
  lexable MArgs R nxt = true ->
  lexable MArgs (TArgName n :: map TWs ws ++ R) nxt = true.
Proof.
  intros Hn Hs HR. apply lex_spaced; auto.
  intros o Ho. apply name_tok_ok; assumption.
Qed.

Lemma spell_cons_spaced t r :
  spaced_after t = true -> spell ws (t :: r) = t :: map TWs ws ++ spell ws r.
Proof. intro H. cbn [spell]. rewrite H. reflexivity. Qed.

Lemma lex_arg a R nxt :
  carg_ok a = true ->
  opt_not is_id_char (first_char R nxt) = true ->
  lexable MArgs R nxt = true ->
  lexable MArgs (spell ws (flatten_arg a) ++ R) nxt = true.
Proof.
  intros Ha Hs HR. destruct a as [v|n v|n]; cbn [carg_ok flatten_arg] in *.
  - apply lex_value; assumption.
  - apply andb_true_iff in Ha as [Hn Hv].
    rewrite (spell_cons_spaced (TArgName n)), (spell_cons_spaced TArgEq) by reflexivity.
    repeat (cbn [app]; rewrite <- app_assoc).
    apply lex_argname; [exact Hn|reflexivity|].
    cbn [lexable tok_ok mode_after andb]. rewrite lexable_ws.
    apply lex_value; assumption.
  - rewrite spell_cons_spaced by reflexivity. cbn [spell app].
    rewrite app_nil_r. apply lex_argname; assumption.
Qed.

Lemma sep_args_rest l R nxt :
  opt_not is_id_char (first_char R nxt) = true ->
  opt_not is_id_char (first_char (spell ws (flatten_args false l) ++ R) nxt) = true.
Proof.
  intro H. destruct l as [|a l]; [exact H|]. reflexivity.
Qed.

Lemma lex_args l : forall first R nxt,
  forallb carg_ok l = true ->
  opt_not is_id_char (first_char R nxt) = true ->
  lexable MArgs R nxt = true ->
  lexable MArgs (spell ws (flatten_args first l) ++ R) nxt = true.
Proof.
  induction l as [|a l IH]; intros first R nxt Hl Hs HR; [exact HR|].
  cbn [forallb] in Hl. apply andb_true_iff in Hl as [Ha Hl].
  cbn [flatten_args]. rewrite !spell_app, <- !app_assoc.
  assert (E : lexable MArgs
     (spell ws (flatten_arg a) ++ spell ws (flatten_args false l) ++ R) nxt = true).
  { apply lex_arg; [exact Ha|apply sep_args_rest, Hs|apply IH; assumption]. }
  destruct first; [exact E|].
  cbn [spell spaced_after app]. rewrite <- app_assoc. cbn [app lexable tok_ok mode_after andb].
  rewrite lexable_ws. exact E.
Qed.

End Blanks.

Lemma first_char_cons' t R nxt :
  first_char (t :: R) nxt =
  match lexeme t with c :: _ => Some c | [] => first_char R nxt end.
Proof. unfold first_char. rewrite chars_cons. destruct (lexeme t); reflexivity. Qed.

Lemma spell_plain ws t r : spaced_after t = false -> spell ws (t :: r) = t :: spell ws r.
Proof. intro H. cbn [spell]. rewrite H. reflexivity. Qed.

Lemma id_first_char n : is_id n = true -> exists c r, n = c :: r.
Proof. destruct n as [|c r]; [discriminate|]. eauto. Qed.

Lemma lex_name ws c n R nxt :
  wf_cat c = true -> is_id n = true ->
  opt_not is_id_char (first_char R nxt) = true ->
  lexable MTag R nxt = true ->
  lexable MTag (spell ws (flatten_name c n) ++ R) nxt = true.
Proof.
  intros Hc Hn Hs HR. destruct c as [s|]; cbn [flatten_name wf_cat] in *.
  - rewrite !spell_plain by reflexivity. cbn [spell app lexable tok_ok mode_after].
    rewrite Hc, Hn, Hs, HR. rewrite first_char_cons'. reflexivity.
  - rewrite !spell_plain by reflexivity. cbn [spell app lexable tok_ok mode_after].
    rewrite Hn, Hs, HR. reflexivity.
Qed.

Lemma text_follow s o :
  last_is_backslash s = false -> opt_not text_plain o = true ->
  opt_not (fun c => text_plain c || (is_meta3 c && last_is_backslash s)) o = true.
Proof.
  intros H Ho. destruct o as [c|]; [|reflexivity]. cbn [opt_not] in *.
  rewrite H, andb_false_r, orb_false_r. exact Ho.
Qed.

Section Main.
Variable sty : style.
Hypothesis Hsty : wf_style sty = true.
Local Notation ws := (sty_ws sty).

Lemma lex_ctx_tail m x R nxt :
  (m = MTag \/ m = MDefault) ->
  (forall R' nxt', opt_not text_plain (first_char R' nxt') = true ->
     lexable MDefault R' nxt' = true ->
     lexable MDefault (spell ws (flatten_pat (cst_of_pat sty x)) ++ R') nxt' = true) ->
  lexable MDefault R nxt = true ->
  lexable m (spell ws (TCtxStart :: flatten_pat (cst_of_pat sty x) ++ [TCtxEnd]) ++ R) nxt = true.
Proof.
  intros Hm IH HR. rewrite spell_plain by reflexivity. rewrite spell_app.
  cbn [app]. rewrite <- app_assoc. cbn [spell spaced_after app].
  assert (E : lexable MDefault
    (spell ws (flatten_pat (cst_of_pat sty x)) ++ TCtxEnd :: R) nxt = true).
  { apply IH; [reflexivity|]. cbn [lexable tok_ok mode_after andb]. exact HR. }
  destruct Hm as [-> | ->]; cbn [lexable tok_ok mode_after andb]; exact E.
Qed.

Lemma print_lexable_mut :
  (forall e R nxt, wf_ast e = true ->
     (is_raw e = true -> opt_not text_plain (first_char R nxt) = true) ->
     lexable MDefault R nxt = true ->
     lexable MDefault (spell ws (flatten_elem (cst_of_ast sty e)) ++ R) nxt = true) /\
  (forall p R nxt, wf_pat p = true ->
     opt_not text_plain (first_char R nxt) = true ->
     lexable MDefault R nxt = true ->
     lexable MDefault (spell ws (flatten_pat (cst_of_pat sty p)) ++ R) nxt = true).
Proof.
  apply ast_pat_ind.
  - (* RawText *)
    intros s R nxt Hwf Hf HR. cbn [wf_ast] in Hwf.
    destruct (text_lexeme_ok s Hwf) as [H1 H2].
    cbn [cst_of_ast flatten_elem spell spaced_after app lexable tok_ok mode_after].
    rewrite H1, HR, (text_follow _ _ H2 (Hf eq_refl)). reflexivity.
  - (* Tag *)
    intros c n ar kw h x IH R nxt Hwf _ HR. rewrite cst_of_ast_tag.
    cbn [wf_ast] in Hwf.
    apply andb_true_iff in Hwf as [Hwf Hx]. apply andb_true_iff in Hwf as [Hwf _].
    apply andb_true_iff in Hwf as [Hwf Hkw]. apply andb_true_iff in Hwf as [Hwf Har].
    apply andb_true_iff in Hwf as [Hc Hn].
    cbn [flatten_elem]. rewrite spell_plain by reflexivity.
    rewrite !spell_app. cbn [app lexable tok_ok mode_after andb].
    rewrite <- !app_assoc.
    (* the context part *)
    assert (HC : forall m, (m = MDefault \/ (m = MTag /\ h = true)) ->
      lexable m (spell ws (if h then TCtxStart :: flatten_pat (cst_of_pat sty x) ++ [TCtxEnd]
                           else []) ++ R) nxt = true).
    { intros m Hm. destruct h.
      - apply lex_ctx_tail; [tauto| |exact HR].
        intros R' nxt' H1 H2. apply IH; assumption.
      - destruct Hm as [->|[_ Hm]]; [exact HR|discriminate]. }
    destruct (args_of_cases sty ar kw h) as [[E Hh]|E]; rewrite E.
    + (* no parentheses: the context follows the name *)
      subst h. cbn [flatten_arglist]. change (spell ws []) with (@nil token). cbn [app].
      apply lex_name; try assumption.
      * rewrite spell_plain by reflexivity. reflexivity.
      * apply HC. right; split; reflexivity.
    + cbn [flatten_arglist]. rewrite spell_cons_spaced by reflexivity.
      rewrite spell_app. cbn [app]. rewrite <- !app_assoc.
      apply lex_name; try assumption; [reflexivity|].
      cbn [lexable tok_ok mode_after andb]. rewrite (lexable_ws ws Hsty).
      apply (lex_args ws Hsty).
      * apply cargs_of_ok; assumption.
      * reflexivity.
      * cbn [spell spaced_after app lexable tok_ok mode_after andb].
        apply HC. left; reflexivity.
  - (* PNil *)
    intros R nxt _ _ HR. exact HR.
  - (* PCons *)
    intros e IHe p IHp R nxt Hwf Hf HR. cbn [wf_pat] in Hwf.
    apply andb_true_iff in Hwf as [Hwf Hp]. apply andb_true_iff in Hwf as [He Hadj].
    cbn [cst_of_pat flatten_pat]. rewrite spell_app, <- app_assoc.
    apply IHe; [exact He| |apply IHp; assumption].
    intro Hraw. rewrite Hraw in Hadj. cbn [andb] in Hadj.
    destruct p as [|e' p']; [exact Hf|].
    cbn [pat_head_raw] in Hadj. destruct e' as [s'|c' n' ar' kw' h' x']; [discriminate|].
    reflexivity.
Qed.

Lemma print_lexable_sec p : wf_pat p = true ->
  lexable MDefault (spell ws (flatten_pat (cst_of_pat sty p))) None = true.
Proof.
  intro H. pose proof (proj2 print_lexable_mut p [] None H eq_refl eq_refl) as E.
  rewrite app_nil_r in E. exact E.
Qed.

End Main.

(* (Q1) *)
Theorem print_lexable sty p : wf_style sty = true -> wf_pat p = true ->
  lexable MDefault (spell (sty_ws sty) (flatten_pat (cst_of_pat sty p))) None = true.
Proof. intros Hs Hp. exact (print_lexable_sec sty Hs p Hp). Qed.

(* the same with an arbitrary continuation: the printed tokens of a well-formed pattern,
   followed by tokens [R] and then the character [nxt], are lexable when [R] is and the
   first character after the pattern does not continue a TEXT run *)
Lemma print_lexable_cont sty p R nxt : wf_style sty = true -> wf_pat p = true ->
  opt_not text_plain (first_char R nxt) = true ->
  lexable MDefault R nxt = true ->
  lexable MDefault (spell (sty_ws sty) (flatten_pat (cst_of_pat sty p)) ++ R) nxt = true.
Proof. intros Hs Hp. exact (proj2 (print_lexable_mut sty Hs) p R nxt Hp). Qed.

(* ---------- the lexer mode after a printed pattern ---------------------------------------- *)

Lemma final_mode_print_mut sty :
  (forall e, final_mode MDefault (spell (sty_ws sty) (flatten_elem (cst_of_ast sty e))) = MDefault) /\
  (forall p, final_mode MDefault (spell (sty_ws sty) (flatten_pat (cst_of_pat sty p))) = MDefault).
Proof.
  apply ast_pat_ind.
  - reflexivity.
  - intros c n ar kw h x IH. rewrite cst_of_ast_tag. cbn [flatten_elem].
    change (TTagStart :: ?a) with ([TTagStart] ++ a).
    rewrite !spell_app, !final_mode_app.
    change (final_mode MDefault (spell (sty_ws sty) [TTagStart])) with MTag.
    replace (final_mode MTag (spell (sty_ws sty) (flatten_name c n))) with MTag
      by (destruct c; reflexivity).
    assert (HC : forall m, (m = MDefault \/ (m = MTag /\ h = true)) ->
      final_mode m (spell (sty_ws sty)
        (if h then TCtxStart :: flatten_pat (cst_of_pat sty x) ++ [TCtxEnd] else [])) = MDefault).
    { intros m Hm. destruct h.
      - change (TCtxStart :: ?a ++ [TCtxEnd]) with ([TCtxStart] ++ a ++ [TCtxEnd]).
        rewrite !spell_app, !final_mode_app.
        replace (final_mode m (spell (sty_ws sty) [TCtxStart])) with MDefault
          by (destruct Hm as [->|[-> _]]; reflexivity).
        rewrite IH. reflexivity.
      - destruct Hm as [->|[_ Hm]]; [reflexivity|discriminate]. }
    destruct (args_of_cases sty ar kw h) as [[E Hh]|E]; rewrite E.
    + apply HC. right; split; [reflexivity|exact Hh].
    + cbn [flatten_arglist].
      change (TArgsStart :: ?a ++ [TArgsEnd]) with ([TArgsStart] ++ a ++ [TArgsEnd]).
      rewrite !spell_app, !final_mode_app.
      change (spell (sty_ws sty) [TArgsEnd]) with [TArgsEnd].
      match goal with |- context [final_mode ?m0 [TArgsEnd]] =>
        change (final_mode m0 [TArgsEnd]) with MDefault end.
      apply HC. left; reflexivity.
  - reflexivity.
  - intros e IHe p IHp. cbn [cst_of_pat flatten_pat].
    rewrite spell_app, final_mode_app, IHe, IHp. reflexivity.
Qed.

Lemma final_mode_print sty p :
  final_mode MDefault (spell (sty_ws sty) (flatten_pat (cst_of_pat sty p))) = MDefault.
Proof. apply final_mode_print_mut. Qed.
