(* Proofs that the concrete world of Tpl/AliasExamples.v meets the hypotheses of the C15 theorems. *)
From Tempren Require Import Base.Str Py.PathLib Py.Repr Tpl.Registry Tpl.Signature
  Tpl.Alias Tpl.AliasProofs Tpl.AliasExamples.
Open Scope N_scope.

Lemma uses_top reg al f q a hc ctx p :
  In (UTag q a hc ctx) p -> get reg q = ROk f -> alias_find f al <> None -> uses reg al f p.
Proof. intros Hin G AF. exists q, a, hc, ctx. repeat split; auto. apply occ_here; auto. Qed.

Lemma ex_cycle_closed_proof :
  closed_under_use ex_reg ex_aliases (fun g => g = 7 \/ g = 8) /\
  uses ex_reg ex_aliases 7 [URaw [97]; tag0 s_Ping].
Proof.
  split.
  - intros f [->| ->].
    + exists body_Ping, 8. repeat split; [| right; reflexivity].
      eapply (uses_top _ _ 8 (None, s_Pong) no_a false []); [left; reflexivity|reflexivity|].
      vm_compute. discriminate.
    + exists body_Pong, 7. repeat split; [| left; reflexivity].
      eapply (uses_top _ _ 7 (None, s_Ping) no_a false []); [right; left; reflexivity|reflexivity|].
      vm_compute. discriminate.
  - eapply (uses_top _ _ 7 (None, s_Ping) no_a false []); [right; left; reflexivity|reflexivity|].
    vm_compute. discriminate.
Qed.
