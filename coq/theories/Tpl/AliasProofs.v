(* Proofs about Tpl/Alias.v (property C15). *)
From Tempren Require Import Base.Str Py.PathLib Py.Repr Tpl.Registry Tpl.Signature Tpl.Alias.
Open Scope N_scope.

(* ---------- induction principles for the nested trees ----------------------------------- *)

Section UtreeInd.
  Variable P : utree -> Prop.
  Hypothesis Hraw : forall s, P (URaw s).
  Hypothesis Htag : forall q a hc ctx, Forall P ctx -> P (UTag q a hc ctx).

  Fixpoint utree_ind' (t : utree) : P t :=
    match t with
    | URaw s => Hraw s
    | UTag q a hc ctx =>
      Htag q a hc ctx
        ((fix go (l : list utree) : Forall P l :=
            match l with
            | [] => Forall_nil P
            | x :: l' => Forall_cons x (utree_ind' x) (go l')
            end) ctx)
    end.
End UtreeInd.

Section BtreeInd.
  Variable state : Type.
  Variable P : btree state -> Prop.
  Hypothesis Hraw : forall s, P (BRaw s).
  Hypothesis Htag : forall f a st hc ctx, Forall P ctx -> P (BTag f a st hc ctx).
  Hypothesis Halias : forall body, Forall P body -> P (BAlias body).

  Fixpoint btree_ind' (t : btree state) : P t :=
    let go := fix go (l : list (btree state)) : Forall P l :=
                match l with
                | [] => Forall_nil P
                | x :: l' => Forall_cons x (btree_ind' x) (go l')
                end in
    match t with
    | BRaw s => Hraw s
    | BTag f a st hc ctx => Htag f a st hc ctx (go ctx)
    | BAlias body => Halias body (go body)
    end.
End BtreeInd.

(* ---------- the registry lookup never answers "invalid registry" ------------------------- *)

Lemma get_not_invalid r q : get r q <> RInvalidRegistry.
Proof.
  unfold get, get_bare, get_qualified. destruct (fst q) as [c|].
  - destruct (find_category c r) as [x|]; [destruct (find_tag (snd q) (cat_tags x))|]; discriminate.
  - destruct (found_in (snd q) r) as [|[? ?] [|? ?]]; discriminate.
Qed.

Lemma exc_of_lookup_template r q :
  (forall f, get r q <> ROk f) -> is_template_error (exc_of_lookup (get r q)) = true.
Proof.
  intros H. pose proof (get_not_invalid r q) as Hi.
  destruct (get r q); try reflexivity.
  - exfalso; eapply H; reflexivity.
  - exfalso; apply Hi; reflexivity.
Qed.

Lemma exc_of_reject_template c : is_template_error (exc_of_reject c) = true.
Proof. destruct c; reflexivity. Qed.

(* ---------- map_res / flat_map_opt -------------------------------------------------------- *)

Definition res_map {A B : Type} (g : A -> B) (r : exc + A) : exc + B :=
  match r with
  | inl e => inl e
  | inr x => inr (g x)
  end.

Lemma map_res_app {A B} (f : A -> exc + B) l1 l2 :
  map_res f (l1 ++ l2) =
  match map_res f l1 with
  | inl e => inl e
  | inr y1 =>
    match map_res f l2 with
    | inl e => inl e
    | inr y2 => inr (y1 ++ y2)
    end
  end.
Proof.
  induction l1 as [|x l1 IH]; simpl.
  - destruct (map_res f l2); reflexivity.
  - destruct (f x); [reflexivity|]. rewrite IH.
    destruct (map_res f l1); [reflexivity|]. destruct (map_res f l2); reflexivity.
Qed.

Lemma map_res_ok_in {A B} (f : A -> exc + B) l ys x :
  map_res f l = inr ys -> In x l -> exists y, f x = inr y.
Proof.
  revert ys; induction l as [|z l IH]; simpl; intros ys H Hin; [contradiction|].
  destruct (f z) eqn:Fz; [discriminate|].
  destruct (map_res f l) eqn:M; [discriminate|].
  destruct Hin as [->|Hin]; [eauto | eapply IH; eauto].
Qed.

Lemma map_res_err {A B} (f : A -> exc + B) (P : exc -> Prop) l e :
  (forall x e', In x l -> f x = inl e' -> P e') -> map_res f l = inl e -> P e.
Proof.
  induction l as [|z l IH]; simpl; intros H M; [discriminate|].
  destruct (f z) eqn:Fz.
  - inversion M; subst. eapply H; eauto.
  - destruct (map_res f l) eqn:M'; [|discriminate]. inversion M; subst.
    apply IH; auto. intros; eapply H; eauto.
Qed.

Lemma map_res_fails {A B} (f : A -> exc + B) l x e :
  In x l -> f x = inl e -> exists e', map_res f l = inl e'.
Proof.
  induction l as [|z l IH]; simpl; intros Hin Fx; [contradiction|].
  destruct Hin as [->|Hin].
  - rewrite Fx; eauto.
  - destruct (f z); [eauto|]. destruct (IH Hin Fx) as [e' ->]. eauto.
Qed.

Lemma flat_map_opt_in {A B} (f : A -> option (list B)) l h x :
  flat_map_opt f l = Some h -> In x l -> exists hx, f x = Some hx.
Proof.
  revert h; induction l as [|z l IH]; simpl; intros h H Hin; [contradiction|].
  destruct (f z) eqn:Fz; [|discriminate].
  destruct (flat_map_opt f l) eqn:M; [|discriminate].
  destruct Hin as [->|Hin]; [eauto | eapply IH; eauto].
Qed.

(* ======================================================================================== *)

Section AliasFacts.
  Variable state : Type.
  Variable file : Type.
  Variable reg : registry.
  Variable tag_check : fid -> targs -> bool -> outcome.
  Variable tag_init : fid -> targs -> state.
  Variable sem : fid -> targs -> state -> file -> option str -> tout * state.

  Notation btree := (btree state).
  Notation bpat := (bpat state).
  Notation bind_with := (bind_with state reg tag_check tag_init).
  Notation expander := (expander state reg tag_check tag_init).
  Notation bind_el := (bind_el state reg tag_check tag_init).
  Notation bind_list := (bind_list state reg tag_check tag_init).
  Notation inline_with := (inline_with reg).
  Notation inliner := (inliner reg).
  Notation inline_el := (inline_el reg).
  Notation inline_list := (inline_list reg).
  Notation flatten_el := (flatten_el state).
  Notation flatten := (flatten state).
  Notation flatten_below := (flatten_below state).
  Notation render_el := (render_el state file sem).
  Notation render_list := (render_list state file sem).
  Notation render_expr := (render_expr state file sem).
  Notation run_names := (run_names state file sem).
  Notation run_exprs := (run_exprs state file sem).
  Notation fold_pieces := (fold_pieces state).
  Notation conv_str := (conv_str state).
  Notation conv_repr := (conv_repr state).
  Notation occurs := occurs.

  (* ---------- 1. binding the inlined tree gives the flattened bound tree ---------------- *)

  Lemma flatten_app (l1 l2 : bpat) : flatten (l1 ++ l2) = flatten l1 ++ flatten l2.
  Proof. unfold flatten. apply flat_map_app. Qed.

  Section Step.
    Variable al : atable.
    Variable eb : option upat -> exc + bpat.
    Variable ei : option upat -> option upat.
    Hypothesis Hexp : forall body h, ei body = Some h -> bind_list 0 [] h = res_map flatten (eb body).

    Lemma bind_inline_list_from :
      forall l,
        Forall (fun t => forall h, inline_with al ei t = Some h ->
                                   bind_list 0 [] h = res_map flatten_el (bind_with al eb t)) l ->
        forall h, flat_map_opt (inline_with al ei) l = Some h ->
                  bind_list 0 [] h = res_map flatten (map_res (bind_with al eb) l).
    Proof.
      induction 1 as [|t l Ht Hl IH]; simpl; intros h H.
      - inversion H; subst. reflexivity.
      - destruct (inline_with al ei t) as [ht|] eqn:It; [|discriminate].
        destruct (flat_map_opt (inline_with al ei) l) as [hl|] eqn:Il; [|discriminate].
        inversion H; subst. unfold bind_list in *. rewrite map_res_app.
        rewrite (Ht _ eq_refl), (IH _ eq_refl).
        destruct (bind_with al eb t); simpl; [reflexivity|].
        destruct (map_res (bind_with al eb) l); simpl; reflexivity.
    Qed.

    Lemma bind_inline_el_step :
      forall t h, inline_with al ei t = Some h ->
                  bind_list 0 [] h = res_map flatten_el (bind_with al eb t).
    Proof.
      induction t as [s|q a hc ctx IH] using utree_ind'; intros h H.
      - simpl in H. inversion H; subst. reflexivity.
      - simpl in H. simpl bind_with.
        destruct (get reg q) as [f| | | |] eqn:G;
          try (destruct hc;
               [destruct (flat_map_opt (inline_with al ei) ctx) as [c|]; [|discriminate]|];
               inversion H; subst; unfold bind_list, Alias.bind_list, Alias.bind_el; simpl;
               rewrite G; reflexivity).
        destruct (alias_find f al) as [body|] eqn:AF.
        + destruct (no_args a) eqn:NA; simpl in H; [|discriminate].
          destruct hc; simpl in H; [discriminate|].
          rewrite (Hexp _ _ H). destruct (eb body); reflexivity.
        + destruct hc.
          * destruct (flat_map_opt (inline_with al ei) ctx) as [c|] eqn:IC; [|discriminate].
            inversion H; subst.
            pose proof (bind_inline_list_from ctx IH c IC) as HC.
            unfold bind_list, Alias.bind_list, Alias.bind_el in *. simpl. rewrite G. simpl.
            destruct (tag_check f a true); [|reflexivity].
            cbn [Alias.expander] in HC. rewrite HC. destruct (map_res (bind_with al eb) ctx); reflexivity.
          * inversion H; subst.
            unfold bind_list, Alias.bind_list, Alias.bind_el. simpl. rewrite G. simpl.
            destruct (tag_check f a false); reflexivity.
    Qed.

    Lemma bind_inline_list_step :
      forall l h, flat_map_opt (inline_with al ei) l = Some h ->
                  bind_list 0 [] h = res_map flatten (map_res (bind_with al eb) l).
    Proof.
      intros l h H. apply bind_inline_list_from; auto.
      apply Forall_forall. intros t _. apply bind_inline_el_step.
    Qed.
  End Step.

  Lemma expander_inliner :
    forall fuel al body h,
      inliner fuel al body = Some h ->
      bind_list 0 [] h = res_map flatten (expander fuel al body).
  Proof.
    induction fuel as [|n IH]; intros al body h H; simpl in H; [discriminate|].
    destruct body as [p|]; [|discriminate]. simpl.
    eapply bind_inline_list_step; eauto.
  Qed.

  (* the binder commutes with inlining: same error, or the flattened bound tree *)
  Theorem bind_inline :
    forall fuel al host h,
      inline_list fuel al host = Some h ->
      bind_list 0 [] h = res_map flatten (bind_list fuel al host).
  Proof.
    intros fuel al host h H. unfold inline_list, Alias.inline_list, Alias.inline_el in H.
    unfold bind_list at 2, Alias.bind_list, Alias.bind_el.
    eapply bind_inline_list_step; eauto. intros; apply expander_inliner; auto.
  Qed.

  (* ---------- 2. rendering the flattened tree -------------------------------------------- *)

  Section RenderFacts.
    Variable printable : N -> bool.
    Variable fl : file.

    Lemma fold_pieces_app conv (f : btree -> (exc + value) * btree) l1 l2 :
      fold_pieces conv f (l1 ++ l2) =
      match fold_pieces conv f l1 with
      | (inl e, l1') => (inl e, l1' ++ l2)
      | (inr s1, l1') =>
        match fold_pieces conv f l2 with
        | (inl e, l2') => (inl e, l1' ++ l2')
        | (inr s2, l2') => (inr (s1 ++ s2), l1' ++ l2')
        end
      end.
    Proof.
      induction l1 as [|x l1 IH]; simpl.
      - destruct (fold_pieces conv f l2) as [[e|s] l2']; reflexivity.
      - destruct (f x) as [[e|v] x']; [reflexivity|]. rewrite IH.
        destruct (fold_pieces conv f l1) as [[e|s1] l1']; [reflexivity|].
        destruct (fold_pieces conv f l2) as [[e|s2] l2']; [reflexivity|].
        rewrite app_assoc. reflexivity.
    Qed.

    Definition el_statement (b : btree) : Prop :=
      render_list fl (flatten_el b) =
      match render_el fl b with
      | (inl e, b') => (inl e, flatten_el b')
      | (inr v, b') => (inr (py_str v), flatten_el b')
      end.

    Lemma render_flatten_from :
      forall l, Forall el_statement l ->
        render_list fl (flatten l) =
        (fst (render_list fl l), flatten (snd (render_list fl l))).
    Proof.
      induction 1 as [|b l Hb Hl IH]; [reflexivity|].
      change (flatten (b :: l)) with (flatten_el b ++ flatten l).
      unfold render_list, Alias.render_list in *. rewrite fold_pieces_app.
      red in Hb. unfold render_list, Alias.render_list in Hb. rewrite Hb, IH. simpl.
      destruct (render_el fl b) as [[e|v] b']; [reflexivity|].
      destruct (fold_pieces conv_str (render_el fl) l) as [[e|s] l']; reflexivity.
    Qed.

    Lemma render_flatten_el : forall b, el_statement b.
    Proof.
      induction b as [s|f a st hc ctx IH|body IH] using btree_ind'; red.
      - simpl. unfold render_list, Alias.render_list. simpl. rewrite app_nil_r. reflexivity.
      - pose proof (render_flatten_from ctx IH) as HC.
        unfold render_list, Alias.render_list in *. simpl flatten_el.
        cbn [Alias.fold_pieces Alias.render_el]. destruct hc.
        + fold (flatten ctx). rewrite HC.
          destruct (fold_pieces conv_str (render_el fl) ctx) as [[e|c] ctx']; simpl; [reflexivity|].
          destruct (sem f a st fl (Some c)) as [o st']. destruct o; simpl; try reflexivity.
          * rewrite app_nil_r; reflexivity.
        + destruct (sem f a st fl None) as [o st']. destruct o; simpl; try reflexivity.
          * rewrite app_nil_r; reflexivity.
      - pose proof (render_flatten_from body IH) as HB.
        simpl flatten_el. fold (flatten body). rewrite HB.
        unfold render_list, Alias.render_list. cbn [Alias.render_el].
        destruct (fold_pieces conv_str (render_el fl) body) as [[e|s] body']; reflexivity.
    Qed.

    (* name mode: the alias-bound tree and its flattening render alike and stay related *)
    Theorem render_flatten :
      forall l, render_list fl (flatten l) =
                (fst (render_list fl l), flatten (snd (render_list fl l))).
    Proof.
      intros l. apply render_flatten_from. apply Forall_forall. intros; apply render_flatten_el.
    Qed.

    (* what one element contributes in name mode is unchanged by flattening below it *)
    Lemma render_el_flatten_below :
      forall b, render_el fl (flatten_below b) =
                (fst (render_el fl b), flatten_below (snd (render_el fl b))).
    Proof.
      destruct b as [s|f a st hc ctx|body]; simpl.
      - reflexivity.
      - destruct hc.
        + pose proof (render_flatten ctx) as HC. unfold render_list, Alias.render_list in HC.
          rewrite HC.
          destruct (fold_pieces conv_str (render_el fl) ctx) as [[e|c] ctx']; simpl; [reflexivity|].
          destruct (sem f a st fl (Some c)) as [o st']; reflexivity.
        + destruct (sem f a st fl None) as [o st']; reflexivity.
      - pose proof (render_flatten body) as HB. unfold render_list, Alias.render_list in HB.
        rewrite HB.
        destruct (fold_pieces conv_str (render_el fl) body) as [[e|s] body']; reflexivity.
    Qed.

    Lemma conv_repr_flatten_below b v : conv_repr printable (flatten_below b) v = conv_repr printable b v.
    Proof. destruct b; reflexivity. Qed.

    (* expression mode: only the aliases below the top level can be written in place *)
    Theorem render_expr_flatten_below :
      forall l, render_expr printable fl (map flatten_below l) =
                (fst (render_expr printable fl l), map flatten_below (snd (render_expr printable fl l))).
    Proof.
      unfold render_expr, Alias.render_expr.
      induction l as [|b l IH]; [reflexivity|].
      simpl. rewrite render_el_flatten_below, IH.
      destruct (render_el fl b) as [[e|v] b']; simpl; [reflexivity|].
      destruct (fold_pieces (conv_repr printable) (render_el fl) l) as [[e|s] l']; simpl; [reflexivity|].
      rewrite conv_repr_flatten_below. reflexivity.
    Qed.

    (* a top-level alias occurrence contributes repr of ONE str: the text its pattern,
       written in place, renders to *)
    Theorem render_expr_alias :
      forall body rest,
        render_expr printable fl (BAlias body :: rest) =
        match render_list fl (flatten body) with
        | (inl e, _) => (inl e, BAlias (snd (render_list fl body)) :: rest)
        | (inr s, _) =>
          match render_expr printable fl rest with
          | (inl e, rest') => (inl e, BAlias (snd (render_list fl body)) :: rest')
          | (inr r, rest') =>
            (inr (py_repr_str printable s ++ r), BAlias (snd (render_list fl body)) :: rest')
          end
        end.
    Proof.
      intros body rest. rewrite render_flatten.
      unfold render_expr, Alias.render_expr, render_list, Alias.render_list. simpl.
      destruct (fold_pieces conv_str (render_el fl) body) as [[e|s] body']; simpl; [reflexivity|].
      destruct (fold_pieces (conv_repr printable) (render_el fl) rest) as [[e|r] rest']; reflexivity.
    Qed.
  End RenderFacts.

  (* whole runs *)
  Theorem run_names_flatten :
    forall files b, run_names files (flatten b) = run_names files b.
  Proof.
    induction files as [|fl files IH]; intros b; [reflexivity|].
    simpl. rewrite render_flatten.
    destruct (render_list fl b) as [r b']. simpl. rewrite IH. reflexivity.
  Qed.

  Theorem run_exprs_flatten_below :
    forall printable files b,
      run_exprs printable files (map flatten_below b) = run_exprs printable files b.
  Proof.
    induction files as [|fl files IH]; intros b; [reflexivity|].
    simpl. rewrite render_expr_flatten_below.
    destruct (render_expr printable fl b) as [r b']. simpl. rewrite IH. reflexivity.
  Qed.

  (* ---------- 3. every binder error is a template error ----------------------------------- *)

  Section Errors.
    Variable al : atable.
    Variable eb : option upat -> exc + bpat.
    Hypothesis Heb : forall body e, eb body = inl e -> is_template_error e = true.

    Lemma bind_with_template :
      forall t e, bind_with al eb t = inl e -> is_template_error e = true.
    Proof.
      induction t as [s|q a hc ctx IH] using utree_ind'; intros e H; simpl in H; [discriminate|].
      destruct (get reg q) as [f| | | |] eqn:G;
        try (inversion H; subst; reflexivity).
      - destruct (alias_find f al) as [body|].
        + destruct (eb body) eqn:E; [inversion H; subst; eauto|].
          destruct (no_args a); [destruct hc|]; inversion H; reflexivity.
        + destruct (tag_check f a hc); [|inversion H; apply exc_of_reject_template].
          destruct hc; [|discriminate].
          destruct (map_res (bind_with al eb) ctx) eqn:M; [|discriminate].
          inversion H; subst.
          apply (map_res_err (bind_with al eb) (fun e => is_template_error e = true) ctx e); [|exact M].
          intros x e' Hin Hx. rewrite Forall_forall in IH. eapply IH; eauto.
      - exfalso. eapply get_not_invalid; eauto.
    Qed.
  End Errors.

  Lemma expander_template :
    forall fuel al body e, expander fuel al body = inl e -> is_template_error e = true.
  Proof.
    induction fuel as [|n IH]; intros al body e H; simpl in H.
    - inversion H; reflexivity.
    - destruct body as [p|]; [|inversion H; reflexivity].
      apply (map_res_err (bind_with al (expander n al)) (fun e => is_template_error e = true) p e); [|exact H].
      intros x e' _ Hx. eapply bind_with_template; eauto.
  Qed.

  Theorem bind_el_template :
    forall fuel al t e, bind_el fuel al t = inl e -> is_template_error e = true.
  Proof.
    intros. eapply bind_with_template; eauto. intros; eapply expander_template; eauto.
  Qed.

  Theorem bind_list_template :
    forall fuel al p e, bind_list fuel al p = inl e -> is_template_error e = true.
  Proof.
    intros fuel al p e H.
    apply (map_res_err (bind_el fuel al) (fun e => is_template_error e = true) p e); [|exact H].
    intros x e' _ Hx. eapply bind_el_template; eauto.
  Qed.

  (* ---------- 4. an occurrence that cannot be bound sinks the whole template -------------- *)

  Lemma bind_el_ctx_ok :
    forall fuel al q a ctx b,
      bind_el fuel al (UTag q a true ctx) = inr b -> exists bc, bind_list fuel al ctx = inr bc.
  Proof.
    intros fuel al q a ctx b H. unfold bind_el, Alias.bind_el in H. simpl in H.
    destruct (get reg q) as [f| | | |]; try discriminate.
    destruct (alias_find f al) as [body|].
    - destruct (expander fuel al body); [discriminate|]. destruct (no_args a); discriminate.
    - destruct (tag_check f a true); [|discriminate].
      unfold bind_list, Alias.bind_list, Alias.bind_el.
      destruct (map_res (bind_with al (expander fuel al)) ctx); [discriminate|eauto].
  Qed.

  Lemma bind_ok_occurs :
    forall fuel al x p, occurs x p ->
      forall b, bind_list fuel al p = inr b -> exists bx, bind_el fuel al x = inr bx.
  Proof.
    induction 1 as [l Hin|q a ctx l Hin Hocc IH]; intros b H.
    - eapply map_res_ok_in; eauto.
    - destruct (map_res_ok_in _ _ _ _ H Hin) as [bt Ht].
      destruct (bind_el_ctx_ok _ _ _ _ _ _ Ht) as [bc Hc]. eauto.
  Qed.

  Theorem occurrence_rejected :
    forall fuel al x p,
      occurs x p -> (exists e, bind_el fuel al x = inl e) ->
      exists e, bind_list fuel al p = inl e /\ is_template_error e = true.
  Proof.
    intros fuel al x p Hocc [e He].
    destruct (bind_list fuel al p) as [e'|b] eqn:B.
    - exists e'. split; [reflexivity|]. eapply bind_list_template; eauto.
    - destruct (bind_ok_occurs _ _ _ _ Hocc _ B) as [bx Hx]. congruence.
  Qed.

  (* ---------- 5. arguments and contexts ---------------------------------------------------- *)

  Theorem alias_no_args_no_context :
    forall fuel al q a hc ctx f,
      get reg q = ROk f -> alias_find f al <> None ->
      no_args a = false \/ hc = true ->
      exists e, bind_el fuel al (UTag q a hc ctx) = inl e /\ is_template_error e = true.
  Proof.
    intros fuel al q a hc ctx f G AF Bad.
    destruct (bind_el fuel al (UTag q a hc ctx)) as [e|b] eqn:B.
    - exists e; split; [reflexivity|]. eapply bind_el_template; eauto.
    - exfalso. unfold bind_el, Alias.bind_el in B. simpl in B. rewrite G in B.
      destruct (alias_find f al) as [body|]; [|congruence].
      destruct (expander fuel al body); [discriminate|].
      destruct Bad as [Na|Hc].
      + rewrite Na in B. discriminate.
      + subst hc. destruct (no_args a); discriminate.
  Qed.

  (* what exactly is raised when the pattern itself is fine *)
  Lemma alias_args_class :
    forall fuel al q a hc ctx f body bp,
      get reg q = ROk f -> alias_find f al = Some body -> expander fuel al body = inr bp ->
      bind_el fuel al (UTag q a hc ctx) =
      if no_args a then (if hc then inl ExContextForbidden else inr (BAlias bp))
      else inl ExTagConfiguration.
  Proof.
    intros. unfold bind_el, Alias.bind_el. simpl. rewrite H, H0, H1. reflexivity.
  Qed.

  (* ---------- 6. invalid and cyclic aliases -------------------------------------------------- *)

  (* an alias occurrence binds only if the alias pattern binds with one unit of fuel less *)
  Lemma alias_occurrence_ok :
    forall fuel al q a hc ctx f body b,
      get reg q = ROk f -> alias_find f al = Some body ->
      bind_el fuel al (UTag q a hc ctx) = inr b ->
      exists n p bp, fuel = S n /\ body = Some p /\ bind_list n al p = inr bp.
  Proof.
    intros fuel al q a hc ctx f body b G AF B.
    unfold bind_el, Alias.bind_el in B. simpl in B. rewrite G, AF in B.
    destruct fuel as [|n]; simpl in B; [discriminate|].
    destruct body as [p|]; [|discriminate].
    fold (Alias.bind_el state reg tag_check tag_init n al) in B.
    fold (Alias.bind_list state reg tag_check tag_init n al p) in B.
    destruct (bind_list n al p) as [e|bp] eqn:Bp; [discriminate|].
    exists n, p, bp. auto.
  Qed.

  (* [bad al f]: no occurrence of the alias with factory f can be bound, whatever the fuel *)
  Definition bad (al : atable) (f : fid) : Prop :=
    forall fuel q a hc ctx, get reg q = ROk f ->
      exists e, bind_el fuel al (UTag q a hc ctx) = inl e.

  (* the pattern text does not parse *)
  Lemma bad_unparsable al f : alias_find f al = Some None -> bad al f.
  Proof.
    intros AF fuel q a hc ctx G.
    destruct (bind_el fuel al (UTag q a hc ctx)) as [e|b] eqn:B; [eauto|].
    destruct (alias_occurrence_ok _ _ _ _ _ _ _ _ _ G AF B) as (n & p & bp & _ & E & _). discriminate.
  Qed.

  (* the pattern cannot be bound (unknown tag, bad arguments, missing context, ...) *)
  Lemma bad_unbindable al f p :
    alias_find f al = Some (Some p) ->
    (forall fuel, exists e, bind_list fuel al p = inl e) -> bad al f.
  Proof.
    intros AF Hp fuel q a hc ctx G.
    destruct (bind_el fuel al (UTag q a hc ctx)) as [e|b] eqn:B; [eauto|].
    destruct (alias_occurrence_ok _ _ _ _ _ _ _ _ _ G AF B) as (n & p' & bp & _ & E & Bp).
    inversion E; subst p'. destruct (Hp n) as [e He]. congruence.
  Qed.

  (* the pattern uses a bad alias *)
  Lemma bad_uses_bad al f p g :
    alias_find f al = Some (Some p) -> uses reg al g p -> bad al g -> bad al f.
  Proof.
    intros AF (q' & a' & hc' & ctx' & Hocc & G' & _) Hg.
    apply (bad_unbindable al f p AF). intros fuel.
    destruct (occurrence_rejected fuel al _ _ Hocc (Hg fuel q' a' hc' ctx' G')) as (e & He & _). eauto.
  Qed.

  (* [C] is a set of aliases each of which uses a member of C again: every alias that lies on a
     cycle of references, or from which a cycle can be reached, belongs to such a set *)
  Definition closed_under_use (al : atable) (C : fid -> Prop) : Prop :=
    forall f, C f -> exists p g, alias_find f al = Some (Some p) /\ uses reg al g p /\ C g.

  Lemma cyclic_fuel :
    forall al C, closed_under_use al C ->
    forall fuel f q a hc ctx, C f -> get reg q = ROk f ->
      exists e, bind_el fuel al (UTag q a hc ctx) = inl e.
  Proof.
    intros al C HS. induction fuel as [|n IH]; intros f q a hc ctx Cf G.
    - destruct (HS f Cf) as (p & g & AF & _ & _).
      destruct (bind_el 0 al (UTag q a hc ctx)) as [e|b] eqn:B; [eauto|].
      destruct (alias_occurrence_ok _ _ _ _ _ _ _ _ _ G AF B) as (n & _ & _ & E & _). discriminate.
    - destruct (HS f Cf) as (p & g & AF & (q' & a' & hc' & ctx' & Hocc & G' & _) & Cg).
      destruct (bind_el (S n) al (UTag q a hc ctx)) as [e|b] eqn:B; [eauto|].
      destruct (alias_occurrence_ok _ _ _ _ _ _ _ _ _ G AF B) as (n' & p' & bp & E1 & E2 & Bp).
      inversion E1; subst n'. inversion E2; subst p'.
      destruct (bind_ok_occurs _ _ _ _ Hocc _ Bp) as [bx Hx].
      destruct (IH g q' a' hc' ctx' Cg G') as [e He]. congruence.
  Qed.

  Lemma bad_cyclic al C f : closed_under_use al C -> C f -> bad al f.
  Proof. intros HS Cf fuel q a hc ctx G. eapply cyclic_fuel; eauto. Qed.

  (* every template using a bad alias is rejected, for every fuel, with a template error *)
  Theorem bad_alias_rejected :
    forall al f host, bad al f -> uses reg al f host ->
      forall fuel, exists e, bind_list fuel al host = inl e /\ is_template_error e = true.
  Proof.
    intros al f host Hbad (q & a & hc & ctx & Hocc & G & _) fuel.
    eapply occurrence_rejected; eauto.
  Qed.

  (* a self-reference, and a cycle given as a list of aliases *)
  Lemma self_reference_closed al f p :
    alias_find f al = Some (Some p) -> uses reg al f p -> closed_under_use al (fun g => g = f).
  Proof. intros AF U g ->. exists p, f. auto. Qed.
  (* ---------- 7. the property-level statements ------------------------------------------------ *)

  (* alias-bound template vs. the same template with every alias pattern written in place
     (compiled with NO alias table): rejected alike, with the same exception class, or both
     accepted and then the names rendered over ANY sequence of files are equal - each alias
     occurrence owns its tag instances exactly like text written twice *)
  Theorem inline_equiv :
    forall fuel al host h,
      inline_list fuel al host = Some h ->
      match bind_list fuel al host with
      | inl e => bind_list 0 [] h = inl e
      | inr b => exists b', bind_list 0 [] h = inr b' /\
                            forall files, run_names files b' = run_names files b
      end.
  Proof.
    intros fuel al host h H. rewrite (bind_inline _ _ _ _ H).
    destruct (bind_list fuel al host) as [e|b]; simpl; [reflexivity|].
    exists (flatten b). split; [reflexivity|]. intros; apply run_names_flatten.
  Qed.

  (* expression mode (filter / sort): every top-level alias occurrence contributes
     repr(one str) and the aliases below the top level can be written in place *)
  Theorem expression_mode :
    forall printable,
      (forall fl body rest,
          render_expr printable fl (BAlias body :: rest) =
          match render_list fl (flatten body) with
          | (inl e, _) => (inl e, BAlias (snd (render_list fl body)) :: rest)
          | (inr s, _) =>
            match render_expr printable fl rest with
            | (inl e, rest') => (inl e, BAlias (snd (render_list fl body)) :: rest')
            | (inr r, rest') =>
              (inr (py_repr_str printable s ++ r), BAlias (snd (render_list fl body)) :: rest')
            end
          end) /\
      (forall files b, run_exprs printable files (map flatten_below b) = run_exprs printable files b).
  Proof.
    intros printable. split.
    - intros; apply render_expr_alias.
    - intros; apply run_exprs_flatten_below.
  Qed.

  (* an alias given any argument, or a context, anywhere in a template (top level or inside
     contexts): the template is rejected with a template error, for every fuel *)
  Theorem no_args_no_context :
    forall al q a hc ctx f host,
      get reg q = ROk f -> alias_find f al <> None ->
      no_args a = false \/ hc = true ->
      occurs (UTag q a hc ctx) host ->
      forall fuel, exists e, bind_list fuel al host = inl e /\ is_template_error e = true.
  Proof.
    intros al q a hc ctx f host G AF Bad Hocc fuel.
    destruct (alias_no_args_no_context fuel al q a hc ctx f G AF Bad) as (e & He & _).
    eapply occurrence_rejected; eauto.
  Qed.

  (* invalid (unparsable, unbindable, or using a bad alias) and cyclic aliases *)
  Theorem invalid_or_cyclic :
    forall al f,
      (alias_find f al = Some None \/
       (exists p, alias_find f al = Some (Some p) /\ forall fuel, exists e, bind_list fuel al p = inl e) \/
       (exists p g, alias_find f al = Some (Some p) /\ uses reg al g p /\ bad al g) \/
       (exists C, closed_under_use al C /\ C f)) ->
      forall host, uses reg al f host ->
      forall fuel, exists e, bind_list fuel al host = inl e /\ is_template_error e = true.
  Proof.
    intros al f Hbad host U fuel.
    eapply bad_alias_rejected; eauto.
    destruct Hbad as [H|[(p & AF & H)|[(p & g & AF & Ug & Hg)|(C & HC & Cf)]]].
    - apply bad_unparsable; auto.
    - eapply bad_unbindable; eauto.
    - eapply bad_uses_bad; eauto.
    - eapply bad_cyclic; eauto.
  Qed.
  Theorem bind_list_status :
    forall fuel al p e,
      bind_list fuel al p = inl e -> is_template_error e = true /\ cli_status e = 3%Z.
  Proof.
    intros fuel al p e H. pose proof (bind_list_template _ _ _ _ H) as T. split; [exact T|].
    destruct e; simpl in *; try discriminate; reflexivity.
  Qed.
  (* ---------- 8. acyclic aliases used plainly can be written in place --------------------------- *)

  Lemma flat_map_opt_all {A B} (f : A -> option (list B)) l :
    (forall x, In x l -> exists h, f x = Some h) -> exists h, flat_map_opt f l = Some h.
  Proof.
    induction l as [|x l IH]; intros H; simpl; [eauto|].
    destruct (H x (or_introl eq_refl)) as [hx ->].
    assert (Hl : exists hl, flat_map_opt f l = Some hl) by (apply IH; intros; apply H; right; auto).
    destruct Hl as [hl ->]. eauto.
  Qed.

  Lemma occurs_single_in x t (l : upat) : occurs x [t] -> In t l -> occurs x l.
  Proof.
    intros H Hin. inversion H as [l' Hx|q a ctx l' Hh Hc]; subst.
    - destruct Hx as [->|[]]. apply occ_here; auto.
    - destruct Hh as [E|[]]. subst t. eapply occ_ctx; eauto.
  Qed.

  Lemma occurs_in_ctx x q a ctx : occurs x ctx -> occurs x [UTag q a true ctx].
  Proof. intros H. eapply occ_ctx; [left; reflexivity|exact H]. Qed.

  Section Defined.
    Variable al : atable.
    Variable ei : option upat -> option upat.

    Definition good (p : upat) : Prop :=
      forall q a hc ctx f body,
        occurs (UTag q a hc ctx) p -> get reg q = ROk f -> alias_find f al = Some body ->
        no_args a = true /\ hc = false /\ exists h, ei body = Some h.

    Lemma inline_with_defined : forall t, good [t] -> exists h, inline_with al ei t = Some h.
    Proof.
      induction t as [s|q a hc ctx IH] using utree_ind'; intros G; simpl; [eauto|].
      assert (Hplain : exists h,
                 (if hc then match flat_map_opt (inline_with al ei) ctx with
                             | Some c => Some [UTag q a true c]
                             | None => None
                             end
                  else Some [UTag q a false []]) = Some h).
      { destruct hc; [|eauto].
        assert (Hc : exists c, flat_map_opt (inline_with al ei) ctx = Some c).
        { apply flat_map_opt_all.
          intros x Hin. rewrite Forall_forall in IH. apply IH; auto.
          intros q' a' hc' ctx' f' body' Hocc Gq' AF'.
          apply (G q' a' hc' ctx' f' body'); auto.
          apply occurs_in_ctx. eapply occurs_single_in; eauto. }
        destruct Hc as [c ->]. eauto. }
      destruct (get reg q) as [f| | | |] eqn:Gq; auto.
      destruct (alias_find f al) as [body|] eqn:AF; auto.
      assert (Hocc : occurs (UTag q a hc ctx) [UTag q a hc ctx]) by (apply occ_here; left; reflexivity).
      destruct (G q a hc ctx f body Hocc Gq AF) as (Na & Hc & h & Hh).
      rewrite Na, Hc. simpl. eauto.
    Qed.

    Lemma inline_list_defined_from :
      forall p, good p -> exists h, flat_map_opt (inline_with al ei) p = Some h.
    Proof.
      intros p G. apply flat_map_opt_all. intros x Hin. apply inline_with_defined.
      intros q a hc ctx f body Hocc Gq AF. apply (G q a hc ctx f body); auto.
      eapply occurs_single_in; eauto.
    Qed.
  End Defined.

  Theorem inline_defined :
    forall al (rank : fid -> nat) host n,
      plain_uses reg al host ->
      (forall f, alias_find f al <> None ->
                 exists p, alias_find f al = Some (Some p) /\ plain_uses reg al p) ->
      (forall f p g, alias_find f al = Some (Some p) -> uses reg al g p -> (rank g < rank f)%nat) ->
      (forall g, uses reg al g host -> (rank g < n)%nat) ->
      exists h, inline_list n al host = Some h.
  Proof.
    intros al rank host n Hhost Hal Hrank. revert host Hhost.
    unfold inline_list, Alias.inline_list, Alias.inline_el.
    induction n as [|m IH]; intros host Hhost Hn; apply inline_list_defined_from;
      intros q a hc ctx f body Hocc Gq AF;
      assert (AFn : alias_find f al <> None) by congruence;
      assert (U : uses reg al f host) by (exists q, a, hc, ctx; auto);
      specialize (Hn f U).
    - inversion Hn.
    - destruct (Hhost q a hc ctx f Hocc Gq AFn) as [Na Hc]. split; [auto|split; [auto|]].
      destruct (Hal f AFn) as (p & AFp & Pp). rewrite AF in AFp. inversion AFp; subst body.
      simpl. apply IH; auto.
      intros g Ug. specialize (Hrank f p g AF Ug). lia.
  Qed.
End AliasFacts.
