(* Correspondence comparators for C14 (used by harness/c14.py): CPython repr / eval and   *)
(* tempren's process_as_expression against Py/Repr.v, Py/Literal.v, Tpl/RenderExpr.v.    *)
From Tempren Require Import Base.Str Py.PathLib Py.Repr Py.Literal Tpl.RenderExpr Corr.Compare.
Open Scope N_scope.

(* ---------- repr of one code point: (c, CPython's isprintable(c), repr(chr(c))) --------- *)
Definition cp_case := (N * bool * str)%type.
Definition cp_case_ok (x : cp_case) : bool :=
  let '(c, p, expected) := x in
  str_eqb (py_repr_str (fun _ => p) [c]) expected.

(* ---------- repr over a whole range, compared through a rolling digest ------------------ *)
Definition mixN (h x : N) : N := N.land (h * 1000003 + x + 1) 18446744073709551615.
Definition mix_strN (h : N) (s : str) : N :=
  fold_left mixN s (mixN h (1114112 + N.of_nat (length s))).

Fixpoint repr_digest_from (printable : N -> bool) (c : N) (n : nat) (h : N) : N :=
  match n with
  | O => h
  | S k => repr_digest_from printable (c + 1) k (mix_strN h (py_repr_str printable [c]))
  end.

(* digest of repr(chr(c)) for lo <= c < lo + n, the printable table given as ranges *)
Definition repr_digest (rs : list (N * N)) (lo n : N) : N :=
  repr_digest_from (in_ranges rs) lo (N.to_nat n) 0.

(* ---------- repr of a value: printable code points as ranges ---------------------------- *)
Definition repr_case := (list (N * N) * value * str)%type.
Definition repr_case_ok (x : repr_case) : bool :=
  let '(rs, v, expected) := x in
  str_eqb (py_repr (in_ranges rs) v) expected.

(* str() of a value *)
Definition str_case := (value * str)%type.
Definition str_case_ok (x : str_case) : bool :=
  let '(v, expected) := x in str_eqb (py_str v) expected.

(* ---------- reading a string literal at the head of a text ------------------------------ *)
(* what CPython did with the text: first STRING token evaluated + the remaining text, an
   exception, or "outside the modelled slice" (decided by the harness on the text alone) *)
Inductive lit_obs := LOk (v rest : str) | LErr | LAny.
Definition lit_case := (str * lit_obs)%type.
Definition lit_case_ok (x : lit_case) : bool :=
  let '(text, obs) := x in
  match obs, scan_string_literal_r text with
  | LAny, _ => true
  | LOk v r, Ok (v', r') => str_eqb v v' && str_eqb r r'
  | LErr, Err => true
  | _, _ => false
  end.

(* ---------- eval of a whole literal ----------------------------------------------------- *)
Inductive eval_obs := EOk (v : value) | EErr | EOther.
(* strict = the text was produced by the harness' grammar of modelled literals: the model
   must agree exactly; otherwise (mutated text) only "model says value => CPython agrees" *)
Definition eval_case := (bool * str * eval_obs)%type.
Definition eval_case_ok (x : eval_case) : bool :=
  let '(strict, text, obs) := x in
  match eval_literal_r text, obs with
  | Ok v, EOk v' => value_eqb v v'
  | Ok _, _ => false
  | Err, EErr => true
  | Err, _ => negb strict
  | Unsup, _ => negb strict
  end.

(* ---------- bound patterns --------------------------------------------------------------- *)
(* harness tags (category Verif): 0 Echo{c} -> c (None without context), 1 Len{c} -> int,
   2 AsPath{c} -> Path(c), 3 Missing -> raises MissingMetadataError (the value the implementation
   substitutes is observed by the harness and passed as the LAST table entry, so that a different
   placeholder for missing metadata - which C14 does not constrain - is not reported), 4 IsEmpty{c} -> bool,
   5+k Val(k) -> k-th entry of the per-file value table *)
Definition test_env (vals : list value) : tag_env :=
  fun tag ctx =>
    match tag, ctx with
    | 0%nat, Some c => Some (VStr c)
    | 0%nat, None => Some VNone
    | 1%nat, Some c => Some (VInt (Z.of_nat (length c)))
    | 1%nat, None => Some (VInt (-1))
    | 2%nat, Some c => Some (VPath (parse_path c))
    | 2%nat, None => Some (VPath (parse_path []))
    | 3%nat, _ => Some (last vals missing_value)
    | 4%nat, Some [] => Some (VBool true)
    | 4%nat, Some _ => Some (VBool false)
    | 4%nat, None => Some VNone
    | S (S (S (S (S k)))), _ => nth_error vals k
    end.

(* printable ranges, value table, pattern, process_as_expression, process *)
Definition render_case := (list (N * N) * list value * pat * str * str)%type.
Definition render_case_ok (x : render_case) : bool :=
  let '(rs, vals, p, expr, name) := x in
  str_eqb (render_expr (in_ranges rs) (test_env vals) p) expr
  && str_eqb (render_str (test_env vals) p) name.

(* the reader recovers the tag values from the implementation's rendered text *)
Definition recover_case := (list value * pat * str)%type.
Definition values_eqb := list_eqb value_eqb.
Definition recover_case_ok (x : recover_case) : bool :=
  let '(vals, p, expr) := x in
  match recover (skeleton (test_env vals) p) expr with
  | Some vs => values_eqb vs (tag_values (test_env vals) p)
  | None => false
  end.
