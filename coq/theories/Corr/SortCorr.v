(* Correspondence comparators for the sort models (used by harness/c08.py). *)
From Tempren Require Import Base.Str Py.Order Py.Sort Tags.Count Corr.Compare.
Open Scope Z_scope.

(* One run of tempren with --sort: the files that reached the sorter, in the order   *)
(* they were gathered (identified by their position), each with the key the harness   *)
(* computed independently from the file's attributes and an identifier of its          *)
(* directory; the inversion flag; the configuration of the %Count tag in the name      *)
(* template; and what the implementation did: the processing order as (position in    *)
(* the gathered list, number Count put into the final name).                           *)
Definition sort_case := (list (pyval * N) * bool * count_cfg * list (nat * Z))%type.

Definition indexed {A} (l : list A) : list (nat * A) := combine (seq 0 (length l)) l.

Definition natZ_eqb (a b : nat * Z) : bool := Nat.eqb (fst a) (fst b) && Z.eqb (snd a) (snd b).

Definition sc_key (f : nat * (pyval * N)) : pyval := fst (snd f).
Definition sc_dir (f : nat * (pyval * N)) : dirkey := [[snd (snd f)]].

(* what the model computes: processing order and numbering *)
Definition sort_case_model (c : sort_case) : option (list (nat * Z)) :=
  let '(files, inv, cfg, _) := c in
  match template_sort sc_key inv (indexed files) with
  | None => None
  | Some r => Some (combine (map (@fst nat (pyval * N)) r) (count_values cfg (map sc_dir r)))
  end.

Definition sort_case_ok (c : sort_case) : bool :=
  let '(_, _, _, obs) := c in
  match sort_case_model c with
  | None => false
  | Some m => list_eqb natZ_eqb m obs
  end.

(* Directory mode: the gathered directories (relative paths, gather order) and the    *)
(* order in which the implementation processed them (as paths).                        *)
Definition depth_case := (list rpath * list rpath)%type.

Definition rpath_eqb : rpath -> rpath -> bool := list_eqb str_eqb.

Definition depth_case_ok (c : depth_case) : bool :=
  let '(l, obs) := c in
  list_eqb rpath_eqb (depth_sort l) obs && list_eqb rpath_eqb (depth_sort_py l) obs.
