(* Helpers for the correspondence check: the harness writes a list of cases,   *)
(* each carrying the implementation's observation; [mismatches] returns the     *)
(* indices on which the model's result differs.                                 *)
From Tempren Require Import Base.Str.

Fixpoint mismatches_from {A} (ok : A -> bool) (i : nat) (l : list A) : list nat :=
  match l with
  | [] => []
  | x :: l' => if ok x then mismatches_from ok (S i) l' else i :: mismatches_from ok (S i) l'
  end.

Definition mismatches {A} (ok : A -> bool) (l : list A) : list nat := mismatches_from ok O l.
