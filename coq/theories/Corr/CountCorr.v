(* Correspondence comparators for the Count model (used by harness/c16.py). *)
From Tempren Require Import Base.Str Tags.Count Corr.Compare.
Open Scope Z_scope.

(* one real CountTag instance driven call by call: configuration, directory of each
   processed file, and what the implementation returned (None = configure raised) *)
(* calls are given as indices into a table of directory keys (keeps the generated files small) *)
Definition count_case := (count_cfg * (list dirkey * list nat) * option (list count_out))%type.

Definition calls_of (t : list dirkey * list nat) : list dirkey :=
  map (fun i => nth i (fst t) []) (snd t).

Definition count_case_ok (x : count_case) : bool :=
  let '(c, t, obs) := x in
  let calls := calls_of t in
  match obs with
  | None => negb (count_configure_ok c)
  | Some o => count_configure_ok c && list_eqb count_out_eqb (count_run c calls) o
  end.

(* a template with several Count tags separated by literal text, rendered per file:
   observation = rendered name per call (None = the render raised) *)
Definition multi_case := (list count_cfg * (list dirkey * list nat) * list (option str))%type.

Fixpoint zip_texts (sep : str) (cols : list (list count_out)) (n : nat) : list (option str) :=
  match n with
  | O => []
  | S k =>
    let heads := map (fun col => match col with [] => CRaise | o :: _ => o end) cols in
    let tails := map (fun col => match col with [] => [] | _ :: t => t end) cols in
    let texts := map count_text heads in
    let joined :=
      fold_right (fun t acc => match t, acc with
                               | Some s, Some a => Some (s ++ sep ++ a)
                               | _, _ => None end) (Some []) texts in
    joined :: zip_texts sep tails k
  end.

(* In the implementation a raising tag aborts the render of that file but earlier tags of
   the same template have already advanced: every column advances on every call up to and
   including the first raising tag; later tags of that file are NOT called.  The harness
   therefore stops a multi-tag case at the first raise, so that all columns stay aligned. *)
Definition multi_case_ok (x : multi_case) : bool :=
  let '(cs, t, obs) := x in
  let calls := calls_of t in
  let cols := map (fun c => count_run c calls) cs in
  list_eqb (option_eqb str_eqb) (zip_texts [95%N] cols (length calls)) obs.
