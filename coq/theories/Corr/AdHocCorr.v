(* Correspondence comparators for the ad-hoc tag model (used by harness/c20.py). *)
From Tempren Require Import Base.Str Py.Utf8 Tags.TextTags Tags.AdHoc Corr.Compare.
Open Scope N_scope.

(* compared up to what the user can see: MissingMetadataError is rendered as "" by
   TagInstance.process, so OMissing and OValue [] are the same observation; the two crashes
   are told apart *)
Definition outcome_eqb (a b : adhoc_outcome) : bool :=
  match rendered a, rendered b with
  | Some x, Some y => str_eqb x y
  | None, None =>
    match a, b with
    | ODecodeError, ODecodeError => true
    | OEncodeError, OEncodeError => true
    | _, _ => false
    end
  | _, _ => false
  end.

(* observation of the probe: argv, stdin (None = fd 0 was the harness's own stdin, i.e.
   inherited; Some b = the bytes read from anything else), physical cwd *)
Definition probe_obs := (list str * option (list N) * str)%type.

(* exe, args, rel, dir, ctx, (exit, stdout, stderr) of the program, probe record (None: the
   program was never started), what AdHocTag.process did *)
Definition adhoc_case :=
  (str * list str * str * str * option str * (Z * list N * list N) * option probe_obs * adhoc_outcome)%type.

Definition inv_obs (i : invocation) : probe_obs := (inv_argv i, inv_stdin i, inv_cwd i).

Definition probe_obs_eqb (a b : probe_obs) : bool :=
  let '(a1, a2, a3) := a in
  let '(b1, b2, b3) := b in
  list_eqb str_eqb a1 b1 && option_eqb str_eqb a2 b2 && str_eqb a3 b3.

Definition adhoc_case_model (x : adhoc_case) : option probe_obs * adhoc_outcome :=
  let '(exe, args, rel, dir, ctx, beh, _, _) := x in
  (option_map inv_obs (adhoc_invocation exe args rel dir ctx),
   adhoc_process exe args rel dir ctx (fun _ => beh)).

Definition adhoc_case_ok (x : adhoc_case) : bool :=
  let '(_, _, _, _, _, _, obs, oc) := x in
  let '(m_obs, m_oc) := adhoc_case_model x in
  option_eqb probe_obs_eqb m_obs obs && outcome_eqb m_oc oc.

(* ---------- tables against CPython -------------------------------------------------------- *)
Definition utf8_decode_case_ok (x : list N * option str) : bool :=
  option_eqb str_eqb (utf8_decode (fst x)) (snd x).

Definition strip_case_ok (x : str * str) : bool := str_eqb (py_strip (fst x)) (snd x).

(* rolling digest (mod 2^60, base 257) of the encoder's bytes over the scalar values in
   the windows [lo, lo+n) given, the number of bytes, and whether decode (encode [c]) = Some [c] throughout *)
Definition digest_step (st : N * N * N * bool) : N * N * N * bool :=
  let '(c, h, nb, ok) := st in
  if is_scalar c then
    let bs := utf8_encode_cp c in
    let h' := fold_left (fun acc b => N.land (acc * 257 + b + 1) 1152921504606846975) bs h in
    (c + 1, h', nb + N.of_nat (length bs),
     ok && option_eqb str_eqb (utf8_decode bs) (Some [c]) && forallb (fun b => b <? 256) bs)
  else (c + 1, h, nb, ok).

Definition utf8_windows_digest (ws : list (N * N)) : N * N * bool :=
  fold_left (fun (st : N * N * bool) (w : N * N) =>
               let '(h, nb, ok) := st in
               let '(_, h', nb', ok') := N.iter (snd w) digest_step (fst w, h, nb, ok) in
               (h', nb', ok')) ws (0, 0, true).
