(* Correspondence for C15: the model of Tpl/Alias.v evaluated on what the implementation     *)
(* was given and did.  The harness (harness/c15.py) supplies                                *)
(*  - the registrations of the real registry (built-in library + the Alias category),      *)
(*  - the alias table: factory id |-> pattern as parsed by the real TemplateParser,         *)
(*  - the host template as parsed, and the INLINED TEXT as parsed,                          *)
(*  - for every non-alias (factory, arguments): does the real factory accept them, and the  *)
(*    instance's require_context,                                                           *)
(*  - the values the real tag instances returned, keyed by (factory, arguments, number of   *)
(*    the call on that instance, file, context string),                                     *)
(*  - the observed outcome of compile() and the rendered strings per file, for the alias    *)
(*    run and for the inlined run.                                                          *)
(* No proofs in this file.                                                                   *)
From Tempren Require Import Base.Str Py.PathLib Py.Repr Tpl.Registry Tpl.Signature Tpl.Alias.
Open Scope N_scope.

(* ---------- decidable equalities --------------------------------------------------------- *)

Definition argval_eqb (x y : argval) : bool :=
  match x, y with
  | AInt a, AInt b => Z.eqb a b
  | AStr a, AStr b => str_eqb a b
  | ABool a, ABool b => Bool.eqb a b
  | _, _ => false
  end.

Definition targs_eqb (x y : targs) : bool :=
  list_eqb argval_eqb (a_pos x) (a_pos y) &&
  list_eqb (pair_eqb str_eqb argval_eqb) (a_kw x) (a_kw y).

Definition qname_eqb (x y : qname) : bool :=
  option_eqb str_eqb (fst x) (fst y) && str_eqb (snd x) (snd y).

Fixpoint utree_eqb (x y : utree) : bool :=
  match x, y with
  | URaw s, URaw t => str_eqb s t
  | UTag q a hc ctx, UTag q' a' hc' ctx' =>
    qname_eqb q q' && targs_eqb a a' && Bool.eqb hc hc' &&
    (fix go (l l' : list utree) : bool :=
       match l, l' with
       | [], [] => true
       | u :: r, u' :: r' => utree_eqb u u' && go r r'
       | _, _ => false
       end) ctx ctx'
  | _, _ => false
  end.

Definition upat_eqb : upat -> upat -> bool := list_eqb utree_eqb.

(* exception classes as numbers (the status of SystemExit is not compared) *)
Definition exc_code (e : exc) : N :=
  match e with
  | ExSystemExit _ => 1
  | ExPipelineConfiguration => 2
  | ExTemplateEvaluation => 3
  | ExTemplateSyntax => 4
  | ExTagConfiguration => 5
  | ExContextMissing => 6
  | ExContextForbidden => 7
  | ExUnknownName => 8
  | ExUnknownCategory => 9
  | ExAmbiguousName => 10
  | ExDestinationExists => 11
  | ExInvalidDestination => 12
  | ExFileNotSupported => 13
  | ExOther => 14
  end.

(* ---------- tables ------------------------------------------------------------------------- *)

Definition check_table := list ((fid * targs) * (bool * option bool)).

Fixpoint check_lookup (f : fid) (a : targs) (t : check_table) : option (bool * option bool) :=
  match t with
  | [] => None
  | ((g, b), v) :: t' => if (g =? f) && targs_eqb b a then Some v else check_lookup f a t'
  end.

(* factory call (configure), then the require_context rule — compiler.py's order *)
Definition check_of (t : check_table) (f : fid) (a : targs) (hc : bool) : outcome :=
  match check_lookup f a t with
  | Some (true, r) =>
    match ctx_check r hc with
    | CtxOk => Accept
    | CtxMissing => Reject RContextMissing
    | CtxForbidden => Reject RContextForbidden
    end
  | _ => Reject RValue
  end.

Definition sem_key := (fid * targs * nat * N * option str)%type.
Definition sem_table := list (sem_key * tout).

Definition sem_key_eqb (x y : sem_key) : bool :=
  match x, y with
  | (f, a, n, fl, c), (f', a', n', fl', c') =>
    (f =? f') && Nat.eqb n n' && (fl =? fl') && option_eqb str_eqb c c' && targs_eqb a a'
  end.

Fixpoint sem_lookup (k : sem_key) (t : sem_table) : option tout :=
  match t with
  | [] => None
  | (k', v) :: t' => if sem_key_eqb k k' then Some v else sem_lookup k t'
  end.

(* marks a lookup the harness's table cannot answer: always a mismatch *)
Definition missing_entry : exc := ExSystemExit 99.

(* an instance's state is the number of calls it has served *)
Definition sem_of (t : sem_table) (f : fid) (a : targs) (n : nat) (fl : N) (c : option str)
  : tout * nat :=
  (match sem_lookup (f, a, n, fl, c) t with
   | Some o => o
   | None => ORaise missing_entry
   end, S n).

(* ---------- observations -------------------------------------------------------------------- *)

Inductive robs := RErr | RStr (s : str).

Record side_obs := mkSide {
  so_bind : option N;            (* None: compile() succeeded; Some c: exception class code *)
  so_render : list robs          (* per file, up to and including the first exception     *)
}.

Record alias_case := mkCase {
  c_extra : list reg_entry;      (* registrations after the built-in library               *)
  c_aliases : atable;
  c_fuel : nat;
  c_host : upat;
  c_inl : option upat;           (* the inlined text as parsed; None: not inlinable         *)
  c_checks : check_table;
  c_sem : sem_table;
  c_files : list N;
  c_expr : bool;                 (* process_as_expression instead of process               *)
  c_printable : list (N * N);
  c_alias_obs : side_obs;
  c_inl_obs : option side_obs
}.

Fixpoint cut (l : list (exc + str)) : list (exc + str) :=
  match l with
  | [] => []
  | inl e :: _ => [inl e]
  | inr s :: l' => inr s :: cut l'
  end.

Definition robs_match (m : exc + str) (o : robs) : bool :=
  match m, o with
  | inl (ExSystemExit _), _ => false        (* a value the harness did not supply *)
  | inl _, RErr => true
  | inr s, RStr t => str_eqb s t
  | _, _ => false
  end.

Fixpoint all2 {A B} (p : A -> B -> bool) (l : list A) (l' : list B) : bool :=
  match l, l' with
  | [], [] => true
  | x :: r, y :: r' => p x y && all2 p r r'
  | _, _ => false
  end.

Definition side_ok (c : alias_case) (reg : registry) (al : atable) (fuel : nat) (p : upat)
                   (o : side_obs) : bool :=
  match bind_list nat reg (check_of (c_checks c)) (fun _ _ => O) fuel al p, so_bind o with
  | inl e, Some code => exc_code e =? code
  | inr b, None =>
    let rs := if c_expr c
              then run_exprs nat N (sem_of (c_sem c)) (in_ranges (c_printable c)) (c_files c) b
              else run_names nat N (sem_of (c_sem c)) (c_files c) b in
    all2 robs_match (cut rs) (so_render o)
  | _, _ => false
  end.

Definition alias_case_ok (base : list reg_entry) (c : alias_case) : bool :=
  match build (base ++ c_extra c) with
  | None => false
  | Some reg =>
    side_ok c reg (c_aliases c) (c_fuel c) (c_host c) (c_alias_obs c) &&
    (* the model's inlining is the text written in place, as the real parser reads it *)
    option_eqb upat_eqb (option_map norm (inline_list reg (c_fuel c) (c_aliases c) (c_host c)))
                        (option_map norm (c_inl c)) &&
    (* the inlined text, compiled without any alias *)
    match c_inl c, c_inl_obs c with
    | Some h, Some o => side_ok c reg [] O h o
    | _, _ => true
    end
  end.

(* what the model computes for a case (printed in replays) *)
Definition alias_case_model (base : list reg_entry) (c : alias_case) :=
  match build (base ++ c_extra c) with
  | None => None
  | Some reg =>
    Some (match bind_list nat reg (check_of (c_checks c)) (fun _ _ => O) (c_fuel c) (c_aliases c) (c_host c) with
          | inl e => inl (exc_code e)
          | inr b => inr (cut (if c_expr c
                               then run_exprs nat N (sem_of (c_sem c)) (in_ranges (c_printable c)) (c_files c) b
                               else run_names nat N (sem_of (c_sem c)) (c_files c) b))
          end,
          option_map norm (inline_list reg (c_fuel c) (c_aliases c) (c_host c)))
  end.
