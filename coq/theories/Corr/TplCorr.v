(* Correspondence comparators for the template front end (harness/c10.py, harness/c11.py). *)
From Tempren Require Import Base.Str Tpl.Ast Tpl.Lexer Tpl.Cst Tpl.Parser Tpl.Escape
  Tpl.Visitor Tpl.Printer Corr.Compare.
Open Scope N_scope.

(* keyword arguments reach the tag as **kwargs: compared as a set of pairs (keys are
   distinct), everything else exactly *)
Fixpoint kw_mem (k : str * argval) (l : list (str * argval)) : bool :=
  match l with [] => false | x :: l' => kw_eqb k x || kw_mem k l' end.
Definition kw_sim (a b : list (str * argval)) : bool :=
  Nat.eqb (length a) (length b) && forallb (fun k => kw_mem k b) a && forallb (fun k => kw_mem k a) b.

Fixpoint ast_sim (a b : ast) : bool :=
  match a, b with
  | RawText x, RawText y => str_eqb x y
  | Tag c n ar kw h x, Tag c' n' ar' kw' h' x' =>
      option_eqb str_eqb c c' && str_eqb n n' && list_eqb argval_eqb ar ar' &&
      kw_sim kw kw' && Bool.eqb h h' && pat_sim x x'
  | _, _ => false
  end
with pat_sim (a b : pat) : bool :=
  match a, b with
  | PNil, PNil => true
  | PCons e p, PCons e' p' => ast_sim e e' && pat_sim p p'
  | _, _ => false
  end.

(* what TemplateParser.parse did with a text: the tree, or a rejection together with the
   position of the FIRST "token recognition error" the real lexer reported (observed by an
   additional listener installed by the harness), if any *)
Inductive parse_obs :=
| OAcc (p : pat)
| ORej (lexerr : option N).

Definition parse_case := (str * parse_obs)%type.

Definition parse_case_ok (x : parse_case) : bool :=
  let '(s, obs) := x in
  match parse s, obs with
  | Ok p, OAcc p' => pat_sim p p'
  | Err (ELex i), ORej (Some j) => i =? j
  | Err (ELex _), ORej None => false
  | Err _, ORej None => true
  | _, _ => false
  end.

(* the round trip: the model's printer equals the harness's mirror of it (the text the real
   parser was given), and the model's parser returns the tree *)
Definition rt_case := (style * pat * str)%type.

Definition rt_case_ok (x : rt_case) : bool :=
  let '(sty, t, s) := x in
  str_eqb (print sty t) s &&
  match parse s with Ok p => pat_eqb p t | Err _ => false end.

(* the pre-fix unescape, for replaying the F15/F16 witnesses *)
Definition unescape_seq_case := (str * str)%type.
Definition unescape_seq_case_ok (x : unescape_seq_case) : bool :=
  str_eqb (unescape_seq (fst x)) (snd x).
