(* Correspondence comparators for the gatherer / filter model (used by harness/c07.py). *)
From Tempren Require Import Base.Str Pipe.GatherTree Corr.Compare.
Open Scope N_scope.

(* multiset equality of gathered File lists: the order in which a directory is listed       *)
(* (scandir order) is unspecified, so observations are compared up to permutation           *)
Fixpoint remove_one (f : gfile) (l : list gfile) : option (list gfile) :=
  match l with
  | [] => None
  | x :: l' => if gfile_eqb f x then Some l'
               else match remove_one f l' with Some r => Some (x :: r) | None => None end
  end.

Fixpoint perm_eqb (a b : list gfile) : bool :=
  match a with
  | [] => match b with [] => true | _ => false end
  | x :: a' => match remove_one x b with Some b' => perm_eqb a' b' | None => false end
  end.

(* What the implementation did on one command line:                                        *)
(*   o_gathered   every File yielded by pipeline.file_gatherer.gather_files()              *)
(*   o_selected   the Files on which pipeline.file_filter returned a true value            *)
(*   o_count      N of "N files considered for renaming"                                   *)
(*   o_renamed    Some l: real run with the never-conflicting marker template; l = the     *)
(*                (cwd, source) of every rename/move call issued; None: identity template  *)
Record gather_obs := { o_gathered : list gfile; o_selected : list gfile; o_count : N;
                       o_renamed : option (list gfile) }.

Definition gather_case := (cfg * list input * (filter_spec * bool) * gather_obs)%type.

Definition gather_case_ok (x : gather_case) : bool :=
  let '(c, inputs, (fs, inv), o) := x in
  let g := gather c inputs in
  let s := select (c_mode c) fs inv g in
  forallb wf_inputb inputs
  && perm_eqb g (o_gathered o)
  && perm_eqb s (o_selected o)
  && (N.of_nat (length s) =? o_count o)
  && match o_renamed o with None => true | Some r => perm_eqb s r end.


(* several command lines over the same inputs (the harness shares the serialised trees) *)
Definition gather_group :=
  (list input * list (cfg * (filter_spec * bool) * gather_obs))%type.

Definition gather_group_ok (g : gather_group) : bool :=
  forallb (fun m : cfg * (filter_spec * bool) * gather_obs =>
             gather_case_ok (fst (fst m), fst g, snd (fst m), snd m)) (snd g).
