(* Correspondence comparators for the modelled text tags (harness/c18.py). *)
From Tempren Require Import Base.Str Tags.TextTags Corr.Compare.
Open Scope Z_scope.

Inductive text_call :=
| CTrim (w : Z) (l r : bool)
| CPad (w : Z) (ch : str) (l r : bool)
| CStrip (set : str) (l r : bool)
| CCollapse (set : str)
| CSplitCase (sep : str).

(* [None] = the configuration is refused while compiling the template *)
Definition text_cfg_ok (c : text_call) : bool :=
  match c with
  | CTrim w l r => trim_cfg_ok w l r
  | CPad w ch l r => pad_cfg_ok w ch l r
  | CStrip _ _ _ => true
  | CCollapse set => negb (match set with [] => true | _ => false end)   (* "[]" is not a regex *)
  | CSplitCase sep => negb (match sep with [] => true | _ => false end)  (* assert separator *)
  end.

Definition text_apply (c : text_call) (ctx : str) : str :=
  match c with
  | CTrim w l r => trim w l ctx
  | CPad w ch l r => pad w (hd 32%N ch) l r ctx
  | CStrip set l r => strip_tag set l r ctx
  | CCollapse set => collapse set ctx
  | CSplitCase sep => split_case sep ctx
  end.

(* one compiled pattern applied to several contexts; observation None = refused *)
Definition text_case := (text_call * list str * option (list str))%type.

Definition text_case_ok (x : text_case) : bool :=
  let '(c, ctxs, obs) := x in
  match obs with
  | None => negb (text_cfg_ok c)
  | Some o => text_cfg_ok c && list_eqb str_eqb (map (text_apply c) ctxs) o
  end.
