(* Correspondence comparators for the pipeline model (used by harness/pipe.py). *)
From Tempren Require Import Base.Str Py.PathLib FS.Model Pipe.Pipeline Corr.Compare.
Open Scope N_scope.

Definition ckind_eqb (a b : ckind) : bool :=
  match a, b with CRename, CRename | CMkdir, CMkdir | CMove, CMove => true | _, _ => false end.
Definition cout_eqb (a b : cout) : bool :=
  match a, b with COk, COk | CErr, CErr | CFault, CFault => true | _, _ => false end.
Definition call_eqb (a b : call) : bool := ckind_eqb (fst a) (fst b) && cout_eqb (snd a) (snd b).

Definition report_eqb (a b : str * str * bool) : bool :=
  str_eqb (fst (fst a)) (fst (fst b)) && str_eqb (snd (fst a)) (snd (fst b)) && Bool.eqb (snd a) (snd b).

(* plan entries as the harness writes them: input directory (real, relative to the sandbox
   root), relative path text, what the pattern did *)
Definition plan_entry := (rpath * str * rendered)%type.
Definition mk_plan (l : list plan_entry) : list (pfile * rendered) :=
  map (fun e => ({| pf_dir := fst (fst e); pf_rel := parse_path (snd (fst e)) |}, snd e)) l.

Record obs := {
  o_status : Z;
  o_final : fs;
  o_calls : list call;
  o_report : list (str * str * bool);
  o_prompts : nat
}.

Definition pipe_case := (cfg * list plan_entry * fs * obs)%type.

Definition pipe_check (x : pipe_case) : list bool :=
  let '(c, plan, s, o) := x in
  let r := run c (mk_plan plan) [] s in
  [ Z.eqb (r_status r) (o_status o);
    fs_eqb (r_final r) (o_final o);
    list_eqb call_eqb (r_calls r) (o_calls o);
    list_eqb report_eqb (r_report r) (o_report o);
    Nat.eqb (r_prompts r) (o_prompts o) ].

Definition pipe_case_ok (x : pipe_case) : bool := forallb (fun b => b) (pipe_check x).

(* what the model computed, for replay files *)
Definition pipe_model (x : pipe_case) :=
  let '(c, plan, s, o) := x in
  let r := run c (mk_plan plan) [] s in
  (r_status r, r_final r, r_calls r, r_report r, r_prompts r).

(* filesystem primitives compared one by one with the kernel / CPython *)
Inductive fsop :=
| OpLexists (cwd : rpath) (p : upath)
| OpExists (cwd : rpath) (p : upath)
| OpIsDir (cwd : rpath) (p : upath)
| OpRealpath (p : upath)
| OpRename (cwd : rpath) (a b : upath)
| OpMkdir (cwd : rpath) (p : upath)
| OpMove (cwd : rpath) (a b : upath).

Inductive fsobs := FBool (b : bool) | FPath (p : option rpath) | FState (s : option fs).

Definition opt_fs (r : sysres) : option fs := match r with SOk s => Some s | SErr _ => None end.

Definition fsop_ok (x : fs * fsop * fsobs) : bool :=
  let '(s, op, o) := x in
  match op, o with
  | OpLexists cwd p, FBool b => Bool.eqb (lexists s cwd p) b
  | OpExists cwd p, FBool b => Bool.eqb (exists_ s cwd p) b
  | OpIsDir cwd p, FBool b => Bool.eqb (is_dir s cwd p) b
  | OpRealpath p, FPath q => option_eqb rpath_eqb (realpath s [] p) q
  | OpRename cwd a b, FState q => option_eqb fs_eqb (opt_fs (os_rename s cwd a b)) q
  | OpMkdir cwd p, FState q => option_eqb fs_eqb (opt_fs (os_mkdir s cwd p)) q
  | OpMove cwd a b, FState q => option_eqb fs_eqb (opt_fs (shutil_move_fs s cwd a b)) q
  | _, _ => false
  end.
