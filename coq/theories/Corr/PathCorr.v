(* Correspondence for Py/PathLib.v against CPython's pathlib (harness/c17.py): every string
   over a small alphabet up to a length bound, compared through a rolling digest. *)
From Tempren Require Import Base.Str Py.PathLib Corr.Compare.
Open Scope N_scope.

Definition mix (h x : N) : N := N.land (h * 1000003 + x + 1) 18446744073709551615.
Definition mix_str (h : N) (s : str) : N := fold_left mix s (mix h (1114112 + N.of_nat (length s))).

Fixpoint strings_of_length (alpha : list N) (n : nat) : list str :=
  match n with
  | O => [[]]
  | S k => flat_map (fun c => map (cons c) (strings_of_length alpha k)) alpha
  end.

Fixpoint strings_upto (alpha : list N) (n : nat) : list str :=
  match n with
  | O => [[]]
  | S k => strings_upto alpha k ++ strings_of_length alpha (S k)
  end.

(* everything tempren reads off Path(s): str, name, stem, suffix, str(parent), root *)
Definition path_summary (h : N) (s : str) : N :=
  let p := parse_path s in
  let h := mix_str h (pp_str p) in
  let h := mix_str h (pp_name p) in
  let h := mix_str h (pp_stem p) in
  let h := mix_str h (pp_suffix p) in
  let h := mix_str h (pp_str (pp_parent p)) in
  mix h (N.of_nat (pp_root p)).

Definition path_digest (alpha : list N) (n : nat) : N :=
  fold_left path_summary (strings_upto alpha n) 0.

(* digest restricted to strings starting with a given character (to localise a mismatch) *)
Definition path_digest_prefix (alpha : list N) (n : nat) (pre : str) : N :=
  fold_left path_summary (map (app pre) (strings_upto alpha n)) 0.

(* with_name on every (path string, new name) pair *)
Definition with_name_summary (h : N) (pn : str * str) : N :=
  match pp_with_name (parse_path (fst pn)) (snd pn) with
  | None => mix h 0
  | Some q => mix_str (mix h 1) (pp_str q)
  end.

Definition with_name_digest (alpha : list N) (n m : nat) : N :=
  fold_left (fun h p => fold_left (fun h nm => with_name_summary h (p, nm)) (strings_upto alpha m) h)
            (strings_upto alpha n) 0.

(* the four tags with a context string (file's relative path fixed to "d/f.x") *)
Definition tag_summary (h : N) (s : str) : N :=
  let rel := parse_path [100; 47; 102; 46; 120] in
  let ctx := Some s in
  let h := mix_str h (tag_name rel ctx) in
  let h := mix_str h (tag_base rel ctx) in
  let h := mix_str h (tag_ext rel ctx) in
  mix_str h (tag_dir rel ctx).

Definition tag_digest (alpha : list N) (n : nat) : N :=
  fold_left tag_summary (strings_upto alpha n) 0.

Definition tag_digest_prefix (alpha : list N) (n : nat) (pre : str) : N :=
  fold_left tag_summary (map (app pre) (strings_upto alpha n)) 0.

(* explicit cases: (string, str, name, stem, suffix, str parent) *)
Definition path_case := (str * (str * str * str * str * str))%type.
Definition path_case_ok (c : path_case) : bool :=
  let '(s, (a, b, c1, d, e)) := c in
  let p := parse_path s in
  str_eqb (pp_str p) a && str_eqb (pp_name p) b && str_eqb (pp_stem p) c1 &&
  str_eqb (pp_suffix p) d && str_eqb (pp_str (pp_parent p)) e.
