(* Correspondence comparators for the registry model (used by harness/c12.py). *)
From Tempren Require Import Base.Str Tpl.Registry Corr.Compare.
Open Scope N_scope.

(* What the implementation did for one query.  The location (column, length) is present
   when the query went through the real TemplateCompiler (None: direct get_tag_factory). *)
Inductive obs :=
| OOk (f : fid)
| OUnknownCategory (loc : option (N * N))
| OUnknownName (loc : option (N * N))
| OAmbiguous (cats : list str) (loc : option (N * N))
| OOther.

(* column of the first character of [Category.]Name in the template, the name, the observation *)
Definition query := (N * qname * obs)%type.

(* registrations, index of the registration at which the implementation raised ValueError
   (None: all accepted), the queries (empty when registration failed) *)
Definition reg_case := (list reg_entry * option nat * list query)%type.

Definition loc_eqb (a b : N * N) : bool := N.eqb (fst a) (fst b) && N.eqb (snd a) (snd b).

Definition loc_ok (model : option (N * N)) (impl : option (N * N)) : bool :=
  match impl with
  | None => true
  | Some l => option_eqb loc_eqb model (Some l)
  end.

(* category lists of the ambiguity error are compared as sets of normalised names:
   spelling and order of the names in the message are not part of the property *)
Definition canon_cats (l : list str) : list str := sort_strs (map lower l).

Definition query_ok (r : registry) (x : query) : bool :=
  let '(col, q, o) := x in
  let m := get r q in
  let ml := error_location col q m in
  match m, o with
  | ROk f, OOk g => N.eqb f g
  | RUnknownCategory, OUnknownCategory l => loc_ok ml l
  | RUnknownName, OUnknownName l => loc_ok ml l
  | RAmbiguous cs, OAmbiguous ds l => list_eqb str_eqb (canon_cats cs) (canon_cats ds) && loc_ok ml l
  | _, _ => false
  end.

Definition reg_case_ok (x : reg_case) : bool :=
  let '(regs, fail, qs) := x in
  match fail_index regs, fail with
  | Some i, Some j => Nat.eqb i j
  | None, None =>
    match build regs with
    | Some r => forallb (query_ok r) qs
    | None => false
    end
  | _, _ => false
  end.

(* for replays: what the model answers *)
Definition reg_case_model (x : reg_case) : option nat * list (result * option (N * N)) :=
  let '(regs, fail, qs) := x in
  (fail_index regs,
   map (fun y : query => let '(col, q, _) := y in
                         let m := get_in regs q in (m, error_location col q m)) qs).

(* the same comparison against the lookup of the unchanged tree (replay / diagnosis only) *)
Definition pre_case_model (x : reg_case) : list result :=
  let '(regs, _, qs) := x in
  map (fun y : query => let '(_, q, _) := y in pre_get_in regs q) qs.
