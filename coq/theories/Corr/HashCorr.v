(* Correspondence comparators for tempren/tags/hash.py (harness/c19.py). *)
From Tempren Require Import Base.Str Tags.Hash Corr.Compare.
Open Scope N_scope.

(* deterministic pseudo-random bytes, mirrored in harness/c19.py:
   x_{k+1} = (75 * x_k + 74) land 0xFFFF, byte = x >> 8   (cheap inside vm_compute) *)
Definition lcg_next (x : N) : N := N.land (x * 75 + 74) 65535.

Definition lcg_bytes (seed : N) (len : N) : list N :=
  rev (snd (N.iter len (fun st => let x := lcg_next (fst st) in (x, N.shiftr x 8 :: snd st))
                   (seed, []))).

(* zlib.crc32(data, start) on explicit data *)
Definition crc_case := (list N * N * N)%type.
Definition crc_case_ok (c : crc_case) : bool := let '(d, v, r) := c in crc32 d v =? r.

(* the Crc32 tag on a generated file: (seed, length, chunk size, rendered text, read sizes) *)
Definition tag_case := (N * N * N * str * list nat)%type.
Definition tag_case_ok (c : tag_case) : bool :=
  let '(seed, len, chunk, txt, reads) := c in
  let content := lcg_bytes seed len in
  let chunks := read_loop (N.to_nat chunk) content in
  str_eqb (hex8 (crc32_chunked chunks)) txt &&
  list_eqb Nat.eqb (map (@length N) chunks) reads.

(* exhaustive: digest over zlib.crc32 of every 1- and 2-byte string *)
Definition mix (h x : N) : N := N.land (h * 1000003 + x + 1) 18446744073709551615.

Definition bytes256 : list N := map N.of_nat (seq 0 256).

Definition crc_digest_1 : N := fold_left (fun h a => mix h (crc32 [a] 0)) bytes256 0.
Definition crc_digest_2 : N :=
  fold_left (fun h a => fold_left (fun h b => mix h (crc32 [a; b] 0)) bytes256 h) bytes256 0.
