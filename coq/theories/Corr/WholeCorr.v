(* Correspondence comparator for the whole-program model (used by harness/whole.py): the real CLI is  *)
(* run on a materialised tree with real gatherers, sorter and library templates (no plan injection),   *)
(* the model is [Whole.Main.tempren_main] over the core registry with the ASCII case maps, evaluated  *)
(* by vm_compute on the same tree.  The tree is written in the listing order of the operating system   *)
(* (depth first), so the listing permutation of the model is the identity.                             *)
From Tempren Require Import Base.Str Py.PathLib FS.Model Pipe.Pipeline Pipe.FrontCompile.
From Tempren Require Import Corr.Compare Corr.PipeCorr.
From Tempren Require Import Whole.Library Whole.Render Whole.Gather Whole.Main.
Open Scope N_scope.

Record whole_case := {
  wc_mode : mode;
  wc_strategy : strategy;
  wc_dry : bool;
  wc_recursive : bool;
  wc_hidden : bool;
  wc_sort : bool;
  wc_answers : list str;
  wc_template : str;
  wc_dirs : list rpath;
  wc_tree : fs;
  wc_obs : obs
}.

Definition whole_options (x : whole_case) : options :=
  {| o_mode := wc_mode x; o_strategy := wc_strategy x; o_dry := wc_dry x; o_recursive := wc_recursive x;
     o_include_hidden := wc_hidden x; o_sort_name := wc_sort x; o_answers := wc_answers x; o_fault := None;
     o_listing := fun l => l; o_cwd := [] |}.

Definition whole_result (x : whole_case) : result :=
  tempren_main ascii_upper_str ascii_lower_str core_reg (whole_options x) (wc_template x) (wc_dirs x) (wc_tree x).

Definition whole_check (x : whole_case) : list bool :=
  let r := whole_result x in
  let o := wc_obs x in
  [ Z.eqb (r_status r) (o_status o);
    fs_eqb (r_final r) (o_final o);
    list_eqb call_eqb (r_calls r) (o_calls o);
    list_eqb report_eqb (r_report r) (o_report o);
    Nat.eqb (r_prompts r) (o_prompts o) ].

Definition whole_case_ok (x : whole_case) : bool := forallb (fun b => b) (whole_check x).

(* what the model computed, for replay files *)
Definition whole_model (x : whole_case) :=
  let r := whole_result x in
  (r_status r, r_final r, r_calls r, r_report r, r_prompts r,
   match compile core_reg (wc_template x) with
   | inl b => Some (whole_plan ascii_upper_str ascii_lower_str b (whole_options x) (wc_dirs x) (wc_tree x))
   | inr _ => None
   end).
