(* Correspondence comparators for the help-line / binder model (harness/c13.py). *)
From Tempren Require Import Base.Str Tpl.Signature Corr.Compare.
Open Scope N_scope.

(* ---------- decidable equality on readings ----------------------------------- *)
Definition param_eqb (a b : param) : bool :=
  str_eqb (p_name a) (p_name b) && str_eqb (p_ann a) (p_ann b)
  && option_eqb str_eqb (p_dflt a) (p_dflt b).

Definition vparam_eqb (a b : vparam) : bool :=
  str_eqb (v_name a) (v_name b) && str_eqb (v_ann a) (v_ann b).

Definition sig_eqb (a b : sig) : bool :=
  list_eqb param_eqb (s_pos a) (s_pos b)
  && option_eqb vparam_eqb (s_varpos a) (s_varpos b)
  && list_eqb param_eqb (s_kwonly a) (s_kwonly b)
  && option_eqb vparam_eqb (s_varkw a) (s_varkw b).

Definition reading := (str * sig * ctxreq)%type.

Definition reading_eqb (a b : reading) : bool :=
  let '(na, sa, ra) := a in
  let '(nb, sb, rb) := b in
  str_eqb na nb && sig_eqb sa sb && option_eqb Bool.eqb ra rb.

(* ---------- what the implementation did with one call ------------------------- *)

(* the binding TypeError as classified from CPython's message; [BcOther] = a binding
   TypeError whose wording the harness did not recognise (compares equal to any class) *)
Inductive bind_class :=
| BcTooMany
| BcUnexpected (k : str)
| BcMultiple (k : str)
| BcMissing (ks : list str)     (* all names CPython lists; [] = not extracted *)
| BcOther.

Inductive obs :=
| OAccept
| OCtxMissing
| OCtxForbidden
| OBind (c : bind_class)
| OValue.                       (* configure's own refusal (value error, bad alias ...) *)

Definition bind_class_ok (e : bind_err) (c : bind_class) : bool :=
  match e, c with
  | _, BcOther => true
  | TooMany, BcTooMany => true
  | Unexpected k, BcUnexpected k' => str_eqb k k'
  | Multiple k, BcMultiple k' => str_eqb k k'
  | Missing k, BcMissing ks => match ks with [] => true | _ => mem_str k ks end
  | _, _ => false
  end.

Definition outcome_matches (o : outcome) (ob : obs) : bool :=
  match o, ob with
  | Accept, OAccept => true
  | Reject RContextMissing, OCtxMissing => true
  | Reject RContextForbidden, OCtxForbidden => true
  | Reject (RBind e), OBind c => bind_class_ok e c
  | Reject RValue, OValue => true
  | _, _ => false
  end.

(* number of positional values, keyword names, context present?, observation *)
Definition call := (nat * list str * bool * obs)%type.

(* The body of configure is abstract: when the implementation reported a refusal of
   the values the model is run with cfg_ok = false (this still checks that binding
   succeeded), otherwise with cfg_ok = true.

   Which of two simultaneous defects (binding error and context violation) is reported
   is an order of evaluation the property does not fix; so a rejection observed on the
   implementation is accepted when it is *a* true reason according to the model, and an
   acceptance only when the model accepts. *)
Definition call_ok (s : sig) (r : ctxreq) (c : call) : bool :=
  let '(npos, kws, has_ctx, ob) := c in
  let cfg_ok := match ob with OValue => false | _ => true end in
  outcome_matches (bind_call s r cfg_ok npos kws has_ctx) ob
  || match ob, ctx_check r has_ctx with
     | OCtxMissing, CtxMissing => true
     | OCtxForbidden, CtxForbidden => true
     | _, _ => false
     end.

(* one tag: the printed line, the harness's own reading of it, whether the line lies
   inside the grammar the model reads (no comma inside an annotation or a default), and
   the calls run on the real compiler *)
Definition tag_case := (str * option reading * bool * list call)%type.

Definition used_reading (x : tag_case) : option reading :=
  let '(line, rd, in_grammar, _) := x in
  if in_grammar then parse_line line else rd.

Definition reading_ok (x : tag_case) : bool :=
  let '(line, rd, in_grammar, _) := x in
  if in_grammar then option_eqb reading_eqb (parse_line line) rd else true.

Fixpoint bad_calls_from (s : sig) (r : ctxreq) (i : nat) (l : list call) : list nat :=
  match l with
  | [] => []
  | c :: l' => if call_ok s r c then bad_calls_from s r (S i) l'
               else i :: bad_calls_from s r (S i) l'
  end.

Definition bad_calls (x : tag_case) : list nat :=
  match used_reading x with
  | None => []
  | Some (_, s, r) => bad_calls_from s r 0 (snd x)
  end.

Definition tag_case_ok (x : tag_case) : bool :=
  reading_ok x && match bad_calls x with [] => true | _ => false end
  && match used_reading x, snd x with None, _ :: _ => false | _, _ => true end.

(* for diagnostics on a mismatch: (reading agrees?, indices of disagreeing calls) *)
Definition tag_case_report (x : tag_case) : bool * list nat := (reading_ok x, bad_calls x).

(* what the model makes of a single call (printed in replays) *)
Definition model_call (x : tag_case) (i : nat) : option outcome :=
  match used_reading x, nth_error (snd x) i with
  | Some (_, s, r), Some (npos, kws, has_ctx, ob) =>
    Some (bind_call s r (match ob with OValue => false | _ => true end) npos kws has_ctx)
  | _, _ => None
  end.

(* render/parse agreement for generated signatures: the harness sends a structured
   signature it generated, and the line the implementation printed for a class having it *)
Definition render_case := (str * sig * ctxreq * str)%type.   (* name, sig, r, printed line *)
Definition render_case_ok (x : render_case) : bool :=
  let '(name, s, r, line) := x in str_eqb (render_line name s r) line.
