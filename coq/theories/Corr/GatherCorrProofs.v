(* Soundness of the multiset comparator of Corr/GatherCorr.v *)
From Coq Require Import Permutation.
From Tempren Require Import Base.Str Pipe.GatherTree Corr.GatherCorr.
Open Scope N_scope.

(* the comparator is sound: it only accepts permutations *)
Lemma gfile_eqb_eq a b : gfile_eqb a b = true -> a = b.
Proof.
  destruct a as [a1 a2], b as [b1 b2]. unfold gfile_eqb, names_eqb. simpl.
  intro H. apply andb_true_iff in H as [H1 H2].
  apply (list_eqb_spec str_eqb str_eqb_spec) in H1.
  apply (list_eqb_spec str_eqb str_eqb_spec) in H2. congruence.
Qed.

Lemma remove_one_perm f : forall l r, remove_one f l = Some r -> Permutation l (f :: r).
Proof.
  induction l as [| x l IH]; simpl; intros r H; [discriminate |].
  destruct (gfile_eqb f x) eqn:E.
  - apply gfile_eqb_eq in E. inversion H; subst. apply Permutation_refl.
  - destruct (remove_one f l) as [r' |]; [| discriminate]. inversion H; subst.
    eapply Permutation_trans; [apply perm_skip; apply IH; reflexivity | apply perm_swap].
Qed.

Lemma perm_eqb_sound : forall a b, perm_eqb a b = true -> Permutation a b.
Proof.
  induction a as [| x a IH]; simpl; intros b H.
  - destruct b; [constructor | discriminate].
  - destruct (remove_one x b) as [b' |] eqn:E; [| discriminate].
    apply remove_one_perm in E. apply IH in H.
    eapply Permutation_trans; [apply perm_skip; exact H | apply Permutation_sym; exact E].
Qed.
