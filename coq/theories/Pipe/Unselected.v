(* C07, the clause about the RENAME step: every entry outside the selection keeps its path and its     *)
(* content, in every state of every run.                                                            *)
(* The plan designates existing non-directories reached without symbolic links ([selected_ok_any]:  *)
(* the source-side conditions of [selected_ok] of Pipe/PlanExact.v, nothing is asked of the rendered *)
(* values, and a file may be designated any number of times).  Then, for every mode, every strategy  *)
(* that cannot override, dry or real, any fault index, any outcome: an entry of the initial tree     *)
(* whose key is not the key of a designated file is found under the same key with the same node in   *)
(* every filesystem state of the run ([unselected_untouched]); directories are such entries.         *)
(* With override (flag, or an "override" answer at the prompt) the same holds, in name and directory *)
(* mode, for every such entry that is a directory or does not sit at the destination key of a plan   *)
(* entry ([unselected_untouched_override]).                                                          *)
(* Proof: an invariant of the filesystem states carried through both passes (as in Pipe/Safety.v):   *)
(* well-formed, and every protected entry of the initial tree is where it was.  The directories of   *)
(* the initial tree are protected, hence every designated path still resolves plainly to its own     *)
(* key, so the only key a rename moves (with whatever lies below it) is a designated one, and no     *)
(* protected entry lies at or below a designated non-directory.                                      *)
From Tempren Require Import Base.Str Py.PathLib Py.PathLibProofs FS.Model FS.Lemmas FS.PlainPaths FS.WfCheck
  Pipe.Pipeline Pipe.Safety Pipe.PlanExact.
Open Scope N_scope.

(* path resolution is used only through lemmas: the kernel must not unfold [walk 120 ...] at Qed *)
Opaque resolve walk_fuel.

(* ====================== definitions ================================================================ *)
(* the source-side conditions of [entry_ok]: File.relative_path is relative, the input directory is a  *)
(* real directory path, and lstat(relative path) in it finds a file or a symbolic link at exactly      *)
(* input directory/relative path                                                                       *)
Definition source_ok (s : fs) (f : pfile) : Prop :=
  pp_root (pf_rel f) = 0%nat /\
  chdir s (pf_dir f) = Some (pf_dir f) /\
  no_dotdot (pp_parts (pf_rel f)) = true /\
  selected_node s f <> None.

Definition selected_ok_any (s : fs) (plan : list (pfile * rendered)) : Prop :=
  Forall (fun e => source_ok s (fst e)) plan.

Definition source_okb (s : fs) (f : pfile) : bool :=
  Nat.eqb (pp_root (pf_rel f)) 0 &&
  match chdir s (pf_dir f) with Some p => rpath_eqb p (pf_dir f) | None => false end &&
  no_dotdot (pp_parts (pf_rel f)) &&
  match selected_node s f with Some _ => true | None => false end.

Definition selected_ok_anyb (s : fs) (plan : list (pfile * rendered)) : bool :=
  forallb (fun e => source_okb s (fst e)) plan.

(* no conflict is ever resolved by overriding: the flag is stop or ignore, or no line on stdin reads as "override" *)
Definition no_override (c : cfg) : Prop :=
  match c_strategy c with
  | Stop | Ignore => True
  | Manual => no_override_answer (c_answers c)
  | Override => False
  end.

(* the key is not the key of a designated file *)
Definition unselected (plan : list (pfile * rendered)) (k : rpath) : Prop :=
  forall f r, In (f, r) plan -> src_key f <> k.

(* the key is not the destination key (name mode) of a plan entry *)
Definition not_destination (plan : list (pfile * rendered)) (k : rpath) : Prop :=
  forall f t, In (f, RText t) plan -> dst_key f t <> k.

Lemma source_okb_sound s f : source_okb s f = true -> source_ok s f.
Proof.
  unfold source_okb. intros H. repeat (apply andb_true_iff in H as [H ?]).
  repeat split.
  - apply Nat.eqb_eq. assumption.
  - destruct (chdir s (pf_dir f)) as [p|]; [|discriminate]. f_equal. apply rpath_eqb_eq. assumption.
  - assumption.
  - destruct (selected_node s f); [discriminate | discriminate].
Qed.

Lemma selected_ok_anyb_sound s plan : selected_ok_anyb s plan = true -> selected_ok_any s plan.
Proof.
  unfold selected_ok_anyb, selected_ok_any. intros H. apply Forall_forall. intros e He.
  apply source_okb_sound. rewrite forallb_forall in H. apply H, He.
Qed.

(* [selected_ok] asks more *)
Lemma selected_ok_is_any s plan : selected_ok s plan -> selected_ok_any s plan.
Proof.
  intros [F _]. unfold selected_ok_any. rewrite Forall_forall in *. intros [f r] He. specialize (F _ He).
  destruct r as [t|t|ex]; cbn [entry_ok] in F; try contradiction.
  destruct F as [A [B [C [D _]]]]. cbn [fst]. repeat split; assumption.
Qed.

(* ====================== what a successful rename(2) does ============================================== *)
Lemma os_rename_shape x cwd src dst x' :
  os_rename x cwd src dst = SOk x' ->
  bad_last dst = false /\
  exists sp sn, resolve x cwd src false = WFound sp sn /\ sp <> [] /\
    ((exists dpar dname, resolve x cwd dst false = WMissing dpar dname /\ x' = rekey sp (dpar ++ [dname]) x) \/
     (exists dp dn, resolve x cwd dst false = WFound dp dn /\
        (x' = x \/ (dp <> [] /\ dp <> sp /\ is_dir_node sn = is_dir_node dn /\ x' = rekey sp dp (remove_key dp x))))).
Proof.
  unfold os_rename.
  destruct (bad_last src); cbn [orb].
  { destruct (resolve x cwd src false); destruct (resolve x cwd dst false); discriminate. }
  destruct (bad_last dst).
  { destruct (resolve x cwd src false); destruct (resolve x cwd dst false); discriminate. }
  intros H. split; [reflexivity|]. revert H.
  destruct (resolve x cwd src false) as [sp sn|? ?|?]; try discriminate.
  destruct sp as [|a sp]; [discriminate|].
  intros H. exists (a :: sp), sn. split; [reflexivity|]. split; [discriminate|]. revert H.
  destruct (resolve x cwd dst false) as [dp dn|dpar dname|e]; try discriminate.
  - intros H. right. exists dp, dn. split; [reflexivity|]. revert H.
    destruct (rpath_eqb dp (a :: sp)) eqn:E.
    { intros H; inversion H. left. reflexivity. }
    apply rpath_eqb_neq in E.
    destruct dp as [|b dp]; [discriminate|].
    destruct sn as [i|i t|], dn as [j|j u|]; try discriminate;
      try (intros H; inversion H; right; repeat split; [discriminate | exact E]).
    destruct (is_prefix_path (a :: sp) (b :: dp)); [discriminate|].
    destruct (has_children x (b :: dp)); [discriminate|].
    intros H; inversion H. right. repeat split; [discriminate | exact E].
  - destruct (name_eqb dname dotdot); [discriminate|].
    destruct (is_dir_node sn && is_prefix_path (a :: sp) (dpar ++ [dname])); [discriminate|].
    intros H; inversion H. left. exists dpar, dname. split; reflexivity.
Qed.

Lemma os_rename_free_shape x cwd src dst x' :
  lexists x cwd dst = false -> os_rename x cwd src dst = SOk x' ->
  exists sp sn dp, resolve x cwd src false = WFound sp sn /\ x' = rekey sp dp x.
Proof.
  intros Lx R. destruct (os_rename_shape _ _ _ _ _ R) as [_ [sp [sn [Rs [_ [[dpar [dname [Rd E]]]|[dp [dn [Rd _]]]]]]]]].
  - exists sp, sn, (dpar ++ [dname]). split; assumption.
  - exfalso. exact (not_lexists_not_found _ _ _ Lx _ _ Rd).
Qed.

(* removing a non-directory keeps the tree well-formed *)
Lemma remove_leaf_WF s dp n : WF s -> In (dp, n) s -> is_dir_node n = false -> WF (remove_key dp s).
Proof.
  intros [ND CL] Hin Hnd. split.
  - unfold remove_key. apply NoDup_map_filter. assumption.
  - intros k m Hk. apply In_remove_key in Hk as [Hk Hne]. destruct (CL _ _ Hk) as [Hk0 C].
    split; [assumption|]. intros q Hq Hp. apply In_remove_key. split; [apply C; assumption|].
    intros E. subst q. pose proof (C dp Hq Hp) as Hd. rewrite (In_unique s dp _ _ ND Hin Hd) in Hnd. discriminate.
Qed.

Lemma bad_last_false_snoc ab pre l : bad_last {| up_abs := ab; up_comps := pre ++ [l] |} = false -> name_eqb l dotdot = false.
Proof.
  unfold bad_last. cbn [up_comps]. rewrite last_last. destruct (pre ++ [l]) eqn:E; [destruct pre; discriminate|].
  intros H; exact H.
Qed.

(* ====================== an invariant of the filesystem states, through a whole run ====================== *)
Section Generic.
Variable I : fs -> Prop.

Definition Good (w : world) : Prop := Forall I (w_fs w :: w_hist w).

Lemma Good_fs w : Good w -> I (w_fs w).
Proof. intros H. inversion H; assumption. Qed.

Lemma Good_same w w' : w_fs w' = w_fs w -> w_hist w' = w_hist w -> Good w -> Good w'.
Proof. unfold Good. intros -> ->. auto. Qed.

Lemma Good_sys flt k w r w' e :
  Good w -> (forall s', r = SOk s' -> I s') -> sys flt k w r = (w', e) -> Good w'.
Proof.
  intros H G. unfold sys. destruct (faulted flt w).
  - intros E; inversion E; subst. exact H.
  - destruct r as [s'|er]; intros E; inversion E; subst.
    + unfold Good. simpl. constructor; [apply G; reflexivity|]. constructor; [apply G; reflexivity|].
      inversion H; assumption.
    + exact H.
Qed.

Hypothesis I_mkdir : forall x cwd p x', I x -> os_mkdir x cwd p = SOk x' -> I x'.

Lemma Good_mkdir_once flt w cwd p w' e : Good w -> mkdir_once flt w cwd p = (w', e) -> Good w'.
Proof.
  intros H. unfold mkdir_once. apply Good_sys; [assumption|].
  intros s' E. apply (I_mkdir _ _ _ _ (Good_fs _ H) E).
Qed.

Lemma Good_mkdir_p fuel flt w cwd p w' e : Good w -> mkdir_p fuel flt w cwd p = (w', e) -> Good w'.
Proof.
  revert w p w' e. induction fuel as [|f IH]; intros w p w' e H; simpl.
  - destruct (mkdir_once flt w cwd p) as [w1 [er|]] eqn:M1.
    + pose proof (Good_mkdir_once _ _ _ _ _ _ H M1) as H1.
      destruct er; intros E; inversion E; subst; assumption.
    + intros E; inversion E; subst. eapply Good_mkdir_once; eassumption.
  - destruct (mkdir_once flt w cwd p) as [w1 [er|]] eqn:M1.
    + pose proof (Good_mkdir_once _ _ _ _ _ _ H M1) as H1.
      destruct er; try (intros E; inversion E; subst; assumption).
      destruct (pp_parts p) eqn:Hp; [intros E; inversion E; subst; assumption|].
      destruct (mkdir_p f flt w1 cwd (pp_parent p)) as [w2 [e2|]] eqn:M2.
      * intros E; inversion E; subst. eapply IH; eassumption.
      * pose proof (IH _ _ _ _ H1 M2) as H2.
        destruct (mkdir_once flt w2 cwd p) as [w3 [e3|]] eqn:M3.
        -- pose proof (Good_mkdir_once _ _ _ _ _ _ H2 M3) as H3.
           destruct e3; intros E; inversion E; subst; assumption.
        -- intros E; inversion E; subst. eapply Good_mkdir_once; eassumption.
    + intros E; inversion E; subst. eapply Good_mkdir_once; eassumption.
Qed.
End Generic.

(* ---------- the two passes keep an invariant that the renamer keeps for the designated sources ------------ *)
Section Passes.
Variable c : cfg.
Variable plan : list (pfile * rendered).
Variable I : fs -> Prop.
Hypothesis Cv : c_var c = fixed.
Hypothesis chdir_ok : forall x f r, In (f, r) plan -> I x -> chdir x (pf_dir f) = Some (pf_dir f).
(* without override, whatever the destination (a generated path, or a custom path typed at the prompt) *)
Hypothesis ren_ok : forall f r dst w w' e,
  In (f, r) plan -> Good I w -> renamer c w (pf_dir f) (pf_rel f) dst false = (w', e) -> Good I w'.
(* with override, onto the generated path: either it never happens, or it keeps the invariant too *)
Hypothesis ovr_ok :
  no_override c \/
  forall f r np w w' e, In (f, r) plan -> generate (c_mode c) f r = inl np -> Good I w ->
    renamer c w (pf_dir f) (pf_rel f) np true = (w', e) -> Good I w'.

(* every deferred rename is one of the plan, with the path generated for it *)
Definition from_plan (b : backlog_entry) : Prop :=
  exists f r, In (f, r) plan /\ generate (c_mode c) f r = inl (snd b) /\ fst (fst b) = pf_dir f /\ snd (fst b) = pf_rel f.

Lemma rc_good f r np w w' e :
  In (f, r) plan -> generate (c_mode c) f r = inl np -> Good I w -> answers_within c w ->
  resolve_conflict c w (pf_dir f) (pf_rel f) np = (w', e) -> Good I w' /\ answers_within c w'.
Proof.
  intros Hin Hg H AW. unfold resolve_conflict.
  destruct (c_strategy c) eqn:Cs.
  - simpl. intros E; inversion E; subst. auto.
  - simpl. intros E; inversion E; subst. auto.
  - simpl. intros E. split.
    + destruct ovr_ok as [NO|OV]; [unfold no_override in NO; rewrite Cs in NO; contradiction|].
      apply (OV f r np w w' e Hin Hg H E).
    + intros a Ha. apply AW. rewrite <- (renamer_answers _ _ _ _ _ _ _ _ E). assumption.
  - destruct (prompt (S (length (w_answers w))) w) as [d w1] eqn:P.
    destruct (prompt_props _ _ _ _ P) as [A [B [C [D NM]]]].
    assert (H1 : Good I w1) by (eapply Good_same; eassumption).
    assert (AW1 : answers_within c w1) by (intros a Ha; apply AW, C, Ha).
    destruct d as [st|p|].
    + destruct st; simpl.
      * intros E; inversion E; subst. auto.
      * intros E; inversion E; subst. auto.
      * intros E. split.
        -- destruct ovr_ok as [NO|OV].
           ++ exfalso. unfold no_override in NO. rewrite Cs in NO.
              destruct (D eq_refl) as [a [Ha Pa]]. unfold no_override_answer in NO.
              rewrite Forall_forall in NO. apply (NO a); [apply AW, Ha | assumption].
           ++ apply (OV f r np w1 w' e Hin Hg H1 E).
        -- intros a Ha. apply AW1. rewrite <- (renamer_answers _ _ _ _ _ _ _ _ E). assumption.
      * congruence.
    + intros E. split; [apply (ren_ok f r _ w1 w' e Hin H1 E)|].
      intros a Ha. apply AW1. rewrite <- (renamer_answers _ _ _ _ _ _ _ _ E). assumption.
    + intros E; inversion E; subst. auto.
Qed.

Lemma first_pass_good : forall rest w cwd bl w' cwd' bl' e,
  incl rest plan -> Good I w -> Forall from_plan bl ->
  first_pass c rest w cwd bl = (w', cwd', bl', e) ->
  Good I w' /\ Forall from_plan bl' /\ w_answers w' = w_answers w.
Proof.
  induction rest as [|[f r] rest IH]; intros w cwd bl w' cwd' bl' e Inc H BL.
  - simpl. intros E; inversion E; subst. auto.
  - assert (Hin : In (f, r) plan) by (apply Inc; left; reflexivity).
    assert (Inc' : incl rest plan) by (intros a Ha; apply Inc; right; exact Ha).
    cbn [first_pass]. rewrite (chdir_ok _ f r Hin (Good_fs _ _ H)).
    destruct (generate (c_mode c) f r) as [np|ex] eqn:G; [|intros E; inversion E; subst; auto].
    destruct (ppath_eqb np (pf_rel f)); [apply IH; assumption|].
    destruct (contained (c_var c) (w_fs w) f np) as [[|]|]; try (intros E; inversion E; subst; auto; fail).
    destruct (dest_parent_test (c_var c) (w_fs w) f np) as [[|]|]; try (intros E; inversion E; subst; auto; fail).
    destruct (parents_contained (w_fs w) f np) as [[|]|]; try (intros E; inversion E; subst; auto; fail).
    destruct (source_contained (w_fs w) f) as [[|]|]; try (intros E; inversion E; subst; auto; fail).
    destruct (renamer c w (pf_dir f) (pf_rel f) np false) as [w1 [e1|]] eqn:R;
      pose proof (ren_ok f r np w w1 _ Hin H R) as H1; pose proof (renamer_answers _ _ _ _ _ _ _ _ R) as A1.
    + destruct (is_file_exists e1).
      * intros E.
        assert (BL1 : Forall from_plan ((pf_dir f, pf_rel f, np) :: bl)).
        { constructor; [|exact BL]. exists f, r. repeat split; assumption. }
        destruct (IH _ _ _ _ _ _ _ Inc' H1 BL1 E) as [X [Y Z]]. split; [assumption|]. split; [assumption | congruence].
      * intros E; inversion E; subst. auto.
    + intros E. destruct (IH _ _ _ _ _ _ _ Inc' H1 BL E) as [X [Y Z]]. split; [assumption|]. split; [assumption | congruence].
Qed.

Lemma second_pass_good : forall bl w cwd w' cwd' e,
  Forall from_plan bl -> answers_within c w -> Good I w ->
  second_pass c bl w cwd = (w', cwd', e) -> Good I w'.
Proof.
  induction bl as [|[[d src] dst] rest IH]; intros w cwd w' cwd' e BL AW H.
  - simpl. intros E; inversion E; subst. assumption.
  - inversion BL as [|? ? B0 BL']; subst. destruct B0 as [f [r [Hin [Hg [Ed Es]]]]]. cbn [fst snd] in Hg, Ed, Es. subst d src.
    cbn [second_pass]. rewrite Cv. cbn [fixed v_backlog_chdir].
    rewrite (chdir_ok _ f r Hin (Good_fs _ _ H)).
    destruct (backlog_verify fixed (w_fs w) (pf_dir f) (pf_rel f) dst); [intros E; inversion E; subst; assumption|].
    destruct (renamer c w (pf_dir f) (pf_rel f) dst false) as [w1 [e1|]] eqn:R;
      pose proof (ren_ok f r dst w w1 _ Hin H R) as H1; pose proof (renamer_answers _ _ _ _ _ _ _ _ R) as A1.
    + assert (AW1 : answers_within c w1) by (intros a Ha; apply AW; rewrite <- A1; assumption).
      destruct (is_file_exists e1).
      * destruct (resolve_conflict c w1 (pf_dir f) (pf_rel f) dst) as [w2 [e2|]] eqn:RC;
          destruct (rc_good f r dst _ _ _ Hin Hg H1 AW1 RC) as [H2 AW2].
        -- intros E; inversion E; subst. assumption.
        -- apply IH; assumption.
      * intros E; inversion E; subst. assumption.
    + apply IH; [assumption | | assumption]. intros a Ha. apply AW. rewrite <- A1. assumption.
Qed.

Theorem run_good cwd s :
  I s -> forall s', In s' (r_final (run c plan cwd s) :: s :: r_states (run c plan cwd s)) -> I s'.
Proof.
  intros I0. unfold run.
  assert (H0 : Good I (init_world s (c_answers c))) by (unfold Good; simpl; constructor; [assumption | constructor]).
  destruct (first_pass c plan (init_world s (c_answers c)) cwd []) as [[[w1 cwd1] bl] e1] eqn:FP.
  destruct (first_pass_good _ _ _ _ _ _ _ _ (incl_refl plan) H0 (Forall_nil _) FP) as [H1 [BL1 A1]].
  assert (AW1 : answers_within c w1) by (intros a Ha; rewrite A1 in Ha; exact Ha).
  assert (Fin : forall w2, Good I w2 -> forall s', In s' (w_fs w2 :: s :: rev (w_hist w2)) -> I s').
  { intros w2 H2 s' Hs. unfold Good in H2. rewrite Forall_forall in H2.
    destruct Hs as [Hs|[Hs|Hs]]; [apply H2; left; exact Hs | subst; exact I0 |].
    apply H2. right. apply in_rev. exact Hs. }
  destruct e1 as [e|].
  - simpl. apply Fin. assumption.
  - destruct (second_pass c bl w1 cwd1) as [[w2 cwd2] e2] eqn:SP. simpl.
    apply Fin. eapply second_pass_good; eassumption.
Qed.
End Passes.

(* ====================== the designated sources, in the initial tree ====================================== *)
Section Sources.
Variable s : fs.
Variable plan : list (pfile * rendered).
Hypothesis W : WF s.
Hypothesis OK : selected_ok_any s plan.

Lemma plan_source f r : In (f, r) plan -> source_ok s f.
Proof. intros H. unfold selected_ok_any in OK. rewrite Forall_forall in OK. apply (OK _ H). Qed.

Lemma src_facts f r :
  In (f, r) plan ->
  exists n, In (src_key f, n) s /\ is_dir_node n = false /\ src_key f <> [] /\ pp_parts (pf_rel f) <> [] /\
            (length (pp_parts (pf_rel f)) <= walk_fuel)%nat.
Proof.
  intros Hin. destruct (plan_source f r Hin) as [_ [Hcd [_ Hsel]]]. unfold selected_node in Hsel.
  destruct (resolve s (pf_dir f) (to_upath (pf_rel f)) false) as [p n|? ?|?] eqn:R; try congruence.
  destruct (rpath_eqb p (src_key f)) eqn:Ep; [|simpl in Hsel; congruence].
  destruct (is_dir_node n) eqn:En; [simpl in Hsel; congruence|].
  apply rpath_eqb_eq in Ep. subst p.
  pose proof (resolve_found _ _ _ _ _ _ R) as L.
  assert (Hne : src_key f <> []).
  { intros Z. rewrite Z in L. simpl in L. inversion L; subst. discriminate. }
  exists n. split; [apply lookup_In; assumption|]. split; [exact En|]. split; [exact Hne|]. split.
  - intros Z. unfold src_key in L. rewrite Z, app_nil_r in L.
    unfold chdir in Hcd.
    destruct (resolve s [] {| up_abs := true; up_comps := pf_dir f |} true) as [q [i|i tg|]|? ?|?] eqn:R2; try discriminate.
    injection Hcd as Eq. apply resolve_found in R2. rewrite Eq in R2. rewrite R2 in L. inversion L; subst. discriminate.
  - apply resolve_found_fuel in R as [R _]. exact R.
Qed.

(* the directories of the initial tree are not designated *)
Lemma dir_unselected k : In (k, NDir) s -> unselected plan k.
Proof.
  intros Hk f r Hin E. destruct (src_facts f r Hin) as [n [Hn [Hnd _]]]. rewrite E in Hn.
  destruct W as [ND _]. rewrite (In_unique s k n NDir ND Hn Hk) in Hnd. discriminate.
Qed.

(* ---------- the invariant: well-formed, and every protected entry is where it was --------------------------- *)
Section Keep.
Variable prot : rpath -> Prop.
Hypothesis prot_unsel : forall k, prot k -> unselected plan k.
Hypothesis prot_dirs : forall k, In (k, NDir) s -> prot k.

Definition Keep (x : fs) : Prop := WF x /\ forall k n, In (k, n) s -> prot k -> In (k, n) x.

Lemma Keep_init : Keep s.
Proof. split; [exact W | intros k n H _; exact H]. Qed.

(* no protected entry lies at or below a designated file *)
Lemma not_under f r k n : In (f, r) plan -> In (k, n) s -> prot k -> is_prefix_path (src_key f) k = false.
Proof.
  intros Hin Hk Hp. apply is_prefix_false. intros [t E].
  destruct (src_facts f r Hin) as [m [Hm [Hnd [Hne _]]]].
  destruct t as [|a t].
  - rewrite app_nil_r in E. apply (prot_unsel k Hp f r Hin). symmetry. exact E.
  - destruct W as [ND CL]. destruct (CL _ _ Hk) as [_ C].
    assert (Hd : In (src_key f, NDir) s) by (apply C; [exact Hne | exists (a :: t); split; [discriminate | exact E]]).
    rewrite (In_unique s _ _ _ ND Hm Hd) in Hnd. discriminate.
Qed.

(* everything above a designated file is still a directory *)
Lemma above x f r q t : Keep x -> In (f, r) plan -> src_key f = q ++ t -> t <> [] -> lookup x q = Some NDir.
Proof.
  intros [Wx Kx] Hin E Ht. destruct q as [|a q]; [reflexivity|].
  destruct (src_facts f r Hin) as [m [Hm _]].
  assert (Hd : In (a :: q, NDir) s).
  { destruct W as [_ CL]. destruct (CL _ _ Hm) as [_ C]. apply C; [discriminate | exists t; split; assumption]. }
  apply In_lookup; [exact Wx|]. apply Kx; [exact Hd | apply prot_dirs, Hd].
Qed.

Lemma chdir_keep x f r : In (f, r) plan -> Keep x -> chdir x (pf_dir f) = Some (pf_dir f).
Proof.
  intros Hin K. destruct (plan_source f r Hin) as [_ [Hcd _]].
  destruct (src_facts f r Hin) as [m [_ [_ [_ [Hp _]]]]].
  assert (Hlen : (length (pf_dir f) <= walk_fuel /\ 0 < walk_fuel)%nat).
  { unfold chdir in Hcd.
    destruct (resolve s [] {| up_abs := true; up_comps := pf_dir f |} true) as [p n|? ?|?] eqn:R; try discriminate.
    apply resolve_found_fuel in R. exact R. }
  assert (Hdd : no_dotdot (pf_dir f) = true).
  { unfold chdir in Hcd.
    destruct (resolve s [] {| up_abs := true; up_comps := pf_dir f |} true) as [p [i|i tg|]|? ?|?] eqn:R; try discriminate.
    injection Hcd as Ep. apply resolve_found_no_dotdot in R; [|reflexivity]. rewrite Ep in R. exact R. }
  assert (Hpre : forall q, (exists t, pf_dir f = q ++ t) -> lookup x q = Some NDir).
  { intros q [t Et]. apply (above x f r q (t ++ pp_parts (pf_rel f)) K Hin).
    - unfold src_key. rewrite Et, app_assoc. reflexivity.
    - intros Z. apply app_eq_nil in Z as [_ Z]. contradiction. }
  unfold chdir. destruct (pf_dir f) as [|a d] eqn:Ed.
  - rewrite (resolve_nil x [] {| up_abs := true; up_comps := [] |} true); [reflexivity | lia | reflexivity].
  - pose proof (PlanExact.resolve_plain x [] {| up_abs := true; up_comps := a :: d |} true) as R.
    cbn [up_abs up_comps] in R. cbv zeta in R.
    assert (L : lookup x ([] ++ a :: d) = Some NDir) by (apply Hpre; exists []; rewrite app_nil_r; reflexivity).
    rewrite L in R. rewrite R; [reflexivity | lia | discriminate | exact Hdd | | right; intros; discriminate].
    intros pre post E _. apply Hpre. exists post. exact E.
Qed.

(* a designated path resolves to its own key, whatever lies there now *)
Lemma src_resolves_keep x f r :
  In (f, r) plan -> Keep x ->
  resolve x (pf_dir f) (to_upath (pf_rel f)) false =
    match lookup x (src_key f) with
    | Some n => WFound (src_key f) n
    | None => WMissing (pf_dir f ++ removelast (pp_parts (pf_rel f))) (last (pp_parts (pf_rel f)) [])
    end.
Proof.
  intros Hin K. destruct (plan_source f r Hin) as [Hroot [_ [Hdd _]]].
  destruct (src_facts f r Hin) as [m [_ [_ [_ [Hp Hlen]]]]].
  rewrite (to_upath_rel _ Hroot).
  pose proof (PlanExact.resolve_plain x (pf_dir f) {| up_abs := false; up_comps := pp_parts (pf_rel f) |} false) as R1.
  cbn [up_abs up_comps] in R1. cbv zeta in R1.
  change (pf_dir f ++ pp_parts (pf_rel f)) with (src_key f) in R1.
  assert (Ab : forall pre post, pp_parts (pf_rel f) = pre ++ post -> post <> [] -> lookup x (pf_dir f ++ pre) = Some NDir).
  { intros pre post E Hpost. apply (above x f r (pf_dir f ++ pre) post K Hin); [|exact Hpost].
    unfold src_key. rewrite E, app_assoc. reflexivity. }
  specialize (R1 Hlen Hp Hdd Ab).
  destruct (lookup x (src_key f)) as [n|]; [apply R1; left; reflexivity | exact R1].
Qed.

(* moving a designated key (and what lies below it) moves no protected entry *)
Lemma rekey_keep y f r dp :
  In (f, r) plan -> (forall k n, In (k, n) s -> prot k -> In (k, n) y) ->
  forall k n, In (k, n) s -> prot k -> In (k, n) (rekey (src_key f) dp y).
Proof.
  intros Hin Ky k n Hk Hp. pose proof (In_rekey (src_key f) dp y k n (Ky _ _ Hk Hp)) as X.
  rewrite rekey_outside in X; [exact X | apply (not_under f r k n Hin Hk Hp)].
Qed.

Lemma found_is_src x f r sp sn :
  In (f, r) plan -> Keep x -> resolve x (pf_dir f) (to_upath (pf_rel f)) false = WFound sp sn -> sp = src_key f.
Proof.
  intros Hin K R. rewrite (src_resolves_keep x f r Hin K) in R.
  destruct (lookup x (src_key f)); [inversion R; reflexivity | discriminate].
Qed.

Lemma rename_free_keep x f r dst x' :
  In (f, r) plan -> Keep x -> lexists x (pf_dir f) dst = false ->
  os_rename x (pf_dir f) (to_upath (pf_rel f)) dst = SOk x' -> Keep x'.
Proof.
  intros Hin K Lx Ren.
  destruct (os_rename_free_preserves _ _ _ _ _ (proj1 K) Lx Ren) as [W' _].
  split; [exact W'|].
  destruct (os_rename_free_shape _ _ _ _ _ Lx Ren) as [sp [sn [dp [Rs E]]]].
  rewrite (found_is_src x f r sp sn Hin K Rs) in E. subst x'.
  apply (rekey_keep x f r dp Hin (proj2 K)).
Qed.

Lemma move_free_keep x f r dst x' :
  In (f, r) plan -> Keep x -> lexists x (pf_dir f) dst = false ->
  shutil_move_fs x (pf_dir f) (to_upath (pf_rel f)) dst = SOk x' -> Keep x'.
Proof.
  intros Hin K Lx. unfold shutil_move_fs. rewrite (not_lexists_not_dir _ _ _ Lx).
  apply (rename_free_keep x f r dst x' Hin K Lx).
Qed.

Lemma mkdir_keep x cwd p x' : Keep x -> os_mkdir x cwd p = SOk x' -> Keep x'.
Proof.
  intros [Wx Kx] M. destruct (mkdir_preserves _ _ _ _ Wx M) as [W' _]. split; [exact W'|].
  revert M. unfold os_mkdir.
  destruct (resolve x cwd p false) as [? ?|par nm|?]; try discriminate.
  destruct (name_eqb nm dotdot); [discriminate|].
  intros E; inversion E; subst. intros k n Hk Hp. apply in_or_app. left. apply Kx; assumption.
Qed.

(* ---------- the renamers, without override, for a designated source and ANY destination ------------------- *)
Lemma Keep_file_renamer flt w f r dst w' e :
  In (f, r) plan -> Good Keep w -> file_renamer fixed flt w (pf_dir f) (pf_rel f) dst false = (w', e) -> Good Keep w'.
Proof.
  intros Hin H. unfold file_renamer, guard_exists. cbn [fixed v_lexists_guard negb andb].
  destruct (lexists (w_fs w) (pf_dir f) (to_upath dst)) eqn:Lx; [intros E; inversion E; subst; assumption|].
  destruct (ppath_eqb (pp_parent (pf_rel f)) (pp_parent dst)); simpl; [|intros E; inversion E; subst; assumption].
  destruct (sys flt CRename w (os_rename (w_fs w) (pf_dir f) (to_upath (pf_rel f)) (to_upath dst))) as [w1 [er|]] eqn:S;
    intros E; inversion E; subst;
    (eapply Good_sys; [exact H | | exact S]);
    intros s' R; apply (rename_free_keep _ f r _ _ Hin (Good_fs _ _ H) Lx R).
Qed.

Lemma Keep_file_mover flt w f r dst w' e :
  In (f, r) plan -> Good Keep w -> file_mover fixed flt w (pf_dir f) (pf_rel f) dst false = (w', e) -> Good Keep w'.
Proof.
  intros Hin H. unfold file_mover, guard_exists. cbn [fixed v_lexists_guard v_recheck_after_mkdir negb andb].
  destruct (lexists (w_fs w) (pf_dir f) (to_upath dst)); [intros E; inversion E; subst; assumption|].
  destruct (mkdir_p (S (length (pp_parts dst))) flt w (pf_dir f) (pp_parent dst)) as [w1 [e1|]] eqn:M.
  - intros E; inversion E; subst. eapply (Good_mkdir_p Keep mkdir_keep); eassumption.
  - pose proof (Good_mkdir_p Keep mkdir_keep _ _ _ _ _ _ _ H M) as H1.
    destruct (lexists (w_fs w1) (pf_dir f) (to_upath dst)) eqn:Lx; [intros E; inversion E; subst; assumption|].
    destruct (sys flt CMove w1 (shutil_move_fs (w_fs w1) (pf_dir f) (to_upath (pf_rel f)) (to_upath dst))) as [w2 [er|]] eqn:S;
      intros E; inversion E; subst;
      (eapply Good_sys; [exact H1 | | exact S]);
      intros s' R; apply (move_free_keep _ f r _ _ Hin (Good_fs _ _ H1) Lx R).
Qed.

Lemma Keep_renamer c w f r dst w' e :
  c_var c = fixed -> In (f, r) plan -> Good Keep w ->
  renamer c w (pf_dir f) (pf_rel f) dst false = (w', e) -> Good Keep w'.
Proof.
  intros Cv Hin H. unfold renamer.
  destruct (renamer_core c w (pf_dir f) (pf_rel f) dst false) as [w1 e1] eqn:R. unfold renamer_core in R.
  assert (H1 : Good Keep w1).
  { rewrite Cv in R. destruct (c_dry c).
    - destruct (dry_renamer_fs _ _ _ _ _ _ _ _ _ R) as [A B]. eapply Good_same; eassumption.
    - destruct (c_mode c); [eapply Keep_file_renamer | eapply Keep_file_mover | eapply Keep_file_renamer]; eassumption. }
  destruct e1; intros E; inversion E; subst; exact H1.
Qed.


(* ---------- with override, name and directory mode: no directory appears, none disappears ------------------- *)
(* the path the name generator builds for (f, t) resolves to the destination key, whatever lies there now *)
Lemma dst_resolves_keep x f r t :
  In (f, r) plan -> Keep x -> name_eqb t dotdot = false ->
  resolve x (pf_dir f) (to_upath (new_path f t)) false =
    match lookup x (dst_key f t) with
    | Some m => WFound (dst_key f t) m
    | None => WMissing (pf_dir f ++ removelast (pp_parts (pf_rel f))) t
    end.
Proof.
  intros Hin K Ht. destruct (plan_source f r Hin) as [Hroot [_ [Hddp _]]].
  destruct (src_facts f r Hin) as [m [_ [_ [_ [Hp Hlen]]]]].
  assert (Hparts : pp_parts (pf_rel f) = removelast (pp_parts (pf_rel f)) ++ [last (pp_parts (pf_rel f)) []])
    by (symmetry; apply removelast_last_app; exact Hp).
  set (d := pf_dir f) in *. set (rp := removelast (pp_parts (pf_rel f))) in *.
  unfold name in Hlen.
  assert (Hl2 : length (pp_parts (pf_rel f)) = S (length rp)).
  { rewrite Hparts at 1. rewrite app_length. simpl. lia. }
  assert (Hroot' : pp_root (new_path f t) = 0%nat) by exact Hroot.
  rewrite (to_upath_rel _ Hroot'). cbn [new_path pp_parts]. fold rp.
  pose proof (PlanExact.resolve_plain x d {| up_abs := false; up_comps := rp ++ [t] |} false) as R1.
  cbn [up_abs up_comps] in R1. cbv zeta in R1.
  assert (Pre : (length (rp ++ [t]) <= walk_fuel)%nat) by (rewrite app_length; simpl; unfold name; lia).
  assert (Ne : rp ++ [t] <> []) by (destruct rp; discriminate).
  assert (Dd : no_dotdot (rp ++ [t]) = true).
  { unfold no_dotdot in *. rewrite forallb_app. rewrite Hparts in Hddp. rewrite forallb_app in Hddp.
    apply andb_true_iff in Hddp as [Hd1 _]. rewrite Hd1. simpl. rewrite Ht. reflexivity. }
  assert (Ab : forall pre post, rp ++ [t] = pre ++ post -> post <> [] -> lookup x (d ++ pre) = Some NDir).
  { intros pre post E Hpost. destruct (snoc_split _ _ _ _ (eq_sym E) Hpost) as [r' Hr'].
    apply (above x f r (d ++ pre) (r' ++ [last (pp_parts (pf_rel f)) []]) K Hin).
    - unfold src_key. fold d. rewrite <- app_assoc. f_equal. rewrite app_assoc, <- Hr'. exact Hparts.
    - destruct r'; discriminate. }
  specialize (R1 Pre Ne Dd Ab).
  change (match lookup x (dst_key f t) with
          | None => resolve x d {| up_abs := false; up_comps := rp ++ [t] |} false =
                    WMissing (d ++ removelast (rp ++ [t])) (last (rp ++ [t]) [])
          | Some n => (false = false \/ forall i t0, n <> NLink i t0) ->
                    resolve x d {| up_abs := false; up_comps := rp ++ [t] |} false = WFound (dst_key f t) n
          end) in R1.
  destruct (lookup x (dst_key f t)) as [m'|].
  - apply R1. left. reflexivity.
  - rewrite removelast_last, last_last in R1. exact R1.
Qed.

Section Over.
(* a protected key is a directory of the initial tree or is not the destination key of any plan entry *)
Hypothesis prot_dst : forall k, prot k -> In (k, NDir) s \/ not_destination plan k.

Definition KeepD (x : fs) : Prop := Keep x /\ forall k, In (k, NDir) x -> In (k, NDir) s.

Lemma KeepD_init : KeepD s.
Proof. split; [exact Keep_init | intros k H; exact H]. Qed.

Lemma rekey_dirs y f r dp :
  In (f, r) plan -> (forall k, In (k, NDir) y -> In (k, NDir) s) ->
  forall k, In (k, NDir) (rekey (src_key f) dp y) -> In (k, NDir) s.
Proof.
  intros Hin Dy k Hk. apply In_rekey_inv in Hk as [k0 [Hk0 E]]. pose proof (Dy _ Hk0) as Hs.
  rewrite rekey_outside in E by (apply (not_under f r k0 NDir Hin Hs (prot_dirs _ Hs))). subst k. exact Hs.
Qed.

Lemma rename_free_keepD x f r dst x' :
  In (f, r) plan -> KeepD x -> lexists x (pf_dir f) dst = false ->
  os_rename x (pf_dir f) (to_upath (pf_rel f)) dst = SOk x' -> KeepD x'.
Proof.
  intros Hin [K D] Lx Ren. split; [apply (rename_free_keep x f r dst x' Hin K Lx Ren)|].
  destruct (os_rename_free_shape _ _ _ _ _ Lx Ren) as [sp [sn [dp [Rs E]]]].
  rewrite (found_is_src x f r sp sn Hin K Rs) in E. subst x'.
  apply (rekey_dirs x f r dp Hin D).
Qed.

Lemma src_not_dir x f r : In (f, r) plan -> KeepD x -> ~ In (src_key f, NDir) x.
Proof. intros Hin [_ D] H. apply D in H. apply (dir_unselected _ H f r Hin). reflexivity. Qed.

(* rename(2) of a designated file onto the path generated for it: the only entry that can be replaced sits at
   the destination key and is not a directory *)
Lemma rename_over_keepD x f t x' :
  In (f, RText t) plan -> KeepD x ->
  os_rename x (pf_dir f) (to_upath (pf_rel f)) (to_upath (new_path f t)) = SOk x' -> KeepD x'.
Proof.
  intros Hin KD Ren. pose proof KD as [K D]. pose proof K as [Wx Kx].
  destruct (plan_source f _ Hin) as [Hroot _].
  destruct (src_facts f _ Hin) as [m [Hm [Hmd [Hne [Hp Hlen]]]]].
  destruct (os_rename_shape _ _ _ _ _ Ren) as [Bl [sp [sn [Rs [_ Cases]]]]].
  assert (Ht : name_eqb t dotdot = false).
  { assert (Hroot' : pp_root (new_path f t) = 0%nat) by exact Hroot.
    rewrite (to_upath_rel _ Hroot') in Bl. cbn [new_path pp_parts] in Bl. apply (bad_last_false_snoc _ _ _ Bl). }
  pose proof (found_is_src x f _ sp sn Hin K Rs) as Esp. subst sp.
  pose proof (dst_resolves_keep x f _ t Hin K Ht) as Rd.
  destruct Cases as [[dpar [dname [Rd' E]]] | [dp [dn [Rd' [E | [Hdp [Hne2 [Hdir E]]]]]]]].
  - apply (rename_free_keepD x f _ (to_upath (new_path f t)) x' Hin KD); [|exact Ren].
    unfold lexists. rewrite Rd'. reflexivity.
  - subst x'. exact KD.
  - rewrite Rd in Rd'. destruct (lookup x (dst_key f t)) as [m'|] eqn:L; [|discriminate].
    inversion Rd'; subst dp dn.
    assert (Hsx : In (src_key f, sn) x) by (apply lookup_In; [exact Hne | apply (resolve_found _ _ _ _ _ _ Rs)]).
    assert (Hsn : is_dir_node sn = false).
    { destruct sn; try reflexivity. exfalso. apply (src_not_dir x f _ Hin KD). exact Hsx. }
    assert (Hdn : is_dir_node m' = false) by congruence.
    assert (Hdx : In (dst_key f t, m') x) by (apply lookup_In; assumption).
    set (x1 := remove_key (dst_key f t) x) in *.
    assert (W1 : WF x1) by (apply (remove_leaf_WF x _ m' Wx Hdx Hdn)).
    assert (K1 : forall k n, In (k, n) s -> prot k -> In (k, n) x1).
    { intros k n Hk Hpk. apply In_remove_key. split; [apply Kx; assumption|]. intros Ek. subst k.
      destruct (prot_dst _ Hpk) as [Hd|Hnd].
      - pose proof (Kx _ _ Hd Hpk) as Hdx2. destruct Wx as [ND _].
        rewrite (In_unique x _ _ _ ND Hdx Hdx2) in Hdn. discriminate.
      - apply (Hnd f t Hin). reflexivity. }
    assert (D1 : forall k, In (k, NDir) x1 -> In (k, NDir) s).
    { intros k Hk. apply In_remove_key in Hk as [Hk _]. apply D, Hk. }
    set (dpar := pf_dir f ++ removelast (pp_parts (pf_rel f))).
    assert (Edk : dst_key f t = dpar ++ [t]) by (unfold dst_key, dpar; rewrite app_assoc; reflexivity).
    assert (W' : WF x').
    { subst x'. rewrite Edk. apply (rename_missing_preserves x1 (src_key f) sn); try assumption.
      - apply In_remove_key. split; [exact Hsx | intros Z; apply Hne2; symmetry; exact Z].
      - unfold x1. rewrite lookup_remove_key by exact Hdp.
        destruct (rpath_eqb dpar (dst_key f t)) eqn:Eq.
        + exfalso. apply rpath_eqb_eq in Eq. rewrite Edk in Eq. apply (f_equal (@length _)) in Eq.
          rewrite app_length in Eq. simpl in Eq. lia.
        + apply (above x f _ dpar [last (pp_parts (pf_rel f)) []] K Hin); [|discriminate].
          unfold src_key, dpar. rewrite <- app_assoc. rewrite removelast_last_app by exact Hp. reflexivity.
      - assert (X : lookup x1 (dst_key f t) = None).
        { unfold x1. rewrite lookup_remove_key by exact Hdp. rewrite rpath_eqb_refl. reflexivity. }
        rewrite Edk in X. exact X.
      - rewrite Hsn. reflexivity. }
    split; [split; [exact W'|]|].
    + subst x'. apply (rekey_keep x1 f _ _ Hin K1).
    + subst x'. apply (rekey_dirs x1 f _ _ Hin D1).
Qed.

Lemma KeepD_file_renamer flt w f r dst w' e :
  In (f, r) plan -> Good KeepD w -> file_renamer fixed flt w (pf_dir f) (pf_rel f) dst false = (w', e) -> Good KeepD w'.
Proof.
  intros Hin H. unfold file_renamer, guard_exists. cbn [fixed v_lexists_guard negb andb].
  destruct (lexists (w_fs w) (pf_dir f) (to_upath dst)) eqn:Lx; [intros E; inversion E; subst; assumption|].
  destruct (ppath_eqb (pp_parent (pf_rel f)) (pp_parent dst)); simpl; [|intros E; inversion E; subst; assumption].
  destruct (sys flt CRename w (os_rename (w_fs w) (pf_dir f) (to_upath (pf_rel f)) (to_upath dst))) as [w1 [er|]] eqn:S;
    intros E; inversion E; subst;
    (eapply Good_sys; [exact H | | exact S]);
    intros s' R; apply (rename_free_keepD _ f r _ _ Hin (Good_fs _ _ H) Lx R).
Qed.

Lemma KeepD_file_renamer_over flt w f t w' e :
  In (f, RText t) plan -> Good KeepD w ->
  file_renamer fixed flt w (pf_dir f) (pf_rel f) (new_path f t) true = (w', e) -> Good KeepD w'.
Proof.
  intros Hin H. unfold file_renamer. cbn [negb andb].
  destruct (ppath_eqb (pp_parent (pf_rel f)) (pp_parent (new_path f t))); simpl; [|intros E; inversion E; subst; assumption].
  destruct (sys flt CRename w (os_rename (w_fs w) (pf_dir f) (to_upath (pf_rel f)) (to_upath (new_path f t)))) as [w1 [er|]] eqn:S;
    intros E; inversion E; subst;
    (eapply Good_sys; [exact H | | exact S]);
    intros s' R; apply (rename_over_keepD _ f t _ Hin (Good_fs _ _ H) R).
Qed.

Lemma KeepD_renamer c w f r dst w' e :
  c_var c = fixed -> c_mode c <> MPath -> In (f, r) plan -> Good KeepD w ->
  renamer c w (pf_dir f) (pf_rel f) dst false = (w', e) -> Good KeepD w'.
Proof.
  intros Cv Cm Hin H. unfold renamer.
  destruct (renamer_core c w (pf_dir f) (pf_rel f) dst false) as [w1 e1] eqn:R. unfold renamer_core in R.
  assert (H1 : Good KeepD w1).
  { rewrite Cv in R. destruct (c_dry c).
    - destruct (dry_renamer_fs _ _ _ _ _ _ _ _ _ R) as [A B]. eapply Good_same; eassumption.
    - destruct (c_mode c); [eapply KeepD_file_renamer | congruence | eapply KeepD_file_renamer]; eassumption. }
  destruct e1; intros E; inversion E; subst; exact H1.
Qed.

Lemma KeepD_renamer_over c w f r np w' e :
  c_var c = fixed -> c_mode c <> MPath -> In (f, r) plan -> generate (c_mode c) f r = inl np -> Good KeepD w ->
  renamer c w (pf_dir f) (pf_rel f) np true = (w', e) -> Good KeepD w'.
Proof.
  intros Cv Cm Hin Hg H.
  assert (X : exists t, r = RText t /\ np = new_path f t).
  { destruct r as [t|t|ex]; cbn [generate] in Hg.
    - exists t. split; [reflexivity|].
      assert (Hw : pp_with_name (pf_rel f) t = Some np) by (destruct (c_mode c); [|congruence|];
        (destruct (pp_with_name (pf_rel f) t); [inversion Hg; reflexivity | discriminate])).
      assert (Hn : pp_with_name (pf_rel f) t <> None) by congruence.
      destruct (with_name_form _ _ Hn) as [_ Hf]. rewrite Hf in Hw. inversion Hw. reflexivity.
    - destruct (c_mode c); [discriminate | congruence | discriminate].
    - discriminate. }
  destruct X as [t [-> ->]].
  unfold renamer.
  destruct (renamer_core c w (pf_dir f) (pf_rel f) (new_path f t) true) as [w1 e1] eqn:R. unfold renamer_core in R.
  assert (H1 : Good KeepD w1).
  { rewrite Cv in R. destruct (c_dry c).
    - destruct (dry_renamer_fs _ _ _ _ _ _ _ _ _ R) as [A B]. eapply Good_same; eassumption.
    - destruct (c_mode c); [eapply KeepD_file_renamer_over | congruence | eapply KeepD_file_renamer_over]; eassumption. }
  destruct e1; intros E; inversion E; subst; exact H1.
Qed.

End Over.
End Keep.
End Sources.

(* ====================== the statements ================================================================== *)
(* every mode, every strategy without override, dry or real, any fault index, any outcome *)
Theorem unselected_untouched_any_mode : forall c plan cwd s,
  c_var c = fixed -> WF s -> selected_ok_any s plan -> no_override c ->
  forall k n, In (k, n) s -> (forall f r, In (f, r) plan -> src_key f <> k) ->
  forall s', In s' (r_final (run c plan cwd s) :: s :: r_states (run c plan cwd s)) -> lookup s' k = Some n.
Proof.
  intros c plan cwd s Cv W OK NO k n Hk Hu s' Hs'.
  pose (prot := unselected plan).
  assert (PU : forall k0, prot k0 -> unselected plan k0) by (intros k0 H; exact H).
  assert (PD : forall k0, In (k0, NDir) s -> prot k0) by (intros k0 H; apply (dir_unselected s plan W OK k0 H)).
  assert (K : Keep s prot s').
  { apply (run_good c plan (Keep s prot) Cv) with (cwd := cwd) (s := s).
    - intros x f r Hin Kx. apply (chdir_keep s plan W OK prot PD x f r Hin Kx).
    - intros f r dst w w' e Hin G R. apply (Keep_renamer s plan W OK prot PU PD c w f r dst w' e Cv Hin G R).
    - left. exact NO.
    - apply Keep_init. exact W.
    - exact Hs'. }
  destruct K as [Ws' Ks']. apply In_lookup; [exact Ws'|]. apply Ks'; [exact Hk | exact Hu].
Qed.

(* the statement as asked for (the hypothesis on the mode is not used: see [unselected_untouched_any_mode]) *)
Theorem unselected_untouched : forall c plan cwd s,
  c_var c = fixed -> WF s -> selected_ok_any s plan -> no_override c -> c_mode c <> MDirectory ->
  forall k n, In (k, n) s -> (forall f r, In (f, r) plan -> src_key f <> k) ->
  forall s', In s' (s :: r_states (run c plan cwd s)) -> lookup s' k = Some n.
Proof.
  intros c plan cwd s Cv W OK NO _ k n Hk Hu s' Hs'.
  apply (unselected_untouched_any_mode c plan cwd s Cv W OK NO k n Hk Hu s'). right. exact Hs'.
Qed.

(* with override (the flag, or any answers at the prompt), name and directory mode: every entry outside the
   selection that is a directory, or that does not sit at the destination key of a plan entry, is untouched *)
Theorem unselected_untouched_override : forall c plan cwd s,
  c_var c = fixed -> WF s -> selected_ok_any s plan -> c_mode c <> MPath ->
  forall k n, In (k, n) s -> (forall f r, In (f, r) plan -> src_key f <> k) ->
  (is_dir_node n = true \/ forall f t, In (f, RText t) plan -> dst_key f t <> k) ->
  forall s', In s' (r_final (run c plan cwd s) :: s :: r_states (run c plan cwd s)) -> lookup s' k = Some n.
Proof.
  intros c plan cwd s Cv W OK Cm k n Hk Hu Hd s' Hs'.
  pose (prot := fun k0 => unselected plan k0 /\ (In (k0, NDir) s \/ not_destination plan k0)).
  assert (PU : forall k0, prot k0 -> unselected plan k0) by (intros k0 [H _]; exact H).
  assert (PD : forall k0, In (k0, NDir) s -> prot k0).
  { intros k0 H. split; [apply (dir_unselected s plan W OK k0 H) | left; exact H]. }
  assert (PT : forall k0, prot k0 -> In (k0, NDir) s \/ not_destination plan k0) by (intros k0 [_ H]; exact H).
  assert (K : KeepD s prot s').
  { apply (run_good c plan (KeepD s prot) Cv) with (cwd := cwd) (s := s).
    - intros x f r Hin [Kx _]. apply (chdir_keep s plan W OK prot PD x f r Hin Kx).
    - intros f r dst w w' e Hin G R. apply (KeepD_renamer s plan W OK prot PU PD c w f r dst w' e Cv Cm Hin G R).
    - right. intros f r np w w' e Hin Hg G R.
      apply (KeepD_renamer_over s plan W OK prot PU PD PT c w f r np w' e Cv Cm Hin Hg G R).
    - apply KeepD_init. exact W.
    - exact Hs'. }
  destruct K as [[Ws' Ks'] _]. apply In_lookup; [exact Ws'|]. apply Ks'; [exact Hk|].
  split; [exact Hu|]. destruct Hd as [Hd|Hd]; [left | right; exact Hd].
  destruct n; try discriminate. exact Hk.
Qed.

(* ====================== boolean checkers of the side conditions, and an example ========================== *)
Definition unselectedb (plan : list (pfile * rendered)) (k : rpath) : bool :=
  forallb (fun e => negb (rpath_eqb (src_key (fst e)) k)) plan.

Definition not_destinationb (plan : list (pfile * rendered)) (k : rpath) : bool :=
  forallb (fun e => match snd e with RText t => negb (rpath_eqb (dst_key (fst e) t) k) | _ => true end) plan.

Lemma unselectedb_sound plan k : unselectedb plan k = true -> forall f r, In (f, r) plan -> src_key f <> k.
Proof.
  unfold unselectedb. rewrite forallb_forall. intros H f r Hin E. specialize (H _ Hin). cbn [fst] in H.
  rewrite E, rpath_eqb_refl in H. discriminate.
Qed.

Lemma not_destinationb_sound plan k :
  not_destinationb plan k = true -> forall f t, In (f, RText t) plan -> dst_key f t <> k.
Proof.
  unfold not_destinationb. rewrite forallb_forall. intros H f t Hin E. specialize (H _ Hin). cbn [fst snd] in H.
  rewrite E, rpath_eqb_refl in H. discriminate.
Qed.

(* two roots: in/ is renamed in, out/ holds look-alikes (same names, same name as a destination) that are not
   selected.  in/a -> x succeeds; in/b -> x collides with the renamed in/a; in/d -> c collides with the
   unselected in/c. *)
Definition un_in : name := [105; 110].
Definition un_out : name := [111; 117; 116].
Definition un_fs : fs :=
  [ ([un_in], NDir); ([un_in; [97]], NFile 1); ([un_in; [98]], NFile 2); ([un_in; [99]], NFile 3);
    ([un_in; [100]], NFile 6);
    ([un_out], NDir); ([un_out; [97]], NFile 4); ([un_out; [98]], NFile 5); ([un_out; [120]], NFile 7) ].

Definition un_file (parts : list str) : pfile :=
  {| pf_dir := [un_in]; pf_rel := {| pp_root := 0; pp_parts := parts |} |}.

Definition un_plan : list (pfile * rendered) :=
  [ (un_file [[97]], RText [120]); (un_file [[98]], RText [120]); (un_file [[100]], RText [99]) ].

(* the same, and then in/a designated a second time (it is gone by then: the run ends with an OSError) *)
Definition un_plan_twice : list (pfile * rendered) := un_plan ++ [ (un_file [[97]], RText [121]) ].

Definition un_cfg (st : strategy) : cfg :=
  {| c_mode := MName; c_strategy := st; c_dry := false; c_answers := []; c_fault := None; c_var := fixed |}.
