(* Concrete scenarios (generated once from /verif/corpus/*/F*.json by the harness serialiser; committed as source). *)
(* They are the replays of the recorded findings; used by refutation / non-vacuity examples.                         *)
From Tempren Require Import Base.Str Py.PathLib FS.Model Pipe.Pipeline Corr.PipeCorr.
Open Scope N_scope.

(* corpus/C03/F2_two_roots_backlog.json *)
Definition f2_fs : fs := [([[105;110]%N], NDir); ([[105;110]%N; [48]%N], (NFile 1)); ([[105;110]%N; [49]%N], (NFile 2)); ([[105;110;50]%N], NDir); ([[105;110;50]%N; [48]%N], (NFile 3)); ([[105;110;50]%N; [122]%N], (NFile 4)); ([[111;117;116]%N], NDir)].

Definition f2_plan : list (pfile * rendered) := mk_plan [([[105;110]%N], [48]%N, (RText [49]%N)); ([[105;110]%N], [49]%N, (RText [50]%N)); ([[105;110;50]%N], [122]%N, (RText [121]%N))].

Definition f2_cfg (v : variant) (dry : bool) : cfg :=
  {| c_mode := MName; c_strategy := Stop; c_dry := dry; c_answers := (@nil (str)); c_fault := None; c_var := v |}.

(* corpus/C02/F25_directory_mode_deferred_child.json *)
Definition f25_fs : fs := [([[105;110]%N], NDir); ([[105;110]%N; [97]%N], NDir); ([[105;110]%N; [97]%N; [99]%N], NDir); ([[105;110]%N; [97]%N; [107]%N], (NFile 1)); ([[105;110]%N; [98]%N], NDir); ([[105;110]%N; [98]%N; [99]%N], NDir); ([[111;117;116]%N], NDir)].

Definition f25_plan : list (pfile * rendered) := mk_plan [([[105;110]%N], [97;47;99]%N, (RText [107]%N)); ([[105;110]%N], [97]%N, (RText [122]%N)); ([[105;110]%N], [98]%N, (RText [97]%N))].

Definition f25_cfg (v : variant) (dry : bool) : cfg :=
  {| c_mode := MDirectory; c_strategy := Stop; c_dry := dry; c_answers := (@nil (str)); c_fault := None; c_var := v |}.

(* corpus/C05/F3_two_roots_equal_names.json *)
Definition f3_fs : fs := [([[105;110]%N], NDir); ([[105;110]%N; [120]%N], (NFile 1)); ([[105;110]%N; [121]%N], (NFile 2)); ([[105;110;50]%N], NDir); ([[105;110;50]%N; [120]%N], (NFile 3)); ([[111;117;116]%N], NDir)].

Definition f3_plan : list (pfile * rendered) := mk_plan [([[105;110]%N], [120]%N, (RText [88]%N)); ([[105;110]%N], [121]%N, (RText [89]%N)); ([[105;110;50]%N], [120]%N, (RText [88]%N))].

Definition f3_cfg (v : variant) (dry : bool) : cfg :=
  {| c_mode := MName; c_strategy := Stop; c_dry := dry; c_answers := (@nil (str)); c_fault := None; c_var := v |}.

(* corpus/C06/F8_sibling_prefix.json *)
Definition f8_fs : fs := [([[105;110]%N], NDir); ([[105;110]%N; [97]%N], (NFile 1)); ([[105;110;50]%N], NDir); ([[105;110;50]%N; [100;101;99;111;121]%N], (NFile 2)); ([[111;117;116]%N], NDir)].

Definition f8_plan : list (pfile * rendered) := mk_plan [([[105;110]%N], [97]%N, (RText [46;46;47;105;110;50;47;97]%N))].

Definition f8_cfg (v : variant) (dry : bool) : cfg :=
  {| c_mode := MPath; c_strategy := Stop; c_dry := dry; c_answers := (@nil (str)); c_fault := None; c_var := v |}.

(* corpus/C06/F26_mkdir_outside.json *)
Definition f26_fs : fs := [([[105;110]%N], NDir); ([[105;110]%N; [97]%N], (NFile 1)); ([[111;117;116]%N], NDir)].

Definition f26_plan : list (pfile * rendered) := mk_plan [([[105;110]%N], [97]%N, (RText [46;46;47;110;101;119;47;46;46;47;105;110;47;97;46;120]%N))].

Definition f26_cfg (v : variant) (dry : bool) : cfg :=
  {| c_mode := MPath; c_strategy := Stop; c_dry := dry; c_answers := (@nil (str)); c_fault := None; c_var := v |}.

(* corpus/C05/F5_custom_path_other_directory.json *)
Definition f5_fs : fs := [([[105;110]%N], NDir); ([[105;110]%N; [97]%N], (NFile 1)); ([[105;110]%N; [98]%N], (NFile 2)); ([[105;110]%N; [115;117;98]%N], NDir); ([[111;117;116]%N], NDir)].

Definition f5_plan : list (pfile * rendered) := mk_plan [([[105;110]%N], [97]%N, (RText [98]%N))].

Definition f5_cfg (v : variant) (dry : bool) : cfg :=
  {| c_mode := MName; c_strategy := Manual; c_dry := dry; c_answers := [[99]%N; [115;117;98;47;113]%N]; c_fault := None; c_var := v |}.

(* corpus/C05/F28_file_designated_twice.json *)
Definition f28_fs : fs := [([[105;110]%N], NDir); ([[105;110]%N; [97]%N], (NFile 1)); ([[105;110]%N; [99]%N], (NFile 2)); ([[111;117;116]%N], NDir)].

Definition f28_plan : list (pfile * rendered) := mk_plan [([[105;110]%N], [97]%N, (RText [98]%N)); ([[105;110]%N], [97]%N, (RText [98]%N))].

Definition f28_cfg (v : variant) (dry : bool) : cfg :=
  {| c_mode := MName; c_strategy := Ignore; c_dry := dry; c_answers := (@nil (str)); c_fault := None; c_var := v |}.

(* corpus/C06/F32_source_through_outward_link.json *)
Definition f32_fs : fs := [([[105;110]%N], NDir); ([[105;110]%N; [108;110;107]%N], (NLink 1 {| up_abs := false; up_comps := [[46;46]%N; [111;117;116]%N] |})); ([[111;117;116]%N], NDir); ([[111;117;116]%N; [107;101;101;112;46;116;120;116]%N], (NFile 2))].

Definition f32_plan : list (pfile * rendered) := mk_plan [([[105;110]%N], [108;110;107;47;107;101;101;112;46;116;120;116]%N, (RText [109;111;118;101;100;47;107;101;101;112;46;116;120;116]%N))].

Definition f32_cfg (v : variant) (dry : bool) : cfg :=
  {| c_mode := MPath; c_strategy := Stop; c_dry := dry; c_answers := (@nil (str)); c_fault := None; c_var := v |}.

Definition all_fixed_but (f : variant -> variant) : variant := f fixed.
Definition no_backlog_chdir : variant :=
  {| v_lexists_guard := true; v_recheck_after_mkdir := true; v_backlog_chdir := false; v_dry_abs_keys := true; v_component_containment := true; v_dest_parent_containment := true; v_backlog_recheck := false |}.
Definition relative_dry_keys : variant :=
  {| v_lexists_guard := true; v_recheck_after_mkdir := true; v_backlog_chdir := true; v_dry_abs_keys := false; v_component_containment := true; v_dest_parent_containment := true; v_backlog_recheck := false |}.
(* the code before F8 was repaired; it had no test on the directory of the destination entry either (F34 came later),
   and that test is component-wise: with it the look-alike sibling would be refused all the same *)
Definition string_prefix_containment : variant :=
  {| v_lexists_guard := true; v_recheck_after_mkdir := true; v_backlog_chdir := true; v_dry_abs_keys := true; v_component_containment := false; v_dest_parent_containment := false; v_backlog_recheck := false |}.

Definition find (s : fs) (p : list str) : option node := lookup s p.
