(* The re-test of deferred renames added for F38 ([backlog_verify] = the four containment tests of   *)
(* the first pass, [verify_destination], on the filesystem as it is when the entry is retried):    *)
(* elementary facts used by the run-level proofs.                                                   *)
From Tempren Require Import Base.Str Py.PathLib FS.Model Pipe.Pipeline.
Open Scope N_scope.

Lemma verify_destination_yes v s f np :
  contained v s f np = Some true -> dest_parent_test v s f np = Some true ->
  parents_contained s f np = Some true -> source_contained s f = Some true ->
  verify_destination v s f np = None.
Proof. intros A B C D. unfold verify_destination. rewrite A, B, C, D. reflexivity. Qed.

Lemma verify_destination_None v s f np :
  verify_destination v s f np = None ->
  contained v s f np = Some true /\ dest_parent_test v s f np = Some true /\
  parents_contained s f np = Some true /\ source_contained s f = Some true.
Proof.
  unfold verify_destination.
  destruct (contained v s f np) as [[|]|]; try discriminate.
  destruct (dest_parent_test v s f np) as [[|]|]; try discriminate.
  destruct (parents_contained s f np) as [[|]|]; try discriminate.
  destruct (source_contained s f) as [[|]|]; try discriminate.
  intros _. repeat split.
Qed.

Lemma verify_destination_error v s f np e :
  verify_destination v s f np = Some e -> e = ExOther \/ e = ExInvalidDest.
Proof.
  unfold verify_destination.
  destruct (contained v s f np) as [[|]|]; try (intros E; inversion E; auto; fail).
  destruct (dest_parent_test v s f np) as [[|]|]; try (intros E; inversion E; auto; fail).
  destruct (parents_contained s f np) as [[|]|]; try (intros E; inversion E; auto; fail).
  destruct (source_contained s f) as [[|]|]; try (intros E; inversion E; auto; fail).
Qed.

(* the first pass runs exactly these tests *)
Lemma first_pass_verify c f r rest w cwd backlog :
  first_pass c ((f, r) :: rest) w cwd backlog =
  match chdir (w_fs w) (pf_dir f) with
  | None => (w, cwd, backlog, Some ExOther)
  | Some cwd1 =>
    match generate (c_mode c) f r with
    | inr e => (w, cwd1, backlog, Some e)
    | inl np =>
      if ppath_eqb np (pf_rel f) then first_pass c rest w cwd1 backlog
      else match verify_destination (c_var c) (w_fs w) f np with
           | Some e => (w, cwd1, backlog, Some e)
           | None =>
             match renamer c w cwd1 (pf_rel f) np false with
             | (w1, None) => first_pass c rest w1 cwd1 backlog
             | (w1, Some e) =>
               if is_file_exists e then first_pass c rest w1 cwd1 ((pf_dir f, pf_rel f, np) :: backlog)
               else (w1, cwd1, backlog, Some e)
             end
           end
    end
  end.
Proof.
  cbn [first_pass]. unfold verify_destination.
  destruct (chdir (w_fs w) (pf_dir f)); [|reflexivity].
  destruct (generate (c_mode c) f r); [|reflexivity].
  destruct (ppath_eqb p (pf_rel f)); [reflexivity|].
  destruct (contained (c_var c) (w_fs w) f p) as [[|]|]; try reflexivity.
  destruct (dest_parent_test (c_var c) (w_fs w) f p) as [[|]|]; try reflexivity.
  destruct (parents_contained (w_fs w) f p) as [[|]|]; try reflexivity.
  destruct (source_contained (w_fs w) f) as [[|]|]; reflexivity.
Qed.

Lemma backlog_verify_on v s d src dst :
  v_backlog_recheck v = true ->
  backlog_verify v s d src dst = verify_destination v s {| pf_dir := d; pf_rel := src |} dst.
Proof. intros H. unfold backlog_verify. rewrite H. reflexivity. Qed.

Lemma backlog_verify_off v s d src dst : v_backlog_recheck v = false -> backlog_verify v s d src dst = None.
Proof. intros H. unfold backlog_verify. rewrite H. reflexivity. Qed.

Lemma backlog_verify_fixed s d src dst :
  backlog_verify fixed s d src dst = verify_destination fixed s {| pf_dir := d; pf_rel := src |} dst.
Proof. reflexivity. Qed.

Lemma backlog_verify_pre_f38 s d src dst : backlog_verify pre_f38 s d src dst = None.
Proof. reflexivity. Qed.

Lemma backlog_verify_error v s d src dst e :
  backlog_verify v s d src dst = Some e -> e = ExOther \/ e = ExInvalidDest.
Proof.
  unfold backlog_verify. destruct (v_backlog_recheck v); [apply verify_destination_error | discriminate].
Qed.

Lemma backlog_verify_not_exists v s d src dst e :
  backlog_verify v s d src dst = Some e -> is_file_exists e = false.
Proof. intros H. destruct (backlog_verify_error _ _ _ _ _ _ H); subst; reflexivity. Qed.

Lemma backlog_verify_status v s d src dst e :
  backlog_verify v s d src dst = Some e -> status_of e <> 0%Z.
Proof. intros H. destruct (backlog_verify_error _ _ _ _ _ _ H); subst; discriminate. Qed.

(* the file a backlog entry stands for *)
Lemma backlog_verify_file v s (f : pfile) np :
  v_backlog_recheck v = true ->
  backlog_verify v s (pf_dir f) (pf_rel f) np = verify_destination v s f np.
Proof. intros H. rewrite backlog_verify_on by exact H. destruct f; reflexivity. Qed.

Lemma backlog_verify_yes v s (f : pfile) np :
  contained v s f np = Some true -> dest_parent_test v s f np = Some true ->
  parents_contained s f np = Some true -> source_contained s f = Some true ->
  backlog_verify v s (pf_dir f) (pf_rel f) np = None.
Proof.
  intros A B C D. unfold backlog_verify. destruct (v_backlog_recheck v); [|reflexivity].
  destruct f as [d r]. cbn [pf_dir pf_rel]. apply verify_destination_yes; assumption.
Qed.

(* a deferred entry whose re-test fails ends the run with the world exactly as it was when the entry came up
   (no call, no report line), with InvalidDestinationError (status 1) or, on a symlink loop, status 126 *)
Theorem deferred_refused_before_touch c d src dst rest w cwd cwd1 e :
  (if v_backlog_chdir (c_var c) then chdir (w_fs w) d else Some cwd) = Some cwd1 ->
  backlog_verify (c_var c) (w_fs w) d src dst = Some e ->
  second_pass c ((d, src, dst) :: rest) w cwd = (w, cwd1, Some e) /\ (e = ExOther \/ e = ExInvalidDest).
Proof.
  intros Hc Hv. cbn [second_pass]. rewrite Hc, Hv. split; [reflexivity|]. exact (backlog_verify_error _ _ _ _ _ _ Hv).
Qed.

(* the re-test is the first pass's test on the entry read as a file, on the current tree *)
Theorem deferred_retest_is_first_pass_test c d src dst s :
  v_backlog_recheck (c_var c) = true ->
  backlog_verify (c_var c) s d src dst = verify_destination (c_var c) s {| pf_dir := d; pf_rel := src |} dst.
Proof. intros H. apply backlog_verify_on. exact H. Qed.
