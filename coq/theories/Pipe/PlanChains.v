(* C02, name mode, the CHAIN clause: plans whose destinations are taken by other selected files.        *)
(* Entry e OCCUPIES the destination of entry e' when e' moves (destination <> source) and the source  *)
(* key of e is the destination key of e'.  If the destinations of the moving entries are pairwise     *)
(* distinct, every one of them is either absent from the initial tree or the source of a moving       *)
(* entry, and the plan visits every dependent pair in the same direction, the run reports 0:          *)
(*   occupant first ([chain_occupant_first_succeeds]): every destination is free when its entry is     *)
(*     reached, nothing is deferred;                                                                   *)
(*   occupant last ([chain_occupant_last_succeeds]): every entry whose destination is still taken is   *)
(*     deferred by the first pass, the newest-first second pass finds every destination vacated.       *)
(* Either direction hypothesis implies that the relation is acyclic ([occupant_first_acyclic],        *)
(* [occupant_last_acyclic]), so acyclicity is not a separate hypothesis.  Neither theorem needs the    *)
(* conflict strategy: no conflict is ever resolved.  The occupant-last direction needs one more       *)
(* hypothesis, [occupants_not_links]: the first pass resolves the destination BEFORE deferring (the    *)
(* containment test), so an occupant that is a symbolic link leading out of the input directory ends   *)
(* the run with status 1 (see [ex_link_occupant_fails]).                                              *)
(* Proofs reuse the invariant [Inv] of Pipe/PlanExact.v.                                              *)
From Coq Require Import Permutation Relations.
From Tempren Require Import Base.Str Py.PathLib Py.PathLibProofs FS.Model FS.Lemmas FS.WfCheck Pipe.Pipeline Pipe.DestParent Pipe.BacklogVerify Pipe.PlanExact.
Open Scope N_scope.

(* ====================== definitions ================================================================== *)
Definition moves (e : pfile * rendered) : Prop :=
  match e with (f, RText t) => dst_key f t <> src_key f | _ => False end.

Definition entry_dst (e : pfile * rendered) : rpath :=
  match e with (f, RText t) => dst_key f t | (f, _) => src_key f end.

(* e sits where e' wants to go *)
Definition occupies (e e' : pfile * rendered) : Prop := moves e' /\ src_key (fst e) = entry_dst e'.

(* the destinations of the entries that move are pairwise distinct *)
Definition dsts_distinct (plan : list (pfile * rendered)) : Prop :=
  forall f t f' t', In (f, RText t) plan -> In (f', RText t') plan ->
    dst_key f t <> src_key f -> dst_key f' t' <> src_key f' -> dst_key f t = dst_key f' t' -> src_key f = src_key f'.

(* every such destination is a free name of the initial tree or the source of another entry that moves
   (and the path is short enough for the bounded walk of the model: realpath's final stat) *)
Definition dsts_free_or_vacated (s : fs) (plan : list (pfile * rendered)) : Prop :=
  forall f t, In (f, RText t) plan -> dst_key f t <> src_key f ->
    (length (src_key f) <= walk_fuel)%nat /\
    (lookup s (dst_key f t) = None \/
     exists f' t', In (f', RText t') plan /\ dst_key f' t' <> src_key f' /\ src_key f' = dst_key f t).

Definition chain_ok (s : fs) (plan : list (pfile * rendered)) : Prop :=
  dsts_distinct plan /\ dsts_free_or_vacated s plan.

(* the two processing orders, over positions in the plan *)
Definition occupant_first (plan : list (pfile * rendered)) : Prop :=
  forall i j e e', nth_error plan i = Some e -> nth_error plan j = Some e' -> occupies e e' -> (i < j)%nat.

Definition occupant_last (plan : list (pfile * rendered)) : Prop :=
  forall i j e e', nth_error plan i = Some e -> nth_error plan j = Some e' -> occupies e e' -> (j < i)%nat.

(* no entry that occupies another entry's destination is a symbolic link *)
Definition occupants_not_links (s : fs) (plan : list (pfile * rendered)) : Prop :=
  forall e e', In e plan -> In e' plan -> occupies e e' ->
    forall i tg, lookup s (src_key (fst e)) <> Some (NLink i tg).

(* ---------- boolean checkers ------------------------------------------------------------------------------ *)
Definition movesb (e : pfile * rendered) : bool :=
  match e with (f, RText t) => negb (rpath_eqb (dst_key f t) (src_key f)) | _ => false end.

Definition occupiesb (e e' : pfile * rendered) : bool := movesb e' && rpath_eqb (src_key (fst e)) (entry_dst e').

Definition dsts_distinctb (plan : list (pfile * rendered)) : bool :=
  forallb (fun e => forallb (fun e' =>
    negb (movesb e && movesb e' && rpath_eqb (entry_dst e) (entry_dst e')) || rpath_eqb (src_key (fst e)) (src_key (fst e')))
    plan) plan.

Definition dsts_free_or_vacatedb (s : fs) (plan : list (pfile * rendered)) : bool :=
  forallb (fun e => negb (movesb e) ||
    (Nat.leb (length (src_key (fst e))) walk_fuel &&
     match lookup s (entry_dst e) with
     | None => true
     | Some _ => existsb (fun e' => movesb e' && rpath_eqb (src_key (fst e')) (entry_dst e)) plan
     end)) plan.

Definition chain_okb (s : fs) (plan : list (pfile * rendered)) : bool :=
  dsts_distinctb plan && dsts_free_or_vacatedb s plan.

(* nobody at or after the position of e' occupies e' *)
Fixpoint occupant_firstb (plan : list (pfile * rendered)) : bool :=
  match plan with
  | [] => true
  | e' :: rest => forallb (fun e => negb (occupiesb e e')) rest && occupant_firstb rest
  end.

(* e occupies nobody at or after its own position *)
Fixpoint occupant_lastb (plan : list (pfile * rendered)) : bool :=
  match plan with
  | [] => true
  | e :: rest => forallb (fun e' => negb (occupiesb e e')) rest && occupant_lastb rest
  end.

Definition occupants_not_linksb (s : fs) (plan : list (pfile * rendered)) : bool :=
  forallb (fun e => forallb (fun e' =>
    negb (occupiesb e e') || match lookup s (src_key (fst e)) with Some (NLink _ _) => false | _ => true end) plan) plan.

(* ====================== soundness of the checkers ====================================================== *)
Lemma movesb_spec e : movesb e = true <-> moves e.
Proof.
  destruct e as [f [t|t|ex]]; simpl; try (split; [discriminate | contradiction]).
  rewrite negb_true_iff. split.
  - intros H. apply rpath_eqb_neq. exact H.
  - intros H. destruct (rpath_eqb (dst_key f t) (src_key f)) eqn:E; [|reflexivity].
    apply rpath_eqb_eq in E. contradiction.
Qed.

Lemma occupiesb_spec e e' : occupiesb e e' = true <-> occupies e e'.
Proof.
  unfold occupiesb, occupies. rewrite andb_true_iff, movesb_spec. split.
  - intros [A B]. split; [exact A | apply rpath_eqb_eq; exact B].
  - intros [A B]. split; [exact A | rewrite B; apply rpath_eqb_refl].
Qed.

Lemma occupies_irrefl e : ~ occupies e e.
Proof. destruct e as [f [t|t|ex]]; intros [M E]; simpl in *; try contradiction. apply M. symmetry. exact E. Qed.

Lemma dsts_distinctb_sound plan : dsts_distinctb plan = true -> dsts_distinct plan.
Proof.
  unfold dsts_distinctb. intros H f t f' t' I1 I2 M1 M2 E.
  rewrite forallb_forall in H. specialize (H _ I1). rewrite forallb_forall in H. specialize (H _ I2).
  apply orb_true_iff in H as [H|H].
  - exfalso. apply negb_true_iff in H.
    assert (X : movesb (f, RText t) && movesb (f', RText t') &&
                rpath_eqb (entry_dst (f, RText t)) (entry_dst (f', RText t')) = true).
    { rewrite !andb_true_iff. split; [split|].
      - apply movesb_spec. exact M1.
      - apply movesb_spec. exact M2.
      - simpl. rewrite E. apply rpath_eqb_refl. }
    congruence.
  - apply rpath_eqb_eq in H. exact H.
Qed.

Lemma dsts_free_or_vacatedb_sound s plan : dsts_free_or_vacatedb s plan = true -> dsts_free_or_vacated s plan.
Proof.
  unfold dsts_free_or_vacatedb. intros H f t I M. rewrite forallb_forall in H. specialize (H _ I).
  apply orb_true_iff in H as [H|H].
  - exfalso. apply negb_true_iff in H. assert (X : movesb (f, RText t) = true) by (apply movesb_spec; exact M). congruence.
  - apply andb_true_iff in H as [H1 H2]. cbn [fst entry_dst] in *. split; [apply Nat.leb_le; exact H1|].
    destruct (lookup s (dst_key f t)) as [n|]; [|left; reflexivity]. right.
    apply existsb_exists in H2 as [[f' r'] [I' H2]]. apply andb_true_iff in H2 as [M' E'].
    apply movesb_spec in M'. destruct r' as [t'|t'|ex]; try contradiction.
    apply rpath_eqb_eq in E'. exists f', t'. split; [exact I' | split; [exact M' | exact E']].
Qed.

Lemma chain_okb_sound s plan : chain_okb s plan = true -> chain_ok s plan.
Proof.
  unfold chain_okb. intros H. apply andb_true_iff in H as [H1 H2].
  split; [apply dsts_distinctb_sound; exact H1 | apply dsts_free_or_vacatedb_sound; exact H2].
Qed.

Lemma occupant_firstb_sound plan : occupant_firstb plan = true -> occupant_first plan.
Proof.
  unfold occupant_first. induction plan as [|h rest IH]; intros H i j e e' Hi Hj O.
  - destruct i; discriminate.
  - cbn [occupant_firstb] in H. apply andb_true_iff in H as [H1 H2].
    destruct j as [|j].
    + exfalso. simpl in Hj. injection Hj as <-. destruct i as [|i].
      * simpl in Hi. injection Hi as <-. exact (occupies_irrefl _ O).
      * simpl in Hi. apply nth_error_In in Hi. rewrite forallb_forall in H1. specialize (H1 _ Hi).
        apply negb_true_iff in H1. apply occupiesb_spec in O. congruence.
    + destruct i as [|i]; [lia|]. simpl in Hi, Hj. specialize (IH H2 i j e e' Hi Hj O). lia.
Qed.

Lemma occupant_lastb_sound plan : occupant_lastb plan = true -> occupant_last plan.
Proof.
  unfold occupant_last. induction plan as [|h rest IH]; intros H i j e e' Hi Hj O.
  - destruct i; discriminate.
  - cbn [occupant_lastb] in H. apply andb_true_iff in H as [H1 H2].
    destruct i as [|i].
    + exfalso. simpl in Hi. injection Hi as <-. destruct j as [|j].
      * simpl in Hj. injection Hj as <-. exact (occupies_irrefl _ O).
      * simpl in Hj. apply nth_error_In in Hj. rewrite forallb_forall in H1. specialize (H1 _ Hj).
        apply negb_true_iff in H1. apply occupiesb_spec in O. congruence.
    + destruct j as [|j]; [lia|]. simpl in Hi, Hj. specialize (IH H2 i j e e' Hi Hj O). lia.
Qed.

Lemma occupants_not_linksb_sound s plan : occupants_not_linksb s plan = true -> occupants_not_links s plan.
Proof.
  unfold occupants_not_linksb. intros H e e' I1 I2 O i tg L.
  rewrite forallb_forall in H. specialize (H _ I1). rewrite forallb_forall in H. specialize (H _ I2).
  apply orb_true_iff in H as [H|H].
  - apply negb_true_iff in H. apply occupiesb_spec in O. congruence.
  - rewrite L in H. discriminate.
Qed.

(* ====================== either direction makes the relation acyclic ==================================== *)
Definition occupies_in (plan : list (pfile * rendered)) (a b : pfile * rendered) : Prop :=
  In a plan /\ In b plan /\ occupies a b.

Lemma occupant_first_trans plan : occupant_first plan ->
  forall a b, clos_trans _ (occupies_in plan) a b ->
  In a plan /\ In b plan /\ forall i j, nth_error plan i = Some a -> nth_error plan j = Some b -> (i < j)%nat.
Proof.
  intros OF a b T. induction T as [a b [Ia [Ib O]]|a m b _ [Ia [Im H1]] _ [_ [Ib H2]]].
  - split; [exact Ia|]. split; [exact Ib|]. intros i j Hi Hj. exact (OF i j a b Hi Hj O).
  - split; [exact Ia|]. split; [exact Ib|]. intros i j Hi Hj.
    destruct (In_nth_error _ _ Im) as [k Hk]. specialize (H1 i k Hi Hk). specialize (H2 k j Hk Hj). lia.
Qed.

Theorem occupant_first_acyclic plan : occupant_first plan -> forall e, ~ clos_trans _ (occupies_in plan) e e.
Proof.
  intros OF e T. destruct (occupant_first_trans plan OF e e T) as [I [_ H]].
  destruct (In_nth_error _ _ I) as [k Hk]. specialize (H k k Hk Hk). lia.
Qed.

Lemma occupant_last_trans plan : occupant_last plan ->
  forall a b, clos_trans _ (occupies_in plan) a b ->
  In a plan /\ In b plan /\ forall i j, nth_error plan i = Some a -> nth_error plan j = Some b -> (j < i)%nat.
Proof.
  intros OL a b T. induction T as [a b [Ia [Ib O]]|a m b _ [Ia [Im H1]] _ [_ [Ib H2]]].
  - split; [exact Ia|]. split; [exact Ib|]. intros i j Hi Hj. exact (OL i j a b Hi Hj O).
  - split; [exact Ia|]. split; [exact Ib|]. intros i j Hi Hj.
    destruct (In_nth_error _ _ Im) as [k Hk]. specialize (H1 i k Hi Hk). specialize (H2 k j Hk Hj). lia.
Qed.

Theorem occupant_last_acyclic plan : occupant_last plan -> forall e, ~ clos_trans _ (occupies_in plan) e e.
Proof.
  intros OL e T. destruct (occupant_last_trans plan OL e e T) as [I [_ H]].
  destruct (In_nth_error _ _ I) as [k Hk]. specialize (H k k Hk Hk). lia.
Qed.

(* ====================== positions in a split list ======================================================== *)
Lemma pos_pre {A} (pre l : list A) e : In e pre -> exists k, (k < length pre)%nat /\ nth_error (pre ++ l) k = Some e.
Proof.
  intros H. destruct (In_nth_error _ _ H) as [k Hk]. exists k.
  assert (Hlt : (k < length pre)%nat) by (apply nth_error_Some; congruence).
  split; [exact Hlt|]. rewrite nth_error_app1 by exact Hlt. exact Hk.
Qed.

Lemma pos_head {A} (pre rest : list A) h : nth_error (pre ++ h :: rest) (length pre) = Some h.
Proof. rewrite nth_error_app2 by lia. rewrite Nat.sub_diag. reflexivity. Qed.

Lemma pos_rest {A} (pre rest : list A) h e :
  In e rest -> exists k, (length pre < k)%nat /\ nth_error (pre ++ h :: rest) k = Some e.
Proof.
  intros H. destruct (In_nth_error _ _ H) as [k Hk]. exists (length pre + S k)%nat. split; [lia|].
  rewrite nth_error_app2 by lia. replace (length pre + S k - length pre)%nat with (S k) by lia. exact Hk.
Qed.

(* ====================== realpath of a plain key whose last component is not a link ======================== *)
Lemma realpath_plain_key x k :
  k <> [] -> no_dotdot k = true -> (length k <= walk_fuel)%nat ->
  (forall pre post, k = pre ++ post -> post <> [] -> lookup x pre = Some NDir) ->
  (forall i tg, lookup x k <> Some (NLink i tg)) ->
  realpath x [] {| up_abs := true; up_comps := k |} = Some k.
Proof.
  intros Hne Hdd Hlen Above Hnl. apply realpath_plain; [exact Hdd | |].
  - intros pre c0 post E i tg L. destruct post as [|c1 post].
    + rewrite <- E in L. exact (Hnl i tg L).
    + assert (Z : lookup x (pre ++ [c0]) = Some NDir).
      { apply (Above (pre ++ [c0]) (c1 :: post)); [|discriminate]. rewrite E, <- app_assoc. reflexivity. }
      rewrite Z in L. discriminate.
  - pose proof (resolve_plain x [] {| up_abs := true; up_comps := k |} true) as R1.
    cbn [up_abs up_comps app] in R1. cbv zeta in R1. specialize (R1 Hlen Hne Hdd Above).
    destruct (lookup x k) as [n|].
    + rewrite R1; [discriminate|]. right. intros i tg Z. subst n. exact (Hnl i tg eq_refl).
    + rewrite R1. discriminate.
Qed.

Lemma exists_not_eloop x p : exists_ x [] p = true -> resolve x [] p true <> WErr ELOOP.
Proof. unfold exists_. intros H K. rewrite K in H. discriminate. Qed.

(* ====================== the run =========================================================================== *)
Section Chains.
Variable c : cfg.
Hypothesis Cm : c_mode c = MName.
Hypothesis Cd : c_dry c = false.
Hypothesis Cf : c_fault c = None.
Hypothesis Cv : c_var c = fixed.
Variable s : fs.
Variable plan : list (pfile * rendered).
Hypothesis W : WF s.
Hypothesis OK : selected_ok s plan.
Hypothesis CH : chain_ok s plan.

Lemma dst_key_nonempty f t : dst_key f t <> [].
Proof.
  unfold dst_key. intros Z. apply app_eq_nil in Z as [_ Z]. apply app_eq_nil in Z as [_ Z]. discriminate.
Qed.

(* a destination that is taken in some state of the run is taken by its original occupant, which has not moved yet *)
Lemma dst_taken_by_occupant D f t P x m :
  In (f, RText t) plan -> Inv s plan D ((f, RText t) :: P) x -> dst_key f t <> src_key f ->
  lookup x (dst_key f t) = Some m ->
  exists f' t', In (f', RText t') plan /\ dst_key f' t' <> src_key f' /\ src_key f' = dst_key f t /\
                In (src_key f', m) s /\ ~ In (f', RText t') D.
Proof.
  intros Hin I Hne L. destruct CH as [DD FV]. destruct (FV f t Hin Hne) as [_ Hocc].
  apply lookup_In in L; [|apply dst_key_nonempty].
  pose proof I as [A [_ [C _]]]. rewrite A in L. unfold apply_plan in L. apply in_map_iff in L as [[k m'] [E Hkm]].
  cbn [fst snd] in E. injection E as E Em. subst m'.
  assert (Occupied : forall n, In (dst_key f t, n) s ->
            exists f' t', In (f', RText t') plan /\ dst_key f' t' <> src_key f' /\ src_key f' = dst_key f t).
  { intros n Hn. destruct Hocc as [Hfree|Hocc]; [|exact Hocc]. exfalso.
    apply lookup_None_notin in Hfree. apply Hfree. apply in_map_iff. exists (dst_key f t, n). split; [reflexivity | exact Hn]. }
  destruct (dest_of_cases D k) as [E1|[f2 [t2 [H1 [H2 H3]]]]].
  - assert (Ek : k = dst_key f t) by congruence. subst k.
    destruct (Occupied m Hkm) as [f' [t' [I' [M' S']]]]. exists f', t'.
    split; [exact I'|]. split; [exact M'|]. split; [exact S'|]. split; [rewrite S'; exact Hkm|].
    intros HinD. pose proof (dest_of_sub s plan OK D f' t' C HinD) as X. rewrite S', E1 in X. apply M'. congruence.
  - exfalso. assert (Ed : dst_key f2 t2 = dst_key f t) by congruence.
    destruct (rpath_eqb (dst_key f2 t2) (src_key f2)) eqn:Sk.
    + apply rpath_eqb_eq in Sk.
      assert (Ek : k = dst_key f t) by congruence. rewrite Ek in Hkm.
      destruct (Occupied m Hkm) as [f' [t' [I' [M' S']]]].
      assert (Es : src_key f2 = src_key f') by congruence.
      pose proof (plan_functional s plan OK f' t' f2 (RText t2) I' (C _ H1) Es) as X. inversion X; subst f2 t2.
      apply M'. exact Sk.
    + apply rpath_eqb_neq in Sk.
      assert (Eq : src_key f = src_key f2) by (apply (DD f t f2 t2 Hin (C _ H1) Hne Sk); congruence).
      apply (pending_not_done s plan D f t P x f2 (RText t2) I H1). symmetry. exact Eq.
Qed.

(* the three containment tests of the first pass pass when the destination is free or taken by something that is
   not a symbolic link ([containment_ok] of PlanExact.v is the case "free") *)
Lemma containment_not_link D f t P x :
  In (f, RText t) plan -> Inv s plan D ((f, RText t) :: P) x ->
  (forall i tg, lookup x (dst_key f t) <> Some (NLink i tg)) -> (length (src_key f) <= walk_fuel)%nat ->
  contained (c_var c) x f (new_path f t) = Some true /\ parents_contained x f (new_path f t) = Some true /\
  source_contained x f = Some true.
Proof.
  intros Hin I Hnl Hlen.
  pose proof (plan_entry s plan OK _ Hin) as [Hroot [_ [Hddp [_ [_ Ht]]]]].
  destruct (src_nonempty s plan OK f t Hin) as [Hp _].
  pose proof (dir_no_dotdot s plan OK f t Hin) as Hddd.
  assert (Hparts : pp_parts (pf_rel f) = removelast (pp_parts (pf_rel f)) ++ [last (pp_parts (pf_rel f)) []])
    by (symmetry; apply removelast_last_app; exact Hp).
  set (d := pf_dir f) in *. set (rp := removelast (pp_parts (pf_rel f))) in *.
  assert (Tg : (if Nat.eqb (pp_root (new_path f t)) 0 then pf_dir f ++ pp_parts (new_path f t) else pp_parts (new_path f t))
               = dst_key f t).
  { cbn [new_path pp_root pp_parts]. rewrite Hroot. reflexivity. }
  assert (Dk : dst_key f t = (d ++ rp) ++ [t]) by (unfold dst_key; rewrite app_assoc; reflexivity).
  assert (Hddrp : no_dotdot (d ++ rp) = true).
  { unfold no_dotdot in *. rewrite forallb_app. rewrite Hddd. rewrite Hparts in Hddp. rewrite forallb_app in Hddp.
    apply andb_true_iff in Hddp as [Hd1 _]. exact Hd1. }
  assert (Hddk : no_dotdot (dst_key f t) = true) by (rewrite Dk; apply no_dotdot_snoc; assumption).
  assert (Above : forall pre post, pre ++ post = (d ++ rp) ++ [t] -> post <> [] -> lookup x pre = Some NDir).
  { intros pre post E Hpost. apply (above_dirs s plan W OK D _ x f t pre I Hin).
    destruct (snoc_split _ _ _ _ E Hpost) as [r' Hr']. exists r'. exact Hr'. }
  assert (Lk : (length (dst_key f t) <= walk_fuel)%nat).
  { unfold src_key in Hlen. fold d in Hlen. rewrite Hparts in Hlen. unfold dst_key. fold d rp.
    rewrite !app_length in *. simpl in *. unfold name in *. lia. }
  assert (Hkne : dst_key f t <> []) by apply dst_key_nonempty.
  assert (Rp : realpath x [] {| up_abs := true; up_comps := dst_key f t |} = Some (dst_key f t)).
  { apply realpath_plain_key; [exact Hkne | exact Hddk | exact Lk | | exact Hnl].
    intros pre post E Hpost. apply (Above pre post); [rewrite <- Dk; symmetry; exact E | exact Hpost]. }
  assert (Hpos : (0 < walk_fuel)%nat).
  { pose proof Lk as Z. rewrite Dk in Z. rewrite app_length in Z. simpl in Z. unfold name in *. lia. }
  assert (Hex : exists_ x [] {| up_abs := true; up_comps := d ++ rp |} = true).
  { unfold exists_.
    assert (Hc : d ++ rp = [] \/ d ++ rp <> []) by (destruct (d ++ rp); [left; reflexivity | right; discriminate]).
    destruct Hc as [Eq|Eq].
    - rewrite Eq. rewrite (resolve_nil x [] {| up_abs := true; up_comps := [] |} true); [reflexivity | exact Hpos | reflexivity].
    - pose proof (resolve_plain x [] {| up_abs := true; up_comps := d ++ rp |} true) as R1.
      cbn [up_abs up_comps app] in R1. cbv zeta in R1.
      assert (Z : lookup x (d ++ rp) = Some NDir).
      { apply (Above (d ++ rp) [t]); [reflexivity | discriminate]. }
      rewrite Z in R1. rewrite R1; [reflexivity | | exact Eq | exact Hddrp | | right; intros; discriminate].
      + rewrite Dk in Lk. rewrite app_length in Lk. simpl in Lk. unfold name in *. lia.
      + intros pre post E Hpost. apply (Above pre (post ++ [t])); [|destruct post; discriminate].
        rewrite app_assoc, <- E. reflexivity. }
  split; [|split].
  - unfold contained. rewrite Tg, Rp, Cv. cbn [fixed v_component_containment]. f_equal.
    apply is_prefix_path_spec. exists (rp ++ [t]). reflexivity.
  - unfold parents_contained. rewrite Tg. rewrite Dk, removelast_last.
    destruct (length (d ++ rp)); cbn [new_dirs_inside]; rewrite Hex; reflexivity.
  - unfold source_contained, source_parent. rewrite Hroot. cbn [Nat.eqb]. fold d rp.
    rewrite realpath_plain.
    + f_equal. apply is_prefix_path_spec. exists rp. reflexivity.
    + exact Hddrp.
    + intros pre c0 post E i tg L.
      assert (Z : lookup x (pre ++ [c0]) = Some NDir).
      { apply (Above (pre ++ [c0]) (post ++ [t])); [|destruct post; discriminate].
        rewrite E, <- !app_assoc. reflexivity. }
      rewrite Z in L. discriminate.
    + apply exists_not_eloop. exact Hex.
Qed.

(* the renamer on a destination that is taken: DestinationAlreadyExistsError, nothing changes *)
Lemma renamer_taken D f t P w m :
  In (f, RText t) plan -> Inv s plan D ((f, RText t) :: P) (w_fs w) -> lookup (w_fs w) (dst_key f t) = Some m ->
  renamer c w (pf_dir f) (pf_rel f) (new_path f t) false = (w, Some ExDestExists).
Proof.
  intros Hin I L.
  destruct (pending_resolves s plan W OK D f t P _ Hin I) as [n [_ [_ [_ Rd]]]]. rewrite L in Rd.
  unfold renamer, renamer_core. rewrite Cd, Cm, Cf, Cv.
  unfold file_renamer, guard_exists. cbn [fixed v_lexists_guard negb andb].
  unfold lexists. rewrite Rd. reflexivity.
Qed.

Lemma moving_of_neqb f t :
  ppath_eqb (new_path f t) (pf_rel f) = false -> dst_key f t <> src_key f.
Proof.
  intros Eq Z. unfold dst_key, src_key in Z. apply app_inv_head in Z.
  assert (X : new_path f t = pf_rel f).
  { unfold new_path. rewrite Z. destruct (pf_rel f). reflexivity. }
  apply ppath_eqb_spec in X. congruence.
Qed.

Lemma skipped_of_eqb f t :
  ppath_eqb (new_path f t) (pf_rel f) = true -> skipped (f, RText t).
Proof.
  intros Eq. apply ppath_eqb_spec in Eq. cbn [skipped]. unfold dst_key, src_key. f_equal.
  change (pp_parts (new_path f t) = pp_parts (pf_rel f)). rewrite Eq. reflexivity.
Qed.

Lemma Inv_final D x : Inv s plan D [] x -> x = apply_plan s plan.
Proof.
  intros [A [_ [C [_ [_ G]]]]]. rewrite A. unfold apply_plan. apply map_ext.
  intros [k n]. cbn [fst snd]. f_equal. apply (final_dest s plan OK); assumption.
Qed.

Lemma Inv_init : Inv s plan [] plan s.
Proof.
  refine (conj _ (conj W (conj _ (conj _ (conj _ _))))).
  - symmetry. apply apply_plan_nil.
  - intros a [].
  - apply incl_refl.
  - destruct OK; assumption.
  - intros e He. right. right. exact He.
Qed.

(* ---------- occupant first: nothing is deferred ----------------------------------------------------------- *)
Lemma first_pass_occupant_first : occupant_first plan -> forall rest pre w cwd D,
  plan = pre ++ rest -> Inv s plan D rest (w_fs w) -> (forall e, In e pre -> skipped e \/ In e D) ->
  exists w' cwd' D', first_pass c rest w cwd [] = (w', cwd', [], None) /\ Inv s plan D' [] (w_fs w').
Proof.
  intros OF. induction rest as [|[f r] rest IH]; intros pre w cwd D Ep I Hpre.
  - exists w, cwd, D. split; [reflexivity | exact I].
  - assert (Hin : In (f, r) plan).
    { destruct I as [_ [_ [_ [E _]]]]. apply E. left. reflexivity. }
    destruct (plan_text s plan OK f r Hin) as [t ->].
    assert (Ep' : plan = (pre ++ [(f, RText t)]) ++ rest) by (rewrite <- app_assoc; exact Ep).
    cbn [first_pass]. rewrite (chdir_stays s plan W OK D _ _ f t I Hin).
    pose proof (plan_entry s plan OK _ Hin) as [_ [_ [_ [_ [Hwn _]]]]].
    destruct (with_name_form _ _ Hwn) as [Hp Hg].
    assert (Hg' : pp_with_name (pf_rel f) t = Some (new_path f t)) by exact Hg.
    rewrite Cm. cbn [generate]. rewrite Hg'.
    destruct (ppath_eqb (new_path f t) (pf_rel f)) eqn:Eq.
    + apply (IH (pre ++ [(f, RText t)]) w _ D Ep').
      * apply (Inv_drop s plan D (f, RText t)); [apply skipped_of_eqb; exact Eq | exact I].
      * intros e He. apply in_app_or in He as [He|[<-|[]]]; [apply Hpre, He|]. left. apply skipped_of_eqb. exact Eq.
    + pose proof (moving_of_neqb f t Eq) as Hne.
      assert (Hfree : lookup (w_fs w) (dst_key f t) = None).
      { destruct (lookup (w_fs w) (dst_key f t)) as [m|] eqn:L; [|reflexivity]. exfalso.
        destruct (dst_taken_by_occupant D f t rest _ m Hin I Hne L) as [f' [t' [I' [M' [S' [_ ND]]]]]].
        assert (O : occupies (f', RText t') (f, RText t)) by (split; [exact Hne | exact S']).
        assert (Hp' : In (f', RText t') pre).
        { rewrite Ep in I'. apply in_app_or in I' as [K|[K|K]]; [exact K | exfalso | exfalso].
          - rewrite K in O. exact (occupies_irrefl _ O).
          - destruct (pos_rest pre rest (f, RText t) _ K) as [k [Hk Nk]]. rewrite <- Ep in Nk.
            pose proof (pos_head pre rest (f, RText t)) as Nh. rewrite <- Ep in Nh.
            pose proof (OF _ _ _ _ Nk Nh O). lia. }
        destruct (Hpre _ Hp') as [Sk|K]; [cbn [skipped] in Sk; contradiction | contradiction]. }
      destruct CH as [_ FV]. destruct (FV f t Hin Hne) as [Hlen _].
      destruct (containment_ok c Cv s plan W OK D f t rest _ Hin I Hfree Hlen) as [Ct [Pc Sc]]. rewrite Ct, (dest_parent_test_with_name _ _ _ _ _ Hg' Sc), Pc, Sc.
      destruct (renamer_free c Cm Cd Cf Cv s plan W OK D f t rest w Hin I Hfree) as [w1 R]. rewrite R.
      apply (IH (pre ++ [(f, RText t)]) w1 _ ((f, RText t) :: D) Ep').
      * apply (renamer_step c Cm Cd Cf Cv s plan W OK D f t _ w w1 Hin I R).
      * intros e He. apply in_app_or in He as [He|[<-|[]]].
        -- destruct (Hpre _ He) as [K|K]; [left; exact K | right; right; exact K].
        -- right. left. reflexivity.
Qed.

Theorem run_occupant_first cwd :
  occupant_first plan ->
  r_status (run c plan cwd s) = 0%Z /\ r_final (run c plan cwd s) = apply_plan s plan.
Proof.
  intros OF. unfold run.
  destruct (first_pass_occupant_first OF plan [] (init_world s (c_answers c)) cwd [] eq_refl Inv_init)
    as [w' [cwd' [D' [FP I']]]]; [intros e []|].
  rewrite FP. cbn [second_pass]. split; [reflexivity|]. cbn [r_final]. apply (Inv_final D'). exact I'.
Qed.

(* ---------- occupant last: deferred entries are retried after their occupants --------------------------------- *)
Hypothesis NL : occupants_not_links s plan.

(* the backlog never holds an entry below one that occupies its destination *)
Definition stacked (blE : list (pfile * rendered)) : Prop :=
  forall l1 b l2 e, blE = l1 ++ b :: l2 -> In e l2 -> ~ occupies e b.

Lemma first_pass_occupant_last : occupant_last plan -> forall rest pre w cwd D blE,
  plan = pre ++ rest -> Inv s plan D (blE ++ rest) (w_fs w) -> incl blE pre -> stacked blE ->
  (forall b, In b blE -> moves b) ->
  exists w' cwd' D' blE',
    first_pass c rest w cwd (map pend blE) = (w', cwd', map pend blE', None) /\
    Inv s plan D' blE' (w_fs w') /\ stacked blE' /\ (forall b, In b blE' -> moves b).
Proof.
  intros OL. induction rest as [|[f r] rest IH]; intros pre w cwd D blE Ep I Hbl St Mv.
  - exists w, cwd, D, blE. rewrite app_nil_r in I. split; [reflexivity | split; [exact I | split; [exact St | exact Mv]]].
  - assert (Hin : In (f, r) plan).
    { destruct I as [_ [_ [_ [E _]]]]. apply E. apply in_or_app. right. left. reflexivity. }
    destruct (plan_text s plan OK f r Hin) as [t ->].
    assert (Ep' : plan = (pre ++ [(f, RText t)]) ++ rest) by (rewrite <- app_assoc; exact Ep).
    assert (I1 : Inv s plan D ((f, RText t) :: blE ++ rest) (w_fs w)).
    { eapply Inv_perm; [|exact I]. apply Permutation_sym, Permutation_middle. }
    assert (Hbl' : incl blE (pre ++ [(f, RText t)])) by (intros a Ha; apply in_or_app; left; apply Hbl, Ha).
    cbn [first_pass]. rewrite (chdir_stays s plan W OK D _ _ f t I Hin).
    pose proof (plan_entry s plan OK _ Hin) as [_ [_ [_ [_ [Hwn _]]]]].
    destruct (with_name_form _ _ Hwn) as [Hp Hg].
    assert (Hg' : pp_with_name (pf_rel f) t = Some (new_path f t)) by exact Hg.
    rewrite Cm. cbn [generate]. rewrite Hg'.
    destruct (ppath_eqb (new_path f t) (pf_rel f)) eqn:Eq.
    + apply (IH (pre ++ [(f, RText t)]) w _ D blE Ep'); [|exact Hbl' | exact St | exact Mv].
      apply (Inv_drop s plan D (f, RText t)); [apply skipped_of_eqb; exact Eq | exact I1].
    + pose proof (moving_of_neqb f t Eq) as Hne.
      destruct CH as [_ FV]. destruct (FV f t Hin Hne) as [Hlen _].
      destruct (lookup (w_fs w) (dst_key f t)) as [m|] eqn:L.
      * (* taken: by an occupant that comes later and is not a link; deferred *)
        destruct (dst_taken_by_occupant D f t _ _ m Hin I1 Hne L) as [f' [t' [I' [M' [S' [Hm _]]]]]].
        assert (O : occupies (f', RText t') (f, RText t)) by (split; [exact Hne | exact S']).
        assert (Hnl : forall i tg, lookup (w_fs w) (dst_key f t) <> Some (NLink i tg)).
        { intros i tg Z. rewrite L in Z. injection Z as Z. subst m.
          apply (NL _ _ I' Hin O i tg). cbn [fst]. apply In_lookup; [exact W | exact Hm]. }
        destruct (containment_not_link D f t _ _ Hin I1 Hnl Hlen) as [Ct [Pc Sc]]. rewrite Ct, (dest_parent_test_with_name _ _ _ _ _ Hg' Sc), Pc, Sc.
        rewrite (renamer_taken D f t _ w m Hin I1 L). cbn [is_file_exists].
        change ((pf_dir f, pf_rel f, new_path f t) :: map pend blE) with (map pend ((f, RText t) :: blE)).
        apply (IH (pre ++ [(f, RText t)]) w _ D ((f, RText t) :: blE) Ep' I1).
        -- intros a [<-|Ha]; [apply in_or_app; right; left; reflexivity | apply Hbl', Ha].
        -- intros l1 b l2 e E He Oe. destruct l1 as [|a l1].
           ++ cbn [app] in E. injection E as <- <-.
              destruct (pos_pre pre ((f, RText t) :: rest) e (Hbl _ He)) as [k [Hk Nk]]. rewrite <- Ep in Nk.
              pose proof (pos_head pre rest (f, RText t)) as Nh. rewrite <- Ep in Nh.
              pose proof (OL _ _ _ _ Nk Nh Oe). lia.
           ++ cbn [app] in E. injection E as _ E. exact (St l1 b l2 e E He Oe).
        -- intros b [<-|Hb]; [exact Hne | apply Mv, Hb].
      * (* free: renamed now *)
        assert (Hnl : forall i tg, lookup (w_fs w) (dst_key f t) <> Some (NLink i tg)) by (intros i tg Z; congruence).
        destruct (containment_not_link D f t _ _ Hin I1 Hnl Hlen) as [Ct [Pc Sc]]. rewrite Ct, (dest_parent_test_with_name _ _ _ _ _ Hg' Sc), Pc, Sc.
        destruct (renamer_free c Cm Cd Cf Cv s plan W OK D f t _ w Hin I1 L) as [w1 R]. rewrite R.
        apply (IH (pre ++ [(f, RText t)]) w1 _ ((f, RText t) :: D) blE Ep'); [|exact Hbl' | exact St | exact Mv].
        apply (renamer_step c Cm Cd Cf Cv s plan W OK D f t _ w w1 Hin I1 R).
Qed.

(* every entry that occupies the destination of a deferred entry has been renamed or is retried earlier *)
Definition ready (D blE : list (pfile * rendered)) : Prop :=
  forall l1 b l2 e, blE = l1 ++ b :: l2 -> In e plan -> occupies e b -> In e D \/ In e l1.

Lemma occupant_moves e b : In e plan -> In b plan -> occupies e b -> moves e.
Proof.
  intros He Hb [Mb Es]. destruct b as [fb [tb|tb|ex]]; try contradiction. cbn [moves entry_dst] in *.
  destruct e as [fe re]. destruct (plan_text s plan OK fe re He) as [te ->]. cbn [fst] in Es.
  destruct CH as [_ FV]. destruct (FV fb tb Hb Mb) as [_ [Free|[f' [t' [I' [M' S']]]]]].
  - exfalso. destruct (src_entry s plan OK fe te He) as [n [Hn _]].
    apply lookup_None_notin in Free. apply Free. apply in_map_iff. exists (src_key fe, n). split; [exact Es | exact Hn].
  - assert (Eq : src_key fe = src_key f') by congruence.
    pose proof (plan_functional s plan OK f' t' fe (RText te) I' He Eq) as X. inversion X; subst. exact M'.
Qed.

Lemma stacked_ready D blE x : Inv s plan D blE x -> stacked blE -> ready D blE.
Proof.
  intros I St l1 b l2 e E He O.
  destruct I as [_ [_ [_ [Ib [_ G]]]]].
  assert (Hb : In b plan) by (apply Ib; rewrite E; apply in_or_app; right; left; reflexivity).
  pose proof (occupant_moves e b He Hb O) as Me.
  destruct (G e He) as [Sk|[K|K]].
  - exfalso. destruct e as [fe [te|te|ex]]; cbn [moves skipped] in *; contradiction.
  - left. exact K.
  - rewrite E in K. apply in_app_or in K as [K|[K|K]].
    + right. exact K.
    + exfalso. rewrite <- K in O. exact (occupies_irrefl _ O).
    + exfalso. exact (St l1 b l2 e E K O).
Qed.

Lemma second_pass_ready : forall blE w cwd D,
  Inv s plan D blE (w_fs w) -> ready D blE -> (forall b, In b blE -> moves b) ->
  exists w' cwd' D', second_pass c (map pend blE) w cwd = (w', cwd', None) /\ Inv s plan D' [] (w_fs w').
Proof.
  induction blE as [|[f r] blE IH]; intros w cwd D I Rd Mv.
  - exists w, cwd, D. split; [reflexivity | exact I].
  - assert (Hin : In (f, r) plan).
    { destruct I as [_ [_ [_ [E _]]]]. apply E. left. reflexivity. }
    destruct (plan_text s plan OK f r Hin) as [t ->].
    cbn [map pend second_pass]. rewrite Cv. cbn [fixed v_backlog_chdir].
    rewrite (chdir_stays s plan W OK D _ _ f t I Hin).
    assert (Hfree : lookup (w_fs w) (dst_key f t) = None).
    { destruct (lookup (w_fs w) (dst_key f t)) as [m|] eqn:L; [|reflexivity]. exfalso.
      assert (Sk : dst_key f t <> src_key f) by (apply (Mv (f, RText t)); left; reflexivity).
      destruct (dst_taken_by_occupant D f t blE _ m Hin I Sk L) as [f' [t' [I' [M' [S' [_ ND]]]]]].
      assert (O : occupies (f', RText t') (f, RText t)) by (split; [exact Sk | exact S']).
      destruct (Rd [] (f, RText t) blE _ eq_refl I' O) as [K|[]]. contradiction. }
    assert (BV : backlog_verify fixed (w_fs w) (pf_dir f) (pf_rel f) (new_path f t) = None).
    { assert (Sk : dst_key f t <> src_key f) by (apply (Mv (f, RText t)); left; reflexivity).
      pose proof (plan_entry s plan OK _ Hin) as [_ [_ [_ [_ [Hwn _]]]]].
      destruct (with_name_form _ _ Hwn) as [_ Hg].
      assert (Hg' : pp_with_name (pf_rel f) t = Some (new_path f t)) by exact Hg.
      destruct CH as [_ FV]. destruct (FV f t Hin Sk) as [Hlen _].
      destruct (containment_ok c Cv s plan W OK D f t blE _ Hin I Hfree Hlen) as [Ct [Pc Sc]].
      rewrite Cv in Ct.
      apply backlog_verify_yes; [exact Ct | exact (dest_parent_test_with_name _ _ _ _ _ Hg' Sc) | exact Pc | exact Sc]. }
    rewrite BV.
    destruct (renamer_free c Cm Cd Cf Cv s plan W OK D f t blE w Hin I Hfree) as [w1 R]. rewrite R.
    apply (IH w1 _ ((f, RText t) :: D)).
    + apply (renamer_step c Cm Cd Cf Cv s plan W OK D f t _ w w1 Hin I R).
    + intros l1 b l2 e E He O. destruct (Rd ((f, RText t) :: l1) b l2 e) as [K|[K|K]]; try assumption.
      * cbn [app]. rewrite E. reflexivity.
      * left. right. exact K.
      * left. left. exact K.
      * right. exact K.
    + intros b Hb. apply Mv. right. exact Hb.
Qed.

Theorem run_occupant_last cwd :
  occupant_last plan ->
  r_status (run c plan cwd s) = 0%Z /\ r_final (run c plan cwd s) = apply_plan s plan.
Proof.
  intros OL. unfold run.
  destruct (first_pass_occupant_last OL plan [] (init_world s (c_answers c)) cwd [] [] eq_refl Inv_init)
    as [w1 [cwd1 [D1 [blE [FP [I1 [St Mv]]]]]]].
  - intros a [].
  - intros l1 b l2 e E. destruct l1; discriminate E.
  - intros b [].
  - change (map pend []) with (@nil backlog_entry) in FP. rewrite FP.
    destruct (second_pass_ready blE w1 cwd1 D1 I1 (stacked_ready D1 blE _ I1 St) Mv) as [w2 [cwd2 [D2 [SP I2]]]].
    rewrite SP. split; [reflexivity|]. cbn [r_final]. apply (Inv_final D2). exact I2.
Qed.

End Chains.

(* ====================== the statements ================================================================ *)
(* occupant first: whenever an entry's destination is the source of another moving entry, that entry comes
   EARLIER in the plan; every destination is free when its entry is reached *)
Theorem chain_occupant_first_succeeds : forall c plan cwd s,
  c_mode c = MName -> c_dry c = false -> c_fault c = None -> c_var c = fixed ->
  WF s -> selected_ok s plan -> chain_ok s plan -> occupant_first plan ->
  r_status (run c plan cwd s) = 0%Z /\ r_final (run c plan cwd s) = apply_plan s plan.
Proof. intros c plan cwd s Cm Cd Cf Cv W OK CH OF. apply (run_occupant_first c Cm Cd Cf Cv s plan W OK CH cwd OF). Qed.

(* occupant last: the occupant comes LATER; the entry is deferred and retried, newest first, after it *)
Theorem chain_occupant_last_succeeds : forall c plan cwd s,
  c_mode c = MName -> c_dry c = false -> c_fault c = None -> c_var c = fixed ->
  WF s -> selected_ok s plan -> chain_ok s plan -> occupants_not_links s plan -> occupant_last plan ->
  r_status (run c plan cwd s) = 0%Z /\ r_final (run c plan cwd s) = apply_plan s plan.
Proof. intros c plan cwd s Cm Cd Cf Cv W OK CH NL OL. apply (run_occupant_last c Cm Cd Cf Cv s plan W OK CH NL cwd OL). Qed.

(* a plan without conflicts is a chain plan in both directions: nothing occupies anything *)
Theorem all_free_chain_ok s plan :
  WF s -> selected_ok s plan -> all_free s plan ->
  chain_ok s plan /\ occupant_first plan /\ occupant_last plan /\ occupants_not_links s plan.
Proof.
  intros W OK [AF1 AF2].
  assert (NoOcc : forall e e', In e plan -> In e' plan -> ~ occupies e e').
  { intros [fe re] [fb rb] He Hb [Mb Es]. destruct rb as [tb|tb|ex]; try contradiction. cbn [moves entry_dst fst] in *.
    destruct (plan_text s plan OK fe re He) as [te ->].
    destruct (AF1 fb tb Hb Mb) as [Free _]. destruct (src_entry s plan OK fe te He) as [n [Hn _]].
    apply lookup_None_notin in Free. apply Free. apply in_map_iff. exists (src_key fe, n). split; [exact Es | exact Hn]. }
  split; [split|split; [|split]].
  - exact AF2.
  - intros f t Hin M. destruct (AF1 f t Hin M) as [A B]. split; [exact B | left; exact A].
  - intros i j e e' Hi Hj O. exfalso. exact (NoOcc e e' (nth_error_In _ _ Hi) (nth_error_In _ _ Hj) O).
  - intros i j e e' Hi Hj O. exfalso. exact (NoOcc e e' (nth_error_In _ _ Hi) (nth_error_In _ _ Hj) O).
  - intros e e' He He' O. exfalso. exact (NoOcc e e' He He' O).
Qed.

(* ====================== non-vacuity: the chain in/0->1, in/1->2, in/2->3 in both orders ================= *)
(* [ex_plan] of PlanExact.v visits 0->1, 1->2, 2->3 front to back: every occupant comes later *)
Definition ex_plan_rev : list (pfile * rendered) :=
  [ (ex_file [[115;117;98]; [120]], RText [121]);
    (ex_file [[50]], RText [51]); (ex_file [[107;101;101;112]], RText [107;101;101;112]);
    (ex_file [[49]], RText [50]); (ex_file [[48]], RText [49]) ].

Example ex_rev_selected_ok : selected_ok ex_fs ex_plan_rev.
Proof. apply selected_okb_sound. vm_compute. reflexivity. Qed.

Example ex_chain_ok : chain_ok ex_fs ex_plan.
Proof. apply chain_okb_sound. vm_compute. reflexivity. Qed.

Example ex_rev_chain_ok : chain_ok ex_fs ex_plan_rev.
Proof. apply chain_okb_sound. vm_compute. reflexivity. Qed.

Example ex_occupant_last : occupant_last ex_plan.
Proof. apply occupant_lastb_sound. vm_compute. reflexivity. Qed.

Example ex_not_occupant_first : ~ occupant_first ex_plan.
Proof.
  intros OF. assert (X : (1 < 0)%nat); [|lia].
  apply (OF 1%nat 0%nat (ex_file [[49]], RText [50]) (ex_file [[48]], RText [49])); [reflexivity | reflexivity |].
  apply occupiesb_spec. vm_compute. reflexivity.
Qed.

Example ex_occupants_not_links : occupants_not_links ex_fs ex_plan.
Proof. apply occupants_not_linksb_sound. vm_compute. reflexivity. Qed.

Example ex_rev_occupant_first : occupant_first ex_plan_rev.
Proof. apply occupant_firstb_sound. vm_compute. reflexivity. Qed.

(* through the theorems: no evaluation of [run] *)
Example ex_chain_last_by_theorem :
  r_status (run ex_cfg ex_plan [] ex_fs) = 0%Z /\ r_final (run ex_cfg ex_plan [] ex_fs) = apply_plan ex_fs ex_plan.
Proof.
  apply chain_occupant_last_succeeds;
    [reflexivity | reflexivity | reflexivity | reflexivity | exact ex_wf | exact ex_selected_ok | exact ex_chain_ok
    | exact ex_occupants_not_links | exact ex_occupant_last].
Qed.

Example ex_chain_first_by_theorem :
  r_status (run ex_cfg ex_plan_rev [] ex_fs) = 0%Z /\
  r_final (run ex_cfg ex_plan_rev [] ex_fs) = apply_plan ex_fs ex_plan_rev.
Proof.
  apply chain_occupant_first_succeeds;
    [reflexivity | reflexivity | reflexivity | reflexivity | exact ex_wf | exact ex_rev_selected_ok | exact ex_rev_chain_ok
    | exact ex_rev_occupant_first].
Qed.

(* and by evaluation: the reversed plan renames in plan order (nothing deferred), the forward plan defers twice *)
Example ex_chain_orders :
  map (fun x => fst (fst x)) (r_report (run ex_cfg ex_plan_rev [] ex_fs)) = [[115;117;98;47;120]; [50]; [49]; [48]] /\
  map (fun x => fst (fst x)) (r_report (run ex_cfg ex_plan [] ex_fs)) = [[50]; [115;117;98;47;120]; [49]; [48]] /\
  apply_plan ex_fs ex_plan_rev = apply_plan ex_fs ex_plan.
Proof. vm_compute. repeat split. Qed.

(* why [occupants_not_links] is needed for the occupant-last direction: in/a -> b where in/b is a symbolic link to
   /out that itself moves later (b -> c).  All other hypotheses hold, but the first pass resolves the destination
   in/b (to /out, outside the input directory) before it would defer: InvalidDestinationError, status 1. *)
Definition lk_fs : fs :=
  [ ([ex_in], NDir); ([ex_in; [97]], NFile 1);
    ([ex_in; [98]], NLink 2 {| up_abs := true; up_comps := [[111;117;116]] |});
    ([[111;117;116]], NDir) ].
Definition lk_plan : list (pfile * rendered) := [ (ex_file [[97]], RText [98]); (ex_file [[98]], RText [99]) ].

Example ex_link_occupant_fails :
  WF lk_fs /\ selected_ok lk_fs lk_plan /\ chain_ok lk_fs lk_plan /\ occupant_last lk_plan /\
  occupants_not_linksb lk_fs lk_plan = false /\
  r_status (run ex_cfg lk_plan [] lk_fs) = 1%Z /\ r_error (run ex_cfg lk_plan [] lk_fs) = Some ExInvalidDest.
Proof.
  split; [apply wf_b_sound; vm_compute; reflexivity|].
  split; [apply selected_okb_sound; vm_compute; reflexivity|].
  split; [apply chain_okb_sound; vm_compute; reflexivity|].
  split; [apply occupant_lastb_sound; vm_compute; reflexivity|].
  vm_compute. repeat split.
Qed.
