(* C06 for path mode (FileMover): mkdir -p of the destination's parent followed by shutil.move.      *)
(* Both containment tests are evaluated on the tree BEFORE mkdir -p; the directories mkdir -p creates *)
(* are exactly "new plain directories at names that were missing" (FS/DirExt.v), which change neither *)
(* realpath nor what a successful kernel walk finds, so the tests still speak about the keys the       *)
(* later mkdir(2)/rename(2) calls use.                                                                  *)
From Tempren Require Import Base.Str Py.PathLib FS.Model FS.Lemmas FS.RealpathAgree FS.DirExt
  Pipe.Pipeline Pipe.Confine Pipe.Confined.
Open Scope N_scope.

Lemma entry_eq_dec (a b : rpath * node) : {a = b} + {a <> b}.
Proof. repeat decide equality. Qed.

Lemma changes_below_trans d a b c : changes_below d a b -> changes_below d b c -> changes_below d a c.
Proof.
  intros [A1 R1] [A2 R2]. split; intros k n H K.
  - destruct (in_dec entry_eq_dec (k, n) b) as [Hb|Hb]; [apply (A1 k n Hb K) | apply (A2 k n H Hb)].
  - destruct (in_dec entry_eq_dec (k, n) b) as [Hb|Hb]; [apply (R2 k n Hb K) | apply (R1 k n H Hb)].
Qed.

(* ---------- the absolute path the containment tests resolve for a generated path ------------------- *)
Definition target (d : rpath) (p : ppath) : list name :=
  if Nat.eqb (pp_root p) 0 then d ++ pp_parts p else pp_parts p.
Definition abs_target (d : rpath) (p : ppath) : upath := {| up_abs := true; up_comps := target d p |}.

Lemma target_parent d p : pp_parts p <> [] -> target d (pp_parent p) = removelast (target d p).
Proof.
  intros Hp. unfold target, pp_parent. cbn [pp_root pp_parts].
  destruct (Nat.eqb (pp_root p) 0); [|reflexivity]. symmetry. apply removelast_app. assumption.
Qed.

Lemma removelast_length {A} (x : A) l : length (removelast (x :: l)) = length l.
Proof. revert x. induction l as [|y l IH]; intros x; [reflexivity|]. cbn [removelast length] in *. rewrite IH. reflexivity. Qed.

Lemma chdir_dir_ext s s1 d : dir_ext s s1 -> chdir s d = Some d -> chdir s1 d = Some d.
Proof.
  intros E H. apply chdir_self in H. apply (resolve_found_dir_ext _ _ _ _ _ _ _ E) in H.
  unfold chdir. rewrite H. reflexivity.
Qed.

(* realpath of (d / p) is the key mkdir(2)/rename(2) create for p when called from inside d *)
Lemma target_realpath s d p par nm :
  chdir s d = Some d -> resolve s d (to_upath p) false = WMissing par nm ->
  realpath_raw s [] (abs_target d p) = par ++ [nm].
Proof.
  intros Hc H.
  pose proof (dest_realpath s {| pf_dir := d; pf_rel := p |} p par nm Hc H) as K. exact K.
Qed.

Lemma exists_true_found s cwd p : exists_ s cwd p = true -> exists q n, resolve s cwd p true = WFound q n.
Proof. unfold exists_. destruct (resolve s cwd p true) as [q n| |]; [eauto | discriminate | discriminate]. Qed.

Lemma abs_target_walk s d p fl :
  resolve s [] (abs_target d p) fl = walk walk_fuel s [] (target d p) fl.
Proof. rewrite resolve_unfold. reflexivity. Qed.

Lemma to_upath_walk s d p fl :
  resolve s d (to_upath p) fl = walk walk_fuel s (if Nat.eqb (pp_root p) 0 then d else []) (pp_parts p) fl.
Proof. rewrite resolve_unfold. unfold to_upath. cbn [up_abs up_comps]. destruct (Nat.eqb (pp_root p) 0); reflexivity. Qed.

(* something that exists under its joined name is found by the walk from inside d *)
Lemma exists_in_target s0 s d p :
  dir_ext s0 s -> chdir s d = Some d -> exists_ s0 [] (abs_target d p) = true ->
  exists q n, resolve s d (to_upath p) true = WFound q n.
Proof.
  intros E Hc Hex. apply exists_true_found in Hex as [q [n R]].
  apply (resolve_found_dir_ext _ _ _ _ _ _ _ E) in R. apply chdir_self in Hc.
  rewrite abs_target_walk in R. rewrite resolve_unfold in Hc. cbn [up_abs up_comps] in Hc.
  rewrite to_upath_walk. unfold target in R.
  destruct (Nat.eqb (pp_root p) 0).
  - exists q, n. eapply walk_app_uniform; eauto.
  - exists q, n. exact R.
Qed.

Lemma realpath_some s cwd p a : realpath s cwd p = Some a -> a = realpath_raw s cwd p.
Proof.
  unfold realpath. destruct (resolve s [] {| up_abs := true; up_comps := realpath_raw s cwd p |} true) as [? ?|? ?|[]];
    intros H; inversion H; reflexivity.
Qed.

(* ---------- new_dirs_inside, one level at a time ----------------------------------------------------- *)
Lemma ndi_unfold n s d comps :
  new_dirs_inside n s d comps =
  if exists_ s [] {| up_abs := true; up_comps := comps |} then Some true
  else match realpath s [] {| up_abs := true; up_comps := comps |} with
       | None => None
       | Some a =>
         if is_prefix_path d a then
           match n with
           | O => Some true
           | S k => match comps with [] => Some true | _ => new_dirs_inside k s d (removelast comps) end
           end
         else Some false
       end.
Proof. destruct n; reflexivity. Qed.

Definition ndi (s0 : fs) (d : rpath) (p : ppath) : Prop :=
  new_dirs_inside (length (target d p)) s0 d (target d p) = Some true.

Lemma ndi_step s0 d p :
  ndi s0 d p -> exists_ s0 [] (abs_target d p) = false ->
  is_prefix_path d (realpath_raw s0 [] (abs_target d p)) = true /\ (pp_parts p <> [] -> ndi s0 d (pp_parent p)).
Proof.
  unfold ndi, abs_target. intros H Hex. rewrite ndi_unfold, Hex in H.
  destruct (realpath s0 [] {| up_abs := true; up_comps := target d p |}) as [a|] eqn:Rp; [|discriminate].
  apply realpath_some in Rp. subst a.
  destruct (is_prefix_path d (realpath_raw s0 [] {| up_abs := true; up_comps := target d p |})); [|discriminate].
  split; [reflexivity|]. intros Hp. rewrite (target_parent _ _ Hp).
  destruct (target d p) as [|x l] eqn:ET.
  - exfalso. unfold target in ET. destruct (Nat.eqb (pp_root p) 0); [apply app_eq_nil in ET as [_ ET]|]; exact (Hp ET).
  - cbn [length] in H. rewrite removelast_length. exact H.
Qed.

(* ---------- one os.mkdir of mkdir -p ------------------------------------------------------------------- *)
Lemma add_call_fs w c : w_fs (add_call w c) = w_fs w.
Proof. reflexivity. Qed.
Lemma set_fs_fs w s c : w_fs (set_fs w s c) = s.
Proof. reflexivity. Qed.

Lemma snoc_changes_below d s k n : is_prefix_path d k = true -> changes_below d s (s ++ [(k, n)]).
Proof.
  intros P. split; intros k' n' H K.
  - apply in_app_or in H as [H|[H|[]]]; [contradiction|]. inversion H; subst. assumption.
  - exfalso. apply K. apply in_or_app. left. assumption.
Qed.

Lemma mkdir_once_confined s0 d flt w p w1 r :
  chdir s0 d = Some d -> dir_ext s0 (w_fs w) -> (pp_parts p <> [] -> ndi s0 d p) ->
  mkdir_once flt w d p = (w1, r) ->
  dir_ext s0 (w_fs w1) /\ changes_below d (w_fs w) (w_fs w1) /\
  (r = Some ENOENT -> exists_ s0 [] (abs_target d p) = false).
Proof.
  intros Hc0 E Hn. pose proof (chdir_dir_ext _ _ _ E Hc0) as Hc.
  unfold mkdir_once, sys. destruct (faulted flt w).
  { intros H. inversion H; subst. rewrite add_call_fs.
    split; [assumption|]. split; [apply changes_below_refl | discriminate]. }
  destruct (os_mkdir (w_fs w) d (to_upath p)) as [s'|err] eqn:M; intros H; inversion H; subst.
  - rewrite set_fs_fs.
    destruct (os_mkdir_ok _ _ _ _ M) as [par [nm [R ->]]].
    assert (Hp : pp_parts p <> []).
    { intros K. rewrite to_upath_walk in R. rewrite K in R.
      exact (walk_nil_not_missing _ _ _ _ _ _ R). }
    assert (Hex : exists_ s0 [] (abs_target d p) = false).
    { destruct (exists_ s0 [] (abs_target d p)) eqn:Ex; [exfalso|reflexivity].
      destruct (exists_in_target _ _ _ _ E Hc Ex) as [q [n F]].
      rewrite (resolve_nofollow_follow _ _ _ _ R) in F; [discriminate | intros ? ?; discriminate]. }
    destruct (ndi_step _ _ _ (Hn Hp) Hex) as [P _].
    rewrite <- (realpath_raw_dir_ext _ _ _ _ E) in P. rewrite (target_realpath _ _ _ _ _ Hc R) in P.
    split; [|split].
    + apply (dir_ext_trans _ _ _ E). apply (os_mkdir_dir_ext _ _ _ _ M).
    + apply snoc_changes_below. assumption.
    + discriminate.
  - rewrite add_call_fs. split; [assumption|]. split; [apply changes_below_refl|].
    intros K. inversion K; subst err.
    apply os_mkdir_enoent in M.
    destruct (exists_ s0 [] (abs_target d p)) eqn:Ex; [exfalso|reflexivity].
    destruct (exists_in_target _ _ _ _ E Hc Ex) as [q [n F]].
    rewrite (resolve_nofollow_follow _ _ _ _ M) in F; [discriminate | intros ? ?; discriminate].
Qed.

(* ---------- mkdir -p ----------------------------------------------------------------------------------------- *)
Lemma mkdir_p_0 flt w cwd p :
  mkdir_p 0 flt w cwd p =
  match mkdir_once flt w cwd p with
  | (w1, None) => (w1, None)
  | (w1, Some ENOENT) => (w1, Some ExOther)
  | (w1, Some e) => (w1, swallow w1 cwd p e)
  end.
Proof. reflexivity. Qed.

Lemma mkdir_p_S f flt w cwd p :
  mkdir_p (S f) flt w cwd p =
  match mkdir_once flt w cwd p with
  | (w1, None) => (w1, None)
  | (w1, Some ENOENT) =>
    match pp_parts p with
    | _ :: _ =>
      match mkdir_p f flt w1 cwd (pp_parent p) with
      | (w2, Some e) => (w2, Some e)
      | (w2, None) =>
        match mkdir_once flt w2 cwd p with
        | (w3, None) => (w3, None)
        | (w3, Some ENOENT) => (w3, Some ExOther)
        | (w3, Some e) => (w3, swallow w3 cwd p e)
        end
      end
    | [] => (w1, Some ExOther)
    end
  | (w1, Some e) => (w1, swallow w1 cwd p e)
  end.
Proof. reflexivity. Qed.

Lemma mkdir_p_confined s0 d flt : forall fuel w p w' e,
  chdir s0 d = Some d -> dir_ext s0 (w_fs w) -> (pp_parts p <> [] -> ndi s0 d p) ->
  mkdir_p fuel flt w d p = (w', e) ->
  dir_ext s0 (w_fs w') /\ changes_below d (w_fs w) (w_fs w').
Proof.
  induction fuel as [|fuel IH]; intros w p w' e Hc E Hn H.
  - rewrite mkdir_p_0 in H. destruct (mkdir_once flt w d p) as [w1 r] eqn:M1.
    destruct (mkdir_once_confined _ _ _ _ _ _ _ Hc E Hn M1) as [E1 [C1 _]].
    destruct r as [err|]; [destruct err|]; inversion H; subst; split; assumption.
  - rewrite mkdir_p_S in H. destruct (mkdir_once flt w d p) as [w1 r] eqn:M1.
    destruct (mkdir_once_confined _ _ _ _ _ _ _ Hc E Hn M1) as [E1 [C1 X1]].
    destruct r as [err|]; [|inversion H; subst; split; assumption].
    destruct err; try (inversion H; subst; split; assumption).
    destruct (pp_parts p) as [|x l] eqn:Pp; [inversion H; subst; split; assumption|].
    assert (Hxl : x :: l <> []) by discriminate.
    assert (Hp : pp_parts p <> []) by (rewrite Pp; discriminate).
    destruct (ndi_step _ _ _ (Hn Hxl) (X1 eq_refl)) as [_ Hn2]. specialize (Hn2 Hp).
    destruct (mkdir_p fuel flt w1 d (pp_parent p)) as [w2 r2] eqn:M2.
    destruct (IH _ _ _ _ Hc E1 (fun _ => Hn2) M2) as [E2 C2].
    pose proof (changes_below_trans _ _ _ _ C1 C2) as C12.
    destruct r2 as [e2|]; [inversion H; subst; split; assumption|].
    destruct (mkdir_once flt w2 d p) as [w3 r3] eqn:M3.
    destruct (mkdir_once_confined _ _ _ _ _ _ _ Hc E2 (fun _ => Hn Hxl) M3) as [E3 [C3 _]].
    pose proof (changes_below_trans _ _ _ _ C12 C3) as C123.
    destruct r3 as [err|]; [destruct err|]; inversion H; subst; split; assumption.
Qed.

(* ---------- the rename after mkdir -p ------------------------------------------------------------------------ *)
Lemma plain_path_dir_ext s s1 : dir_ext s s1 -> forall comps cur,
  plain_path s cur comps = true -> plain_path s1 cur comps = true.
Proof.
  intros E. induction comps as [|c rest IH]; intros cur H; [reflexivity|].
  cbn [plain_path] in *. apply andb_true_iff in H as [H1 H2]. rewrite H1. cbn [andb].
  destruct rest as [|c2 rest]; [reflexivity|].
  destruct (lookup s (cur ++ [c])) as [[| |]|] eqn:L; try discriminate.
  rewrite (dir_ext_some _ _ _ _ E L). apply IH. assumption.
Qed.

Lemma plain_source_dir_ext s s1 f : dir_ext s s1 -> plain_source s f -> plain_source s1 f.
Proof. intros E [H1 H2]. split; [assumption | apply (plain_path_dir_ext _ _ E); assumption]. Qed.

(* the containment test was evaluated on s0; the rename happens on an extension s of s0 *)
Theorem confined_step_after_mkdir s0 s f np s' dpar dname :
  chdir s0 (pf_dir f) = Some (pf_dir f) ->
  contained fixed s0 f np = Some true ->
  plain_source s0 f ->
  dir_ext s0 s ->
  resolve s (pf_dir f) (to_upath np) false = WMissing dpar dname ->
  os_rename s (pf_dir f) (to_upath (pf_rel f)) (to_upath np) = SOk s' ->
  is_prefix_path (pf_dir f) (dpar ++ [dname]) = true /\ changes_below (pf_dir f) s s'.
Proof.
  intros Hc0 Hin Hp0 E Hd H.
  pose proof (chdir_dir_ext _ _ _ E Hc0) as Hc. pose proof (plain_source_dir_ext _ _ _ E Hp0) as Hp.
  assert (Pd : is_prefix_path (pf_dir f) (dpar ++ [dname]) = true).
  { rewrite <- (dest_realpath _ _ _ _ _ Hc Hd). rewrite (realpath_raw_dir_ext _ _ _ _ E).
    apply contained_true_prefix. assumption. }
  split; [assumption|].
  destruct (os_rename_missing_dest _ _ _ _ _ _ _ Hd H) as [sp [sn [Rs ->]]].
  apply rekey_changes_below; [|assumption].
  eapply plain_source_key_inside; eauto.
Qed.

(* any source: the test on the source's real directory was evaluated on s0 as well; new plain directories
   do not change realpath, so it still speaks about the entry rename(2) takes away on the extension s *)
Lemma source_inside_dir_ext s s1 f : dir_ext s s1 -> source_inside s f -> source_inside s1 f.
Proof. intros E H. unfold source_inside. rewrite (realpath_raw_dir_ext _ _ _ _ E). exact H. Qed.

Theorem confined_step_after_mkdir_any_source s0 s f np s' dpar dname :
  chdir s0 (pf_dir f) = Some (pf_dir f) ->
  contained fixed s0 f np = Some true ->
  source_contained s0 f = Some true ->
  dir_ext s0 s ->
  resolve s (pf_dir f) (to_upath np) false = WMissing dpar dname ->
  os_rename s (pf_dir f) (to_upath (pf_rel f)) (to_upath np) = SOk s' ->
  is_prefix_path (pf_dir f) (dpar ++ [dname]) = true /\ changes_below (pf_dir f) s s'.
Proof.
  intros Hc0 Hin Hs0 E Hd H.
  pose proof (chdir_dir_ext _ _ _ E Hc0) as Hc.
  pose proof (source_inside_dir_ext _ _ _ E (source_contained_inside _ _ Hs0)) as Hs.
  assert (Pd : is_prefix_path (pf_dir f) (dpar ++ [dname]) = true).
  { rewrite <- (dest_realpath _ _ _ _ _ Hc Hd). rewrite (realpath_raw_dir_ext _ _ _ _ E).
    apply contained_true_prefix. assumption. }
  split; [assumption|].
  destruct (os_rename_missing_dest _ _ _ _ _ _ _ Hd H) as [sp [sn [Rs ->]]].
  apply rekey_changes_below; [|assumption].
  exact (source_key_inside _ _ _ _ Hc Hs (os_rename_ok_not_bad_last _ _ _ _ _ H) Rs).
Qed.

Lemma shutil_move_free s cwd src dst :
  lexists s cwd dst = false -> shutil_move_fs s cwd src dst = os_rename s cwd src dst.
Proof. intros H. unfold shutil_move_fs. rewrite (not_lexists_not_dir _ _ _ H). reflexivity. Qed.

Lemma file_mover_fixed_unfold flt w cwd src dst :
  file_mover fixed flt w cwd src dst false =
  if lexists (w_fs w) cwd (to_upath dst) then (w, Some ExDestExists)
  else match mkdir_p (S (length (pp_parts dst))) flt w cwd (pp_parent dst) with
       | (w1, Some e) => (w1, Some e)
       | (w1, None) =>
         if lexists (w_fs w1) cwd (to_upath dst) then (w1, Some ExDestExists)
         else match sys flt CMove w1 (shutil_move_fs (w_fs w1) cwd (to_upath src) (to_upath dst)) with
              | (w2, None) => (w2, None)
              | (w2, Some _) => (w2, Some ExOther)
              end
       end.
Proof. reflexivity. Qed.

Lemma parents_contained_ndi s f np :
  parents_contained s f np = Some true -> pp_parts (pp_parent np) <> [] -> ndi s (pf_dir f) (pp_parent np).
Proof.
  unfold parents_contained, ndi. intros H Hp.
  assert (Hq : pp_parts np <> []).
  { intros K. apply Hp. unfold pp_parent. cbn [pp_parts]. rewrite K. reflexivity. }
  rewrite (target_parent _ _ Hq). exact H.
Qed.

(* path mode: guard, mkdir -p of the parent, guard again, shutil.move *)
Lemma file_mover_confined flt w f np w' e :
  chdir (w_fs w) (pf_dir f) = Some (pf_dir f) ->
  contained fixed (w_fs w) f np = Some true ->
  parents_contained (w_fs w) f np = Some true ->
  plain_source (w_fs w) f ->
  file_mover fixed flt w (pf_dir f) (pf_rel f) np false = (w', e) ->
  changes_below (pf_dir f) (w_fs w) (w_fs w').
Proof.
  intros Hc Hin Hpar Hp. rewrite file_mover_fixed_unfold.
  destruct (lexists (w_fs w) (pf_dir f) (to_upath np)).
  { intros H. inversion H; subst. apply changes_below_refl. }
  destruct (mkdir_p (S (length (pp_parts np))) flt w (pf_dir f) (pp_parent np)) as [w1 r1] eqn:MP.
  destruct (mkdir_p_confined _ _ _ _ _ _ _ _ Hc (dir_ext_refl _) (parents_contained_ndi _ _ _ Hpar) MP) as [E1 C1].
  destruct r1 as [e1|]; [intros H; inversion H; subst; assumption|].
  destruct (lexists (w_fs w1) (pf_dir f) (to_upath np)) eqn:Hg.
  { intros H. inversion H; subst. assumption. }
  destruct (sys flt CMove w1 (shutil_move_fs (w_fs w1) (pf_dir f) (to_upath (pf_rel f)) (to_upath np))) as [w2 e2] eqn:Sy.
  intros H. assert (Ew : w2 = w') by (destruct e2; inversion H; reflexivity). subst w2. clear H.
  apply (changes_below_trans _ _ _ _ C1).
  destruct (sys_fs _ _ _ _ _ _ Sy) as [Efs | [_ R]].
  - rewrite Efs. apply changes_below_refl.
  - rewrite (shutil_move_free _ _ _ _ Hg) in R.
    destruct (resolve (w_fs w1) (pf_dir f) (to_upath np) false) as [dp dn|dpar dname|er] eqn:Rd.
    + exfalso. exact (not_lexists_not_found _ _ _ Hg _ _ Rd).
    + exact (proj2 (confined_step_after_mkdir _ _ _ _ _ _ _ Hc Hin Hp E1 Rd R)).
    + exfalso. exact (os_rename_ok_dest_not_err _ _ _ _ _ _ R Rd).
Qed.

(* ---------- every mode: the renamer as first_pass calls it ------------------------------------------------- *)
Theorem confined_renamer_step_all_modes c w f np w' e :
  c_var c = fixed ->
  chdir (w_fs w) (pf_dir f) = Some (pf_dir f) ->
  contained (c_var c) (w_fs w) f np = Some true ->
  parents_contained (w_fs w) f np = Some true ->
  plain_source (w_fs w) f ->
  renamer c w (pf_dir f) (pf_rel f) np false = (w', e) ->
  changes_below (pf_dir f) (w_fs w) (w_fs w').
Proof.
  intros Hv Hc Hin Hpar Hp H.
  destruct (c_dry c) eqn:Hdry.
  { apply (confined_renamer_step c w f np w' e); auto. }
  destruct (c_mode c) eqn:Hm;
    try (apply (confined_renamer_step c w f np w' e); auto; right; rewrite Hm; discriminate).
  rewrite Hv in Hin. revert H. unfold renamer, renamer_core. rewrite Hv, Hdry, Hm.
  destruct (file_mover fixed (c_fault c) w (pf_dir f) (pf_rel f) np false) as [w1 [e1|]] eqn:D;
    intros H; inversion H; subst; try rewrite add_report_fs;
    exact (file_mover_confined _ _ _ _ _ _ Hc Hin Hpar Hp D).
Qed.

Lemma file_mover_confined_any_source flt w f np w' e :
  chdir (w_fs w) (pf_dir f) = Some (pf_dir f) ->
  contained fixed (w_fs w) f np = Some true ->
  parents_contained (w_fs w) f np = Some true ->
  source_contained (w_fs w) f = Some true ->
  file_mover fixed flt w (pf_dir f) (pf_rel f) np false = (w', e) ->
  changes_below (pf_dir f) (w_fs w) (w_fs w').
Proof.
  intros Hc Hin Hpar Hp. rewrite file_mover_fixed_unfold.
  destruct (lexists (w_fs w) (pf_dir f) (to_upath np)).
  { intros H. inversion H; subst. apply changes_below_refl. }
  destruct (mkdir_p (S (length (pp_parts np))) flt w (pf_dir f) (pp_parent np)) as [w1 r1] eqn:MP.
  destruct (mkdir_p_confined _ _ _ _ _ _ _ _ Hc (dir_ext_refl _) (parents_contained_ndi _ _ _ Hpar) MP) as [E1 C1].
  destruct r1 as [e1|]; [intros H; inversion H; subst; assumption|].
  destruct (lexists (w_fs w1) (pf_dir f) (to_upath np)) eqn:Hg.
  { intros H. inversion H; subst. assumption. }
  destruct (sys flt CMove w1 (shutil_move_fs (w_fs w1) (pf_dir f) (to_upath (pf_rel f)) (to_upath np))) as [w2 e2] eqn:Sy.
  intros H. assert (Ew : w2 = w') by (destruct e2; inversion H; reflexivity). subst w2. clear H.
  apply (changes_below_trans _ _ _ _ C1).
  destruct (sys_fs _ _ _ _ _ _ Sy) as [Efs | [_ R]].
  - rewrite Efs. apply changes_below_refl.
  - rewrite (shutil_move_free _ _ _ _ Hg) in R.
    destruct (resolve (w_fs w1) (pf_dir f) (to_upath np) false) as [dp dn|dpar dname|er] eqn:Rd.
    + exfalso. exact (not_lexists_not_found _ _ _ Hg _ _ Rd).
    + exact (proj2 (confined_step_after_mkdir_any_source _ _ _ _ _ _ _ Hc Hin Hp E1 Rd R)).
    + exfalso. exact (os_rename_ok_dest_not_err _ _ _ _ _ _ R Rd).
Qed.

(* every mode, any source *)
Theorem confined_renamer_step_all_modes_any_source c w f np w' e :
  c_var c = fixed ->
  chdir (w_fs w) (pf_dir f) = Some (pf_dir f) ->
  contained (c_var c) (w_fs w) f np = Some true ->
  parents_contained (w_fs w) f np = Some true ->
  source_contained (w_fs w) f = Some true ->
  renamer c w (pf_dir f) (pf_rel f) np false = (w', e) ->
  changes_below (pf_dir f) (w_fs w) (w_fs w').
Proof.
  intros Hv Hc Hin Hpar Hp H.
  destruct (c_dry c) eqn:Hdry.
  { apply (confined_renamer_step_any_source c w f np w' e); auto. }
  destruct (c_mode c) eqn:Hm;
    try (apply (confined_renamer_step_any_source c w f np w' e); auto; right; rewrite Hm; discriminate).
  rewrite Hv in Hin. revert H. unfold renamer, renamer_core. rewrite Hv, Hdry, Hm.
  destruct (file_mover fixed (c_fault c) w (pf_dir f) (pf_rel f) np false) as [w1 [e1|]] eqn:D;
    intros H; inversion H; subst; try rewrite add_report_fs;
    exact (file_mover_confined_any_source _ _ _ _ _ _ Hc Hin Hpar Hp D).
Qed.

(* one whole step of first_pass for the head of the plan: whatever happens to this file (skipped, refused,
   renamed, deferred, error), the world handed on differs from the one before only at or below the file's
   input directory.  No hypothesis on the source path: links, "..", an absolute relative_path -- the test on
   the source's real directory (F32) and rename(2)'s own refusal of a trailing ".." cover them all *)
Theorem first_pass_head_confined c f r w cwd bl :
  c_var c = fixed ->
  chdir (w_fs w) (pf_dir f) = Some (pf_dir f) ->
  exists w1, changes_below (pf_dir f) (w_fs w) (w_fs w1) /\
    ((exists bl1, forall rest, first_pass c ((f, r) :: rest) w cwd bl = first_pass c rest w1 (pf_dir f) bl1) \/
     (exists e, forall rest, first_pass c ((f, r) :: rest) w cwd bl = (w1, pf_dir f, bl, Some e))).
Proof.
  intros Hv Hc.
  destruct (generate (c_mode c) f r) as [np|ex] eqn:G.
  2:{ exists w. split; [apply changes_below_refl|]. right. exists ex. intros rest. cbn [first_pass]. rewrite Hc, G. reflexivity. }
  destruct (ppath_eqb np (pf_rel f)) eqn:Pe.
  { exists w. split; [apply changes_below_refl|]. left. exists bl. intros rest. cbn [first_pass]. rewrite Hc, G, Pe. reflexivity. }
  destruct (contained (c_var c) (w_fs w) f np) as [[|]|] eqn:Ct.
  2:{ exists w. split; [apply changes_below_refl|]. right. eexists. intros rest. cbn [first_pass]. rewrite Hc, G, Pe, Ct. reflexivity. }
  2:{ exists w. split; [apply changes_below_refl|]. right. eexists. intros rest. cbn [first_pass]. rewrite Hc, G, Pe, Ct. reflexivity. }
  destruct (dest_parent_test (c_var c) (w_fs w) f np) as [[|]|] eqn:Dc.
  2:{ exists w. split; [apply changes_below_refl|]. right. eexists. intros rest. cbn [first_pass]. rewrite Hc, G, Pe, Ct, Dc. reflexivity. }
  2:{ exists w. split; [apply changes_below_refl|]. right. eexists. intros rest. cbn [first_pass]. rewrite Hc, G, Pe, Ct, Dc. reflexivity. }
  destruct (parents_contained (w_fs w) f np) as [[|]|] eqn:Pc.
  2:{ exists w. split; [apply changes_below_refl|]. right. eexists. intros rest. cbn [first_pass]. rewrite Hc, G, Pe, Ct, Dc, Pc. reflexivity. }
  2:{ exists w. split; [apply changes_below_refl|]. right. eexists. intros rest. cbn [first_pass]. rewrite Hc, G, Pe, Ct, Dc, Pc. reflexivity. }
  destruct (source_contained (w_fs w) f) as [[|]|] eqn:Sc.
  2:{ exists w. split; [apply changes_below_refl|]. right. eexists. intros rest. cbn [first_pass]. rewrite Hc, G, Pe, Ct, Dc, Pc, Sc. reflexivity. }
  2:{ exists w. split; [apply changes_below_refl|]. right. eexists. intros rest. cbn [first_pass]. rewrite Hc, G, Pe, Ct, Dc, Pc, Sc. reflexivity. }
  destruct (renamer c w (pf_dir f) (pf_rel f) np false) as [w1 e1] eqn:Rn.
  exists w1. split; [exact (confined_renamer_step_all_modes_any_source _ _ _ _ _ _ Hv Hc Ct Pc Sc Rn)|].
  destruct e1 as [ex|].
  - destruct (is_file_exists ex) eqn:Fe.
    + left. eexists. intros rest. cbn [first_pass]. rewrite Hc, G, Pe, Ct, Dc, Pc, Sc, Rn, Fe. reflexivity.
    + right. exists ex. intros rest. cbn [first_pass]. rewrite Hc, G, Pe, Ct, Dc, Pc, Sc, Rn, Fe. reflexivity.
  - left. exists bl. intros rest. cbn [first_pass]. rewrite Hc, G, Pe, Ct, Dc, Pc, Sc, Rn. reflexivity.
Qed.

(* ---------- non-vacuity: path mode through a symlinked directory, with ".." and two new directories ---- *)
(* cs_fs: /in, /in/a, /in/sub, /in/lnk -> sub, /out.  "lnk/new/../n/b": mkdir -p creates /in/sub/new and
   /in/sub/n (the keys realpath predicted on the tree before), shutil.move puts the file at /in/sub/n/b. *)
Definition cm_np : ppath := {| pp_root := 0; pp_parts := [[108;110;107]; [110;101;119]; dotdot; [110]; [98]] |}.
Definition cm_cfg : cfg :=
  {| c_mode := MPath; c_strategy := Stop; c_dry := false; c_answers := []; c_fault := None; c_var := fixed |}.

Example confined_move_applies :
  chdir cs_fs (pf_dir cs_file) = Some (pf_dir cs_file) /\
  contained fixed cs_fs cs_file cm_np = Some true /\
  parents_contained cs_fs cs_file cm_np = Some true /\
  plain_path cs_fs (pf_dir cs_file) (pp_parts (pf_rel cs_file)) = true /\
  (let '(w, e) := renamer cm_cfg (init_world cs_fs []) (pf_dir cs_file) (pf_rel cs_file) cm_np false in
   (w_fs w, e, rev (w_calls w))) =
  ([([[105;110]], NDir); ([[105;110]; [115;117;98]; [110]; [98]], NFile 1); ([[105;110]; [115;117;98]], NDir);
    ([[105;110]; [108;110;107]], NLink 2 {| up_abs := false; up_comps := [[115;117;98]] |});
    ([[111;117;116]], NDir); ([[105;110]; [115;117;98]; [110;101;119]], NDir); ([[105;110]; [115;117;98]; [110]], NDir)],
   None,
   [(CMkdir, CErr); (CMkdir, CErr); (CMkdir, COk); (CMkdir, CErr); (CMkdir, COk); (CMove, COk)]).
Proof. vm_compute. repeat split. Qed.
