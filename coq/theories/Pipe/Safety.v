(* C01: under stop / ignore / manual-without-override nothing is ever lost or replaced:  *)
(* every filesystem state of every run is well-formed and has the initial non-directory   *)
(* entries, for every plan, order, mode, fault index and outcome.                         *)
From Tempren Require Import Base.Str Py.PathLib FS.Model FS.Lemmas Pipe.Pipeline.
Open Scope N_scope.

Section Safety.
Variable L : list node.                       (* the non-directory entries of the initial tree *)

Definition good_fs (s : fs) : Prop := WF s /\ leaves s = L.
Definition Safe (w : world) : Prop := Forall good_fs (w_fs w :: w_hist w).

Lemma Safe_fs w : Safe w -> good_fs (w_fs w).
Proof. intros H. inversion H; assumption. Qed.

Lemma Safe_add_call w c : Safe w -> Safe (add_call w c).
Proof. intros H. exact H. Qed.

Lemma Safe_set_fs w s c : Safe w -> good_fs s -> Safe (set_fs w s c).
Proof. intros H G. unfold Safe. simpl. constructor; [assumption|]. constructor; [assumption|]. inversion H; assumption. Qed.

(* a system call that, whenever it succeeds, keeps the state good *)
Lemma Safe_sys flt k w r w' e :
  Safe w -> (forall s', r = SOk s' -> good_fs s') -> sys flt k w r = (w', e) -> Safe w'.
Proof.
  intros H G. unfold sys. destruct (faulted flt w).
  - intros E; inversion E; subst. apply Safe_add_call, H.
  - destruct r as [s'|er]; intros E; inversion E; subst.
    + apply Safe_set_fs; [assumption | apply G; reflexivity].
    + apply Safe_add_call, H.
Qed.

Lemma sys_fs_unchanged_on_error flt k w r w' e :
  sys flt k w r = (w', Some e) -> w_fs w' = w_fs w.
Proof.
  unfold sys. destruct (faulted flt w); [intros E; inversion E; reflexivity|].
  destruct r; intros E; inversion E; reflexivity.
Qed.

Lemma Safe_mkdir_once flt w cwd p w' e : Safe w -> mkdir_once flt w cwd p = (w', e) -> Safe w'.
Proof.
  intros H. unfold mkdir_once. apply Safe_sys; [assumption|].
  intros s' E. destruct (Safe_fs _ H) as [W Lv].
  destruct (mkdir_preserves _ _ _ _ W E) as [W' L']. split; [assumption | congruence].
Qed.

Lemma Safe_mkdir_p fuel flt w cwd p w' e : Safe w -> mkdir_p fuel flt w cwd p = (w', e) -> Safe w'.
Proof.
  revert w p w' e. induction fuel as [|f IH]; intros w p w' e H; simpl.
  - destruct (mkdir_once flt w cwd p) as [w1 [er|]] eqn:M1.
    + pose proof (Safe_mkdir_once _ _ _ _ _ _ H M1) as H1.
      destruct er; intros E; inversion E; subst; assumption.
    + intros E; inversion E; subst. eapply Safe_mkdir_once; eassumption.
  - destruct (mkdir_once flt w cwd p) as [w1 [er|]] eqn:M1.
    + pose proof (Safe_mkdir_once _ _ _ _ _ _ H M1) as H1.
      destruct er; try (intros E; inversion E; subst; assumption).
      destruct (pp_parts p) eqn:Hp; [intros E; inversion E; subst; assumption|].
      destruct (mkdir_p f flt w1 cwd (pp_parent p)) as [w2 [e2|]] eqn:M2.
      * intros E; inversion E; subst. eapply IH; eassumption.
      * pose proof (IH _ _ _ _ H1 M2) as H2.
        destruct (mkdir_once flt w2 cwd p) as [w3 [e3|]] eqn:M3.
        -- pose proof (Safe_mkdir_once _ _ _ _ _ _ H2 M3) as H3.
           destruct e3; intros E; inversion E; subst; assumption.
        -- intros E; inversion E; subst. eapply Safe_mkdir_once; eassumption.
    + intros E; inversion E; subst. eapply Safe_mkdir_once; eassumption.
Qed.

(* ---------- the renamers without override ------------------------------------------------------ *)
Definition guarded (v : variant) : Prop := v_lexists_guard v = true /\ v_recheck_after_mkdir v = true.

Lemma Safe_file_renamer v flt w cwd src dst w' e :
  guarded v -> Safe w -> file_renamer v flt w cwd src dst false = (w', e) -> Safe w'.
Proof.
  intros [G _] H. unfold file_renamer, guard_exists. rewrite G. cbn [negb andb].
  destruct (lexists (w_fs w) cwd (to_upath dst)) eqn:Lx; [intros E; inversion E; subst; assumption|].
  destruct (ppath_eqb (pp_parent src) (pp_parent dst)); simpl; [|intros E; inversion E; subst; assumption].
  destruct (sys flt CRename w (os_rename (w_fs w) cwd (to_upath src) (to_upath dst))) as [w1 [er|]] eqn:S;
    intros E; inversion E; subst;
    (eapply Safe_sys; [exact H | | exact S]);
    intros s' R; destruct (Safe_fs _ H) as [W Lv];
    destruct (os_rename_free_preserves _ _ _ _ _ W Lx R) as [W' L']; (split; [assumption | congruence]).
Qed.

Lemma Safe_file_mover v flt w cwd src dst w' e :
  guarded v -> Safe w -> file_mover v flt w cwd src dst false = (w', e) -> Safe w'.
Proof.
  intros [G1 G2] H. unfold file_mover, guard_exists. rewrite G1, G2. cbn [negb andb].
  destruct (lexists (w_fs w) cwd (to_upath dst)); [intros E; inversion E; subst; assumption|].
  destruct (mkdir_p (S (length (pp_parts dst))) flt w cwd (pp_parent dst)) as [w1 [e1|]] eqn:M.
  - intros E; inversion E; subst. eapply Safe_mkdir_p; eassumption.
  - pose proof (Safe_mkdir_p _ _ _ _ _ _ _ H M) as H1.
    destruct (lexists (w_fs w1) cwd (to_upath dst)) eqn:Lx; [intros E; inversion E; subst; assumption|].
    destruct (sys flt CMove w1 (shutil_move_fs (w_fs w1) cwd (to_upath src) (to_upath dst))) as [w2 [er|]] eqn:S;
      intros E; inversion E; subst;
      (eapply Safe_sys; [exact H1 | | exact S]);
      intros s' R; destruct (Safe_fs _ H1) as [W Lv];
      destruct (shutil_move_free_preserves _ _ _ _ _ W Lx R) as [W' L']; (split; [assumption | congruence]).
Qed.

Lemma dry_renamer_fs v sd w cwd src dst o w' e :
  dry_renamer v sd w cwd src dst o = (w', e) -> w_fs w' = w_fs w /\ w_hist w' = w_hist w.
Proof.
  unfold dry_renamer. destruct (dry_exists v w cwd dst && negb o); [intros E; inversion E; subst; auto|].
  destruct (sd && negb _); [intros E; inversion E; subst; auto|].
  destruct (negb (dry_exists v w cwd src)); intros E; inversion E; subst; auto.
Qed.

Lemma Safe_same w w' : w_fs w' = w_fs w -> w_hist w' = w_hist w -> Safe w -> Safe w'.
Proof. unfold Safe. intros -> ->. auto. Qed.

Lemma Safe_renamer c w cwd src dst w' e :
  guarded (c_var c) -> Safe w -> renamer c w cwd src dst false = (w', e) -> Safe w'.
Proof.
  intros G H. unfold renamer.
  destruct (renamer_core c w cwd src dst false) as [w1 [e1|]] eqn:R; unfold renamer_core in R.
  - intros E; inversion E; subst.
    destruct (c_dry c).
    + destruct (dry_renamer_fs _ _ _ _ _ _ _ _ _ R) as [A B]. eapply Safe_same; eassumption.
    + destruct (c_mode c); [eapply Safe_file_renamer | eapply Safe_file_mover | eapply Safe_file_renamer]; eassumption.
  - intros E; inversion E; subst.
    assert (Safe w1).
    { destruct (c_dry c).
      + destruct (dry_renamer_fs _ _ _ _ _ _ _ _ _ R) as [A B]. eapply Safe_same; eassumption.
      + destruct (c_mode c); [eapply Safe_file_renamer | eapply Safe_file_mover | eapply Safe_file_renamer]; eassumption. }
    exact H0.
Qed.

(* ---------- the prompt never chooses override unless an answer says so ---------------------------- *)
Definition no_override_answer (answers : list str) : Prop :=
  Forall (fun a => parse_answer a <> AOverride) answers.

Lemma take_line_props w l w1 :
  take_line w = (l, w1) ->
  w_fs w1 = w_fs w /\ w_hist w1 = w_hist w /\
  (forall a, l = Some a -> In a (w_answers w)) /\
  (forall a, In a (w_answers w1) -> In a (w_answers w)).
Proof.
  unfold take_line. destruct (w_answers w) as [|a rest] eqn:A; intros E; inversion E; subst; simpl.
  - split; [reflexivity|]. split; [reflexivity|]. split; [intros b Hb; discriminate | intros b Hb; rewrite A in Hb; exact Hb].
  - split; [reflexivity|]. split; [reflexivity|]. split.
    + intros b Hb. inversion Hb; subst. left; reflexivity.
    + intros b Hb. right. exact Hb.
Qed.

Lemma prompt_props fuel w d w1 :
  prompt fuel w = (d, w1) ->
  w_fs w1 = w_fs w /\ w_hist w1 = w_hist w /\
  (forall a, In a (w_answers w1) -> In a (w_answers w)) /\
  (d = DStrategy Override -> exists a, In a (w_answers w) /\ parse_answer a = AOverride) /\
  d <> DStrategy Manual.
Proof.
  revert w d w1. induction fuel as [|f IH]; intros w d w1; simpl.
  - intros E; inversion E; subst. repeat split; auto; discriminate.
  - destruct (take_line w) as [[l|] w2] eqn:T.
    + destruct (take_line_props _ _ _ T) as [A [B [C D]]].
      destruct (parse_answer l) eqn:P.
      * intros E; inversion E; subst. repeat split; auto; discriminate.
      * intros E; inversion E; subst. repeat split; auto; discriminate.
      * intros E; inversion E; subst. repeat split; auto; [|discriminate].
        intros _. exists l. split; [apply C; reflexivity | assumption].
      * destruct (take_line w2) as [[p|] w3] eqn:T2; destruct (take_line_props _ _ _ T2) as [A2 [B2 [C2 D2]]];
          intros E; inversion E; subst; repeat split; auto; try congruence; try discriminate.
      * intros E. destruct (IH _ _ _ E) as [A3 [B3 [C3 [D3 E3]]]]. repeat split; auto; try congruence.
        intros H. destruct (D3 H) as [a [Ha Pa]]. exists a. split; auto.
    + destruct (take_line_props _ _ _ T) as [A [B [C D]]].
      intros E; inversion E; subst. repeat split; auto; discriminate.
Qed.

(* ---------- conflict resolution, passes, run ---------------------------------------------------------- *)
Definition safe_cfg (c : cfg) : Prop :=
  guarded (c_var c) /\
  match c_strategy c with
  | Stop | Ignore => True
  | Manual => no_override_answer (c_answers c)
  | Override => False
  end.

(* the answers still unread are always among the configured ones *)
Definition answers_within (c : cfg) (w : world) : Prop :=
  forall a, In a (w_answers w) -> In a (c_answers c).

Lemma renamer_answers c w cwd src dst o w' e :
  renamer c w cwd src dst o = (w', e) -> w_answers w' = w_answers w.
Proof.
  unfold renamer.
  assert (D : forall v sd w0 cwd0 s0 d0 o0 w1 e1, dry_renamer v sd w0 cwd0 s0 d0 o0 = (w1, e1) -> w_answers w1 = w_answers w0).
  { intros v sd w0 cwd0 s0 d0 o0 w1 e1. unfold dry_renamer.
    destruct (dry_exists v w0 cwd0 d0 && negb o0); [intros E; inversion E; reflexivity|].
    destruct (sd && negb _); [intros E; inversion E; reflexivity|].
    destruct (negb (dry_exists v w0 cwd0 s0)); intros E; inversion E; reflexivity. }
  assert (S : forall flt k w0 r w1 e1, sys flt k w0 r = (w1, e1) -> w_answers w1 = w_answers w0).
  { intros flt k w0 r w1 e1. unfold sys. destruct (faulted flt w0); [intros E; inversion E; reflexivity|].
    destruct r; intros E; inversion E; reflexivity. }
  assert (MP : forall fuel flt w0 cwd0 p w1 e1, mkdir_p fuel flt w0 cwd0 p = (w1, e1) -> w_answers w1 = w_answers w0).
  { induction fuel as [|f IH]; intros flt w0 cwd0 p w1 e1; simpl; unfold mkdir_once.
    - destruct (sys flt CMkdir w0 _) as [wa [ea|]] eqn:S1; pose proof (S _ _ _ _ _ _ S1);
        [destruct ea|]; intros E; inversion E; subst; assumption.
    - destruct (sys flt CMkdir w0 _) as [wa [ea|]] eqn:S1; pose proof (S _ _ _ _ _ _ S1) as A1.
      + destruct ea; try (intros E; inversion E; subst; assumption).
        destruct (pp_parts p); [intros E; inversion E; subst; assumption|].
        destruct (mkdir_p f flt wa cwd0 (pp_parent p)) as [wb [eb|]] eqn:M2; pose proof (IH _ _ _ _ _ _ M2) as A2.
        * intros E; inversion E; subst. congruence.
        * destruct (sys flt CMkdir wb _) as [wc [ec|]] eqn:S3; pose proof (S _ _ _ _ _ _ S3) as A3;
            [destruct ec|]; intros E; inversion E; subst; congruence.
      + intros E; inversion E; subst; assumption. }
  assert (FR : forall v flt w0 cwd0 s0 d0 o0 w1 e1, file_renamer v flt w0 cwd0 s0 d0 o0 = (w1, e1) -> w_answers w1 = w_answers w0).
  { intros v flt w0 cwd0 s0 d0 o0 w1 e1. unfold file_renamer.
    destruct (negb o0 && _); [intros E; inversion E; reflexivity|].
    destruct (negb _); [intros E; inversion E; reflexivity|].
    destruct (sys flt CRename w0 _) as [wa [ea|]] eqn:S1; pose proof (S _ _ _ _ _ _ S1);
      intros E; inversion E; subst; assumption. }
  assert (FM : forall v flt w0 cwd0 s0 d0 o0 w1 e1, file_mover v flt w0 cwd0 s0 d0 o0 = (w1, e1) -> w_answers w1 = w_answers w0).
  { intros v flt w0 cwd0 s0 d0 o0 w1 e1. unfold file_mover.
    destruct (negb o0 && _); [intros E; inversion E; reflexivity|].
    destruct (mkdir_p _ flt w0 cwd0 _) as [wa [ea|]] eqn:M1; pose proof (MP _ _ _ _ _ _ _ M1) as A1.
    - intros E; inversion E; subst; assumption.
    - destruct (_ && _ && _); [intros E; inversion E; subst; assumption|].
      destruct (sys flt CMove wa _) as [wb [eb|]] eqn:S2; pose proof (S _ _ _ _ _ _ S2);
        intros E; inversion E; subst; congruence. }
  destruct (renamer_core c w cwd src dst o) as [w1 [e1|]] eqn:R; unfold renamer_core in R;
    intros E; inversion E; subst; simpl;
  (destruct (c_dry c); [eapply D; eassumption|];
   destruct (c_mode c); [eapply FR | eapply FM | eapply FR]; eassumption).
Qed.

Lemma Safe_resolve_conflict c w cwd src dst w' e :
  safe_cfg c -> answers_within c w -> Safe w -> resolve_conflict c w cwd src dst = (w', e) ->
  Safe w' /\ answers_within c w'.
Proof.
  intros [G St] AW H. unfold resolve_conflict.
  destruct (c_strategy c) eqn:Cs; try contradiction.
  - simpl. intros E; inversion E; subst. auto.
  - simpl. intros E; inversion E; subst. auto.
  - destruct (prompt (S (length (w_answers w))) w) as [d w1] eqn:P.
    destruct (prompt_props _ _ _ _ P) as [A [B [C [D NM]]]].
    assert (H1 : Safe w1) by (eapply Safe_same; eassumption).
    assert (AW1 : answers_within c w1) by (intros a Ha; apply AW, C, Ha).
    destruct d as [st|p|].
    + destruct st; simpl.
      * intros E; inversion E; subst. auto.
      * intros E; inversion E; subst. auto.
      * exfalso. destruct (D eq_refl) as [a [Ha Pa]]. unfold no_override_answer in St.
        rewrite Forall_forall in St. apply (St a); [apply AW, Ha | assumption].
      * congruence.
    + intros E. split; [eapply Safe_renamer; eassumption|].
      intros a Ha. apply AW1. rewrite <- (renamer_answers _ _ _ _ _ _ _ _ E). assumption.
    + intros E; inversion E; subst. auto.
Qed.

Lemma Safe_first_pass c plan w cwd bl w' cwd' bl' e :
  guarded (c_var c) -> Safe w -> first_pass c plan w cwd bl = (w', cwd', bl', e) ->
  Safe w' /\ w_answers w' = w_answers w.
Proof.
  intros G. revert w cwd bl. induction plan as [|[f r] rest IH]; intros w cwd bl H; simpl.
  - intros E; inversion E; subst. auto.
  - destruct (chdir (w_fs w) (pf_dir f)) as [cwd1|]; [|intros E; inversion E; subst; auto].
    destruct (generate (c_mode c) f r) as [np|ex]; [|intros E; inversion E; subst; auto].
    destruct (ppath_eqb np (pf_rel f)); [apply IH; assumption|].
    destruct (contained (c_var c) (w_fs w) f np) as [[|]|]; try (intros E; inversion E; subst; auto; fail).
    destruct (dest_parent_test (c_var c) (w_fs w) f np) as [[|]|]; try (intros E; inversion E; subst; auto; fail).
    destruct (parents_contained (w_fs w) f np) as [[|]|]; try (intros E; inversion E; subst; auto; fail).
    destruct (source_contained (w_fs w) f) as [[|]|]; try (intros E; inversion E; subst; auto; fail).
    destruct (renamer c w cwd1 (pf_rel f) np false) as [w1 [e1|]] eqn:R;
      pose proof (Safe_renamer _ _ _ _ _ _ _ G H R) as H1; pose proof (renamer_answers _ _ _ _ _ _ _ _ R) as A1.
    + destruct (is_file_exists e1).
      * intros E. destruct (IH _ _ _ H1 E) as [X Y]. split; [assumption | congruence].
      * intros E; inversion E; subst. auto.
    + intros E. destruct (IH _ _ _ H1 E) as [X Y]. split; [assumption | congruence].
Qed.

Lemma Safe_second_pass c bl w cwd w' cwd' e :
  safe_cfg c -> answers_within c w -> Safe w -> second_pass c bl w cwd = (w', cwd', e) -> Safe w'.
Proof.
  intros SC. revert w cwd. induction bl as [|[[d src] dst] rest IH]; intros w cwd AW H; simpl.
  - intros E; inversion E; subst. assumption.
  - destruct (if v_backlog_chdir (c_var c) then chdir (w_fs w) d else Some cwd) as [cwd1|];
      [|intros E; inversion E; subst; assumption].
    destruct (backlog_verify (c_var c) (w_fs w) d src dst); [intros E; inversion E; subst; assumption|].
    destruct (renamer c w cwd1 src dst false) as [w1 [e1|]] eqn:R;
      pose proof (Safe_renamer _ _ _ _ _ _ _ (proj1 SC) H R) as H1; pose proof (renamer_answers _ _ _ _ _ _ _ _ R) as A1.
    + assert (AW1 : answers_within c w1) by (intros a Ha; apply AW; rewrite <- A1; assumption).
      destruct (is_file_exists e1).
      * destruct (resolve_conflict c w1 cwd1 src dst) as [w2 [e2|]] eqn:RC;
          destruct (Safe_resolve_conflict _ _ _ _ _ _ _ SC AW1 H1 RC) as [H2 AW2].
        -- intros E; inversion E; subst. assumption.
        -- apply IH; assumption.
      * intros E; inversion E; subst. assumption.
    + apply IH; [|assumption]. intros a Ha. apply AW. rewrite <- A1. assumption.
Qed.

Theorem run_safe c plan cwd s :
  safe_cfg c -> good_fs s ->
  Forall good_fs (s :: r_states (run c plan cwd s)) /\ good_fs (r_final (run c plan cwd s)).
Proof.
  intros SC G0. unfold run.
  assert (H0 : Safe (init_world s (c_answers c))) by (unfold Safe; simpl; constructor; [assumption | constructor]).
  destruct (first_pass c plan (init_world s (c_answers c)) cwd []) as [[[w1 cwd1] bl] e1] eqn:FP.
  destruct (Safe_first_pass _ _ _ _ _ _ _ _ _ (proj1 SC) H0 FP) as [H1 A1].
  assert (AW1 : answers_within c w1) by (intros a Ha; rewrite A1 in Ha; exact Ha).
  assert (Fin : forall w2, Safe w2 -> Forall good_fs (s :: rev (w_hist w2)) /\ good_fs (w_fs w2)).
  { intros w2 H2. inversion H2 as [|? ? Hf Hh]; subst. split; [|assumption].
    constructor; [assumption|]. apply Forall_rev. assumption. }
  destruct e1 as [e|].
  - simpl. apply Fin. assumption.
  - destruct (second_pass c bl w1 cwd1) as [[w2 cwd2] e2] eqn:SP. simpl.
    apply Fin. eapply Safe_second_pass; eassumption.
Qed.

End Safety.
