(* The destination-directory test added for F34 ([dest_parent_contained]): elementary facts used by  *)
(* the run-level proofs.  In name and directory mode the destination keeps the directory of the    *)
(* source, so the test coincides with [source_contained].                                          *)
From Tempren Require Import Base.Str Py.PathLib Py.PathLibProofs FS.Model FS.Lemmas Pipe.Pipeline.
Open Scope N_scope.

Lemma dest_parent_test_fixed s f np : dest_parent_test fixed s f np = dest_parent_contained s f np.
Proof. reflexivity. Qed.

Lemma dest_parent_test_pre_f34 s f np : dest_parent_test pre_f34 s f np = Some true.
Proof. reflexivity. Qed.

Lemma dest_parent_test_on v s f np :
  v_dest_parent_containment v = true -> dest_parent_test v s f np = dest_parent_contained s f np.
Proof. intros H. unfold dest_parent_test. rewrite H. reflexivity. Qed.

(* the target of [contained] / [parents_contained] / [dest_parent], as a component list *)
Definition dest_comps (f : pfile) (np : ppath) : list name :=
  if Nat.eqb (pp_root np) 0 then pf_dir f ++ pp_parts np else pp_parts np.

Lemma dest_parent_comps f np : up_comps (dest_parent f np) = removelast (dest_comps f np).
Proof. reflexivity. Qed.

(* with_name keeps the directory: the destination directory IS the source directory *)
Lemma dest_parent_with_name f t np :
  pp_with_name (pf_rel f) t = Some np -> dest_parent f np = source_parent f.
Proof.
  unfold pp_with_name. destruct (pp_parts (pf_rel f)) as [|x xs] eqn:E; [discriminate|].
  destruct (match t with [] => true | [46] => true | _ => has_slash t end); [discriminate|].
  intros H. inversion H; subst; clear H. unfold dest_parent, source_parent. cbn [pp_root pp_parts]. rewrite E.
  destruct (Nat.eqb (pp_root (pf_rel f)) 0).
  - rewrite app_assoc, removelast_last. reflexivity.
  - rewrite removelast_last. reflexivity.
Qed.

Lemma dest_parent_contained_with_name s f t np :
  pp_with_name (pf_rel f) t = Some np -> dest_parent_contained s f np = source_contained s f.
Proof.
  intros H. unfold dest_parent_contained, source_contained. rewrite (dest_parent_with_name f t np H). reflexivity.
Qed.

Lemma dest_parent_test_with_name v s f t np :
  pp_with_name (pf_rel f) t = Some np -> source_contained s f = Some true -> dest_parent_test v s f np = Some true.
Proof.
  intros H S. unfold dest_parent_test. destruct (v_dest_parent_containment v); [|reflexivity].
  rewrite (dest_parent_contained_with_name s f t np H). exact S.
Qed.

(* name and directory mode: whatever was rendered *)
Lemma dest_parent_test_name_mode v m s f r np :
  m <> MPath -> generate m f r = inl np -> source_contained s f = Some true -> dest_parent_test v s f np = Some true.
Proof.
  intros Hm G S. destruct r as [t|t|e]; [| destruct m; try congruence; discriminate | discriminate].
  assert (W : pp_with_name (pf_rel f) t = Some np).
  { destruct m; try congruence; cbn [generate] in G;
      (destruct (pp_with_name (pf_rel f) t) as [q|]; [injection G as ->; reflexivity | discriminate]). }
  exact (dest_parent_test_with_name v s f t np W S).
Qed.

Lemma dest_parent_test_generated v m s f r np :
  generate m f r = inl np -> (match m with MPath => false | _ => true end) = true ->
  source_contained s f = Some true -> dest_parent_test v s f np = Some true.
Proof.
  intros G Hm S. apply (dest_parent_test_name_mode v m s f r np); [intros ->; discriminate | exact G | exact S].
Qed.

(* the destination path read as a source path of the same input directory: the test on the directory of
   the destination entry is the test [source_contained] (F32) makes for that path *)
Definition as_source (f : pfile) (np : ppath) : pfile := {| pf_dir := pf_dir f; pf_rel := np |}.

Lemma dest_parent_as_source f np : pp_parts np <> [] -> dest_parent f np = source_parent (as_source f np).
Proof.
  intros H. unfold dest_parent, source_parent, as_source. cbn [pf_dir pf_rel].
  destruct (Nat.eqb (pp_root np) 0); [|reflexivity]. rewrite removelast_app by exact H. reflexivity.
Qed.

Lemma dest_parent_contained_as_source s f np :
  pp_parts np <> [] -> dest_parent_contained s f np = source_contained s (as_source f np).
Proof.
  intros H. unfold dest_parent_contained, source_contained. rewrite (dest_parent_as_source f np H). reflexivity.
Qed.

(* what the test means: the directory of the destination entry, resolved, lies at or below the input
   directory *)
Lemma dest_parent_contained_spec s f np :
  dest_parent_contained s f np = Some true <->
  exists a, realpath s [] (dest_parent f np) = Some a /\ exists r, a = pf_dir f ++ r.
Proof.
  unfold dest_parent_contained. destruct (realpath s [] (dest_parent f np)) as [a|].
  - split.
    + intros H. exists a. split; [reflexivity|]. apply is_prefix_path_spec.
      destruct (is_prefix_path (pf_dir f) a); [reflexivity | discriminate].
    + intros [a' [E [r R]]]. injection E as E'. rewrite <- E' in R. f_equal. apply is_prefix_path_spec. exists r. exact R.
  - split; [discriminate | intros [a' [E _]]; discriminate].
Qed.
